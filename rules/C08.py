"""C08 - Packet codec: own output re-parses byte-exactly; foreign input normalises once (reader/writer agreement).

For EVERY class that has both `parse` and `__bytearray__` (own or through its MRO) the reader sequence (E2) and the writer byte
terms (E1) are extracted on every path and checked.  Every rule is decided on interpreter values / events / path facts (never on
`ast.unparse` text, local names or statement shapes):
  C08.a consume-what-you-read: every slice read from the buffer is consumed (by a `del` of at least that width, a pop, or one del that
        the pending offset reads tile) before the next read
  C08.b alias-then-consume: after the input buffer was stored without copying, nothing may consume from it
  C08.c field order: the fields the reader fills, in stream order, are the fields the writer emits, in order (with their fixed widths);
        a collection the writer emits item by item is read by an item loop (own or of the delegating class); no field read twice;
        key material integers are taken off the buffer in the declared order
  C08.d remainder arithmetic: a trailing `header.length - k` read must leave out exactly what was consumed before it (linear forms);
        widths never come from the size of the remaining input / another header field; item loops continue exactly while fewer
        octets than declared are consumed (evaluated at consumed = 0, 1, L-1, L, L+1) and are not left early
        a field delegated to a family with a parser that keeps the rest of its buffer is handed a slice cut to the declared length, on every arm
        a remainder bounded by measurement (header.length - k - (len(buf) measured earlier - len(buf) now)) is evaluated by the checker
  C08.e length-covers-what-follows: each length the writer emits is followed by exactly the octets it counts
  C08.f text codec symmetry: a text field is written with the codec it is read with, per reader path; a remembered fallback codec is
        the one the writer uses in that object state
        octets kept as hex text (key ids, fingerprints) are converted length-preservingly for every width the parse arms accept
        (flag subpackets: the writer emits exactly the declared octets at value widths 1, 2, 3 - sa.ceval)
  C08.g dispatch: every packet tag has a class, versioned classes define both methods; the dispatcher builds the object from the registry
        entry of (root, type[, version]) and falls back to the opaque entry; opaque payload verbatim; parse errors become PGPError
  C08.h update-after-mutation: library code that builds or changes a packet body recomputes its header length after the last change on
        every path; nested lengths before the packet length; the length formulas
  C08.i header length codec: the C09 rule families for packet / subpacket header octets (C09.1, C09.2, C09.6, C09.8) under this id
"""
import ast
import re

from sa.interp import Interp, Scenario, Sym, Const, Bytes, Enum, Frame, State, render, render_items, render_item, merge_consts, lin_parse, lin_norm, lin_add, sl
from sa.loader import AnalysisError, FunctionInfo, dotted
from sa import codec, tables

noinline = lambda f: False  # noqa: E731

MODS = ['pgpy.packet.packets', 'pgpy.packet.fields', 'pgpy.packet.subpackets.signature', 'pgpy.packet.subpackets.userattribute',
        'pgpy.packet.subpackets.types', 'pgpy.packet.types']


def codec_classes(prog):
    out = []
    for mn in MODS:
        m = prog.module(mn)
        for c in m.classes.values():
            pf, wf = c.find_method('parse'), c.find_method('__bytearray__')
            if pf is None or wf is None:
                continue
            if not (c.defines('parse') or c.defines('__bytearray__')):
                continue
            if pf.cls.name == 'PGPObject' and wf.cls.name == 'PGPObject':
                continue
            out.append((c, pf, wf))
    return out


def base_offset(cls):
    """How many octets of header.length are consumed by the header itself before the body fields (derived from update_hlen)."""
    names = [k.name for k in cls.mro()]
    if 'SubPacket' in names:
        return 1          # SubPacket.update_hlen: length counts the type octet
    if 'VersionedPacket' in names:
        return 1          # Packet.update_hlen: len(bytes) - len(header); VersionedHeader emits the version octet but len() excludes it
    return 0


def run(rep, prog, tier):
    rep.rule('C08.a', 'every slice read is consumed before the next read', floor=90)
    rep.rule('C08.b', 'nothing consumes from an aliased input buffer', floor=90)
    rep.rule('C08.c', 'reader field order = writer field order (names and fixed widths)', floor=70)
    rep.rule('C08.d', 'trailing remainder read = header.length - (header octets + fixed widths read before)', floor=16)
    rep.rule('C08.e', 'each emitted length is followed by the octets it counts', floor=4)
    rep.rule('C08.f', 'text fields are written with the codec they are read with (per reader path and remembered fallback)', floor=14)
    rep.rule('C08.g', 'dispatch: packet tags and versioned classes have codecs; unknown type/version -> opaque entry; opaque payload verbatim; parse errors -> PGPError', floor=30)
    rep.rule('C08.h', 'update_hlen after the last body change of a built/changed packet on every path; inner lengths before the packet length', floor=18)
    rep.rule('C08.i', 'header length codec (new-format, partial, old-format widths, tag octet, subpacket header) - the C09 families that decide it', floor=15)
    rep.assume('MPI(buf), ECPoint(buf), Klass(buf) and sub.parse(buf) consume exactly what the corresponding writer emits (each is itself a checked pair)')
    rep.assume('value normalisations that are fixed points (flag masks, canonical lengths, MPI bit counts) are allowed by the statement')

    classes = codec_classes(prog)
    rep.extra['codec_classes'] = [c.name for c, _, _ in classes]
    for c, pf, wf in classes:
        rep.saw(cls=c)
        check_reader(rep, prog, c, pf)
        check_writer_lengths(rep, prog, c, wf)
    check_field_order(rep, prog, classes)
    check_repetition(rep, prog, classes)
    check_delegate_bounds(rep, prog, classes)
    check_material_table(rep, prog)
    check_flag_widths(rep, prog)
    check_subpacket_header_identity(rep, prog)
    check_integer_fields(rep, prog, classes)
    from rules import C18
    # EC point / MPI widths: what from_values builds is written fixed-width (ceil(bits / 8)), measured and re-parsed alike (finite-point
    # evaluation shared with C18.10, reported here as reader/writer agreement)
    C18.check_widths(rep, prog, 'C08.c')
    check_text_codecs(rep, prog)
    check_value_codecs(rep, prog)
    check_dispatch(rep, prog)
    check_update_hlen(rep, prog)
    check_update_hlen_defs(rep, prog)
    from rules import C09
    # the header length codec is part of the packet codec: the C09 rule families that decide it (new-format / partial lengths in encoder,
    # decoder and width selector; old-format width recomputation; tag octet and partial-length accumulation; subpacket header octets)
    # are evaluated here as well and reported under C08.i
    H = prog.cls('pgpy.types', 'Header')
    px = _Proxy(rep, 'C08.i')
    B = C09.Bench(px, prog)
    C09.newformat(px, prog, B)
    C09.widths(px, prog, H, B)
    C09.tagoctet(px, prog, B)
    C09.partial(px, prog, B)
    C09.subpacket_header(px, prog, B)


class _Proxy(object):
    """Re-labels the rule id of a shared rule family."""
    def __init__(self, rep, rid):
        self.rep, self.rid = rep, rid

    def __getattr__(self, k):
        return getattr(self.rep, k)

    def check(self, cond, rid, *a, **kw):
        return self.rep.check(cond, self.rid, *a, **kw)

    def violation(self, rid, *a, **kw):
        return self.rep.violation(self.rid, *a, **kw)

    def ok(self, rid, *a, **kw):
        return self.rep.ok(self.rid, *a, **kw)


def reader_paths(prog, c, pf):
    sc = Scenario(inline=noinline, forward_stores=False, model_del=False, self_cls=c)
    outs = Interp(prog, sc).run(pf)
    res = []
    for s in outs:
        if s.raised is not None and s.ret is None and not any(e[0] in ('store', 'del') for e in s.events):
            continue
        res.append(s)
    return res


def check_reader(rep, prog, c, pf):
    buf = pf.params[1] if len(pf.params) > 1 else 'packet'
    for s in reader_paths(prog, c, pf):
        reads, problems = codec.reader_sequence(s, buf, cls=c, recv=pf.params[0])
        scen = '; '.join('%s=%s' % (f[0][:50], f[1]) for f in s.facts) or 'straight line'
        construct = '%s.parse' % c.name if pf.cls is c else '%s.parse (inherited by %s)' % (pf.cls.name, c.name)
        a = [p for p in problems if p[0] in ('consume-what-you-read', 'read-offset', 'unmodelled-del')]
        # one named exception: SubPackets.parse copies the whole hashed area out verbatim (C05) before parsing it field by field;
        # that copy is a deliberate peek, not a field read: a read of [: 2 + <the two-octet count just read>] stored untransformed
        if c.name in ('SubPackets', 'UserAttributeSubPackets') and pf.cls.name == 'SubPackets':
            a = [p for p in a if not _is_area_peek(p, buf, reads)]
        b = [p for p in problems if p[0] == 'alias-then-consume']
        rep.check(not a, 'C08.a', construct, a[0][1] if a else 'consumes what it reads',
                  'the reader reads octets it does not consume (or consumes fewer than it read): the next field starts at the wrong offset'
                  if a else 'ok', where='%s:%d' % (pf.module.relpath, a[0][2] if a else pf.node.lineno), scenario=scen, found=[p[1] for p in a])
        rep.check(not b, 'C08.b', construct, b[0][1] if b else 'no consumption after aliasing',
                  'the input buffer was stored without copying and is consumed afterwards: the stored field loses octets' if b else 'ok',
                  where='%s:%d' % (pf.module.relpath, b[0][2] if b else pf.node.lineno), scenario=scen, found=[p[1] for p in b])
        check_remainder(rep, c, pf, reads, scen, construct, s)


def _is_area_peek(problem, buf, reads):
    """The problematic read is buf[: 2 + n], stored untransformed, where n is a function of the first two octets only (the count that
    is consumed next), whatever conversion and temporaries the source spells."""
    r = getattr(problem, 'read', None)
    if r is None or (r.post is not None and r.post != r.text):
        return False
    rng = codec.slice_of(r.text, buf)
    if rng is None or rng[0] not in ('', '0') or r.text != sl(buf, ('', rng[1])):
        return False
    terms, const = lin_parse(rng[1])
    if const != 2 or len(terms) != 1 or list(terms.values()) != [1]:
        return False
    n = list(terms)[0]
    two = sl(buf, ('', 2))
    return two in n and not codec.mentions(n.replace(two, ''), buf)


def _remainder(text, length):
    """`length - k - x ...` as an integer-linear form: (constant subtracted, {symbol: coefficient subtracted}); None when the
    text is not `length` minus something."""
    terms, c = lin_parse(text)
    if terms.get(length) != 1:
        return None
    return -c, {k: -v for k, v in terms.items() if k != length}


def _lin_sum(texts):
    terms, c = {}, 0
    for t in texts:
        tt, cc = lin_parse(t)
        c += cc
        for k, v in tt.items():
            terms[k] = terms.get(k, 0) + v
    return c, {k: v for k, v in terms.items() if v != 0}


def _versioned_fact(s, p0):
    """The path took the `header has a version attribute` side of Opaque.parse (decided from the fact skeleton, not its text)."""
    def atom(sk):
        if not sk:
            return False
        if sk[0] == 'call' and sk[1] in ('hasattr', 'getattr') and len(sk[2]) >= 2 and sk[2][0] == '%s.header' % p0 and sk[2][1] == "'version'":
            return True
        if sk[0] == 'cmp' and 'getattr(%s.header, \'version\'' % p0 in sk[2] + sk[3] and 'None' in (sk[2], sk[3]) and sk[1] in ('is not', '!='):
            return True
        return False
    for f in s.facts:
        sk = f[2] if len(f) > 2 else None
        if atom(sk) and f[1] is True:
            return True
        if sk and sk[0] == 'not' and atom(sk[1]) and f[1] is False:
            return True
    return False


def _measured_remainder(pf, r, reads, buf, s):
    """If the upper bound of this read is `L - k - (m - len(buf))` with m = len(buf) taken earlier in the function (evaluated by the
    checker at three consumption counts): (k, fixed octets read before the measurement); else None."""
    if s is None or not any(e[0] == 'assign' and e[2] == 'len(%s)' % buf for e in s.events):
        return None
    subs = [n for n in ast.walk(pf.node) if isinstance(n, ast.Subscript) and isinstance(n.value, ast.Name) and n.value.id == buf and
            isinstance(n.slice, ast.Slice) and n.slice.upper is not None and n.slice.lower is None and getattr(n, 'lineno', -1) == r.line]
    if not subs:
        return None
    par = _stmt_parents(pf.node)
    st = subs[0]
    while st is not None and not isinstance(st, ast.stmt):
        st = par.get(id(st))
    try:
        values, lsyms, _ = _loop_bound(pf, None, buf, None, expr=subs[0].slice.upper, at=st)
        N, L = 5000, 1000
        v = values(N, L, (0, 3, 40))
    except (_NoEval, AttributeError):
        return None
    if not all(isinstance(x, int) and not isinstance(x, bool) for x in v) or v[0] - v[1] != 3 or v[0] - v[2] != 40:
        return None
    k = L - v[0]
    # where the buffer was measured: the reads before that assignment (by line) are the ones the constant has to account for
    mline = min(e[3] for e in s.events if e[0] == 'assign' and e[2] == 'len(%s)' % buf)
    before = 0
    for x in reads:
        if x is r or x.line >= mline:
            continue
        if x.kind in ('fixed', 'fixed-skip', 'skip', 'fixed-delegate') and x.width is not None:
            if codec._int(x.width) is None:
                return None
            before += codec._int(x.width)
        elif x.kind == 'delegate' and not (x.via or '').startswith('super:'):
            return None
    return k, before


def check_remainder(rep, c, pf, reads, scen, construct, s=None):
    """C08.d on one reader path."""
    p0 = pf.params[0]
    length = '%s.header.length' % p0
    base = base_offset(c)
    if c.name == 'Opaque' and s is not None and _versioned_fact(s, p0):
        base = 1          # the version octet of a versioned header was already read by the dispatcher
    fixed_before = 0
    sym_before = []
    seen_var = False
    for r in reads:
        if r.kind in ('fixed', 'fixed-skip', 'skip', 'fixed-delegate') and r.width is not None:
            w = r.width
            wi = codec._int(w)
            if wi is not None and wi >= 0:
                if not seen_var:
                    fixed_before += wi
                continue
            if w == '' or 'len(%s)' % (pf.params[1] if len(pf.params) > 1 else 'packet') == w or (codec._int(w) is not None and codec._int(w) < 0):
                # an open or end-relative upper bound (buf[:], buf[:len(buf)], buf[:-k]): everything that is left in the shared input buffer, whatever the header declares
                rep.violation('C08.d', construct, 'field %s takes the rest of the input buffer' % (r.target or r.text),
                              'a field is read / consumed up to the end of the shared input buffer instead of the declared length: the reader '
                              'swallows the packets that follow', where='%s:%d' % (pf.module.relpath, r.line),
                              expected='%s minus the octets already consumed' % length, found=r.text, scenario=scen)
                seen_var = True
                continue
            meas = _measured_remainder(pf, r, reads, pf.params[1] if len(pf.params) > 1 else 'packet', s)
            if meas is not None:
                # header.length - k - (<buffer length measured earlier> - <buffer length now>): what was consumed since the measurement is
                # taken from the buffer itself; k must be the header octets plus what had been read before the measurement
                k, before = meas
                want = base + before
                rep.check(k == want and not seen_var, 'C08.d', construct, 'remainder by measurement: header.length - %d - (octets consumed since the buffer was measured)' % k,
                          'the last field is bounded by header.length minus what the buffer has lost since it was measured; the constant must be the '
                          'octets consumed before that measurement', where='%s:%d' % (pf.module.relpath, r.line),
                          expected='%s - %d - (measured - current)' % (length, want), found='%s - %d - (measured - current)' % (length, k), scenario=scen)
                seen_var = True
                continue
            lin = _remainder(w, length)
            if lin is None:
                # a variable width that is not a remainder (e.g. a length read from the data): it precedes a later remainder symbolically.
                # It must come from the data or the object, never from what happens to be left in the input or from another header field
                buf = pf.params[1] if len(pf.params) > 1 else 'packet'
                wrong = 'len(%s)' % buf in w or re.search(r'(?<![A-Za-z0-9_.])%s\.header\.(?!length\b)[A-Za-z_]' % re.escape(p0), w) is not None
                if wrong:
                    rep.violation('C08.d', construct, 'field width %s' % w,
                                  'the width of a field is taken from the size of the remaining input / another header field instead of the declared '
                                  'length: the reader runs past (or stops short of) the end of this packet', where='%s:%d' % (pf.module.relpath, r.line),
                                  expected='%s minus the octets already consumed, or a length read from the data' % length, found=w, scenario=scen)
                sym_before.append(w)
                continue
            const, syms = lin
            want = base + fixed_before
            wc, wsyms = _lin_sum(sym_before)
            # symbolic widths consumed before must appear in the subtrahend
            ok = const == want + wc and syms == wsyms and not seen_var
            rep.check(ok, 'C08.d', construct, 'remainder %s after %d header + %d fixed octets%s' % (w, base, fixed_before, (' + ' + ' + '.join(sym_before)) if sym_before else ''),
                      'the last field is read as header.length minus a constant that does not equal the octets already consumed: '
                      'the reader takes too many or too few octets and the following packet is mis-framed', where='%s:%d' % (pf.module.relpath, r.line),
                      expected='%s - %s' % (length, ' - '.join([str(want)] + sym_before)) if (want or sym_before) else length,
                      found=w, scenario=scen)
            seen_var = True
        elif r.kind == 'delegate' and not (r.via or '').startswith('super:'):
            # a sub-parser consumes an unknown amount: a later remainder cannot be checked by constants (SKESK uses len(s2k))
            if r.via and not r.via.startswith('setter:'):
                sym_before.append('len(%s)' % (r.via[:-len('.parse')] if r.via.endswith('.parse') else r.via))
        elif r.kind == 'insert' and codec._int(r.width) is not None and not seen_var:
            # an octet put in front of the buffer for a sub-parser (SKESessionKeyV4: a usage octet for the S2K specifier) is consumed by it
            # and counted in its length, but is not one of the header.length octets
            fixed_before += codec._int(r.width)


def check_writer_lengths(rep, prog, c, wf):
    if wf.cls is not c:
        return
    for s, items in codec.writer_items(prog, wf, Scenario(self_cls=c)):
        if items is None:
            continue
        for ok, lenitem, x, follow in codec.length_covers(items):
            rep.check(ok, 'C08.e', '%s.__bytearray__' % c.name, '%s not followed by %s' % (lenitem, x),
                      'a length prefix counts something other than the octets that follow it (characters instead of encoded octets, another field)',
                      where=wf.where, expected='%s ... %s' % (lenitem, x), found='%s then %s' % (lenitem, follow), scenario=c.name)


# ------------------------------------------------------------------------------------------------ C08.c
def _field_of(text, p0='self'):
    """Name of the object attribute a writer term / reader target refers to (`p0` = the receiver parameter of the method)."""
    m = re.search(r'(?<![A-Za-z0-9_.])%s\.(_?[A-Za-z][A-Za-z0-9_]*)' % re.escape(p0), text or '')
    if not m:
        return None
    n = m.group(1).lstrip('_')
    return n


def _fields_of(text, p0='self'):
    """All object attributes a term refers to, as one name `a|b` (a value built from / stored into several attributes belongs to each)."""
    ns = sorted(set(m.group(1).lstrip('_') for m in re.finditer(r'(?<![A-Za-z0-9_.])%s\.(_?[A-Za-z][A-Za-z0-9_]*)' % re.escape(p0), text or '')))
    return '|'.join(ns) if ns else None


def _same(a, b):
    return bool(set(a.split('|')) & set(b.split('|')))


def _is_len(t):
    return t.startswith('len(') and t.endswith(')') and _balanced(t[4:-1])


def writer_length_order(items, p0='self'):
    """The fields the writer's length prefixes count, in the order the prefixes are emitted."""
    out = []
    for it in merge_consts(items):
        t = it[2] if it[0] == 'INT' else it[1] if it[0] == 'BYTE' else None
        if t is not None and _is_len(t):
            out.append(_fields_of(t, p0))
    return out


def reader_length_order(reads, p0='self'):
    """The fields whose widths the reader takes from its length reads, in stream order of those length reads; None when two length
    reads denote the same text (a slice/delete ladder reads every length at the front of the buffer) and cannot be told apart."""
    lens = [r for r in reads if r.kind in ('fixed', 'fixed-skip') and not (r.target or '').startswith(p0 + '.')]
    texts = [r.post or r.text for r in lens]
    if len(set(texts)) != len(texts):
        return None
    out = []
    for r, t in zip(lens, texts):
        used = [x for x in reads if x is not r and x.width == t and (x.target or '').startswith(p0 + '.')]
        if used:
            out.append(_fields_of(' '.join([used[0].target] + list(used[0].also)), p0))
    return out


def writer_fields(items, p0='self'):
    out = []
    for it in merge_consts(items):
        k = it[0]
        if k == 'C':
            out.append((None, str(len(it[1]))))
        elif k == 'INT':
            # a length prefix is not the field it counts: it pairs with the reader's (unnamed) length read - see length_pairing
            out.append((None if _is_len(it[2]) else _fields_of(it[2], p0), it[1]))
        elif k == 'BYTE':
            out.append((None if _is_len(it[1]) else _fields_of(it[1], p0), '1'))
        elif k == 'SYM':
            if 'header.__bytearray__' in it[1] or it[1].startswith('super('):
                out.append(('<header>', None))
            else:
                out.append((_fields_of(it[1], p0), None))
        elif k == 'SLICE':
            inner = it[1] if isinstance(it[1], str) else render_items(it[1])
            out.append((_fields_of(inner, p0), None))
        elif k in ('EACH', 'REP', 'ALT', 'HASH'):
            out.append((_fields_of(render_item(it), p0) or '<loop>', None))
    return out


def reader_fields(reads, p0='self'):
    out = []
    for r in reads:
        if r.kind == 'delegate' and (r.via or '').startswith('super:'):
            out.append(('<header>', None))
        elif r.kind in ('fixed', 'fixed-skip', 'delegate', 'alias', 'fixed-delegate'):
            name = _fields_of(' '.join([r.target] + [a for a in r.also if a.startswith(p0 + '.')]), p0) if r.target and r.target.startswith(p0 + '.') else None
            if name is None and r.kind == 'delegate' and r.via and r.via.startswith(p0 + '.'):
                name = _field_of(r.via, p0)
            out.append((name, r.width))
        elif r.kind == 'skip':
            out.append((None, r.width))
    return out


SKIP_ORDER = {'Header', 'VersionedHeader', 'EmbeddedSignatureHeader', 'SubPackets', 'UserAttributeSubPackets', 'Packet', 'SubPacket',
              'Signature', 'PubKey', 'PrivKey', 'CipherText', 'OpaquePubKey', 'OpaquePrivKey', 'MPIs', 'Image', 'EmbeddedSignature', 'String2Key'}


def check_field_order(rep, prog, classes):
    for c, pf, wf in classes:
        if c.name in SKIP_ORDER or pf.cls is not c or wf.cls is not c:
            continue
        rps = [s for s in reader_paths(prog, c, pf) if s.raised is None]
        wps = [(s, it) for s, it in codec.writer_items(prog, wf, Scenario(self_cls=c)) if it is not None]
        if not rps or not wps:
            continue
        buf = pf.params[1] if len(pf.params) > 1 else 'packet'
        rp0, wp0 = pf.params[0], wf.params[0]
        # compare the set of field-name sequences: every reader path must have a writer path with the same named-field order
        wseqs = []
        for s, items in wps:
            wf_ = [n for n, w in writer_fields(items, wp0) if n and n != '<header>' and n != '<loop>']
            wseqs.append(wf_)
        rw, ww = {}, {}
        for s in rps:
            reads, _ = codec.reader_sequence(s, buf, cls=c, recv=rp0)
            rf = [n for n, w in reader_fields(reads, rp0) if n and n != '<header>']
            # locals used only as lengths (nlen, vlen, fnl, oidlen) have no name; duplicates of the same field collapse
            rf = _dedupe(rf)
            scen = '; '.join('%s=%s' % (f[0][:40], f[1]) for f in s.facts) or 'straight line'
            # one field filled by more separate reads than the writer has items for it: a later read overwrites an earlier one and the
            # octets of some other field end up in it
            raw = [n for n, w in reader_fields(reads, rp0) if n and n != '<header>']
            for n in sorted(set(x for ns in raw for x in ns.split('|'))):
                nr = sum(1 for ns in raw if n in ns.split('|'))
                nw = max(sum(1 for ns in w if n in ns.split('|')) for w in wseqs)
                if nr > 1 and nr > nw:
                    rep.violation('C08.c', '%s parse/__bytearray__' % c.name, 'field %s filled by %d reads, written %d time(s)' % (n, nr, nw),
                                  'a field is read more often than it is written: the reader consumes octets of a neighbouring field into it',
                                  where=pf.where, expected='%d read(s) of %s' % (max(nw, 1), n), found=raw, scenario=scen)
            # one read stored into several attributes: the writer must build ONE item from those attributes (a packed structure, a sum);
            # if it emits them as separate items the reader has filled two fields from the same octets
            for ns in raw:
                parts = set(ns.split('|'))
                if len(parts) > 1 and not any(parts <= set(w.split('|')) for ws_ in wseqs for w in ws_):
                    rep.violation('C08.c', '%s parse/__bytearray__' % c.name, 'fields %s are filled from the same octets, the writer emits them separately' % sorted(parts),
                                  'two fields the writer emits one after the other are read from one and the same slice: the second one never gets its own '
                                  'octets and everything behind it is shifted', where=pf.where, expected='one read per emitted field', found=raw, scenario=scen)
            # the k-th length the reader takes is the width of the field the k-th length prefix of the writer counts
            rlo = reader_length_order(reads, rp0)
            if rlo:
                wlos = [writer_length_order(items, wp0) for sw, items in wps]
                okl = any(len(w) == len(rlo) and all(a and b and _same(a, b) for a, b in zip(rlo, w)) for w in wlos) or not any(wlos)
                rep.check(okl, 'C08.c', '%s parse/__bytearray__' % c.name, 'lengths read for %s, length prefixes written for %s' % (rlo, wlos[:1]),
                          'the reader uses the lengths it reads for other fields than the writer emits them for: name and value (or the like) '
                          'are cut at the wrong place', where=pf.where, expected=wlos[:1], found=rlo, scenario=scen)
            match = any(_subseq(rf, _dedupe(w)) for w in wseqs)
            rep.check(match, 'C08.c', '%s parse/__bytearray__' % c.name, 'reader fields %s vs writer fields %s' % (rf, [_dedupe(w) for w in wseqs][:2]),
                      'the reader fills the fields in an order the writer does not emit them in: own output does not re-parse to the same values',
                      where=pf.where, expected=[_dedupe(w) for w in wseqs][:2], found=rf, scenario=scen)
            # a reader that consumes more than the named field (skip) is a normalisation and takes no part in the width comparison
            skipk = set(_field_of(r.target, rp0) for r in reads if r.kind == 'fixed-skip' and r.target)
            for ns, w in reader_fields(reads, rp0):
                for n in (ns or '').split('|'):
                    if n and n != '<header>' and codec._int(w) is not None and n not in skipk:
                        rw.setdefault(n, set()).add(codec._int(w))
        for sw, items in wps:
            for ns, w in writer_fields(items, wp0):
                if ns and '|' not in ns and w is not None and codec._int(w) is not None:
                    ww.setdefault(ns, set()).add(codec._int(w))
        # fixed widths: a field both sides give a constant width (on any of their paths) must have a width in common
        for n in sorted(rw):
            if n not in ww:
                continue
            if rw[n] & ww[n]:
                rep.ok('C08.c', '%s.%s' % (c.name, n), 'width %s both ways' % sorted(rw[n] & ww[n]))
            else:
                rep.violation('C08.c', '%s parse/__bytearray__' % c.name, 'field %s: reader %s octets, writer %s' % (n, sorted(rw[n]), sorted(ww[n])),
                              'field %s is read with %s octets but written with %s' % (n, sorted(rw[n]), sorted(ww[n])), where=pf.where)
    # key material: parse order = __pubfields__ / __privfields__ order
    fields = prog.module('pgpy.packet.fields')
    for c in fields.classes.values():
        pf = c.methods.get('parse')
        if pf is None:
            continue
        decl = None
        if c.name.endswith('Pub') and c.find_attr('__pubfields__') is not None:
            decl = list(ast.literal_eval(c.find_attr('__pubfields__')))
        elif c.name.endswith('Priv') and c.find_attr('__privfields__') is not None:
            decl = list(ast.literal_eval(c.find_attr('__privfields__')))
        elif c.find_attr('__mpis__') is not None and not c.name.endswith('Priv'):
            try:
                decl = list(ast.literal_eval(c.find_attr('__mpis__')))
            except Exception:
                decl = None
        if not decl:
            continue
        # the order in which each path of the reader takes the declared integers off the buffer (reader sequence: MPI(buf) / ECPoint(buf)
        # constructions in event order, named by the field each one ends up in - directly or through locals); every path must follow
        # the declared order and together they must cover it
        buf = pf.params[1] if len(pf.params) > 1 else 'packet'
        p0 = pf.params[0]
        seen = []
        orders = []
        for s in reader_paths(prog, c, pf):
            if s.raised is not None:
                continue
            reads, _ = codec.reader_sequence(s, buf, cls=c, recv=p0)
            order = []
            for r in reads:
                if r.kind == 'delegate' and r.via in ('MPI', 'ECPoint') and r.target and r.target.startswith(p0 + '.') and '.' not in r.target[len(p0) + 1:]:
                    if r.target[len(p0) + 1:] not in order:
                        order.append(r.target[len(p0) + 1:])
            orders.append(order)
            for x in order:
                if x in decl and x not in seen:
                    seen.append(x)
        bad = [o for o in orders if [x for x in o if x in decl] != [d for d in decl if d in o]]
        missing = [d for d in decl if d not in seen]
        rep.check(not bad and not missing, 'C08.c', '%s.parse' % c.name, 'MPI read order %s, declared/written order %s' % (bad[0] if bad else orders[:1], decl),
                  'the integers are written in the declared field order; the reader must fill them in the same order', where=pf.where,
                  expected=decl, found=bad[0] if bad else ('never read: %s' % missing if missing else orders[:1]))


# ------------------------------------------------------------------------------------------------ repeated items (C08.c / C08.d)
# A writer that emits one item per element of a collection (EACH($k in coll; .. $k.__bytearray__() ..)) must be read by a LOOP that takes
# items until the declared length is used up; the loop may live in the class itself or in the class that delegates to it.  Loops are
# located by what they do (they contain the call that reads an item: Klass(buf) of a dispatching class, or self.f.parse(buf)) and by the
# cycle in the statement CFG, never by their spelling.
def _stmt_parents(fn_node):
    par = {}
    for n in ast.walk(fn_node):
        for ch in ast.iter_child_nodes(n):
            par[id(ch)] = n
    return par


def _enclosing_loop(fi, call_node):
    """The innermost loop statement whose body can run the statement of `call_node` again (cycle in the CFG), or None."""
    cache = fi.__dict__.setdefault('_c08_loops', {})
    if id(call_node) in cache:
        return cache[id(call_node)]
    from sa.cfg import CFG
    par = fi.__dict__.get('_c08_par')
    if par is None:
        par = fi.__dict__['_c08_par'] = _stmt_parents(fi.node)
        fi.__dict__['_c08_cfg'] = CFG(fi.node)
    cfg = fi.__dict__['_c08_cfg']
    st = call_node
    while st is not None and not isinstance(st, ast.stmt):
        st = par.get(id(st))
    res = None
    if st is not None:
        ids = [n.id for n in cfg.nodes_for(st)]
        cyc = set()
        for i in ids:
            for m, _ in cfg.succ[i]:
                cyc |= cfg.reachable(m)
        if any(i in cyc for i in ids):
            cur = par.get(id(st))
            while cur is not None and res is None:
                if isinstance(cur, (ast.While, ast.For)) and any(n.id in cyc for n in cfg.nodes_for(cur)):
                    res = cur
                cur = par.get(id(cur))
    cache[id(call_node)] = res
    return res


def item_reads(prog, c, pf):
    """Calls of the reader that take one self-delimiting item off a buffer: [(kind, name, buffer text, call node, enclosing loop)]."""
    p0 = pf.params[0]
    out, seen = [], set()
    for s in reader_paths(prog, c, pf):
        for ft, args, kw, line, node in s.calls:
            if id(node) in seen or not args:
                continue
            kind = None
            if ft in codec.DELEGATES and len(args) == 1 and not kw:
                kind, name = 'ctor', ft
            elif ft.endswith('.parse') and ft.startswith(p0 + '.') and '.' not in ft[len(p0) + 1:-len('.parse')]:
                kind, name = 'field', ft[len(p0) + 1:-len('.parse')]
            if kind:
                seen.add(id(node))
                out.append((kind, name, ast.unparse(node.args[0]) if node.args else args[0], node, _enclosing_loop(pf, node)))
    return out


def _field_classes(prog, c):
    """attribute -> class of the sub-object the constructors of `c` put there."""
    out = {}
    for k in c.mro():
        f = k.methods.get('__init__')
        if f is None or not f.params:
            continue
        p0 = f.params[0]
        for s in Interp(prog, Scenario(inline=noinline, self_cls=c)).run(f):
            for pth, vt, line, val in s.stores:
                if pth.startswith(p0 + '.') and '.' not in pth[len(p0) + 1:] and getattr(val, 'cls', None) is not None and hasattr(val, 'name'):
                    out.setdefault(pth[len(p0) + 1:], val.cls)
    return out


def _writer_repeats(prog, c, wf):
    """(collections whose elements are emitted as one serialised item each, attributes whose own serialisation is emitted once)."""
    p0 = wf.params[0]
    many, fields = set(), set()
    for s, items in codec.writer_items(prog, wf, Scenario(self_cls=c)):
        if items is None:
            continue
        text = render_items(items)
        for m in re.finditer(r'EACH\(((?:\$[\d._]+)|\([^)]*\)) in ([^;]*);', text):
            for v in re.findall(r'\$[\d._]+', m.group(1)):
                if re.search(re.escape(v) + r'(?!\d)(?!\.\d)(?!_\d)\.(__bytearray__|__bytes__)\(\)', text[m.end():]) or \
                        re.search(r'(bytes|bytearray)\(' + re.escape(v) + r'\)', text[m.end():]):
                    many.add(m.group(2))       # the collection whose elements are serialised one by one
        for m in re.finditer(r'(?<![A-Za-z0-9_.$])%s\.([A-Za-z_][A-Za-z0-9_]*)\.(__bytearray__|__bytes__)\(\)' % re.escape(p0), text):
            fields.add(m.group(1))
    return many, fields


class _NoEval(Exception):
    pass


def _stmt_order(fi):
    """Position of every statement of the (canonical) function body in execution-text order; inlined helpers keep one line number for
    all their statements, so positions - not line numbers - say what comes before what."""
    order = fi.__dict__.get('_c08_order')
    if order is None:
        order = fi.__dict__['_c08_order'] = {}

        def rec(stmts):
            for st in stmts:
                order[id(st)] = len(order)
                for nm in ('body', 'orelse', 'finalbody'):
                    sub = getattr(st, nm, None)
                    if isinstance(sub, list) and sub and isinstance(sub[0], ast.stmt):
                        rec(sub)
                for h in getattr(st, 'handlers', []) or []:
                    rec(h.body)
        rec(fi.node.body)
    return order


def _loop_bound(fi, loop, buf, others, expr=None, at=None):
    """Evaluate the condition under which an item loop continues, with the checker's own integers: the buffer held N octets when the
    loop was entered and `c` of them have been consumed; every quantity that is not a length of the buffer stands for the declared
    length L.  -> (truth per c, the locals that stand for L with the line of their assignment)."""
    test, exempt = (loop.test if expr is None else expr), None
    if expr is None and isinstance(test, ast.Constant) and test.value is True and loop.body and isinstance(loop.body[0], ast.If) and \
            len(loop.body[0].body) == 1 and isinstance(loop.body[0].body[0], ast.Break) and not loop.body[0].orelse:
        test, exempt = ast.UnaryOp(op=ast.Not(), operand=loop.body[0].test), loop.body[0].body[0]
    inside = set(id(n) for n in ast.walk(loop)) if expr is None else set()
    assigns = [n for n in ast.walk(fi.node) if isinstance(n, ast.Assign) and len(n.targets) == 1 and isinstance(n.targets[0], ast.Name)]
    lsyms = {}
    order = _stmt_order(fi)

    def ev(node, cur, N, L, line):
        if isinstance(node, ast.Constant) and type(node.value) in (int, bool):
            return node.value
        if isinstance(node, ast.Call) and dotted(node.func) == 'len' and len(node.args) == 1:
            if ast.unparse(node.args[0]) == buf:
                return cur
            return L
        if ast.unparse(node) == buf:
            return cur                    # the buffer in boolean position: non-empty
        if isinstance(node, ast.Name):
            if any(id(a) in inside and a.targets[0].id == node.id for a in assigns):
                raise _NoEval('%s is carried by the loop' % node.id)
            prev = [a for a in assigns if a.targets[0].id == node.id and order.get(id(a), -1) < line]
            if not prev:
                return L
            a = max(prev, key=lambda x: order.get(id(x), -1))
            if expr is not None and not (isinstance(a.value, ast.Call) and dotted(a.value.func) == 'len'):
                try:
                    return ev(a.value, cur, N, L, order.get(id(a), -1))
                except _NoEval:
                    return L
            if not any(isinstance(n, ast.Call) and dotted(n.func) == 'len' and n.args and ast.unparse(n.args[0]) == buf for n in ast.walk(a.value)):
                lsyms[node.id] = order.get(id(a), -1)
                return L
            pure = isinstance(a.value, ast.Call) and dotted(a.value.func) == 'len' and len(a.value.args) == 1 and ast.unparse(a.value.args[0]) == buf
            if expr is not None and not pure:
                # a temporary computed on the way to the bound sees the buffer as it is then; only a bare len(buf) is a measurement
                return ev(a.value, cur, N, L, order.get(id(a), -1))
            return ev(a.value, N, N, L, order.get(id(a), -1))
        if isinstance(node, ast.Attribute):
            return L
        if isinstance(node, ast.BinOp) and isinstance(node.op, (ast.Add, ast.Sub)):
            x, y = ev(node.left, cur, N, L, line), ev(node.right, cur, N, L, line)
            return x + y if isinstance(node.op, ast.Add) else x - y
        if isinstance(node, ast.Compare) and len(node.ops) == 1:
            x, y = ev(node.left, cur, N, L, line), ev(node.comparators[0], cur, N, L, line)
            op = type(node.ops[0])
            tbl = {ast.Lt: x < y, ast.LtE: x <= y, ast.Gt: x > y, ast.GtE: x >= y, ast.Eq: x == y, ast.NotEq: x != y}
            if op in tbl:
                return tbl[op]
        if isinstance(node, ast.UnaryOp) and isinstance(node.op, ast.Not):
            return not ev(node.operand, cur, N, L, line)
        if isinstance(node, ast.BoolOp):
            vals = [ev(v, cur, N, L, line) for v in node.values]
            return all(vals) if isinstance(node.op, ast.And) else any(vals)
        if isinstance(node, (ast.Name, ast.Subscript)) or (isinstance(node, ast.Call) and not node.args):
            return L
        raise _NoEval(ast.unparse(node))

    def table(N, L):
        return [bool(ev(test, max(N - k, 0), N, L, order.get(id(loop), 10 ** 6))) for k in (0, 1, L - 1, L, L + 1)]

    def values(N, L, cs):
        return [ev(test, N - k, N, L, order.get(id(at), 10 ** 6)) for k in cs]
    return (table if expr is None else values), lsyms, exempt


def check_repetition(rep, prog, classes):
    by_cls = {c: (pf, wf) for c, pf, wf in classes}
    reads = {c: item_reads(prog, c, pf) for c, (pf, wf) in by_cls.items()}
    fcls = {c: _field_classes(prog, c) for c in by_cls}
    wrep = {c: _writer_repeats(prog, c, wf) for c, (pf, wf) in by_cls.items()}

    def rmany(c, depth=0):
        if depth > 4 or c not in reads:
            return False
        for kind, name, buf, node, loop in reads[c]:
            if loop is not None:
                return True
            if kind == 'field' and fcls[c].get(name) is not None and rmany(fcls[c][name], depth + 1):
                return True
        return False

    def wmany(c, depth=0):
        if depth > 4 or c not in wrep:
            return False
        many, fields = wrep[c]
        return many or any(fcls[c].get(f) is not None and wmany(fcls[c][f], depth + 1) for f in fields)
    # a class every user of which loops over it is one item of that loop, not a sequence of its own
    users = {}
    for c in by_cls:
        for kind, name, buf, node, loop in reads[c]:
            if kind == 'field' and fcls[c].get(name) is not None:
                users.setdefault(fcls[c][name], []).append(loop is not None)
    n = 0
    for c, (pf, wf) in by_cls.items():
        if not wmany(c):
            continue
        if users.get(c) and all(users[c]):
            continue
        n += 1
        own_loops = set(id(lp) for k, nm, b, nd, lp in reads[c] if lp is not None)
        if wrep[c][0] and len(own_loops) < len(wrep[c][0]) and not any(k == 'field' and lp is not None for k, nm, b, nd, lp in reads[c]):
            rep.violation('C08.c', '%s parse/__bytearray__' % c.name, 'the writer emits the elements of %d collection(s) item by item, the reader has %d item loop(s)' %
                          (len(wrep[c][0]), len(own_loops)),
                          'one of the item sequences the writer emits is read without a loop: at most its first item is taken, the rest stays in the buffer',
                          where=pf.where, expected='one item loop per collection: %s' % sorted(wrep[c][0]),
                          found=[(k, nm, 'in a loop' if lp is not None else 'once') for k, nm, b, nd, lp in reads[c]], scenario='repetition')
            continue
        rep.check(rmany(c), 'C08.c', '%s parse/__bytearray__' % c.name, 'the writer emits one item per element of a collection, the reader takes %s' %
                  ('items in a loop' if rmany(c) else 'at most one item'),
                  'the writer serialises every element of a collection but the reader does not loop until the declared length is used up: '
                  'the items after the first stay in the buffer and are misread as what follows', where=pf.where,
                  expected='a loop around the read of one item', found=[(k, nm, 'in a loop' if lp is not None else 'once') for k, nm, b, nd, lp in reads[c]],
                  scenario='repetition')
    if n < 3:
        raise AnalysisError('repeated-item codecs: only %d classes whose writer emits a collection were recognised' % n)
    # the loops themselves: they continue exactly while fewer octets than declared have been consumed, and nothing leaves them early
    nb = 0
    for c, (pf, wf) in by_cls.items():
        if pf.cls is not c:
            continue
        loops = {}
        for kind, name, buf, node, loop in reads[c]:
            if loop is not None:
                loops.setdefault(id(loop), (loop, buf))
        inbuf = pf.params[1] if len(pf.params) > 1 else None
        for loop, buf in sorted(loops.values(), key=lambda x: _stmt_order(pf).get(id(x[0]), 0)):
            where = '%s:%d' % (pf.module.relpath, loop.lineno)
            exempt = None
            if isinstance(loop, ast.While):
                try:
                    table, lsyms, exempt = _loop_bound(pf, loop, buf, None)
                    got = table(1000, 50)
                    want = [True, True, True, False, False]
                    ok = got == want or (buf != inbuf and table(50, 50) == want)
                    order = _stmt_order(pf)
                    stale = [nm for nm, ln in lsyms.items() if any(ln < order.get(id(other), -1) < order.get(id(loop), -1) for other, _ in loops.values() if other is not loop)]
                    nb += 1
                    rep.check(ok and not stale, 'C08.d', '%s.parse' % c.name,
                              'item loop at line %d continues for consumed = 0, 1, L-1, L, L+1: %s%s' % (loop.lineno, got, ('; length %s was read for an earlier loop' % stale) if stale else ''),
                              'a loop over self-delimiting items must continue exactly while fewer octets than the declared length have been consumed '
                              '(not one header more or less, not until the whole input is empty, not by the length of another area)', where=where,
                              expected='continue iff consumed < declared length', found=got if not stale else 'bounded by %s' % stale, scenario='loop bound')
                except _NoEval:
                    pass
            early = []
            stack = list(loop.body)
            while stack:
                st = stack.pop()
                if st is exempt or isinstance(st, (ast.FunctionDef, ast.AsyncFunctionDef, ast.ClassDef)):
                    continue
                if isinstance(st, ast.Return) or (isinstance(st, ast.Break)):
                    early.append(st)
                    continue
                for nm in ('body', 'orelse', 'finalbody'):
                    sub = getattr(st, nm, None)
                    if isinstance(sub, list):
                        # a break inside a nested loop belongs to that loop; a return leaves ours as well
                        stack.extend(x for x in sub if not isinstance(st, (ast.For, ast.While)) or any(isinstance(y, ast.Return) for y in ast.walk(x)))
                for h in getattr(st, 'handlers', []) or []:
                    stack.extend(h.body)
            early = [e for e in early if isinstance(e, ast.Return) or _breaks_loop(loop, e)]
            rep.check(not early, 'C08.d', '%s.parse' % c.name, 'item loop at line %d is left early at line %s' % (loop.lineno, [e.lineno for e in early]),
                      'the reader stops taking items before the declared length is used up (for example at the first item it does not know): '
                      'the rest of the area stays in the buffer', where=where, expected='the loop ends only through its length condition (or an exception)',
                      found=[ast.unparse(e) for e in early], scenario='loop exit')
    if nb < 3:
        raise AnalysisError('repeated-item codecs: only %d item loops with a length condition the checker can evaluate' % nb)


def _breaks_loop(loop, brk):
    """Does this `break` leave `loop` (and not a loop nested inside it)?"""
    def rec(stmts, owner):
        for st in stmts:
            if st is brk:
                return owner is loop
            if isinstance(st, (ast.FunctionDef, ast.AsyncFunctionDef, ast.ClassDef)):
                continue
            inner = st if isinstance(st, (ast.For, ast.While)) else owner
            for nm in ('body', 'orelse', 'finalbody'):
                sub = getattr(st, nm, None)
                if isinstance(sub, list):
                    r = rec(sub, inner if nm == 'body' else owner)
                    if r is not None:
                        return r
            for h in getattr(st, 'handlers', []) or []:
                r = rec(h.body, owner)
                if r is not None:
                    return r
        return None
    return bool(rec(loop.body, loop))


# ------------------------------------------------------------------------------------------------ delegates and open readers (C08.d)
# A sub-parser that keeps "the rest of its buffer" (stores the buffer itself, or reads it with an open upper bound) is only bounded by
# what it is handed.  A class that delegates a field to a family containing such a parser must hand it a slice already cut to the
# declared length - on every path - and consume that slice afterwards; handing over the shared buffer in place lets that member of the
# family swallow (or leave) everything that follows.
def open_parsers(prog, classes):
    """class name -> text of the read by which its own `parse` keeps the rest of its buffer."""
    out = {}
    for c, pf, wf in classes:
        if pf.cls is not c or len(pf.params) < 2:
            continue
        buf, p0 = pf.params[1], pf.params[0]
        for s in reader_paths(prog, c, pf):
            if s.raised is not None:
                continue
            reads, _ = codec.reader_sequence(s, buf, cls=c, recv=p0)
            for r in reads:
                if r.kind == 'alias' or (r.kind in ('fixed', 'fixed-skip') and (r.width == '' or r.width == 'len(%s)' % buf)):
                    out.setdefault(c.name, '%s = %s' % (r.target, r.text))
    return out


def field_family(prog, c, attr):
    """The classes whose instances the code of `c` may put into `self.<attr>`: constructor results stored by __init__, and every class
    the functions that store to that attribute refer to."""
    fam = set()
    k0 = _field_classes(prog, c).get(attr)
    if k0 is not None:
        fam.add(k0)
    for k in c.mro():
        fns = list(k.methods.values())
        for pr in k.props.values():
            fns.extend(pr.setters.values())
        for f in fns:
            if not f.params:
                continue
            me = f.params[0]
            stores = any(isinstance(n, ast.Attribute) and isinstance(n.ctx, ast.Store) and n.attr == attr and isinstance(n.value, ast.Name) and n.value.id == me
                         for n in ast.walk(f.node))
            if not stores:
                continue
            for n in ast.walk(f.node):
                if isinstance(n, ast.Name) and isinstance(n.ctx, ast.Load):
                    r = prog.lookup(f.module, n.id)
                    if hasattr(r, 'mro') and hasattr(r, 'find_method') and r.find_method('parse') is not None:
                        fam.add(r)
    return fam


def check_delegate_bounds(rep, prog, classes):
    opened = open_parsers(prog, classes)
    n = 0
    for c, pf, wf in classes:
        if pf.cls is not c or len(pf.params) < 2:
            continue
        p0, buf = pf.params[0], pf.params[1]
        how = {}          # attribute -> {'in place' | 'cut'} over all paths
        for s in reader_paths(prog, c, pf):
            if s.raised is not None:
                continue
            for ft, args, kw, line, node in s.calls:
                if ft.endswith('.parse') and ft.startswith(p0 + '.') and '.' not in ft[len(p0) + 1:-len('.parse')] and args:
                    attr = ft[len(p0) + 1:-len('.parse')]
                    if attr == 'header':
                        continue
                    mode = 'in place' if args[0] == buf else ('cut' if codec.slice_of(args[0], buf) is not None and codec.slice_of(args[0], buf)[1] != '' else None)
                    if mode:
                        how.setdefault(attr, {}).setdefault(mode, line)
        for attr, modes in sorted(how.items()):
            fam = field_family(prog, c, attr)
            openk = sorted(set('%s (%s)' % (k.name, opened[k.find_method('parse').cls.name]) for k in fam if k.find_method('parse').cls.name in opened))
            n += 1
            where = '%s:%d' % (pf.module.relpath, min(modes.values()))
            if len(modes) == 2:
                rep.violation('C08.d', '%s.parse' % c.name, '%s.parse is handed a bounded slice on one path and the shared buffer on another' % attr,
                              'the field is bounded to the declared length on one arm only: on the other arm the sub-parser works on the shared '
                              'input buffer and nothing ties what it consumes to this packet', where=where,
                              expected='the same bounded slice on every path', found=sorted(modes), scenario='delegate %s' % attr)
                continue
            ok = not ('in place' in modes and openk)
            rep.check(ok, 'C08.d', '%s.parse' % c.name,
                      '%s.parse is handed the shared buffer in place; %s keeps the rest of its buffer' % (attr, ', '.join(sorted(set(x.split(' ')[0] for x in openk)))) if not ok
                      else '%s.parse: %s, open readers in its family: %s' % (attr, sorted(modes), openk or 'none'),
                      'a sub-parser that keeps whatever is left in its buffer is handed the shared input buffer: for that member of the family the '
                      'packet consumes none (or all) of what follows it', where=where,
                      expected='a slice cut to the declared length, consumed afterwards', found='%s.parse(%s); %s' % (attr, buf, ', '.join(openk)), scenario='delegate %s' % attr)
    if n < 8:
        raise AnalysisError('delegated fields: only %d recognised' % n)


# ------------------------------------------------------------------------------------------------ key material dispatch (C08.g)
def check_material_table(rep, prog):
    """The key material class the `pkalg` setter chooses (evaluated at every algorithm, sa.ceval): the secret-key packet's choice is a
    PrivKey and extends the public-key packet's choice for the same algorithm - otherwise a secret key packet of that algorithm is read
    and written with the public codec only and silently drops its secret part (or a public packet would carry a secret codec)."""
    f, full = tables._keymaterial_eval(prog)
    fields = prog.module('pgpy.packet.fields')
    privbase = fields.classes.get('PrivKey')
    if privbase is None:
        raise AnalysisError('fields.PrivKey vanished')
    n = 0
    for (public, alg), name in sorted(full.items()):
        if public:
            continue
        pub = full.get((True, alg))
        kpriv, kpub = fields.classes.get(name), fields.classes.get(pub) if pub else None
        if kpriv is None or kpub is None:
            raise AnalysisError('key material classes %s / %s of %s not found' % (name, pub, alg))
        n += 1
        ok = privbase in kpriv.mro() and kpub in kpriv.mro() and privbase not in kpub.mro()
        rep.check(ok, 'C08.g', 'PubKeyV4.pkalg (key material dispatch)', '%s: secret-key packets use %s, public-key packets use %s' % (alg, name, pub),
                  'for every algorithm the key material class of the secret-key packet must be a PrivKey that extends the class of the public-key '
                  'packet: its codec is the public fields followed by the secret ones', where=f.where,
                  expected='a PrivKey subclass of %s' % pub, found=name, scenario=alg)
    if n < 8:
        raise AnalysisError('key material dispatch: only %d algorithms evaluated' % n)


# ------------------------------------------------------------------------------------------------ flag subpackets (C08.e)
def check_flag_widths(rep, prog):
    """A flags subpacket parsed with a value of w octets declares length 1 + w; its writer must emit exactly that many octets after the
    length octet (type octet + value null-padded to w), for w = 1, 2, 3.  The writers are evaluated by the checker (sa.ceval) on an
    object whose header length and flag set are put in place directly."""
    from sa.ceval import Evaluator, Raised, NoEval, Diverged
    E = Evaluator(prog)
    m = prog.module('pgpy.packet.subpackets.signature')
    n = 0
    for c in m.classes.values():
        if not any(k.name == 'ByteFlag' for k in c.mro()[1:]):
            continue
        wf = c.find_method('__bytearray__')
        tid = _class_const(prog, [k for k in c.mro() if '__typeid__' in k.attrs][0], '__typeid__')
        for w in (1, 2, 3):
            try:
                o = E.new(c)
                h = E.get(o, 'header')
                E.set(h, 'typeid', tid)
                E.set(h, 'length', 1 + w)
                o.attrs['_flags'] = {1}
                out = E.tobytes(E.method(o, '__bytearray__'))
            except Raised as ex:
                rep.violation('C08.e', '%s.__bytearray__' % c.name, 'value of %d octet(s): the writer raises %s' % (w, ex),
                              'the writer of a flags subpacket must serialise a value of any width it can parse', where=wf.where, scenario='width %d' % w)
                n += 1
                continue
            except (NoEval, Diverged) as ex:
                raise AnalysisError('%s.__bytearray__ outside the evaluator: %s' % (c.name, ex))
            want = bytes([1 + w, tid, 1] + [0] * (w - 1))
            n += 1
            rep.check(out == want, 'C08.e', '%s.__bytearray__' % c.name, 'declared length %d, written %s' % (1 + w, out.hex()),
                      'the subpacket length octet must be followed by exactly the octets it counts: the type octet and the flag value '
                      'null-padded to the width it was read with', where=wf.where, expected=want.hex(), found=out.hex(), scenario='width %d' % w)
    if n < 6:
        raise AnalysisError('flag subpackets: only %d writer evaluations' % n)


# ------------------------------------------------------------------------------------------------ evaluated identities (C08.i / C08.c)
def check_subpacket_header_identity(rep, prog):
    """Parse-then-serialise of a subpacket header is the identity, critical bit included (evaluated with sa.ceval at type octets with and
    without bit 7), and exactly the header octets are consumed."""
    from sa.ceval import Evaluator, VBuf, Raised, NoEval, Diverged
    E = Evaluator(prog)
    SH = prog.cls('pgpy.packet.subpackets.types', 'Header')
    if SH is None:
        raise AnalysisError('subpacket Header vanished')
    pf = SH.find_method('parse')
    for t in (0x02, 0x82, 0x10, 0x90, 0x7f, 0xff, 0xa1):
        data = bytes([5, t])
        try:
            h = E.new(SH)
            buf = VBuf(data + b'\xaa\xbb')
            E.method(h, 'parse', buf)
            out, left = E.tobytes(E.method(h, '__bytearray__')), E.tobytes(buf)
        except Raised as ex:
            rep.violation('C08.i', 'subpacket Header parse/__bytearray__', 'type octet 0x%02x: raises %s' % (t, ex), 'a subpacket header with any type octet parses',
                          where=pf.where, scenario='0x%02x' % t)
            continue
        except (NoEval, Diverged) as ex:
            raise AnalysisError('subpacket Header outside the evaluator: %s' % ex)
        rep.check(out == data and left == b'\xaa\xbb', 'C08.i', 'subpacket Header parse/__bytearray__', 'header %s re-serialises as %s (left in the buffer: %s)' % (data.hex(), out.hex(), left.hex()),
                  'a parsed subpacket header serialises to the octets it was read from: the critical bit (bit 7 of the type octet) survives', where=pf.where,
                  expected=data.hex(), found=out.hex(), scenario='0x%02x' % t)


def check_integer_fields(rep, prog, classes):
    """An integer field that `parse` reads with its own octets and hands to an integer setter keeps every value of its wire range (or the
    packet is refused): the setter is evaluated (sa.ceval) at the ends and inside of the range, members and non-members of whatever
    enumeration it converts to; one of the attributes it writes must hold the value received.  Fields that share their octets with
    another field (sub-fields of one word) and the header classes are not plain integer fields."""
    from sa.ceval import Evaluator, Obj, Raised, NoEval, Diverged
    E = Evaluator(prog)

    def ival(v):
        return getattr(v, 'ival', v)
    n = 0
    for c, pf, wf in classes:
        if pf.cls is not c or len(pf.params) < 2 or any(k.name in ('Header', '_Header') or k.name.endswith('Header') for k in c.mro()):
            continue
        p0, buf = pf.params[0], pf.params[1]
        widths = {}
        shared = set()
        for s in reader_paths(prog, c, pf):
            if s.raised is not None:
                continue
            reads, _ = codec.reader_sequence(s, buf, cls=c, recv=p0)
            for r in reads:
                if r.target and r.target.startswith(p0 + '.') and '.' not in r.target[len(p0) + 1:]:
                    nm = r.target[len(p0) + 1:]
                    if r.also:
                        shared.add(nm)
                        shared.update(a[len(p0) + 1:] for a in r.also if a.startswith(p0 + '.'))
                    if r.kind == 'fixed' and codec._int(r.width) in (1, 2, 4):
                        widths.setdefault(nm, set()).add(codec._int(r.width))
        for nm, ws in sorted(widths.items()):
            pr = c.find_prop(nm)
            if pr is None or 'int' not in pr.setters or nm in shared or len(ws) != 1:
                continue
            w = list(ws)[0]
            top = (1 << (8 * w)) - 1
            bad, done = [], 0
            results, names = [], set()
            for v in sorted(set([0, 1, 12, 14, 110, 127, 128, 200, 255, top, top // 2 + 1])):
                if v > top:
                    continue
                try:
                    try:
                        o = E.new(c)
                    except (NoEval, Raised, Diverged):
                        o = Obj(c, {})
                    before = dict(o.attrs)
                    E.set(o, nm, v)
                    done += 1
                    names.update(k for k, x in o.attrs.items() if k not in before or ival(before[k]) != ival(x) or type(before[k]) is not type(x))
                    results.append((v, dict(o.attrs)))
                except Raised:
                    done += 1               # refused: the packet does not parse
                except (NoEval, Diverged):
                    done = 0
                    break
            for v, attrs in results:
                got = [ival(attrs[k]) for k in sorted(names) if k in attrs]
                if not any((not isinstance(g, bool)) and g == v for g in got):
                    bad.append((v, got[:2]))
            if not done:
                continue
            n += 1
            rep.check(not bad, 'C08.c', '%s.%s' % (c.name, nm), 'received %s stored as %s' % (bad[0] if bad else 'every value', bad[0][1] if bad else 'received'),
                      'a %d-octet integer field is changed on the way into the object (clamped, replaced by a placeholder): the packet re-serialises with '
                      'another value than it was read with' % w, where=pr.setters['int'].where, expected='the value received (or a refusal)',
                      found=['%d -> %s' % (v, g) for v, g in bad[:4]], scenario='integer field %s' % nm)
    if n < 12:
        raise AnalysisError('integer fields: only %d setters evaluated' % n)


def _dedupe(seq):
    out = []
    for x in seq:
        if not out or not _same(out[-1], x):
            out.append(x)
    return out


def _subseq(a, b):
    """a is a subsequence of b or b of a (one side may name helper fields the other folds together); equal sequences included."""
    def sub(x, y):
        it = iter(y)
        return all(any(_same(e, f) for f in it) for e in x)
    return sub(a, b) or sub(b, a)


# ------------------------------------------------------------------------------------------------ C08.f
# Text fields, decided on interpreter values: the reader side is every store of `<input octets>.decode(codec)` (or chr(octet), or a
# helper that returns such a decode) into an attribute by `parse` / a bytes setter, one variant per path (the path through an
# `except` handler is a fallback); the writer side is every `self.<attr>.encode(codec)` call of `__bytearray__`, run under each value
# of the boolean attributes its paths test.  No source text is compared.
CODEC_ALIASES = {'utf8': 'utf-8', 'u8': 'utf-8', 'latin1': 'latin-1', 'latin': 'latin-1', 'l1': 'latin-1', 'iso-8859-1': 'latin-1', 'iso8859-1': 'latin-1',
                 '8859': 'latin-1', 'charmap': 'latin-1', 'us-ascii': 'ascii', '646': 'ascii'}
ASCII_SAFE = {'utf-8', 'latin-1', 'ascii', 'cp1252'}


def _norm_codec(x):
    x = (x or '').lower().replace('_', '-')
    return CODEC_ALIASES.get(x, x)


def _calltext(ft, args, kw):
    return '%s(%s)' % (ft, ', '.join(list(args) + ['%s=%s' % kv for kv in kw.items()]))


def _codec_arg(args, kw, where):
    """Codec named by the arguments of an encode / decode call event (default utf-8)."""
    t = args[0] if args else kw.get('encoding')
    if t is None:
        return 'utf-8'
    m = re.match(r"^'([^']*)'$", t)
    if not m:
        raise AnalysisError('text codec is not a literal on this path: %s (%s)' % (t, where))
    return _norm_codec(m.group(1))


def decoder_summary(prog, fi):
    """[(codec, is_fallback)] when every returning path of `fi` returns <its data parameter>.decode(codec); else None."""
    _SUMMARIES = prog.__dict__.setdefault('_c08_decoder_summaries', {})
    key = fi.qualname
    if key in _SUMMARIES:
        return _SUMMARIES[key]
    static = any(dotted(d) == 'staticmethod' for d in fi.node.decorator_list)
    ps = fi.params if (static or fi.cls is None) else fi.params[1:]
    out = None
    if len(ps) == 1:
        data = ps[0]
        out = []
        for s in Interp(prog, Scenario(inline=noinline)).run(fi):
            if s.raised is not None and s.ret is None:
                continue
            hit = None
            for ft, args, kw, line, node in s.calls:
                if ft == data + '.decode' and s.ret is not None and render(s.ret) == _calltext(ft, args, kw):
                    hit = _codec_arg(args, kw, fi.where)
            if hit is None:
                out = None
                break
            out.append((hit, any(f[0].startswith('except ') for f in s.facts)))
    _SUMMARIES[key] = out
    return out


def _resolve_helper(prog, c, f, ft):
    name = ft.split('.')[-1]
    prefix = ft[:-(len(name) + 1)] if '.' in ft else ''
    if name in ('decode', 'encode', 'bytes_to_int', 'int_to_bytes') or name.startswith('super:'):
        return None
    if prefix == '':
        r = prog.lookup(f.module, name)
        return r if hasattr(r, 'params') and hasattr(r, 'node') and getattr(r, 'cls', None) is None else None
    if prefix == f.params[0]:
        return c.find_method(name)
    for k in prog.classes_by_name.get(prefix, []):
        m = k.find_method(name)
        if m is not None:
            return m
    return None


def _const_flag(val):
    return isinstance(val, Const) and (isinstance(val.value, bool) or val.value is None)


def reader_text_fields(prog, c):
    """field name -> [variant]; variant = dict(codec, fallback, flags, hexsafe, where).  One variant per (path, decode) that reaches an
    attribute of the object."""
    fns = []
    if 'parse' in c.methods:
        fns.append(c.methods['parse'])
    for pr in c.props.values():
        for tn in ('bytearray', 'bytes'):
            f = pr.setters.get(tn)
            if f is not None and f not in fns:
                fns.append(f)
    out = {}
    for f in fns:
        if len(f.params) < 2:
            continue
        p0, data = f.params[0], f.params[1]
        sc = Scenario(inline=noinline, forward_stores=False, model_del=False, self_cls=c)
        for s in Interp(prog, sc).run(f):
            if s.raised is not None and not s.stores:
                continue
            decs = []
            for ft, args, kw, line, node in s.calls:
                text = _calltext(ft, args, kw)
                if ft.endswith('.decode'):
                    decs.append((text, ft[:-len('.decode')], (args, kw)))
                elif ft == 'chr' and len(args) == 1 and not kw:
                    decs.append((text, args[0], [('latin-1', False)]))        # chr(octet) is the latin-1 reading of one octet
                elif ft.endswith('.hex') and not args and not kw:
                    decs.append((text, 'hexlify(%s)' % ft[:-len('.hex')], [('ascii', False)]))      # octets.hex(): hex digits, ASCII only
                elif (ft.endswith('.format') and ft[:1] in ('"', "'") and len(args) == 1) or (ft == 'format' and len(args) == 2):
                    # a number format of the input (whole or octet by octet): digits, ASCII only
                    src = s.bound.get(args[0], args[0]) if re.match(r'^\$[\d._]+$', args[0]) else args[0]
                    decs.append((text, 'hexlify(%s)' % src, [('ascii', False)]))
                elif ft == 'str' and args and (len(args) >= 2 or 'encoding' in kw):
                    decs.append((text, args[0], (args[1:], kw)))             # str(octets, codec) is octets.decode(codec)
                elif args:
                    h = _resolve_helper(prog, c, f, ft)
                    summ = decoder_summary(prog, h) if h is not None else None
                    if summ:
                        decs.append((text, args[0], summ))
            if not decs:
                continue
            flags = {}
            for pth, vt, line, val in s.stores:
                if pth.startswith(p0 + '.') and '.' not in pth[len(p0) + 1:] and _const_flag(val):
                    flags[pth[len(p0) + 1:]] = val.value
            in_handler = any(fc[0].startswith('except ') for fc in s.facts)
            for pth, vt, line, val in s.stores:
                if not (pth.startswith(p0 + '.') and '.' not in pth[len(p0) + 1:]):
                    continue
                for text, recv, variants in decs:
                    if text in vt and codec.mentions(recv, data):
                        if isinstance(variants, tuple):
                            variants = [(_codec_arg(variants[0], variants[1], f.where), False)]
                        for cd, fb in variants:
                            out.setdefault(pth[len(p0) + 1:].lstrip('_'), []).append(
                                {'codec': cd, 'fallback': fb or in_handler, 'flags': dict(flags), 'hexsafe': 'hexlify(' in recv,
                                 'where': '%s:%d' % (f.module.relpath, line), 'fn': f.qualname})
    return out


def writer_text_fields(prog, c, wf, bind=None):
    """field name -> set of codecs `self.<field>.encode(codec)` is called with on the paths of the writer under `bind`;
    also the boolean attributes of the object the paths branch on."""
    p0 = wf.params[0]
    sc = Scenario(inline=noinline, self_cls=c, bind={'%s.%s' % (p0, k): Const(v) for k, v in (bind or {}).items()})
    enc, atoms = {}, set()

    def walk(sk):
        if not sk:
            return
        if sk[0] == 'not':
            walk(sk[1])
        elif sk[0] in ('and', 'or'):
            for x in sk[1]:
                walk(x)
        elif sk[0] == 'expr':
            m = re.match(r'^%s\.([A-Za-z_][A-Za-z0-9_]*)$' % re.escape(p0), sk[1])
            if m:
                atoms.add(m.group(1))
        elif sk[0] == 'cmp' and sk[1] in ('==', '!=', 'is', 'is not'):
            for a, b in ((sk[2], sk[3]), (sk[3], sk[2])):
                m = re.match(r'^%s\.([A-Za-z_][A-Za-z0-9_]*)$' % re.escape(p0), a)
                if m and b in ('True', 'False'):
                    atoms.add(m.group(1))
    for s in Interp(prog, sc).run(wf):
        if s.raised is not None and s.ret is None:
            continue
        for fc in s.facts:
            walk(fc[2] if len(fc) > 2 else None)
        for ft, args, kw, line, node in s.calls:
            if ft.endswith('.encode') and ft.startswith(p0 + '.') and '.' not in ft[len(p0) + 1:-len('.encode')]:
                enc.setdefault(ft[len(p0) + 1:-len('.encode')].lstrip('_'), set()).add(_codec_arg(args, kw, wf.where))
            elif ft in ('bytes.fromhex', 'bytearray.fromhex') and len(args) == 1 and args[0].startswith(p0 + '.') and '.' not in args[0][len(p0) + 1:]:
                enc.setdefault(args[0][len(p0) + 1:].lstrip('_'), set()).add('ascii')        # hex digits back to octets
            elif ft in ('bytes', 'bytearray') and args and (len(args) >= 2 or 'encoding' in kw) and args[0].startswith(p0 + '.') and \
                    '.' not in args[0][len(p0) + 1:]:
                # bytes(self.f, codec) is self.f.encode(codec)
                enc.setdefault(args[0][len(p0) + 1:].lstrip('_'), set()).add(_codec_arg(args[1:], kw, wf.where))
    return enc, atoms


def _init_flags(prog, c):
    f = c.find_method('__init__')
    out = {}
    if f is None or not f.params:
        return out
    p0 = f.params[0]
    for s in Interp(prog, Scenario(inline=noinline, self_cls=c)).run(f):
        for pth, vt, line, val in s.stores:
            if pth.startswith(p0 + '.') and '.' not in pth[len(p0) + 1:] and _const_flag(val):
                out[pth[len(p0) + 1:]] = val.value
    return out


def _same_codec(rc, wcs, hexsafe):
    if hexsafe:
        return bool(wcs) and rc in ASCII_SAFE and all(w in ASCII_SAFE for w in wcs)
    return wcs == {rc}


def check_text_codecs(rep, prog):
    import itertools
    for mn in MODS:
        m = prog.module(mn)
        for c in m.classes.values():
            wf = c.find_method('__bytearray__')
            if wf is None or wf.cls.name == 'PGPObject':
                continue
            rfields = reader_text_fields(prog, c)
            if not rfields and not c.defines('__bytearray__'):
                continue
            wenc, atoms = writer_text_fields(prog, c, wf)
            for fld in sorted(set(wenc) - set(rfields)):
                if c.defines('__bytearray__') and (c.defines('parse') or c.props):
                    raise AnalysisError('%s.__bytearray__ encodes text field %s but no decode into it was recognised in parse / the bytes setters' % (c.name, fld))
            for fld in sorted(set(rfields) & set(wenc)):
                variants = rfields[fld]
                construct = '%s.%s' % (c.name, fld)
                init = _init_flags(prog, c)
                # the boolean attributes that can distinguish object states: those the writer branches on and those the reader sets on
                # some paths of this field only (a remembered fallback)
                rflags = set(g for v in variants for g in v['flags'] if any(w['flags'].get(g, init.get(g, False)) != v['flags'][g] for w in variants))
                flags = sorted(a for a in (atoms | rflags) if a != fld and a != '_' + fld)
                if len(flags) > 3:
                    raise AnalysisError('%s.__bytearray__ branches on %d boolean attributes' % (c.name, len(flags)))

                def state(v):
                    return tuple(bool(v['flags'].get(g, init.get(g, False))) for g in flags)
                wtab = {}
                for combo in itertools.product((False, True), repeat=len(flags)):
                    wtab[combo] = writer_text_fields(prog, c, wf, dict(zip(flags, combo)))[0].get(fld, set())
                primaries = [v for v in variants if not v['fallback']]
                if not primaries:
                    raise AnalysisError('%s: every decode of %s sits in an exception handler' % (c.name, fld))
                pstates = set(state(v) for v in primaries)
                for v in variants:
                    st = state(v)
                    scen = '%s%s' % ('fallback ' if v['fallback'] else '', ', '.join('%s=%s' % kv for kv in zip(flags, st)) or 'read in %s' % v['fn'])
                    if v['fallback'] and st in pstates:
                        # a fallback the object does not remember: foreign octets are normalised once to the primary codec (fixed point
                        # afterwards); the primary variant carries the comparison
                        rep.ok('C08.f', construct, 'unremembered fallback %s normalises to the primary codec' % v['codec'], scenario=scen, nontrivial=False)
                        continue
                    wcs = wtab[st]
                    rep.check(_same_codec(v['codec'], wcs, v['hexsafe']), 'C08.f', construct, 'read %s, written %s (%s)' % (v['codec'], sorted(wcs), scen),
                              'text read with one codec and written with another changes the octets on every parse/serialise pass', where=v['where'],
                              expected=v['codec'], found=sorted(wcs), scenario=scen)
                # every codec arm of the writer must be reachable from a reader path that sets the attributes it tests
                rstates = set(state(v) for v in variants)
                for st in sorted(wtab):
                    if any(wtab[st] != wtab[p] for p in pstates) and st not in rstates:
                        rep.violation('C08.f', construct, 'writer uses %s when %s, but no reader path leaves the object in that state' %
                                      (sorted(wtab[st]), ', '.join('%s=%s' % kv for kv in zip(flags, st))),
                                      'the writer chooses the codec from an attribute the reader never sets on the path that used that codec: '
                                      'octets read with the fallback codec are written with the primary one', where=wf.where,
                                      expected='a reader path storing %s' % ', '.join('%s=%s' % kv for kv in zip(flags, st)), found=sorted(set(rstates)),
                                      scenario=', '.join('%s=%s' % kv for kv in zip(flags, st)))


# ------------------------------------------------------------------------------------------------ C08.f (value codecs)
# Octets kept as hex text (key ids, fingerprints): the conversion the bytes setter applies and the one the writer applies back must be
# length-preserving for EVERY width the parse arms hand to the setter.  Octet-wise conversions (hexlify, .hex(), a two-digit format per
# octet) are width-generic; formatting the whole value as ONE integer keeps the width only when the format is zero-padded to exactly
# twice the width; an unpadded integer format drops leading zero octets.  The format literal is evaluated by the checker on its own
# integers (0, 1, 255) - no repository code runs.
def _hex_format_kind(fmt, per_octet):
    """'generic' | ('fixed', octets) | 'lossy' | None (not a hex number format) for a str.format literal applied to an integer."""
    try:
        z, one, top = fmt.format(0), fmt.format(1), fmt.format(255)
        int(top, 16)
    except Exception:
        return None
    if top.lower().lstrip('0') != 'ff':
        return None                                   # not base 16
    if per_octet:
        return 'generic' if len(z) == 2 and len(top) == 2 else 'lossy'
    if len(z) > 1 and len(z) % 2 == 0 and z == '0' * len(z) and len(one) == len(z):
        return ('fixed', len(z) // 2)
    return 'lossy'


def _reader_hex_conversions(prog, c, f):
    """[(field, kind, text, line)] for the hex-text conversions of the input the function stores into attributes of the object."""
    p0, data = f.params[0], f.params[1]
    out = []
    for s in Interp(prog, Scenario(inline=noinline, forward_stores=False, model_del=False, self_cls=c)).run(f):
        convs = []
        for ft, args, kw, line, node in s.calls:
            text = _calltext(ft, args, kw)
            fmt = arg = None
            if ft.endswith('.format') and ft[:1] in ('"', "'") and len(args) == 1 and not kw:
                try:
                    fmt, arg = ast.literal_eval(ft[:-len('.format')]), args[0]
                except Exception:
                    fmt = None
            elif ft == 'format' and len(args) == 2 and re.match(r"^'[^']*'$", args[1]):
                fmt, arg = '{:%s}' % args[1][1:-1], args[0]
            if fmt is not None and isinstance(fmt, str):
                per_octet = re.match(r'^\$[\d._]+$', arg) is not None and codec.mentions(s.bound.get(arg, ''), data)
                if per_octet or codec.mentions(arg, data):
                    k = _hex_format_kind(fmt, per_octet)
                    if k is not None:
                        convs.append((text, k, line))
            elif ft.split('.')[-1] == 'hexlify' and args and codec.mentions(args[0], data):
                convs.append((text, 'generic', line))
            elif ft.endswith('.hex') and not args and codec.mentions(ft[:-len('.hex')], data):
                convs.append((text, 'generic', line))
        for pth, vt, line, val in s.stores:
            if not (pth.startswith(p0 + '.') and '.' not in pth[len(p0) + 1:]):
                continue
            for m in re.finditer(r"\('(%0?\d*[xX])' % ([^()]*(?:\([^()]*\))?[^()]*)\)", vt):        # '%040x' % n
                if codec.mentions(m.group(2), data):
                    spec = m.group(1)[1:]
                    k = _hex_format_kind('{:%s}' % spec, False)
                    if k is not None:
                        out.append((pth[len(p0) + 1:].lstrip('_'), k, m.group(0), line))
            for text, k, ln in convs:
                if text in vt:
                    out.append((pth[len(p0) + 1:].lstrip('_'), k, text, ln))
    return out


def check_value_codecs(rep, prog):
    n = 0
    for mn in MODS:
        m = prog.module(mn)
        for c in m.classes.values():
            pf = c.find_method('parse')
            wf = c.find_method('__bytearray__')
            if pf is None or wf is None or len(pf.params) < 2 or not (c.defines('parse') or c.props):
                continue
            fns = [pf] if pf.cls is c else []
            for pr in c.props.values():
                for tn in ('bytearray', 'bytes'):
                    f = pr.setters.get(tn)
                    if f is not None and f not in fns and len(f.params) >= 2:
                        fns.append(f)
            convs = []
            for f in fns:
                convs.extend((x, f) for x in _reader_hex_conversions(prog, c, f))
            if not convs:
                continue
            # the widths the parse arms hand to each field
            p0, buf = pf.params[0], pf.params[1]
            widths = {}
            for s in reader_paths(prog, c, pf):
                if s.raised is not None:
                    continue
                reads, _ = codec.reader_sequence(s, buf, cls=c, recv=p0)
                for r in reads:
                    for t in [r.target] + list(r.also):
                        if t and t.startswith(p0 + '.') and '.' not in t[len(p0) + 1:] and r.kind in ('fixed', 'fixed-skip') and r.width is not None:
                            widths.setdefault(t[len(p0) + 1:].lstrip('_'), set()).add(r.width)
            # the writer's way back: int(self.f, 16) emitted with a fixed number of octets is valid for that width only
            wfixed = {}
            wp0 = wf.params[0]
            for s, items in codec.writer_items(prog, wf, Scenario(self_cls=c)):
                for it in merge_consts(items or []):
                    if it[0] == 'INT':
                        mm = re.search(r'int\(%s\.(_?[A-Za-z][A-Za-z0-9_]*)[^,]*, 16\)' % re.escape(wp0), it[2])
                        if mm:
                            wfixed.setdefault(mm.group(1).lstrip('_'), set()).add(it[1])
            seen = set()
            for (fld, kind, text, line), f in convs:
                if (fld, kind, text) in seen:
                    continue
                seen.add((fld, kind, text))
                ws = widths.get(fld, set())
                where = '%s:%d' % (f.module.relpath, line)
                n += 1
                if kind == 'generic':
                    ok, why = True, 'octet-wise hex, any width'
                elif kind == 'lossy':
                    ok, why = False, 'the format does not keep leading zeros: the text is shorter than twice the number of octets'
                else:
                    bad = sorted(w for w in ws if codec._int(w) != kind[1])
                    ok = bool(ws) and not bad
                    why = 'one integer zero-padded to %d octets; the reader hands it %s' % (kind[1], sorted(ws) or 'widths the checker did not find')
                rep.check(ok, 'C08.f', '%s.%s' % (c.name, fld), 'octets -> hex text by %s: %s' % (text[:80], why),
                          'octets kept as hex text must come back with the same length for every width the reader accepts; a fixed-width integer '
                          'format is right for that one width only (a longer value with a small leading octet loses its leading zeros and the '
                          'subpacket re-serialises shorter than its length octet says)', where=where,
                          expected='an octet-wise conversion (hexlify / .hex() / two digits per octet), or a zero-padded width equal to every accepted width',
                          found='%s; accepted widths %s' % (text[:100], sorted(ws)), scenario='hex text of %s' % fld)
            for fld, wset in sorted(wfixed.items()):
                ws = widths.get(fld, set())
                for w in sorted(wset):
                    n += 1
                    ok = codec._int(w) is not None and bool(ws) and all(codec._int(x) == codec._int(w) for x in ws) and codec._int(w) > 1
                    rep.check(ok, 'C08.f', '%s.%s' % (c.name, fld), 'hex text -> octets through one integer of %s octet(s); the reader accepts %s' % (w, sorted(ws)),
                              'the writer turns the hex text back into octets through an integer of fixed (or minimal) width: leading zero octets are '
                              'dropped or the value is padded to another width than was read', where=wf.where,
                              expected='unhexlify / bytes.fromhex, or the one width the reader accepts', found='INT(%s; int(%s, 16))' % (w, fld),
                              scenario='hex text of %s (writer)' % fld)
    if n < 5:
        raise AnalysisError('value codecs: only %d hex-text conversions recognised (key ids and fingerprints)' % n)


# ------------------------------------------------------------------------------------------------ C08.g
def _class_const(prog, c, name):
    """Value of the class-level constant `name` defined in the body of class `c` (literal, enum member, folded expression) or None."""
    av = c.attrs.get(name)
    if av is None:
        return None
    fr = Frame(Interp(prog, Scenario()), FunctionInfo(ast.parse('def _f(): pass').body[0], c.module, c), 0)
    v = fr.ev(av, State())
    if isinstance(v, Const):
        return v.value.value if isinstance(v.value, Enum) else v.value
    return None


def check_dispatch(rep, prog):
    tags = prog.cls('pgpy.constants', 'PacketTag').enum_members()
    pk = prog.module('pgpy.packet.packets')
    by_tag = {}
    for c in pk.classes.values():
        if '__typeid__' in c.attrs:
            t = _class_const(prog, c, '__typeid__')
            if t is None and not (isinstance(c.attrs['__typeid__'], ast.Constant) and c.attrs['__typeid__'].value is None):
                raise AnalysisError('%s.__typeid__ is not a constant the checker can evaluate' % c.name)
            by_tag.setdefault(t, []).append(c)
    for name, val in tags.items():
        if name == 'Invalid':
            continue
        cs = by_tag.get(val, [])
        rep.check(bool(cs), 'C08.g', 'PacketTag.%s' % name, 'tag %d -> %s' % (val, [c.name for c in cs]),
                  'every packet tag PGPy names must have a packet class (unknown tags fall back to Opaque)', where=pk.relpath, scenario=name)
        for c in cs:
            if _class_const(prog, c, '__ver__') == 0:
                # versioned family: at least one concrete version defining both methods
                subs = [s for s in prog.subclasses(c) if (_class_const(prog, s, '__ver__') or 0) > 0]
                ok = bool(subs) and all(s.find_method('parse') is not None and s.find_method('__bytearray__') is not None and
                                        s.find_method('parse').cls.name not in ('Packet', 'PGPObject') for s in subs)
                rep.check(ok, 'C08.g', c.name, 'versions %s' % [s.name for s in subs], 'a versioned packet family needs a concrete version with both codec methods',
                          where=c.where)
    check_opaque(rep, prog)
    check_dispatcher(rep, prog)


def check_opaque(rep, prog):
    """Opaque fallback: the payload is the next header.length octets (minus the version octet the dispatcher already consumed for a
    versioned header), stored untransformed, and exactly those octets are consumed."""
    op = prog.cls('pgpy.packet.types', 'Opaque')
    pf = op.methods.get('parse')
    if pf is None:
        raise AnalysisError('Opaque.parse not found')
    p0, buf = pf.params[0], pf.params[1]
    length = '%s.header.length' % p0
    seen = set()
    for s in reader_paths(prog, op, pf):
        if s.raised is not None:
            continue
        reads, problems = codec.reader_sequence(s, buf, cls=op, recv=p0)
        versioned = _versioned_fact(s, p0)
        seen.add(versioned)
        want = lin_add(length, '1', -1) if versioned else length
        body = [r for r in reads if not (r.kind == 'delegate' and (r.via or '').startswith('super:'))]
        ok = not problems and len(body) == 1 and body[0].kind == 'fixed' and body[0].target == '%s.payload' % p0 and \
            body[0].text == sl(buf, ('', want)) and body[0].post in (None, body[0].text) and body[0].width == want
        rep.check(ok, 'C08.g', 'Opaque.parse', 'payload = %s' % [(r.target, r.text, r.width) for r in body],
                  'an unknown packet is kept verbatim and consumes exactly its own length (header.length, less the version octet already read)',
                  where=pf.where, expected='%s.payload = %s, consumed' % (p0, sl(buf, ('', want))), found=[(r.target, r.post or r.text, r.width) for r in body] + [p[1] for p in problems],
                  scenario='versioned header' if versioned else 'plain header')
    if False not in seen:
        raise AnalysisError('Opaque.parse: the plain header case was not recognised')
    if True not in seen:
        rep.violation('C08.g', 'Opaque.parse', 'no path accounts for the version octet of a versioned header',
                      'for a packet with a versioned header the dispatcher has already consumed the version octet: the opaque payload is header.length - 1 octets',
                      where=pf.where, expected='a path for headers that have a version, taking %s' % lin_add(length, '1', -1), found='header.length on every path',
                      scenario='versioned header')


def _split_top(t, sep=', '):
    parts, depth, cur, i = [], 0, '', 0
    while i < len(t):
        ch = t[i]
        if ch in '([{':
            depth += 1
        elif ch in ')]}':
            depth -= 1
        if depth == 0 and t.startswith(sep, i):
            parts.append(cur)
            cur = ''
            i += len(sep)
            continue
        cur += ch
        i += 1
    parts.append(cur)
    return parts


def _registry_key(x, reg):
    """X = REG[(a, b..)] / REG.get((a, b..)) -> [a, b, ..]; None when X is not a registry lookup."""
    for pre, post in ((reg + '[', ']'), (reg + '.get(', ')')):
        if x.startswith(pre) and x.endswith(post):
            inner = x[len(pre):-len(post)]
            parts = _split_top(inner)
            if pre.endswith('.get(') and len(parts) == 2 and parts[1] == 'None':
                inner = parts[0]
            if inner.startswith('(') and inner.endswith(')') and _balanced(inner[1:-1]):
                return _split_top(inner[1:-1])
    return None


def _balanced(t):
    d = 0
    for ch in t:
        if ch in '([{':
            d += 1
        elif ch in ')]}':
            d -= 1
            if d < 0:
                return False
    return d == 0


def check_dispatcher(rep, prog):
    """MetaDispatchable.__call__ on interpreter paths: which registry entry the object that parses the body is made from."""
    md = prog.method('pgpy.types', 'MetaDispatchable', '__call__')
    if len(md.params) < 2:
        raise AnalysisError('MetaDispatchable.__call__: no packet parameter')
    p0, buf = md.params[0], md.params[1]
    REG, ROOTS = 'REGISTRY', 'ROOTS'
    # helpers of the metaclass itself (an object factory hoisted out of __call__, ...) are followed; everything else stays opaque
    own = lambda fi: fi.cls is not None and fi.cls is md.cls and fi.name != md.name  # noqa: E731
    sc = Scenario(inline=own, bind={'MetaDispatchable._registry': Sym(REG), 'MetaDispatchable._roots': Sym(ROOTS), '%s._registry' % p0: Sym(REG), '%s._roots' % p0: Sym(ROOTS)},
                  args={buf: Sym(buf, nonnull=True)}, axioms={'(%s in %s)' % (p0, ROOTS): True})
    outs = Interp(prog, sc).run(md)
    keys_used, n = [], 0
    parse_nodes = {}
    for s in outs:
        # lookups this path assumed to fail / succeed (a path that assumes both for one key is infeasible)
        failed, found = set(), set()
        ver0 = set()

        def note(sk, truth):
            if not sk:
                return
            if sk[0] == 'not':
                note(sk[1], not truth)
            elif sk[0] == 'and' and truth:
                for x in sk[1]:
                    note(x, True)
            elif sk[0] == 'or' and not truth:
                for x in sk[1]:
                    note(x, False)
            elif sk[0] == 'cmp':
                op, a, b = sk[1], sk[2], sk[3]
                if op in ('in', 'not in') and b == REG:
                    k = tuple(_split_top(a[1:-1])) if a.startswith('(') else (a,)
                    (found if (op == 'in') == truth else failed).add(k)
                elif op in ('is', 'is not', '==', '!=') and 'None' in (a, b):
                    x = a if b == 'None' else b
                    k = _registry_key(x, REG)
                    if k is not None:
                        (failed if (op in ('is', '==')) == truth else found).add(tuple(k))
                elif op == '==' and truth and a.endswith('.__ver__') and b == '0':
                    ver0.add(a[:-len('.__ver__')])
        for fc in s.facts:
            note(fc[2] if len(fc) > 2 else None, fc[1])
        if failed & found:
            continue
        for ft, args, kw, line, node in s.calls:
            if ft.endswith('.parse') and args == [buf]:
                parse_nodes.setdefault(ft[:-len('.parse')], node)
        if s.raised is not None or s.ret is None or render(s.ret) == 'None':
            continue
        if any(fc[0].startswith('except ') for fc in s.facts):
            continue                      # a handler that does not raise: reported by the wrapping rule below
        obj = render(s.ret)
        if not any(e[0] == 'call' and e[1] == obj + '.parse' and e[2] == [buf] for e in s.events):
            if any(e[0] == 'call' and e[1].endswith('.parse') for e in s.events):
                raise AnalysisError('MetaDispatchable.__call__: the returned object (%s) does not parse the body' % obj[:80])
            continue                      # the no-packet path: a plain instance
        m = re.match(r'^(?:object|.+)\.__new__\((.*)\)$', obj)
        x = m.group(1) if m else (obj[:-2] if obj.endswith('()') else None)
        if x is None:
            raise AnalysisError('MetaDispatchable.__call__: unrecognised construction %s' % obj[:120])
        hdr = [e[2] for e in s.events if e[0] == 'store' and e[1] == obj + '.header']
        key = _registry_key(x, REG)
        n += 1
        scen = '; '.join('%s=%s' % (fc[0][:60], fc[1]) for fc in s.facts) or 'straight line'
        form = None
        if key is not None and key[0] == p0:
            if len(key) == 2 and key[1] == 'None':
                form = 'fallback'
            elif len(key) == 2 and key[1].endswith('.typeid'):
                form = 'type'
            elif len(key) == 3 and key[1].endswith('.typeid') and hdr and key[2] == hdr[-1] + '.version':
                form = 'type+version'
        ok = form is not None and not (form != 'fallback' and tuple(key) in failed) and not (x in ver0)
        if form:
            keys_used.append(form)
        rep.check(ok, 'C08.g', 'MetaDispatchable.__call__', 'object made from %s' % x[:160],
                  'the class that parses the body is the registry entry for (root, type) or (root, type, version of the parsed header); when that '
                  'lookup fails, or only the version-0 placeholder is known, it is the opaque entry (root, None)', where=md.where,
                  expected='%s[(root, typeid)] / [(root, typeid, version)] / [(root, None)]' % REG, found=x[:200], scenario=scen)
    if not n:
        raise AnalysisError('MetaDispatchable.__call__: no dispatching path recognised')
    rep.check('fallback' in keys_used and 'type' in keys_used and 'type+version' in keys_used, 'C08.g', 'MetaDispatchable.__call__',
              'registry keys used: %s' % sorted(set(keys_used)), 'unknown type / version falls back to the opaque class; known ones reach their class',
              where=md.where, expected=['fallback', 'type', 'type+version'], found=sorted(set(keys_used)))
    # parse errors of the body (and of a re-parsed versioned header) surface as PGPError
    parents = {}
    for node in ast.walk(md.node):
        for ch in ast.iter_child_nodes(node):
            parents[id(ch)] = node

    def wrapped(node):
        cur, child = parents.get(id(node)), node
        while cur is not None:
            if isinstance(cur, ast.Try) and any(child is st or any(child is x for x in ast.walk(st)) for st in cur.body):
                for h in cur.handlers:
                    names = [dotted(h.type)] if h.type is not None and not isinstance(h.type, ast.Tuple) else \
                        ([dotted(e) for e in h.type.elts] if h.type is not None else [None])
                    if any(nm in (None, 'Exception', 'BaseException') for nm in names):
                        last = h.body[-1] if h.body else None
                        if isinstance(last, ast.Raise) and last.exc is not None:
                            exc = last.exc
                            if isinstance(exc, ast.Name):      # raise <local bound in the handler to the exception object>
                                for st in h.body[:-1]:
                                    if isinstance(st, ast.Assign) and any(isinstance(t, ast.Name) and t.id == exc.id for t in st.targets):
                                        exc = st.value
                            nm = dotted(exc.func) if isinstance(exc, ast.Call) else dotted(exc)
                            ci = prog.lookup(md.module, nm) if nm else None
                            if hasattr(ci, 'is_subclass_of') and ci.is_subclass_of('PGPError'):
                                return True
                        return False
            child, cur = cur, parents.get(id(cur))
        return False
    guarded = 0
    for recv, node in sorted(parse_nodes.items()):
        if recv == '%s.__headercls__()' % p0:
            continue                      # the first header parse of the root class
        guarded += 1
        rep.check(wrapped(node), 'C08.g', 'MetaDispatchable.__call__', '%s.parse(%s) not inside a handler that raises PGPError' % (recv[:100], buf),
                  'a malformed packet surfaces as PGPError', where='%s:%d' % (md.module.relpath, node.lineno), scenario=recv[:100])
    if guarded < 2:
        raise AnalysisError('MetaDispatchable.__call__: body / versioned-header parse calls not recognised')


# ------------------------------------------------------------------------------------------------ C08.h
# An update site is a library function that builds a new packet object, or changes the body of one it was given, and must leave it
# with a header length that matches the body.  The object is identified by what it IS on the interpreter path - the receiver (`self`),
# a parameter, the object a constructor call of a given class returned, the object made by the subpacket-module factory - never by
# the local name it happens to be bound to.  On every path that changes the object, an update_hlen() call on it must follow the last
# change (attribute stores below the object, calls of methods that modify their receiver, setattr).
UPDATE_SITES = [
    # (module, class, method, selector, join undecided branches)
    ('pgpy.pgp', 'PGPUID', 'new', ('new', 'UserAttribute'), False),
    ('pgpy.pgp', 'PGPUID', 'new', ('new', 'UserID'), False),
    ('pgpy.pgp', 'PGPMessage', 'new', ('new', 'LiteralData'), False),
    ('pgpy.pgp', 'PGPSignature', 'make_onepass', ('new', 'OnePassSignatureV3'), False),
    ('pgpy.pgp', 'PGPKey', '_sign', ('param', 'sig', '._signature'), True),
    ('pgpy.pgp', 'PGPKey', 'add_subkey', ('new', 'PrivSubKeyV4'), False),
    ('pgpy.pgp', 'PGPMessage', '__bytearray__', ('new', 'CompressedData'), False),
    ('pgpy.packet.packets', 'PKESessionKeyV3', 'encrypt_sk', ('self',), False),
    ('pgpy.packet.packets', 'SKESessionKeyV4', 'encrypt_sk', ('self',), False),
    ('pgpy.packet.packets', 'IntegrityProtectedSKEDataV1', 'encrypt', ('self',), False),
    ('pgpy.packet.packets', 'IntegrityProtectedSKEDataV1', 'encrypt', ('new', 'MDC'), False),
    ('pgpy.packet.packets', 'PrivKeyV4', 'new', ('new', 'PrivKeyV4'), False),
    ('pgpy.packet.packets', 'PrivKeyV4', 'pubkey', ('new', 'PubKeyV4'), False),
    ('pgpy.packet.packets', 'PrivKeyV4', 'pubkey', ('new', 'PubSubKeyV4'), False),
    ('pgpy.packet.packets', 'PrivKeyV4', 'protect', ('self',), False),
    ('pgpy.packet.fields', 'SubPackets', 'addnew', ('factory', '_spmodule'), False),
]

BUILTIN_MUTATORS = {'append', 'extend', 'insert', 'update', 'add', 'remove', 'pop', 'clear', 'setdefault', 'sort', 'reverse', 'popitem', 'discard',
                    'appendleft', 'extendleft'}


def _root_name(n):
    while isinstance(n, (ast.Attribute, ast.Subscript)):
        n = n.value
    return n.id if isinstance(n, ast.Name) else None


def mutating_methods(prog):
    """Names of methods (of the packet layer) that modify their receiver: a definition stores to / deletes / setattr()s an attribute or
    item of its first parameter, calls a container mutator on one of its attributes, or calls another such method on it."""
    cached = prog.__dict__.get('_c08_mutators')
    if cached is not None:
        return cached
    defs = {}
    for c in prog.all_classes():
        if not c.module.name.startswith('pgpy.packet'):
            continue
        for name, fi in c.methods.items():
            defs.setdefault(name, []).append(fi)
    muts = set()

    def direct(fi):
        if not fi.params:
            return False
        me = fi.params[0]
        for n in ast.walk(fi.node):
            if isinstance(n, (ast.Attribute, ast.Subscript)) and isinstance(n.ctx, (ast.Store, ast.Del)) and _root_name(n) == me:
                return True
            if isinstance(n, ast.Call):
                if dotted(n.func) == 'setattr' and n.args and _root_name(n.args[0]) == me:
                    return True
                if isinstance(n.func, ast.Attribute) and n.func.attr in BUILTIN_MUTATORS and isinstance(n.func.value, (ast.Attribute, ast.Subscript)) and \
                        _root_name(n.func.value) == me:
                    return True
        return False
    for name, fis in defs.items():
        if any(direct(fi) for fi in fis):
            muts.add(name)
    changed = True
    while changed:
        changed = False
        for name, fis in defs.items():
            if name in muts:
                continue
            for fi in fis:
                me = fi.params[0] if fi.params else None
                if any(isinstance(n, ast.Call) and isinstance(n.func, ast.Attribute) and n.func.attr in muts and n.func.attr != name and
                       _root_name(n.func.value) == me for n in ast.walk(fi.node)):
                    muts.add(name)
                    changed = True
                    break
    muts.discard('update_hlen')
    prog.__dict__['_c08_mutators'] = muts
    return muts


def _site_roots(f, s, sel):
    """Texts under which the selected object appears in the events of path `s`."""
    if sel[0] == 'self':
        return [f.params[0]]
    if sel[0] == 'param':
        if sel[1] not in f.params:
            raise AnalysisError('%s has no parameter %s' % (f.qualname, sel[1]))
        return [sel[1] + sel[2]]
    roots, last = [], None
    for e in s.events:
        if e[0] == 'call':
            ft = e[1]
            if sel[0] == 'new' and ft == sel[1]:
                last = _calltext(ft, e[2], e[3])
                roots.append(last)
                continue
            if sel[0] == 'factory' and '%s.%s' % (f.params[0], sel[1]) in ft:
                roots.append(_calltext(ft, e[2], e[3]))
        elif e[0] == 'assign' and last is not None and e[2] == e[1]:
            roots.append(e[1])            # the constructed object is rendered by the local it was bound to first
        last = None
    return roots


def _site_events(s, root, muts, direct=True):
    """(indices of body changes, indices of update_hlen calls) of the object `root` in the ordered event log."""
    ch, up = [], []
    for i, e in enumerate(s.events):
        if e[0] == 'store' and (e[1].startswith(root + '.') or e[1].startswith(root + '[')):
            ch.append((i, e[1]))
        elif e[0] == 'call':
            ft, args = e[1], e[2]
            if ft == 'setattr' and args and (args[0] == root or args[0].startswith(root + '.')):
                ch.append((i, 'setattr(%s, ...)' % args[0]))
            elif ft == root + '.update_hlen':
                up.append(i)
            elif ft.startswith(root + '.'):
                meth = ft.split('.')[-1]
                recv = ft[:-(len(meth) + 1)]
                if (recv != root or direct) and (meth in muts or meth in BUILTIN_MUTATORS):
                    ch.append((i, ft + '()'))
    return ch, up


def check_update_hlen(rep, prog):
    muts = mutating_methods(prog)
    for mod, cls, meth, sel, join in UPDATE_SITES:
        f = prog.method(mod, cls, meth)
        rep.saw(fn=f)
        try:
            outs = Interp(prog, Scenario(inline=noinline, join_unknown=join)).run(f)
        except AnalysisError as ex:
            if join or 'path explosion' not in str(ex):
                raise
            # too many independent branches to enumerate: join the arms of undecided tests (the ordered event log keeps every change and
            # every update_hlen call; events after a join stay after it)
            outs = Interp(prog, Scenario(inline=noinline, join_unknown=True)).run(f)
        seen, bad = 0, []
        for s in outs:
            if s.raised is not None:
                continue
            for root in _site_roots(f, s, sel):
                ch, up = _site_events(s, root, muts, direct=sel[0] != 'self')
                if not ch and not up:
                    continue
                seen += 1
                if ch and not (up and max(up) > max(i for i, _ in ch)):
                    last = max(ch)
                    bad.append('%s after %s' % ('no update_hlen()' if not up or max(up) < last[0] else 'update_hlen() only', last[1].replace(root, '<obj>', 1)))
        what = {'self': 'the receiver', 'param': 'parameter %s' % ''.join(sel[1:]), 'new': 'the new %s' % sel[-1], 'factory': 'the new subpacket'}[sel[0]]
        if not seen:
            raise AnalysisError('update site %s.%s: %s is not built or changed on any path' % (cls, meth, what))
        rep.check(not bad, 'C08.h', '%s.%s' % (cls, meth), '%s: %s' % (what, bad[0] if bad else 'update_hlen() follows the last body change on %d path(s)' % seen),
                  'the packet body is built or changed and the header length is not recomputed afterwards: header length != body length', where=f.where,
                  expected='update_hlen() on %s after the last change, on every path' % what, found=sorted(set(bad))[:3], scenario=what)


def _hlen_formula(rep, prog, f, const, label, why):
    """header.length := len(serialised object) - len(header) + const, compared as an integer-linear form of the interpreter value."""
    p0 = f.params[0]
    want = ({'len(%s.__bytearray__())' % p0: 1, 'len(%s.header)' % p0: -1}, const)
    n = 0
    for s in Interp(prog, Scenario(inline=noinline)).run(f):
        if s.raised is not None:
            continue
        v = [val for pth, val, l, _ in s.stores if pth == '%s.header.length' % p0]
        n += 1
        rep.check(len(v) == 1 and lin_parse(v[0].replace('.__bytes__()', '.__bytearray__()')) == want, 'C08.h', label, '%s' % v, why, where=f.where,
                  expected=lin_norm('len(%s.__bytearray__()) - len(%s.header) + %d' % (p0, p0, const)), found=v)
    if not n:
        raise AnalysisError('%s has no returning path' % label)


def check_update_hlen_defs(rep, prog):
    _hlen_formula(rep, prog, prog.method('pgpy.packet.types', 'Packet', 'update_hlen'), 0, 'Packet.update_hlen',
                  'header length = serialised length minus the header (tag + length octets)')
    _hlen_formula(rep, prog, prog.method('pgpy.packet.subpackets.types', 'SubPacket', 'update_hlen'), 1, 'SubPacket.update_hlen',
                  'subpacket length counts the type octet')
    # packets that nest length-carrying containers: on every path the inner lengths are recomputed first, then the packet's own
    # (order of the two call events, whatever the super call is spelled like)
    pk = prog.module('pgpy.packet.packets')
    nested = [c for c in pk.classes.values() if c.defines('update_hlen')]
    for want in ('SignatureV4', 'UserAttribute'):
        if want not in [c.name for c in nested]:
            raise AnalysisError('%s.update_hlen not found' % want)
    for c in nested:
        f = c.methods['update_hlen']
        p0 = f.params[0]
        for s in Interp(prog, Scenario(inline=noinline, self_cls=c)).run(f):
            if s.raised is not None:
                continue
            calls = [e[1] for e in s.events if e[0] == 'call' and e[1].split('.')[-1] == 'update_hlen']
            bases = set(k.name for k in c.mro()[1:])
            own = [i for i, ft in enumerate(calls) if ft.startswith('super:') or ft[:-len('.update_hlen')] in bases]
            inner = [i for i, ft in enumerate(calls) if ft.startswith(p0 + '.') and ft.count('.') >= 2]
            ok = len(own) == 1 and bool(inner) and max(inner) < own[0]
            rep.check(ok, 'C08.h', '%s.update_hlen' % c.name, 'calls in order: %s' % calls,
                      'nested subpacket lengths are recomputed before the packet length (the packet length is computed from the serialised body)',
                      where=f.where, expected='<container>.update_hlen() then the inherited update_hlen()', found=calls)
    ln = prog.method('pgpy.packet.types', 'Header', '__len__')
    for s in Interp(prog, Scenario(inline=noinline)).run(ln):
        rep.check(s.ret is not None and lin_parse(render(s.ret)) == ({'%s.llen' % ln.params[0]: 1}, 1), 'C08.h', 'packet Header.__len__', render(s.ret),
                  'header length = tag octet + length octets', where=ln.where)
