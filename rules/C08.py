"""C08 - Packet codec: own output re-parses byte-exactly; foreign input normalises once (reader/writer agreement).

For EVERY class that has both `parse` and `__bytearray__` (own or through its MRO) the reader sequence (E2) and the writer byte
terms (E1) are extracted on every path and checked:
  C08.a consume-what-you-read: every slice read from the buffer is consumed (by a `del` of at least that width) before the next read
  C08.b alias-then-consume: after the input buffer was stored without copying, nothing may consume from it
  C08.c field order: the fields the reader fills, in order, are the fields the writer emits, in order (with their fixed widths)
  C08.d remainder arithmetic: a trailing `header.length - k` read must leave out exactly what was consumed before it
  C08.e length-covers-what-follows: each length the writer emits is followed by exactly the octets it counts
  C08.f text codec symmetry: a text field is written with the codec it is read with
  C08.g dispatch table: every packet tag has a class (or is deliberately opaque); versioned classes define both methods
  C08.h update-after-mutation: library code that builds or changes a packet body recomputes its header length afterwards
  C08.i header length-of-length follows the length also for parsed old-format headers (with C09.2)
"""
import ast
import re

from sa.interp import Interp, Scenario, Sym, Const, Bytes, Enum, render, render_items, render_item, merge_consts
from sa.loader import AnalysisError, dotted
from sa import codec, tables

noinline = lambda f: False  # noqa: E731

MODS = ['pgpy.packet.packets', 'pgpy.packet.fields', 'pgpy.packet.subpackets.signature', 'pgpy.packet.subpackets.userattribute',
        'pgpy.packet.subpackets.types', 'pgpy.packet.types']


def codec_classes(prog):
    out = []
    for mn in MODS:
        m = prog.module(mn)
        for c in m.classes.values():
            pf, wf = c.find_method('parse'), c.find_method('__bytearray__')
            if pf is None or wf is None:
                continue
            if not (c.defines('parse') or c.defines('__bytearray__')):
                continue
            if pf.cls.name == 'PGPObject' and wf.cls.name == 'PGPObject':
                continue
            out.append((c, pf, wf))
    return out


def base_offset(cls):
    """How many octets of header.length are consumed by the header itself before the body fields (derived from update_hlen)."""
    names = [k.name for k in cls.mro()]
    if 'SubPacket' in names:
        return 1          # SubPacket.update_hlen: length counts the type octet
    if 'VersionedPacket' in names:
        return 1          # Packet.update_hlen: len(bytes) - len(header); VersionedHeader emits the version octet but len() excludes it
    return 0


def run(rep, prog, tier):
    rep.rule('C08.a', 'every slice read is consumed before the next read', floor=60)
    rep.rule('C08.b', 'nothing consumes from an aliased input buffer', floor=60)
    rep.rule('C08.c', 'reader field order = writer field order (names and fixed widths)', floor=30)
    rep.rule('C08.d', 'trailing remainder read = header.length - (header octets + fixed widths read before)', floor=15)
    rep.rule('C08.e', 'each emitted length is followed by the octets it counts', floor=4)
    rep.rule('C08.f', 'text fields are written with the codec they are read with', floor=6)
    rep.rule('C08.g', 'dispatch coverage: packet tags and versioned classes', floor=18)
    rep.rule('C08.h', 'update_hlen after building or changing a packet body', floor=10)
    rep.rule('C08.i', 'old-format header width follows the length', floor=1)
    rep.assume('MPI(buf), ECPoint(buf), Klass(buf) and sub.parse(buf) consume exactly what the corresponding writer emits (each is itself a checked pair)')
    rep.assume('value normalisations that are fixed points (flag masks, canonical lengths, MPI bit counts) are allowed by the statement')

    classes = codec_classes(prog)
    rep.extra['codec_classes'] = [c.name for c, _, _ in classes]
    for c, pf, wf in classes:
        rep.saw(cls=c)
        check_reader(rep, prog, c, pf)
        check_writer_lengths(rep, prog, c, wf)
    check_field_order(rep, prog, classes)
    check_text_codecs(rep, prog)
    check_dispatch(rep, prog)
    check_update_hlen(rep, prog)
    check_update_hlen_defs(rep, prog)
    from rules import C09
    # old-format width recomputation (same rule as C09.2, reported here under C08.i)
    H = prog.cls('pgpy.types', 'Header')
    sub = type('R', (), {})
    before = len(rep.findings)
    C09.widths(_Proxy(rep, 'C08.i'), prog, H)


class _Proxy(object):
    """Re-labels the rule id of a shared rule family."""
    def __init__(self, rep, rid):
        self.rep, self.rid = rep, rid

    def __getattr__(self, k):
        return getattr(self.rep, k)

    def check(self, cond, rid, *a, **kw):
        return self.rep.check(cond, self.rid, *a, **kw)

    def violation(self, rid, *a, **kw):
        return self.rep.violation(self.rid, *a, **kw)

    def ok(self, rid, *a, **kw):
        return self.rep.ok(self.rid, *a, **kw)


def reader_paths(prog, c, pf):
    sc = Scenario(inline=noinline, forward_stores=False, model_del=False, self_cls=c)
    outs = Interp(prog, sc).run(pf)
    res = []
    for s in outs:
        if s.raised is not None and s.ret is None and not any(e[0] in ('store', 'del') for e in s.events):
            continue
        res.append(s)
    return res


def check_reader(rep, prog, c, pf):
    buf = pf.params[1] if len(pf.params) > 1 else 'packet'
    for s in reader_paths(prog, c, pf):
        reads, problems = codec.reader_sequence(s, buf, cls=c)
        scen = '; '.join('%s=%s' % (f[0][:50], f[1]) for f in s.facts) or 'straight line'
        construct = '%s.parse' % c.name if pf.cls is c else '%s.parse (inherited by %s)' % (pf.cls.name, c.name)
        a = [p for p in problems if p[0] in ('consume-what-you-read', 'read-offset', 'unmodelled-del')]
        # one named exception: SubPackets.parse copies the whole hashed area out verbatim (C05) before parsing it field by field;
        # that copy is a deliberate peek, not a field read
        if c.name in ('SubPackets', 'UserAttributeSubPackets') and pf.cls.name == 'SubPackets':
            a = [p for p in a if not ('SLICE(packet;;(2 + self.bytes_to_int(SLICE(packet;;2))))' in p[1] or '(self.bytes_to_int(SLICE(packet;;2)) + 2)' in p[1])]
        b = [p for p in problems if p[0] == 'alias-then-consume']
        rep.check(not a, 'C08.a', construct, a[0][1] if a else 'consumes what it reads',
                  'the reader reads octets it does not consume (or consumes fewer than it read): the next field starts at the wrong offset'
                  if a else 'ok', where='%s:%d' % (pf.module.relpath, a[0][2] if a else pf.node.lineno), scenario=scen, found=[p[1] for p in a])
        rep.check(not b, 'C08.b', construct, b[0][1] if b else 'no consumption after aliasing',
                  'the input buffer was stored without copying and is consumed afterwards: the stored field loses octets' if b else 'ok',
                  where='%s:%d' % (pf.module.relpath, b[0][2] if b else pf.node.lineno), scenario=scen, found=[p[1] for p in b])
        check_remainder(rep, c, pf, reads, scen, construct)


def _linear(text):
    """Parse `self.header.length - k` / `(self.header.length - (6 + x))` into (coefficient of header.length, constant, symbols)."""
    t = text.replace(' ', '')
    while t.startswith('(') and t.endswith(')') and _bal(t[1:-1]):
        t = t[1:-1]
    if t == 'self.header.length':
        return 0, []
    m = re.match(r'^self\.header\.length-(.+)$', t)
    if not m:
        return None
    rest = m.group(1)
    while rest.startswith('(') and rest.endswith(')') and _bal(rest[1:-1]):
        rest = rest[1:-1]
    const, syms = 0, []
    for part in _split_plus(rest):
        if re.match(r'^\d+$', part):
            const += int(part)
        else:
            syms.append(part)
    return const, syms


def _bal(s):
    d = 0
    for ch in s:
        if ch in '([{':
            d += 1
        elif ch in ')]}':
            d -= 1
            if d < 0:
                return False
    return d == 0


def _split_plus(t):
    parts, depth, cur = [], 0, ''
    for ch in t:
        if ch in '([{':
            depth += 1
        elif ch in ')]}':
            depth -= 1
        if ch == '+' and depth == 0:
            parts.append(cur)
            cur = ''
        else:
            cur += ch
    parts.append(cur)
    return parts


def check_remainder(rep, c, pf, reads, scen, construct):
    """C08.d on one reader path."""
    base = base_offset(c)
    if c.name == 'Opaque' and "hasattr(self.header, 'version')=True" in scen:
        base = 1          # the version octet of a versioned header was already read by the dispatcher
    fixed_before = 0
    sym_before = []
    seen_var = False
    for r in reads:
        if r.kind in ('fixed', 'fixed-skip', 'skip', 'fixed-delegate') and r.width is not None:
            w = r.width
            wi = codec._int(w)
            if wi is not None:
                if not seen_var:
                    fixed_before += wi
                continue
            lin = _linear(w)
            if lin is None:
                # a variable width that is not a remainder (e.g. a length read from the data): it precedes a later remainder symbolically
                sym_before.append(w.replace(' ', ''))
                continue
            const, syms = lin
            want = base + fixed_before
            # symbolic widths consumed before must appear in the subtrahend
            ok = const == want and sorted(s.replace(' ', '') for s in syms) == sorted(sym_before) and not seen_var
            rep.check(ok, 'C08.d', construct, 'remainder %s after %d header + %d fixed octets%s' % (w, base, fixed_before, (' + ' + ' + '.join(sym_before)) if sym_before else ''),
                      'the last field is read as header.length minus a constant that does not equal the octets already consumed: '
                      'the reader takes too many or too few octets and the following packet is mis-framed', where='%s:%d' % (pf.module.relpath, r.line),
                      expected='self.header.length - %s' % ' - '.join([str(want)] + sym_before) if (want or sym_before) else 'self.header.length',
                      found=w, scenario=scen)
            seen_var = True
        elif r.kind == 'delegate' and not (r.via or '').startswith('super:'):
            # a sub-parser consumes an unknown amount: a later remainder cannot be checked by constants (SKESK uses len(s2k))
            if r.via and not r.via.startswith('setter:'):
                sym_before.append('len(%s)' % (r.via[:-len('.parse')] if r.via.endswith('.parse') else r.via))
                if r.via.endswith('s2k.parse'):
                    # axiom: the usage octet inserted by SKESessionKeyV4.parse stands in for the version octet
                    fixed_before -= base


def check_writer_lengths(rep, prog, c, wf):
    if wf.cls is not c:
        return
    for s, items in codec.writer_items(prog, wf, Scenario(self_cls=c)):
        if items is None:
            continue
        for ok, lenitem, x, follow in codec.length_covers(items):
            rep.check(ok, 'C08.e', '%s.__bytearray__' % c.name, '%s not followed by %s' % (lenitem, x),
                      'a length prefix counts something other than the octets that follow it (characters instead of encoded octets, another field)',
                      where=wf.where, expected='%s ... %s' % (lenitem, x), found='%s then %s' % (lenitem, follow), scenario=c.name)


# ------------------------------------------------------------------------------------------------ C08.c
def _field_of(text):
    """Name of the object attribute a writer term / reader target refers to."""
    m = re.search(r'self\.(_?[A-Za-z][A-Za-z0-9_]*)', text or '')
    if not m:
        return None
    n = m.group(1).lstrip('_')
    return n


WIDTH_OF_ITEM = {'BYTE': '1'}


def writer_fields(items):
    out = []
    for it in merge_consts(items):
        k = it[0]
        if k == 'C':
            out.append((None, str(len(it[1]))))
        elif k == 'INT':
            out.append((_field_of(it[2]), it[1]))
        elif k == 'BYTE':
            out.append((_field_of(it[1]), '1'))
        elif k == 'SYM':
            if 'header.__bytearray__' in it[1] or it[1].startswith('super('):
                out.append(('<header>', None))
            else:
                out.append((_field_of(it[1]), None))
        elif k == 'SLICE':
            inner = it[1] if isinstance(it[1], str) else render_items(it[1])
            out.append((_field_of(inner), None))
        elif k in ('EACH', 'REP', 'ALT', 'HASH'):
            out.append((_field_of(render_item(it)) or '<loop>', None))
    return out


def reader_fields(reads):
    out = []
    for r in reads:
        if r.kind == 'delegate' and (r.via or '').startswith('super:'):
            out.append(('<header>', None))
        elif r.kind in ('fixed', 'fixed-skip', 'delegate', 'alias', 'fixed-delegate'):
            name = _field_of(r.target) if r.target and r.target.startswith('self.') else None
            if name is None and r.kind == 'delegate' and r.via and r.via.startswith('self.'):
                name = _field_of(r.via)
            out.append((name, r.width))
        elif r.kind == 'skip':
            out.append((None, r.width))
    return out


SKIP_ORDER = {'Header', 'VersionedHeader', 'EmbeddedSignatureHeader', 'SubPackets', 'UserAttributeSubPackets', 'Packet', 'SubPacket',
              'Signature', 'PubKey', 'PrivKey', 'CipherText', 'OpaquePubKey', 'OpaquePrivKey', 'MPIs', 'Image', 'EmbeddedSignature', 'String2Key'}


def check_field_order(rep, prog, classes):
    for c, pf, wf in classes:
        if c.name in SKIP_ORDER or pf.cls is not c or wf.cls is not c:
            continue
        rps = [s for s in reader_paths(prog, c, pf) if s.raised is None]
        wps = [(s, it) for s, it in codec.writer_items(prog, wf, Scenario(self_cls=c)) if it is not None]
        if not rps or not wps:
            continue
        buf = pf.params[1] if len(pf.params) > 1 else 'packet'
        # compare the set of field-name sequences: every reader path must have a writer path with the same named-field order
        wseqs = []
        for s, items in wps:
            wf_ = [n for n, w in writer_fields(items) if n and n != '<header>' and n != '<loop>']
            wseqs.append(wf_)
        for s in rps:
            reads, _ = codec.reader_sequence(s, buf, cls=c)
            rf = [n for n, w in reader_fields(reads) if n and n != '<header>']
            # locals used only as lengths (nlen, vlen, fnl, oidlen) have no name; duplicates of the same field collapse
            rf = _dedupe(rf)
            scen = '; '.join('%s=%s' % (f[0][:40], f[1]) for f in s.facts) or 'straight line'
            match = any(_dedupe(w) == rf or _subseq(rf, _dedupe(w)) for w in wseqs)
            rep.check(match, 'C08.c', '%s parse/__bytearray__' % c.name, 'reader fields %s vs writer fields %s' % (rf, [_dedupe(w) for w in wseqs][:2]),
                      'the reader fills the fields in an order the writer does not emit them in: own output does not re-parse to the same values',
                      where=pf.where, expected=[_dedupe(w) for w in wseqs][:2], found=rf, scenario=scen)
        # fixed widths: positions where both sides have a constant width must agree
        for s in rps[:1]:
            reads, _ = codec.reader_sequence(s, buf, cls=c)
            skipk = set(_field_of(r.target) for r in reads if r.kind == 'fixed-skip' and r.target)
            rw = {n: w for n, w in reader_fields(reads) if n and codec._int(w) is not None and n not in skipk}
            for sw, items in wps[:1]:
                ww = {n: w for n, w in writer_fields(items) if n and w is not None and codec._int(w) is not None}
                for n in rw:
                    if n in ww and codec._int(rw[n]) != codec._int(ww[n]):
                        # a reader that consumes more than the named field (skip) is a normalisation; narrower writer is a defect
                        rep.violation('C08.c', '%s parse/__bytearray__' % c.name, 'field %s: reader %s octets, writer %s' % (n, rw[n], ww[n]),
                                      'field %s is read with %s octets but written with %s' % (n, rw[n], ww[n]), where=pf.where)
                    elif n in ww:
                        rep.ok('C08.c', '%s.%s' % (c.name, n), 'width %s both ways' % rw[n])
    # key material: parse order = __pubfields__ / __privfields__ order
    fields = prog.module('pgpy.packet.fields')
    for c in fields.classes.values():
        pf = c.methods.get('parse')
        if pf is None:
            continue
        decl = None
        if c.name.endswith('Pub') and c.find_attr('__pubfields__') is not None:
            decl = list(ast.literal_eval(c.find_attr('__pubfields__')))
        elif c.name.endswith('Priv') and c.find_attr('__privfields__') is not None:
            decl = list(ast.literal_eval(c.find_attr('__privfields__')))
        elif c.find_attr('__mpis__') is not None and not c.name.endswith('Priv'):
            try:
                decl = list(ast.literal_eval(c.find_attr('__mpis__')))
            except Exception:
                decl = None
        if not decl:
            continue
        order = []
        for n in ast.walk(pf.node):
            pass
        for st in ast.walk(pf.node):
            if isinstance(st, ast.Assign) and isinstance(st.targets[0], ast.Attribute) and isinstance(st.value, ast.Call) and \
                    dotted(st.value.func) in ('MPI', 'ECPoint') and ast.unparse(st.targets[0].value) == 'self':
                if st.targets[0].attr not in order:
                    order.append(st.targets[0].attr)
        order_decl = [x for x in order if x in decl]
        rep.check(order_decl == decl, 'C08.c', '%s.parse' % c.name, 'MPI read order %s, declared/written order %s' % (order, decl),
                  'the integers are written in the declared field order; the reader must fill them in the same order', where=pf.where,
                  expected=decl, found=order)


def _dedupe(seq):
    out = []
    for x in seq:
        if not out or out[-1] != x:
            out.append(x)
    return out


def _subseq(a, b):
    """a is a subsequence of b or b of a (one side may name helper fields the other folds together)."""
    def sub(x, y):
        it = iter(y)
        return all(any(e == f for f in it) for e in x)
    return sub(a, b) or sub(b, a)


# ------------------------------------------------------------------------------------------------ C08.f
def check_text_codecs(rep, prog):
    n = 0
    for mn in ('pgpy.packet.subpackets.signature', 'pgpy.packet.packets'):
        m = prog.module(mn)
        for c in m.classes.values():
            wf = c.methods.get('__bytearray__')
            if wf is None:
                continue
            wsrc = ast.unparse(wf.node)
            for pname, prop in c.props.items():
                sb = prop.setters.get('bytearray')
                if sb is None:
                    continue
                ssrc = ast.unparse(sb.node)
                rc = None
                m1 = re.search(r"val\.decode\((?:'([^']*)')?\)", ssrc)
                if m1:
                    rc = (m1.group(1) or 'utf-8')
                elif '_decode_text(val)' in ssrc:
                    rc = _decode_text_primary(prog, c)
                if rc is None:
                    continue
                m2 = re.search(r"self\.%s\.encode\((?:'([^']*)')?\)" % pname, wsrc)
                if not m2:
                    continue
                wc = m2.group(1) or 'utf-8'
                n += 1
                rep.check(_norm_codec(wc) == _norm_codec(rc), 'C08.f', '%s.%s' % (c.name, pname), 'read %s, written %s' % (rc, wc),
                          'text read with one codec and written with another changes the octets on every parse/serialise pass', where=wf.where,
                          expected=rc, found=wc, scenario=c.name)
    # LiteralData.filename and UserID.uid (plain attributes)
    lit = prog.cls('pgpy.packet.packets', 'LiteralData')
    ps, ws = ast.unparse(lit.methods['parse'].node), ast.unparse(lit.methods['__bytearray__'].node)
    r = re.search(r"self\.filename = packet\[:fnl\]\.decode\((?:'([^']*)')?\)", ps)
    w = re.search(r"self\.filename\.encode\((?:'([^']*)')?\)", ws)
    rep.check(bool(r and w) and _norm_codec(r.group(1) or 'utf-8') == _norm_codec(w.group(1) or 'utf-8'), 'C08.f', 'LiteralData.filename',
              'read %s, written %s' % (r.group(1) if r else None, w.group(1) if w else None), 'the file name is written with the codec it is read with',
              where=lit.where)
    uid = prog.cls('pgpy.packet.packets', 'UserID')
    ps, ws = ast.unparse(uid.methods['parse'].node), ast.unparse(uid.methods['__bytearray__'].node)
    ok = "uid_bytes.decode('utf-8')" in ps and "uid_bytes.decode('charmap')" in ps and 'self._encoding_fallback = True' in ps and \
        "'utf-8' if not self._encoding_fallback else 'charmap'" in ws and 'self.uid.encode(textenc)' in ws
    rep.check(ok, 'C08.f', 'UserID.uid', 'utf-8 with remembered charmap fallback', 'a user id that is not UTF-8 is written back with the fallback codec it was read with',
              where=uid.where)


def _decode_text_primary(prog, c):
    f = c.find_method('_decode_text')
    if f is None:
        return None
    src = ast.unparse(f.node)
    m = re.search(r"try:\s*return val\.decode\('([^']*)'\)", src)
    return m.group(1) if m else None


def _norm_codec(x):
    return (x or '').lower().replace('_', '-').replace('utf8', 'utf-8')


# ------------------------------------------------------------------------------------------------ C08.g
def check_dispatch(rep, prog):
    tags = prog.cls('pgpy.constants', 'PacketTag').enum_members()
    pk = prog.module('pgpy.packet.packets')
    by_tag = {}
    for c in pk.classes.values():
        t = c.attrs.get('__typeid__')
        if t is not None:
            try:
                by_tag.setdefault(ast.literal_eval(t), []).append(c)
            except Exception:
                pass
    for name, val in tags.items():
        if name == 'Invalid':
            continue
        cs = by_tag.get(val, [])
        rep.check(bool(cs), 'C08.g', 'PacketTag.%s' % name, 'tag %d -> %s' % (val, [c.name for c in cs]),
                  'every packet tag PGPy names must have a packet class (unknown tags fall back to Opaque)', where=pk.relpath, scenario=name)
        for c in cs:
            ver = c.attrs.get('__ver__')
            if ver is not None and ast.literal_eval(ver) == 0:
                # versioned family: at least one concrete version defining both methods
                subs = [s for s in prog.subclasses(c) if s.attrs.get('__ver__') is not None and ast.literal_eval(s.attrs['__ver__']) > 0]
                ok = bool(subs) and all(s.find_method('parse') is not None and s.find_method('__bytearray__') is not None and
                                        s.find_method('parse').cls.name not in ('Packet', 'PGPObject') for s in subs)
                rep.check(ok, 'C08.g', c.name, 'versions %s' % [s.name for s in subs], 'a versioned packet family needs a concrete version with both codec methods',
                          where=c.where)
    # Opaque fallback keeps the payload verbatim and is bounded by the header length
    op = prog.cls('pgpy.packet.types', 'Opaque')
    ps = ast.unparse(op.methods['parse'].node).replace(' ', '')
    rep.check('pend=self.header.length' in ps and "ifhasattr(self.header,'version'):pend-=1" in ps.replace('\n', '') and 'self.payload=packet[:pend]' in ps and
              'delpacket[:pend]' in ps, 'C08.g', 'Opaque.parse', 'payload = header.length octets (minus a version octet already read)',
              'an unknown packet is kept verbatim and consumes exactly its own length', where=op.where)
    md = prog.method('pgpy.types', 'MetaDispatchable', '__call__')
    src = ast.unparse(md.node)
    rep.check('ncls = MetaDispatchable._registry[rcls, None]' in src.replace('(', '').replace(')', '') or 'MetaDispatchable._registry[(rcls, None)]' in src,
              'C08.g', 'MetaDispatchable.__call__', 'Opaque fallback', 'unknown type / version falls back to the opaque class', where=md.where)
    rep.check('raise PGPError(str(ex)) from ex' in src, 'C08.g', 'MetaDispatchable.__call__', 'parse errors wrapped', 'a malformed packet surfaces as PGPError', where=md.where)


# ------------------------------------------------------------------------------------------------ C08.h
UPDATE_SITES = [
    # (module, class, method, object text, scenario axioms)
    ('pgpy.pgp', 'PGPUID', 'new', 'uid._uid', {}),
    ('pgpy.pgp', 'PGPMessage', 'new', 'lit', {}),
    ('pgpy.pgp', 'PGPSignature', 'make_onepass', 'onepass', {}),
    ('pgpy.pgp', 'PGPKey', '_sign', 'sig._signature', {}),
    ('pgpy.pgp', 'PGPKey', 'add_subkey', 'key._key', {}),
    ('pgpy.pgp', 'PGPMessage', '__bytearray__', 'comp', {}),
    ('pgpy.packet.packets', 'PKESessionKeyV3', 'encrypt_sk', 'self', {}),
    ('pgpy.packet.packets', 'SKESessionKeyV4', 'encrypt_sk', 'self', {}),
    ('pgpy.packet.packets', 'IntegrityProtectedSKEDataV1', 'encrypt', 'self', {}),
    ('pgpy.packet.packets', 'IntegrityProtectedSKEDataV1', 'encrypt', 'mdc', {}),
    ('pgpy.packet.packets', 'PrivKeyV4', 'new', 'pk', {}),
    ('pgpy.packet.packets', 'PrivKeyV4', 'pubkey', 'pk', {}),
    ('pgpy.packet.packets', 'PrivKeyV4', 'protect', 'self', {}),
    ('pgpy.packet.fields', 'SubPackets', 'addnew', 'nsp', {}),
]


def check_update_hlen(rep, prog):
    for mod, cls, meth, obj, ax in UPDATE_SITES:
        f = prog.method(mod, cls, meth)
        rep.saw(fn=f)
        # syntactic: the last statement that stores to / mutates obj must be followed (in program order on the same block level
        # or later) by obj.update_hlen()
        stores, updates = [], []
        for n in ast.walk(f.node):
            if isinstance(n, (ast.Assign, ast.AugAssign)):
                for t in (n.targets if isinstance(n, ast.Assign) else [n.target]):
                    if isinstance(t, ast.Attribute) and (ast.unparse(t.value) == obj or ast.unparse(t.value).startswith(obj + '.')):
                        stores.append(n.lineno)
            if isinstance(n, ast.Call) and isinstance(n.func, ast.Attribute):
                base = ast.unparse(n.func.value)
                if n.func.attr == 'update_hlen' and base == obj:
                    updates.append(n.lineno)
                elif base.startswith(obj + '.') or base == obj:
                    if n.func.attr in ('addnew', 'from_signer', 'encrypt_keyblob', '_generate', 'encrypt', 'append', 'setattr') and n.func.attr != 'update_hlen':
                        if not (base == obj and n.func.attr == 'encrypt' and obj == 'self'):
                            stores.append(n.lineno)
                if dotted(n.func) == 'setattr' and n.args and (ast.unparse(n.args[0]) == obj or ast.unparse(n.args[0]).startswith(obj + '.')):
                    stores.append(n.lineno)
        ok = bool(updates) and (not stores or max(updates) > max(stores))
        rep.check(ok, 'C08.h', '%s.%s' % (cls, meth), '%s: last body change at line %s, update_hlen at %s' % (obj, max(stores) if stores else None, updates),
                  'the packet body is built or changed and the header length is not recomputed afterwards: header length != body length', where=f.where,
                  expected='%s.update_hlen() after the last change' % obj, found='changes at %s, update_hlen at %s' % (sorted(set(stores))[-3:], updates))


def check_update_hlen_defs(rep, prog):
    p = prog.method('pgpy.packet.types', 'Packet', 'update_hlen')
    for s in Interp(prog, Scenario(inline=noinline)).run(p):
        v = [val for pth, val, l, _ in s.stores if pth == 'self.header.length']
        rep.check(v == ['(len(self.__bytearray__()) - len(self.header))'], 'C08.h', 'Packet.update_hlen', '%s' % v,
                  'header length = serialised length minus the header (tag + length octets)', where=p.where)
    sp = prog.method('pgpy.packet.subpackets.types', 'SubPacket', 'update_hlen')
    for s in Interp(prog, Scenario(inline=noinline)).run(sp):
        v = [val for pth, val, l, _ in s.stores if pth == 'self.header.length']
        rep.check(v == ['((len(self.__bytearray__()) - len(self.header)) + 1)'], 'C08.h', 'SubPacket.update_hlen', '%s' % v,
                  'subpacket length counts the type octet', where=sp.where)
    for cls, inner in (('SignatureV4', 'self.subpackets.update_hlen()'), ('UserAttribute', 'self.subpackets.update_hlen()')):
        f = prog.method('pgpy.packet.packets', cls, 'update_hlen')
        src = ast.unparse(f.node)
        rep.check(inner in src and 'super(%s, self).update_hlen()' % cls in src and src.index(inner) < src.index('super('), 'C08.h', '%s.update_hlen' % cls,
                  'inner lengths first', 'nested subpacket lengths are recomputed before the packet length', where=f.where)
    ln = prog.method('pgpy.packet.types', 'Header', '__len__')
    for s in Interp(prog, Scenario(inline=noinline)).run(ln):
        rep.check(render(s.ret) == '(1 + self.llen)', 'C08.h', 'packet Header.__len__', render(s.ret), 'header length = tag octet + length octets', where=ln.where)
