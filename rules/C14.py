"""C14 - Transferable keys survive export and import with their structure intact (partial: grammar, filters, grouping, copies).

  C14.1 export grammar of PGPKey.__bytearray__: key, its signatures, (user id, its signatures)*, subkeys* (RFC 4880 11.1);
        every signature emission site keeps exactly the exportable ones; embedded signatures are skipped only at key level
  C14.2 `exportable` defaults to True and reads the ExportableCertification flag; that flag survives a parse (Boolean codec)
  C14.3 import: Trust packets are dropped BEFORE grouping; a group starts at every non-signature packet; every signature of a
        group is attached to the group's head; user ids and subkeys go to the most recent primary key; a primary starts a new key
  C14.4 copies carry the certificate state (key packet, user ids, subkeys, signatures, armor headers, received hashed octets)
  C14.5 attaching: signatures are inserted (never replaced) into sorted collections; embedded cross-signatures are extracted
  C14.6 "a copy of a key exports identically": __copy__ of every material class a key export serialises - key material
        (fallback container included), signature material (SignatureV4.pubalg dispatch, fallback included) - carries
        every attribute its serialiser reads (shared implementation: sa.families.check_copy_carries_serialised)
"""
import ast
import re

from sa.interp import Interp, Scenario, Sym, Const, Bytes, Obj, render, merge_consts
from sa.loader import AnalysisError, dotted
from sa.condtab import split_filter, conj, table, atoms, same, skeleton
from sa.looppaths import observe, path_cond, any_of, atom_value, fresh_objects, respell

noinline = lambda f: False  # noqa: E731


def run(rep, prog, tier):
    rep.rule('C14.1', 'export grammar and exportable filters', floor=6)
    rep.rule('C14.2', 'exportable default and Boolean subpacket codec', floor=5)
    rep.rule('C14.3', 'import grouping and attachment', floor=8)
    rep.rule('C14.4', 'copy completeness', floor=9)
    rep.rule('C14.5', 'attachment inserts; embedded signatures extracted', floor=5)
    rep.rule('C14.6', 'copies of key material and signature material carry every attribute their serialiser reads', floor=20)
    rep.rule('C14.8', 'an exported key can be read back: packet length fields (all widths and boundaries), the armor writer (CRC-24 in exactly three octets, line layout) and non-UTF-8 user ids round-trip', floor=10)
    rep.rule('C14.7', 'octet widths of exported key material are ceilings of the bit length; EC points and MPIs re-parse to what was written', floor=10)
    rep.assume('SorteDeque.insort keeps elements with equal keys (bisect insertion, no replacement)')
    rep.assume('SubPackets: `name in sp` holds exactly when sp[name] is a non-empty list (lookup by subpacket name in both areas)')

    export(rep, prog)
    exportable(rep, prog)
    grouping(rep, prog)
    copies(rep, prog)
    attach(rep, prog)
    material_copies(rep, prog)
    material_widths(rep, prog)
    export_readable(rep, prog)


def material_widths(rep, prog):
    """C14.7: a generated key survives export and import only if the widths its material is written with are the widths it is
    read with (P-521: 66 octets per coordinate, not 65) - the finite-point family of C18.10, reported here."""
    from rules import C18
    C18.check_widths(rep, prog, 'C14.7')


class _Relabel(object):
    """Reports a shared rule family under this property's rule id."""
    def __init__(self, rep, rid):
        self.rep, self.rid = rep, rid

    def __getattr__(self, k):
        return getattr(self.rep, k)

    def check(self, cond, rid, *a, **kw):
        return self.rep.check(cond, self.rid, *a, **kw)

    def violation(self, rid, *a, **kw):
        return self.rep.violation(self.rid, *a, **kw)

    def ok(self, rid, *a, **kw):
        return self.rep.ok(self.rid, *a, **kw)

    def error(self, rid, *a, **kw):
        return self.rep.error(self.rid, *a, **kw)


def export_readable(rep, prog):
    """C14.8: what is exported must be importable again.  (1) packet length fields: the width selection / widening rules of C09
    (old- and new-format, exact at the boundaries 255/256, 65535/65536, 191/192, 8383/8384); (2) the armor writer of C10 (payload
    and CRC from the same octets, CRC-24 in exactly three octets, line layout); (3) a user id whose octets are not valid UTF-8 is
    written back as the octets it was read from (finite-point evaluation: parse, then serialise)."""
    from rules import C09, C10
    P = _Relabel(rep, 'C14.8')
    H = prog.cls('pgpy.types', 'Header')
    C09.widths(P, prog, H, C09.Bench(P, prog))
    A = prog.cls('pgpy.types', 'Armorable')
    C10.crc(P, prog, A)
    C10.writer(P, prog, A)
    # (3)
    from sa import ceval
    U = prog.cls('pgpy.packet.packets', 'UserID')
    E = ceval.Evaluator(prog)
    for body in (b'R\xe9ne', b'Ren\xc3\xa9', b'plain ascii <a@b.c>', b'\xff\xfe\x00'):
        try:
            u = E.new(U)
            E.set(E.get(u, 'header'), 'length', len(body))      # the header was read by the packet dispatcher; parse gets the body
            E.method(u, 'parse', ceval.VBuf(body))
            out = E.tobytes(E.method(u, '__bytearray__'))
            got = bytes(out) if out is not None else None
        except ceval.Raised as ex:
            got = 'raises %s' % ex.name
        except (ceval.NoEval, ceval.Diverged) as ex:
            raise AnalysisError('UserID parse / serialise: outside the checker\'s evaluator: %s' % ex)
        tail = got[-len(body):] if isinstance(got, bytes) else got
        rep.check(tail == body, 'C14.8', 'UserID', 'octets %r -> written back %r' % (body, tail),
                  'a user id is written back as the octets it was read from, also when they are not valid UTF-8 (the fallback decoding must '
                  'be remembered until export)', where=U.where, expected=repr(body), found=repr(tail))


def material_copies(rep, prog):
    """C14.6: the packet-level half of "a copy of a key exports identically to the original"."""
    from sa import families
    families.check_copy_carries_serialised(rep, prog, 'C14.6')                   # key material classes + fallback container
    g, sigs = families.dispatched_material(prog, 'pgpy.packet.packets', 'SignatureV4', 'pubalg_int', 'signature')
    rep.saw(fn=g)
    roots = [(cn, 'signature material') for cn in sorted(set(sigs.values()))]
    families.check_copy_carries_serialised(rep, prog, 'C14.6', roots=roots)
    # the packets a key export is made of (and, through them, the field objects they serialise: subpacket areas, S2K ...)
    pk = prog.module('pgpy.packet.packets')
    key_packets = [c for c in ('UserID', 'UserAttribute', 'SignatureV4', 'PubKeyV4', 'PrivKeyV4', 'PubSubKeyV4', 'PrivSubKeyV4') if c in pk.classes]
    if len(key_packets) < 7:
        raise AnalysisError('key export packet classes vanished: %s' % key_packets)
    families.check_copy_carries_serialised(rep, prog, 'C14.6', roots=[(c, 'packet of a key export') for c in key_packets])


def _one_packet(body, text):
    return len(body) == 1 and body[0][0] == 'SYM' and body[0][1] == text


def _second(var):
    """'($3_0, $3_1)' -> '$3_1' (the value of an .items() pair)."""
    m = re.match(r'^\((\$[\d._]+), (\$[\d._]+)\)$', var)
    return m.group(2) if m else None


ELEMENT_CLASS = {'_uids': 'PGPUID', '_children': 'PGPKey', '_signatures': 'PGPSignature', 'subkeys': 'PGPKey'}


def _split_each(text):
    """'EACH(v in coll;body)' -> (v, coll, body) (top-level ';'), else None."""
    if not (text.startswith('EACH(') and text.endswith(')')):
        return None
    inner, depth = text[5:-1], 0
    cut = None
    for i, ch in enumerate(inner):
        if ch in '([{':
            depth += 1
        elif ch in ')]}':
            depth -= 1
        elif ch == ';' and depth == 0:
            cut = i
            break
    if cut is None or ' in ' not in inner[:cut]:
        return None
    v, coll = inner[:cut].split(' in ', 1)
    return v, coll, inner[cut + 1:]


class _Gen(object):
    """Expands `for c in X._gen(..): out += c.__bytearray__()` into the byte items of the sequence the generator yields: the
    generator (and the generators it re-yields) is interpreted; every yielded object contributes its serialisation."""
    def __init__(self, prog, bound):
        self.prog, self.bound, self.n = prog, bound, 700

    def fresh(self, text, old):
        self.n += 1
        new = '$%d' % self.n
        return re.sub(re.escape(old) + r'(?![\d_])(?!\.\d)', new, text), new

    def call(self, text, cls_hint=None):
        """items of `R.name(args)` when that is a generator of the program, else None."""
        m = re.match(r'^(.+)\.(\w+)\((.*)\)$', text)
        if m is None:
            return None
        recv, name, argt = m.groups()
        owners = [c for c in self.prog.all_classes() if name in c.methods and any(isinstance(n, (ast.Yield, ast.YieldFrom)) for n in ast.walk(c.methods[name].node))]
        if cls_hint is not None:
            owners = [c for c in owners if c.name == cls_hint] or owners
        if len(owners) != 1:
            return None
        fi = owners[0].methods[name]
        args = {}
        for a in _split_args(argt):
            if re.match(r'^\w+=', a):
                k, v = a.split('=', 1)
                try:
                    args[k] = Const(ast.literal_eval(v))
                except (ValueError, SyntaxError):
                    args[k] = Sym(v)
            else:
                return None
        outs = Interp(self.prog, Scenario(inline=noinline)).run(fi, self_val=Sym(recv, cls=owners[0], nonnull=True), args=args)
        outs = [o for o in outs if o.raised is None]
        if len(outs) != 1:
            return None
        items = []
        for y in outs[0].yields:
            got = self.value(render(y))
            if got is None:
                return None
            items.extend(got)
        return items

    def value(self, y):
        """items contributed by one yielded value (text)."""
        star = y.startswith('*')
        t = y[1:] if star else y
        e = _split_each(t)
        if e is not None:
            v, coll, body = e
            t2, nv = self.fresh('%s\x00%s' % (coll, body), v)
            coll, body = t2.split('\x00')
            self.bound[nv] = split_filter(coll)[0]
            if body == nv:
                if not star and False:
                    return None
                return [('EACH', nv, coll, [('SYM', '%s.__bytearray__()' % nv)])]
            # several yields per iteration are rendered one after the other
            parts, depth, cur = [], 0, ''
            for ch in body:
                if ch in '([{':
                    depth += 1
                elif ch in ')]}':
                    depth -= 1
                if ch == ' ' and depth == 0:
                    parts.append(cur)
                    cur = ''
                else:
                    cur += ch
            parts.append(cur)
            inner = []
            for part in [x for x in parts if x]:
                got = self.value(part)
                if got is None:
                    return None
                inner.extend(got)
            return [('EACH', nv, coll, inner)]
        if star:
            mcoll = re.match(r'^(\$[\d.]+)\.', t)
            hint = None
            if mcoll and mcoll.group(1) in self.bound:
                hint = ELEMENT_CLASS.get(self.bound[mcoll.group(1)].split('.')[-1].replace('values()', '').rstrip('.').split('.')[-1])
                if hint is None:
                    hint = ELEMENT_CLASS.get(re.sub(r'\.(values|items)\(\)$', '', self.bound[mcoll.group(1)]).split('.')[-1])
            got = self.call(t, hint)
            if got is not None:
                return got
            self.n += 1
            nv = '$%d' % self.n
            self.bound[nv] = t
            return [('EACH', nv, t, [('SYM', '%s.__bytearray__()' % nv)])]
        return [('SYM', '%s.__bytearray__()' % t)]


def expand_generated(prog, f, s, its):
    """If the export is one loop serialising what a generator of the program yields, return the items of that sequence (bound
    variables of the expansion are added to s.bound); otherwise the items unchanged."""
    its = merge_consts(its)
    if len(its) == 1 and its[0][0] == 'EACH' and len(its[0][3]) == 1 and its[0][3][0] == ('SYM', '%s.__bytearray__()' % its[0][1]) and \
            ' if ' not in its[0][2]:
        got = _Gen(prog, s.bound).call(its[0][2], f.cls.name if f.cls is not None else None)
        if got is not None:
            return got
    return its


def export(rep, prog):
    f = prog.method('pgpy.pgp', 'PGPKey', '__bytearray__')
    rep.saw(fn=f)
    want = ['KEY', 'KEYSIGS', 'UIDS', 'SUBKEYS']
    me = f.params[0]
    for s in Interp(prog, Scenario(inline=noinline)).run(f):
        its = expand_generated(prog, f, s, s.ret.items) if isinstance(s.ret, Bytes) else None
        if its is None:
            raise AnalysisError('PGPKey.__bytearray__ does not return bytes')
        kinds = []
        sites = []          # (bound variable, filter conditions, key level?, collection text)
        unfiltered = []     # (what, filter conditions) of the collections nothing may be dropped from
        for it in its:
            if it[0] == 'SYM' and it[1] == '%s._key.__bytearray__()' % me:
                kinds.append('KEY')
            elif it[0] == 'EACH':
                var, coll, body = it[1], it[2], it[3]
                base, conds = split_filter(coll)
                btxt = ' '.join(render_item(b) for b in body)
                if base == '%s._uids' % me:
                    kinds.append('UIDS')
                    unfiltered.append(('user ids', conds))
                    inner = [b for b in body if b[0] == 'EACH']
                    rep.check(len(inner) == 1 and len(body) == 2 and body[0][0] == 'SYM' and body[0][1] == '%s._uid.__bytearray__()' % var and body[1] is inner[0],
                              'C14.1', 'PGPKey.__bytearray__', 'user id block %s' % btxt[:120],
                              'each user id / attribute packet is immediately followed by its own signatures', where=f.where)
                    for b in inner:
                        ibase, iconds = split_filter(b[2])
                        ok = ibase == '%s._signatures' % var and _one_packet(b[3], '%s.__bytearray__()' % b[1])
                        rep.check(ok, 'C14.1', 'PGPKey.__bytearray__', 'uid signatures from %s: %s' % (ibase, render_item(b)[:100]),
                                  'the signatures after a user id must be that user id\'s signatures', where=f.where)
                        if ok:
                            sites.append((b[1], iconds, False, b[2]))
                elif base in ['%s.%s' % (me, x) for x in ('_children.values()', '_children.items()', 'subkeys.values()', 'subkeys.items()')]:
                    kinds.append('SUBKEYS')
                    unfiltered.append(('subkeys', conds))
                    elem = _second(var) if base.endswith('.items()') else var
                    rep.check(_one_packet(body, '%s.__bytearray__()' % elem), 'C14.1', 'PGPKey.__bytearray__', 'subkey block %s' % btxt,
                              'subkeys are exported through the same method (packet, then its signatures)', where=f.where)
                elif base in ('%s._children' % me, '%s.subkeys' % me, '%s._children.keys()' % me):
                    # a mapping iterates its keys
                    kinds.append('SUBKEYS')
                    unfiltered.append(('subkeys', conds))
                    rep.check(_one_packet(body, '%s._children[%s].__bytearray__()' % (me, var)) or _one_packet(body, '%s.subkeys[%s].__bytearray__()' % (me, var)),
                              'C14.1', 'PGPKey.__bytearray__', 'subkey block %s' % btxt,
                              'subkeys are exported through the same method (packet, then its signatures)', where=f.where)
                elif base == '%s._signatures' % me and _one_packet(body, '%s.__bytearray__()' % var):
                    kinds.append('KEYSIGS')
                    sites.append((var, conds, True, coll))
                else:
                    kinds.append('?(%s)' % coll[:40])
            else:
                kinds.append('?(%s)' % render_item(it)[:40])
        rep.check(kinds == want, 'C14.1', 'PGPKey.__bytearray__', 'sequence %s' % kinds,
                  'a transferable key is the key packet, its signatures, user ids each with their signatures, then subkeys (RFC 4880 11.1)', where=f.where,
                  expected=want, found=kinds)
        for what, conds in unfiltered:
            rep.check(not conds, 'C14.1', 'PGPKey.__bytearray__', '%s exported under %s' % (what, conds or 'no condition'),
                      'every user id and every subkey of the key is exported', where=f.where, found=conds)
        # filters at every signature emission site (as truth tables over the conditions of the emitted element)
        rep.check(len(sites) == 2, 'C14.1', 'PGPKey.__bytearray__', 'signature emission sites %d' % len(sites), 'key-level and user-id-level signature loops', where=f.where)
        for v, conds, key_level, coll in sites:
            E, M = '%s.exportable' % v, '%s.embedded' % v
            sk = conj(conds)
            try:
                tab, names = table(sk, [E])
            except ValueError as ex:
                raise AnalysisError('PGPKey.__bytearray__: filter too large (%s)' % ex)
            rows = [(dict(zip(names, vals)), keep) for vals, keep in tab.items()]
            pos = E in atoms(sk) and all(a[E] for a, keep in rows if keep) and any(keep for a, keep in rows)
            rep.check(pos, 'C14.1', 'PGPKey.__bytearray__', 'filter at %s: %s' % (coll[:60], conds),
                      'exactly the exportable signatures are exported: the filter must keep s.exportable (positive polarity)', where=f.where,
                      expected='if s.exportable', found=conds)
            extra = sorted(atoms(sk) - {E, M})
            expect = ('and', [skeleton(E), ('not', skeleton(M))]) if key_level else skeleton(E)
            rep.check(not extra and same(sk, expect), 'C14.1', 'PGPKey.__bytearray__', 'other filter terms %s (%s)' % (extra, conds),
                      'no other condition may drop signatures; embedded cross-signatures are skipped only in the key-level list (they live inside their binding)',
                      where=f.where, found=conds)


def render_item(it):
    from sa.interp import render_item as ri
    return ri(it)


def exportable(rep, prog):
    f = prog.method('pgpy.pgp', 'PGPSignature', 'exportable')
    rep.saw(fn=f)
    me = f.params[0]
    SP = '%s._signature.subpackets' % me
    L = "%s['ExportableCertification']" % SP
    present_atom = "'ExportableCertification' in %s" % SP
    flag = set()
    for first in ('next(iter(%s))' % L, '%s[0]' % L):
        flag |= {'bool(%s)' % first, '%s.bflag' % first, 'bool(%s.bflag)' % first, '%s.__bool__()' % first}
    seen = {True: 0, False: 0}
    for s in Interp(prog, Scenario(inline=noinline)).run(f):
        r = render(s.ret) if s.ret is not None else 'raises %s' % s.raised
        # presence is `name in subpackets` or, the same thing, the truth of the list `subpackets[name]` (SubPackets.__getitem__ returns
        # the subpackets of that name, empty when there is none)
        present = atom_value(s.facts, present_atom)
        if present is None:
            present = atom_value(s.facts, L)
        other = sorted(atoms(path_cond(s.facts)) - {present_atom, L})
        for case in ((True, False) if present is None else (present,)):
            seen[case] += 1
            if case:
                rep.check(r in flag and not other, 'C14.2', 'PGPSignature.exportable', '%s%s' % (r, ' under %s' % other if other else ''),
                          'with the subpacket present the flag decides', where=f.where)
            else:
                rep.check(r == 'True' and not other, 'C14.2', 'PGPSignature.exportable', 'default %s%s' % (r, ' under %s' % other if other else ''),
                          'a signature without the subpacket is exportable', where=f.where, expected='True', found=r)
    if not (seen[True] and seen[False]):
        raise AnalysisError('PGPSignature.exportable has no returning path')
    B = prog.cls('pgpy.packet.subpackets.signature', 'Boolean')
    p = B.props.get('bflag')
    if p is None:
        raise AnalysisError('Boolean.bflag vanished')
    sb = p.setters.get('bytearray')
    if sb is None or 'bool' not in p.setters:
        raise AnalysisError('Boolean.bflag setters vanished')
    backing = None
    for s in Interp(prog, Scenario(inline=noinline)).run(p.getter):
        r = render(s.ret)
        m = re.match(r'^%s\.(\w+)$' % re.escape(p.getter.params[0]), r)
        backing = m.group(1) if m else None
        rep.check(m is not None and m.group(1) != 'bflag', 'C14.2', 'Boolean.bflag', r, 'the flag is read from the backing attribute', where=p.getter.where)
    # the parsed flag: evaluated by the checker's finite-point evaluator (sa/ceval) as a boolean function of the octets - a fresh
    # subpacket (flag False, as __init__ leaves it) is given the octets through the bytes overload and the flag is read back
    from sa import ceval
    E = ceval.Evaluator(prog)
    got = []
    for octets in (b'\x00', b'\x01', b'\x80', b'\xff', b'\x00\x01', b'\x01\x00', b'\x00\x00'):
        try:
            o = ceval.Obj(B)
            E.set(o, 'bflag', False)
            E.set(o, 'bflag', ceval.VBuf(octets))
            v = E.get(o, 'bflag')
            got.append((octets, v if isinstance(v, bool) else repr(v)))
        except ceval.Raised as ex:
            got.append((octets, 'raises %s' % ex.name))
        except (ceval.NoEval, ceval.Diverged) as ex:
            raise AnalysisError('Boolean.bflag (bytes): outside the checker\'s evaluator: %s' % ex)
    wrong = [(o_, v) for o_, v in got if v is not any(o_)]
    rep.check(not wrong, 'C14.2', 'Boolean.bflag_bytearray', 'octets -> flag %s' % got,
              'the parsed flag octet must reach the attribute the flag is read from; otherwise an explicit exportable=true reads back as false, '
              'the certification fails verification and is dropped on the next export', where=sb.where, expected='flag = some octet is non-zero',
              found=wrong)
    bs = p.setters['bool']
    for s in Interp(prog, Scenario(inline=noinline)).run(bs):
        st = {pth: v for pth, v, l, _ in s.stores}
        rep.check(backing is not None and st == {'%s.%s' % (bs.params[0], backing): bs.params[1]}, 'C14.2', 'Boolean.bflag_bool', '%s' % st,
                  'the boolean setter stores the backing attribute', where=sb.where)
    bb = B.methods['__bool__']
    for s in Interp(prog, Scenario(inline=noinline)).run(bb):
        rep.check(render(s.ret) in ('%s.bflag' % bb.params[0], 'bool(%s.bflag)' % bb.params[0]) or (backing is not None and render(s.ret) == '%s.%s' % (bb.params[0], backing)),
                  'C14.2', 'Boolean.__bool__', render(s.ret), 'truthiness of the subpacket is its flag', where=bb.where)
    E = prog.cls('pgpy.packet.subpackets.signature', 'ExportableCertification')
    rep.check(B in E.mro() and ast.literal_eval(E.attrs['__typeid__']) == 0x04, 'C14.2', 'ExportableCertification', 'Boolean, type 4',
              'exportable certification is boolean subpacket type 4 (RFC 4880 5.2.3.11)', where=E.where)


def _effects(events):
    return [e for e in events if e[0] in ('store', 'ior', 'del', 'yield', 'raise', 'return')]


def _attach_events(events):
    """(target, value) of every `target |= value` / operator.ior(target, value) on a path."""
    out = []
    for e in events:
        if e[0] == 'ior':
            out.append((e[1], e[2]))
        elif e[0] == 'call' and e[1] == 'operator.ior' and len(e[2]) == 2:
            out.append((e[2][0], e[2][1]))
    return out


def _root(text, stop=None):
    """Object a chain of `|` attachments started from: '((X | a) | b)' -> 'X' (not unfolded beyond `stop`)."""
    while text != stop and text.startswith('(') and text.endswith(')'):
        depth = 0
        cut = None
        for i, ch in enumerate(text):
            if ch in '([{':
                depth += 1
            elif ch in ')]}':
                depth -= 1
            elif depth == 1 and text.startswith(' | ', i):
                cut = i
        if cut is None:
            break
        text = text[1:cut]
    return text


_ATTACHED = re.compile(r'\((\((?:\w+|PGPKey\(\)|PGPUID\(\)) \| next\(\$[\d._]+\)\)) \| \(PGPSignature\(\) \| \$[\d._]+\)\)')


def unattach(t):
    """`head |= PGPSignature() | sig` keeps the head object (C14.5 checks that `|` returns its left operand): after the loop over
    the group's signatures the head is still the head, whichever path of the loop the interpreter summarised."""
    while True:
        n = _ATTACHED.sub(r'\1', t)
        if n == t:
            return t
        t = n


def _map_sk(sk, fn):
    if sk is None:
        return None
    if sk[0] in ('and', 'or'):
        return (sk[0], [_map_sk(x, fn) for x in sk[1]])
    if sk[0] == 'not':
        return ('not', _map_sk(sk[1], fn))
    if sk[0] == 'cmp':
        return ('cmp', sk[1], fn(sk[2]), fn(sk[3]))
    if sk[0] == 'call':
        return ('call', fn(sk[1]), [fn(a) for a in sk[2]])
    if sk[0] == 'expr':
        return ('expr', fn(sk[1]))
    return sk


HEADS = {'PubKeyV4': 'key', 'PrivSubKeyV4': 'key', 'UserID': 'uid', 'UserAttribute': 'uid'}


def grouping(rep, prog):
    f = prog.method('pgpy.pgp', 'PGPKey', 'parse')
    rep.saw(fn=f)
    where = f.where
    me = f.params[0]
    outs, recs = observe(prog, f)
    gb = []
    for s in outs:
        for c in s.calls:
            if c[0] in ('itertools.groupby', 'groupby') and c[1] and (c[0], c[1], c[2]) not in [(g[0], g[1], g[2]) for g in gb]:
                gb.append(c)
    if len(gb) != 1:
        raise AnalysisError('PGPKey.parse: expected exactly one itertools.groupby over the packet stream')
    calls_of = {id(gb[0]): next(s.calls for s in outs if any(c is gb[0] for c in s.calls))}
    stream = gb[0][1][0]
    keytext = gb[0][2].get('key', gb[0][1][1] if len(gb[0][1]) > 1 else None)
    # ---- Trust packets removed from the stream BEFORE grouping (the value that reaches groupby is a filtered stream)
    m = re.match(r'^EACH\((\$[\d.]+) in (.*);\1\)$', stream)
    okf = False
    kept = None             # (element text, skeleton of the condition under which an element of the stream is kept)
    if m is not None:
        v, (base, conds) = m.group(1), split_filter(m.group(2))
        kept = (v, conj(conds)) if conds else None
    else:
        kept = _generator_stream(prog, f, gb[0] + (calls_of[id(gb[0])],))
    if kept is not None:
        v, cond = kept
        trust = prog.cls('pgpy.constants', 'PacketTag').enum_members().get('Trust')
        for t in ('PacketTag.Trust', repr(trust)):
            for a in ('%s.header.tag == %s' % (v, t), '%s.header.typeid == %s' % (v, t)):
                okf = okf or same(cond, ('not', skeleton(a)))
    rep.check(okf, 'C14.3', 'PGPKey.parse', 'packet stream %s' % stream[:100],
              'Trust packets (keyring-local) must be removed from the packet stream before grouping: a Trust packet that opens a group swallows the '
              'signatures that follow it', where=where, expected='groupby(filter(lambda p: p.header.tag != PacketTag.Trust, ...), ...)')
    # ---- group key changes exactly on non-signature packets
    grouper(rep, prog, f, keytext)
    # ---- the loop over the groups: which groups are skipped
    gl = [r for r in recs if re.match(r'^(itertools\.)?groupby\(', r.coll)]
    if len({id(r.node) for r in gl}) != 1:
        raise AnalysisError('PGPKey.parse: expected exactly one loop over the groups (found %d)' % len({id(r.node) for r in gl}))
    mv = re.match(r'^\((\$[\d.]+_0), (\$[\d.]+_1)\)$', gl[0].var or '')
    if mv is None:
        raise AnalysisError('PGPKey.parse: the loop over the groups does not bind (label, group): %s' % gl[0].var)
    K, G = mv.group(1), mv.group(2)

    def takes_head(events):
        return any(e[0] == 'call' and e[1] == 'next' and e[2][:1] == [G] for e in events)
    opaque = skeleton("%s.endswith('Opaque')" % K)
    for r in gl:
        skipping = [p for p in r.paths if not takes_head(p[2])]
        bad = [p for p in skipping if p[0] not in ('normal', 'continue') or _effects(p[2])]
        skipped = ('or', [('not', conj(r.conds)), any_of(path_cond(p[1]) for p in skipping)])
        desc = '%s%s' % (r.conds, [[x[0] for x in p[1]] for p in skipping] or '')
        rep.check(not bad and same(skipped, opaque) and len(skipping) < len(r.paths), 'C14.3', 'PGPKey.parse', 'skipped groups %s' % desc,
                  'only groups headed by an unknown (opaque) packet are skipped', where=where, expected="if not <key>.endswith('Opaque')", found=desc)
    # ---- per kind of head packet: what the group's head becomes, where the group's signatures go, how the result is filed
    keys = {render(s.ret) for s in outs if s.raised is None and s.ret is not None}
    if len(keys) != 1:
        raise AnalysisError('PGPKey.parse: result is not one collection (%s)' % sorted(keys))
    KEYS = keys.pop()
    recent = '%s[next(reversed(%s))]' % (KEYS, KEYS)
    # ---- nothing that was parsed may be taken out of the result again, except the entry that IS the object parse() fills (self)
    removed = []
    for s in outs:
        for e in s.events:
            if e[0] == 'call' and e[1] in ('%s.%s' % (KEYS, mth) for mth in ('pop', 'popitem', 'clear', '__delitem__')):
                removed.append(('%s(%s)' % (e[1], ', '.join(e[2])), e[2][0] if e[2] else None))
            elif e[0] == 'del' and e[1].startswith(KEYS + '['):
                removed.append(('del %s' % e[1], e[1][len(KEYS) + 1:-1]))
            elif e[0] == 'store' and e[1] == KEYS:
                removed.append(('%s rebound' % KEYS, None))
    own_entry = '(%s.fingerprint.keyid, %s.is_public)' % (me, me)
    bad = []
    for what, key in sorted(set(removed)):
        mk = re.match(r'^\((.*), ([^,()]+)\)$', key or '')
        # harmless: the entry of self itself, or a key whose second component is a constant that no filed key has (filed keys are
        # (key id, is_public) with is_public a bool)
        harmless = key == own_entry or (mk is not None and mk.group(2) not in ('True', 'False') and re.match(r"^(None|-?\d+|'.*')$", mk.group(2)) is not None)
        if not harmless:
            bad.append(what)
    rep.check(not bad, 'C14.3', 'PGPKey.parse', 'entries removed from the result: %s' % (bad or 'none that can match a parsed key'),
              'every key object built from the input is returned: only the entry of the key that parse() filled in place (same key id AND same '
              'public/private half) may be removed from the result', where=where, expected='keys.pop((self.fingerprint.keyid, self.is_public), None) at most',
              found=bad)
    mro = {h: {c.name for c in prog.cls('pgpy.packet.packets', h).mro()} for h in HEADS}
    seen = set()
    for head, kind in HEADS.items():
        for first in ((True, False) if kind == 'key' else (False,)):
            def oracle(t, head=head):
                m1 = re.match(r'^isinstance\(next\(%s\), (.+)\)$' % re.escape(G), t)
                if m1:
                    return any(n in mro[head] for n in re.findall(r'[A-Za-z_]\w*', m1.group(1)))
                return None
            _, rs = observe(prog, f, oracle=oracle, bind={'%s._key' % me: Const(None) if first else Sym('%s._key' % me, nonnull=True)})
            H = '(%s | next(%s))' % ('PGPUID()' if kind == 'uid' else me if first else 'PGPKey()', G)
            scen = '%s%s' % (head, ' (first key)' if first else '')
            # signatures of the group
            inner = [r for r in rs if r.coll == G]
            att_ok = bool(inner)
            detail = 'no loop over the group'
            for r in inner:
                names = fresh_objects(r.before.events)
                attaching = [p for p in r.paths if _attach_events(p[2])]
                others = [p for p in r.paths if not _attach_events(p[2])]
                want_val = '(PGPSignature() | %s)' % r.var
                one = all(len(_attach_events(p[2])) == 1 and unattach(respell(_attach_events(p[2])[0][0], names)) == H and _attach_events(p[2])[0][1] == want_val and
                          len(_effects(p[2])) <= 1 and p[0] in ('normal', 'continue') for p in attaching)
                quiet = all(not _effects(p[2]) and p[0] in ('normal', 'continue') for p in others)
                kept = ('and', [conj(r.conds), any_of(path_cond(p[1]) for p in attaching)])
                detail = 'each %s in group%s: %s' % (r.var, ''.join(' if ' + c for c in r.conds),
                                                      [([x[0] if x[1] else 'not ' + x[0] for x in p[1]], _attach_events(p[2])) for p in attaching])
                att_ok = att_ok and bool(attaching) and one and quiet and same(kept, ('not', skeleton('isinstance(%s, Opaque)' % r.var)))
            if (kind, first, 'att', att_ok, detail) not in seen:
                seen.add((kind, first, 'att', att_ok, detail))
                rep.check(att_ok, 'C14.3', 'PGPKey.parse', 'signature attachment (%s) %s' % (scen, detail[:300]),
                          'every signature packet of a group (except unparseable ones) is attached to the group\'s head - none dropped, merged or de-duplicated',
                          where=where, expected='for sig in group: if not isinstance(sig, Opaque): %s |= PGPSignature() | sig' % H, scenario=scen)
            # filing
            for r in [x for x in rs if x.node is gl[0].node]:
                taking = [p for p in r.paths if takes_head(p[2])]
                if not taking:
                    raise AnalysisError('PGPKey.parse: no path takes the head packet of a group with next(group)')
                for status, facts, events, _ in taking:
                    names = fresh_objects(r.before.events + events)
                    norm = lambda t: unattach(respell(t, names))  # noqa: E731
                    filed = [(norm(e[1]), norm(e[2])) for e in events if e[0] == 'store' and e[1].startswith(KEYS + '[')]
                    facts = [(norm(t), v, _map_sk(sk, norm)) for t, v, sk in facts]
                    primary = atom_value(facts, '%s.is_primary' % H) if kind == 'key' else False
                    if primary is True:
                        want = [('%s[(%s.fingerprint.keyid, %s.is_public)]' % (KEYS, H, H), H)]
                        rule = 'each primary key packet starts a new key in the result (the first one fills self)'
                    elif primary is False:
                        want = [(recent, '(%s | %s)' % (recent, H))]
                        rule = 'subkeys and user ids belong to the primary key that precedes them'
                    else:
                        want = None
                        rule = 'a key packet is filed as a new key when it is a primary key, else under the most recent primary'
                    okp = want is not None and filed == want and status in ('normal', 'continue')
                    key_ = (kind, first, primary, okp, tuple(filed))
                    if key_ in seen:
                        continue
                    seen.add(key_)
                    rep.check(okp, 'C14.3', 'PGPKey.parse', 'filing (%s, primary=%s): %s [%s]' % (scen, primary, filed, status), rule, where=where,
                              expected=want, found=filed, scenario=scen)


def _generator_stream(prog, f, gbcall):
    """The packet stream handed to groupby is the result of a generator of the program (`self._iter_packets(data, skip)`): the
    generator is interpreted with the arguments of that call; -> (text of the yielded element, condition under which the element
    parsed in an iteration is yielded), None when the stream is not such a call or does not have that shape."""
    from sa.interp import Frame, State
    from sa.loader import FunctionInfo
    node = gbcall[4].args[0] if gbcall[4].args else None
    # the call that produced the stream value: found among the recorded calls by its rendered result
    stream = gbcall[1][0]
    mcall = re.match(r'^((?:\w+\.)*)(\w+)\((.*)\)$', stream)
    if mcall is None:
        return None
    name = mcall.group(2)
    callee = f.cls.find_method(name) if (f.cls is not None and mcall.group(1)) else None
    if callee is None and not mcall.group(1):
        r = prog.lookup(f.module, name)
        callee = r if isinstance(r, FunctionInfo) else None
    if callee is None or not any(isinstance(n, (ast.Yield, ast.YieldFrom)) for n in ast.walk(callee.node)):
        return None
    params = list(callee.params)
    if callee.cls is not None and not any(dotted(d) == 'staticmethod' for d in callee.node.decorator_list):
        params = params[1:]
    fr = Frame(Interp(prog, Scenario(inline=noinline)), f, 0)
    args = {}
    made = [c for c in gbcall[5] if '%s(%s)' % (c[0], ', '.join(list(c[1]) + ['%s=%s' % kv for kv in c[2].items()])) == stream]
    if not made:
        return None
    cnode = made[0][4]
    for pn, an in list(zip(params, cnode.args)) + [(k.arg, k.value) for k in cnode.keywords if k.arg]:
        args[pn] = fr.ev(an, State())           # the argument expressions of that call (locals of parse stay symbolic)
    outs, recs = observe(prog, callee, args=args)
    yielded, conds = set(), []
    for r in recs:
        for status, facts, events, ys in r.paths:
            if len(ys) > 1:
                return None
            if ys:
                yielded.add(ys[0])
                conds.append(path_cond(facts))
    loose = [render(y) for s in outs for y in s.yields if not render(y).startswith('EACH(')]
    if len(yielded) != 1 or loose:
        return None
    return yielded.pop(), any_of(conds)


def grouper(rep, prog, f, keytext):
    from sa.loader import FunctionInfo
    where = f.where
    call = None
    m = re.match(r'^(?:\w+\.)*(\w+)\(\)$', keytext or '')
    mf = re.match(r'^<fn .*\.(\w+)>$', keytext or '')
    if m is not None:
        # an instance of a class: the key function is its __call__ (state lives on the instance).  The class is found by the
        # value that reaches groupby - local to parse, nested in the owning class (self.K() / cls.K() / PGPKey.K()) or module level
        cands = [n for n in ast.walk(f.node) if isinstance(n, ast.ClassDef) and n.name == m.group(1)]
        if not cands and f.cls is not None:
            for c in f.cls.mro():
                cands += [n for n in c.node.body if isinstance(n, ast.ClassDef) and n.name == m.group(1)]
        if not cands:
            r = prog.lookup(f.module, m.group(1))
            if hasattr(r, 'mro') and hasattr(r, 'node'):
                cands = [r.node]
        if len(cands) == 1:
            call = next((x for x in cands[0].body if isinstance(x, ast.FunctionDef) and x.name == '__call__'), None)
    elif mf is not None:
        # a local function: state lives in a variable of the enclosing scope
        call = next((n for n in ast.walk(f.node) if isinstance(n, ast.FunctionDef) and n.name == mf.group(1) and n is not f.node), None)
    if call is None:
        raise AnalysisError('PGPKey.parse: grouping key %s is neither an instance of a class with __call__ nor a local function' % keytext)
    fi = FunctionInfo(call, f.module, None, outer=f)
    if len(fi.params) != (2 if m is not None else 1):
        raise AnalysisError('PGPKey.parse: grouping key function takes %s' % fi.params)
    P = fi.params[-1]
    outer_names = {n for x in ast.walk(call) if isinstance(x, (ast.Nonlocal, ast.Global)) for n in x.names}
    sig = prog.cls('pgpy.constants', 'PacketTag').enum_members().get('Signature')
    cands = ['%s.header.tag == PacketTag.Signature' % P, '%s.header.tag == %r' % (P, sig)]
    ok = True
    n_head = n_sig = 0
    found = []
    for s in Interp(prog, Scenario(inline=noinline)).run(fi):
        is_sig = None
        for a in cands:
            v = atom_value(s.facts, a)
            if v is not None:
                is_sig = v
        if is_sig is None:
            v = atom_value(s.facts, 'isinstance(%s, Signature)' % P)
            is_sig = v
        st = [(p, v) for p, v, l, _ in s.stores]
        # state kept in a variable of the enclosing scope (`nonlocal last` / `global last`): an assignment to it is a store of the
        # state just like `self.last = ...`; the value returned afterwards is read back through that name
        st += [(e[1], e[2]) for e in s.events if e[0] == 'assign' and e[1] in outer_names]
        r = render(s.ret) if s.ret is not None else None
        found.append(([x[0] if x[1] else 'not ' + x[0] for x in s.facts], st, r))
        if s.raised is not None or is_sig is None or len(atoms(path_cond(s.facts))) != 1:
            ok = False
        elif is_sig:
            n_sig += 1
            ok = ok and not st and r is not None and P not in re.findall(r'\w+', r)
        else:
            n_head += 1
            ok = ok and len(st) == 1 and P not in re.findall(r'\w+', st[0][0]) and r == st[0][1] and 'id(%s)' % P in st[0][1]
    state = {st[0][0] for _, st, _ in found if st} | {r for _, st, r in found if not st and r}
    rep.check(ok and n_head >= 1 and n_sig >= 1 and len(state) == 1, 'C14.3', 'PGPKey.parse.PktGrouper', 'group key %s' % found,
              'a new group starts at every packet that is not a signature, and only there '
              '(the key is unique per head packet and is kept for the signatures that follow)', where=where)


def _copy_loops(recs, me, root, mappings=()):
    """{attribute of the original: (elements copied into `root` on every iteration?, skeleton of the condition under which an
    element is left out, description)} for the summarised loops over `me.<attr>[.items()|.values()]`."""
    out = {}
    for r in recs:
        mc = re.match(r'^(?:itertools\.)?chain\((.*)\)$', r.coll)
        colls = _split_args(mc.group(1)) if mc else [r.coll]
        for coll in colls:
            # a family of the chain may itself be a (filtered) generator over a collection: its elements are that collection's,
            # its filter applies to this family only (in terms of the loop's own bound variable)
            extra = []
            mg = re.match(r'^EACH\((\$[\d.]+) in (.*);\1\)$', coll)
            if mg is not None and not r.var.startswith('('):
                coll, conds = split_filter(mg.group(2))
                extra = [re.sub(re.escape(mg.group(1)) + r'(?![\d_])(?!\.\d)', r.var, c) for c in conds]
            _copy_loop(out, r, coll, me, root, len(colls) > 1, mappings, extra)
    return out


def _split_args(text):
    out, depth, cur = [], 0, ''
    for ch in text:
        if ch in '([{':
            depth += 1
        elif ch in ')]}':
            depth -= 1
        if ch == ',' and depth == 0:
            out.append(cur.strip())
            cur = ''
        else:
            cur += ch
    if cur.strip():
        out.append(cur.strip())
    return out


def _copy_loop(out, r, coll, me, root, chained, mappings, extra=()):
    m = re.match(r'^%s\.(\w+)(\.items\(\)|\.values\(\))?$' % re.escape(me), coll)
    if m is None:
        return
    elem = _second(r.var) if m.group(2) == '.items()' and not chained else r.var if m.group(2) != '.items()' and not r.var.startswith('(') else None
    if elem is None:
        return
    if m.group(2) is None and m.group(1) in mappings:
        want = ['copy.copy(%s[%s])' % (coll, r.var)]            # a mapping iterates its keys
    else:
        want = ['copy.copy(%s)' % elem]
    copying = [p for p in r.paths if any(_root(t) == root and v in want for t, v in _attach_events(p[2]))]
    others = [p for p in r.paths if p not in copying]
    clean = all(len(_attach_events(p[2])) == 1 and p[0] in ('normal', 'continue') for p in copying) and \
        all(not _effects(p[2]) and p[0] in ('normal', 'continue') for p in others)
    left_out = ('or', [('not', conj(list(r.conds) + list(extra))), any_of(path_cond(p[1]) for p in others)])
    desc = '%s%s' % ((list(r.conds) + list(extra)) or '', [[x[0] if x[1] else 'not ' + x[0] for x in p[1]] for p in others] or '')
    if copying:
        out[m.group(1)] = (clean, left_out, desc, elem)


def _fresh_copy_root(s, clsname):
    """Text of the object a __copy__ path returns (the start of its `|=` chain) when that is a new object of clsname / of the
    base-class copy; None otherwise."""
    if s.ret is None or s.raised is not None:
        return None
    return _root(render(s.ret))


def copies(rep, prog):
    K = prog.cls('pgpy.pgp', 'PGPKey')
    f = K.methods['__copy__']
    rep.saw(fn=f)
    me = f.params[0]
    outs, recs = observe(prog, f)
    ini = K.methods['__init__']
    mappings = set()
    for s in Interp(prog, Scenario(inline=noinline)).run(ini):
        for pth, v, l, _ in s.stores:
            if pth.startswith(ini.params[0] + '.') and re.search(r'(\bdict|Dict)\(|^\{', v):
                mappings.add(pth[len(ini.params[0]) + 1:])
    for s in outs:
        root = _fresh_copy_root(s, 'PGPKey')
        base_copy = [c for c in s.calls if c[0] in ('super:Armorable.__copy__', 'Armorable.__copy__')]
        rep.check(len(base_copy) == 1 and root is not None and '__copy__(' in root, 'C14.4', 'PGPKey.__copy__', 'armor headers via Armorable.__copy__ (%s)' % root,
                  'a copy keeps the armor headers (built through the base class copy)', where=f.where)
        st = {p: v for p, v, l, _ in s.stores}
        rep.check(st.get('%s._key' % root) == 'copy.copy(%s._key)' % me, 'C14.4', 'PGPKey.__copy__',
                  'key packet: %s' % {k: v for k, v in st.items() if k.endswith('._key')}, 'a copy has its own copy of the key packet', where=f.where,
                  expected='<copy>._key = copy.copy(self._key)')
        cols = _copy_loops(recs, me, root, mappings)
        for attr, what in (('_uids', 'every user id and attribute'), ('_children', 'every subkey'), ('_signatures', 'every signature')):
            rep.check(attr in cols and cols[attr][0], 'C14.4', 'PGPKey.__copy__', '%s copied: %s' % (attr, attr in cols), 'a copy carries %s' % what, where=f.where,
                      expected='for x in self.%s: copy |= copy.copy(x)' % attr, found=sorted(cols))
            if attr in cols:
                clean, left_out, desc, elem = cols[attr]
                # only embedded signatures may be skipped (they are re-derived from their binding signature when it is attached)
                ok = same(left_out, ('const', False)) or (attr == '_signatures' and same(left_out, skeleton('%s.embedded' % elem)))
                rep.check(ok, 'C14.4', 'PGPKey.__copy__', 'left out of %s: %s' % (attr, desc or 'nothing'),
                          'only embedded cross-signatures may be left out of a copy', where=f.where)
    A = prog.cls('pgpy.types', 'Armorable')
    ac = A.methods['__copy__']
    outs = Interp(prog, Scenario(inline=noinline)).run(ac)
    ok = False
    for s_ in outs:
        obj = render(s_.ret)
        st = {p: v for p, v, l, _ in s_.stores}
        ok = st.get('%s.ascii_headers' % obj) in ('%s.ascii_headers.copy()' % ac.params[0], 'copy.copy(%s.ascii_headers)' % ac.params[0]) and \
            any(c[0] in ('%s.__class__' % ac.params[0], 'type(%s)' % ac.params[0]) for c in s_.calls)
    rep.check(ok, 'C14.4', 'Armorable.__copy__', 'headers copied into a new object of the same class', 'armor headers are copied', where=ac.where)
    U = prog.cls('pgpy.pgp', 'PGPUID')
    uf = U.methods['__copy__']
    outs, recs = observe(prog, uf)
    for s in outs:
        root = _fresh_copy_root(s, 'PGPUID')
        fresh = fresh_objects(s.events).get(root) == '%s()' % U.name or root == '%s()' % U.name
        pk = [e for e in _attach_events(s.events) if _root(e[0]) == root and e[1] == 'copy.copy(%s._uid)' % uf.params[0]]
        cols = _copy_loops(recs, uf.params[0], root)
        sigs = '_signatures' in cols and cols['_signatures'][0] and same(cols['_signatures'][1], ('const', False))
        rep.check(fresh and sigs and len(pk) == 1, 'C14.4', 'PGPUID.__copy__', 'new identity %s, packet copied %d, signatures copied %s' % (fresh, len(pk), sigs),
                  'a copied identity carries its packet and all its signatures', where=uf.where)
    S = prog.cls('pgpy.pgp', 'PGPSignature')
    sf = S.methods['__copy__']
    for s in Interp(prog, Scenario(inline=noinline)).run(sf):
        root = _fresh_copy_root(s, 'PGPSignature')
        sup = [c for c in s.calls if c[0] in ('super:Armorable.__copy__', 'Armorable.__copy__')]
        want = 'copy.copy(%s._signature)' % sf.params[0]
        pk = [e for e in _attach_events(s.events) if _root(e[0]) == root and e[1] == want] + \
            [x for x in s.stores if x[0] == '%s._signature' % root and x[1] == want]
        rep.check(len(sup) == 1 and root is not None and '__copy__(' in root and len(pk) == 1, 'C14.4', 'PGPSignature.__copy__',
                  'headers via base copy %d, packet copied %d' % (len(sup), len(pk)),
                  'a copied signature carries its armor headers and a copy of its packet', where=sf.where)
    SP = prog.cls('pgpy.packet.fields', 'SubPackets')
    cp = SP.methods['__copy__']
    me = cp.params[0]
    for s in Interp(prog, Scenario(inline=noinline)).run(cp):
        st = [(p, v) for p, v, l, _ in s.stores]
        obj = render(s.ret)
        d = dict(st)
        okm = all(d.get('%s.%s' % (obj, a)) in ('%s.%s.copy()' % (me, a), 'copy.copy(%s.%s)' % (me, a)) for a in ('_hashed_sp', '_unhashed_sp'))
        rep.check(okm, 'C14.4',
                  'SubPackets.__copy__', 'maps %s' % {k: v for k, v in d.items() if '_sp' in k}, 'a copied subpacket set carries both subpacket maps', where=cp.where)
        raw_idx = next((i for i, e in enumerate(s.events) if e[0] == 'store' and e[1].endswith('._hashed_raw')), None)
        late = [e for i, e in enumerate(s.events) if raw_idx is not None and i > raw_idx and e[0] == 'store' and "['h_'" in e[1].replace('(', '').replace('"', "'")]
        any_setitem = [e for e in s.events if e[0] == 'store' and '[' in e[1] and e[1].startswith(obj)]
        rep.check(raw_idx is not None and not late and not any_setitem, 'C14.4', 'SubPackets.__copy__', 'received hashed octets carried; item stores %s' % [e[1] for e in any_setitem],
                  'a copy must keep the received hashed octets: filing subpackets through __setitem__ invalidates them, so a copied imported '
                  'signature would be re-encoded and stop verifying', where=cp.where, expected='sp._hashed_raw = copy.copy(self._hashed_raw) with the maps copied directly')
    # packet-level copies reached from the copies above (copy.copy of the key / user id / user attribute / signature packet): an
    # explicit __copy__ must carry every field the packet's writer emits; no __copy__ at all is the generic (complete) copy
    packet_copies(rep, prog, 'C14.4', ('PubKeyV4', 'PrivKeyV4', 'PubSubKeyV4', 'PrivSubKeyV4', 'UserID', 'UserAttribute', 'SignatureV4'))
    # attributes __init__ sets: the ones this rule knows are covered by the checks above; any other attribute is classified by
    # analysis - certificate state (read by the serialiser / export / ordering / hash readers, and written from outside them)
    # must be carried by the copy, a cache or a constant need not be
    known = {'PGPKey': {'_key', '_children', '_signatures', '_uids', '_sibling', '_self_verified', '_require_usage_flags'},
             'PGPUID': {'_uid', '_signatures'}, 'PGPSignature': {'_signature'}, 'SubPackets': {'_hashed_sp', '_unhashed_sp', '_hashed_raw'}}
    for cname, kn in known.items():
        c = prog.cls('pgpy.pgp' if cname != 'SubPackets' else 'pgpy.packet.fields', cname)
        ini = c.methods['__init__']
        attrs = _stored_attrs(ini)
        new = sorted(attrs - kn)
        if not new:
            rep.ok('C14.4', '%s.__init__' % cname, 'attributes %s all covered' % sorted(attrs))
            continue
        readers, reads = _reader_closure(c)
        cpf = c.find_method('__copy__')
        for a in new:
            writes = _state_writes(prog, c, a, ini, readers)
            if a not in reads or not writes:
                why = 'not read by %s' % '/'.join(sorted(READER_ROOTS & {f.name for f in readers})) if a not in reads else \
                    'only filled by its own readers or with constants (a cache / constant: a copy recomputes it)'
                rep.ok('C14.4', '%s.__init__' % cname, 'new attribute %s is not certificate state: %s' % (a, why))
                continue
            carried = cpf is not None
            detail = []
            if cpf is not None:
                cme = cpf.params[0]
                for s_ in Interp(prog, Scenario(inline=noinline)).run(cpf):
                    if s_.raised is not None or s_.ret is None:
                        continue
                    root = _root(render(s_.ret))
                    got = [v for p_, v, l, _ in s_.stores if '.' in p_ and p_.rsplit('.', 1)[1] == a and _root(p_.rsplit('.', 1)[0]) == root and
                           re.search(r'(?<![\w.])%s\.%s(?![\w])' % (re.escape(cme), re.escape(a)), v)]
                    detail.append(got)
                    carried = carried and bool(got)
            rep.check(carried, 'C14.4', '%s.__copy__' % cname, 'new attribute %s (read by the export / ordering readers, written by %s): carried %s' % (
                      a, sorted(writes), detail),
                      'an attribute that the serialiser / ordering / hash input reads and that is set from outside them is certificate state: '
                      'a copy must carry it', where=(cpf or ini).where, expected='<copy>.%s = ... self.%s ...' % (a, a), found=detail)


def packet_copies(rep, prog, rid, classnames):
    """An explicit __copy__ of a packet class must carry every field the packet's writer emits (header included); no __copy__ at
    all is the generic (complete) copy."""
    for cname in classnames:
        c = prog.cls('pgpy.packet.packets', cname)
        cpm = c.find_method('__copy__')
        if cpm is None:
            rep.ok(rid, '%s.__copy__' % cname, 'generic copy (no override)')
            continue
        w = c.find_method('__bytearray__')
        if w is None:
            raise AnalysisError('%s.__bytearray__ vanished' % cname)
        wme, cme = w.params[0], cpm.params[0]
        emitted = set()
        for s in Interp(prog, Scenario(inline=noinline, self_cls=c)).run(w):
            r = render(s.ret) if s.ret is not None else ''
            emitted |= {x.lstrip('_') for x in re.findall(r'(?<![\w.])%s\.(\w+)' % re.escape(wme), r)}
            if re.search(r'super\(\w*\)\.__bytearray__\(\)', r):
                emitted.add('header')
        for s in Interp(prog, Scenario(inline=noinline, self_cls=c)).run(cpm):
            if s.raised is not None:
                continue
            obj = render(s.ret)
            carried = set()
            for pth, v, l, _ in s.stores:
                m = re.match(r'^%s\.(\w+)$' % re.escape(obj), pth)
                if m is None:
                    continue
                fld = m.group(1).lstrip('_')
                src = re.sub(r'^(?:copy\.copy|copy\.deepcopy|bytearray|bytes|list)\((.*)\)$', r'\1', v)
                src = re.sub(r'(\[:\]|\.copy\(\))$', '', src)
                src = re.sub(r'^SLICE\((.*);;\)$', r'\1', src)                 # x[:] of an octet string
                if src in ('%s.%s' % (cme, fld), '%s._%s' % (cme, fld)):
                    carried.add(fld)
            # a field left at its default on a path that decided on the source's value of it (`if self.ct is not None:`) is carried
            decided = {x.lstrip('_') for f_ in s.facts for x in re.findall(r'(?<![\w.])%s\.(\w+)' % re.escape(cme), f_[0])}
            carried |= (emitted & decided)
            missing = sorted(emitted - carried)
            rep.check(not missing and bool(emitted), rid, '%s.__copy__' % cname, 'writer emits %s, copy carries %s' % (sorted(emitted), sorted(carried)),
                      'a copied packet must carry every field its writer emits (a copy rebuilt from a derived view exports a truncated packet)',
                      where=cpm.where, expected=sorted(emitted), found=sorted(carried))


READER_ROOTS = {'__bytearray__', '__hashbytearray__', '__unhashbytearray__', '__lt__', '__gt__', '__le__', '__ge__', '__eq__', '__hash__', 'hashdata',
                '__iter__', '__len__', '__getitem__', '__contains__', '__sig__', '__str__'}


def _stored_attrs(fn):
    me = fn.params[0] if fn.params else None
    return set(n.attr for n in ast.walk(fn.node) if isinstance(n, ast.Attribute) and isinstance(n.ctx, ast.Store) and isinstance(n.value, ast.Name) and
               n.value.id == me)


def _member(c, name):
    """The function behind an attribute name of the class: method, plain property getter or sdproperty getter."""
    f = c.find_method(name)
    if f is not None:
        return f
    pp = c.find_plain_prop(name)
    if pp and pp.get('get') is not None:
        return pp['get']
    sp = c.find_prop(name)
    return sp.getter if sp is not None else None


def _reader_closure(c):
    """(functions, attributes read): everything the serialiser / export / ordering / hash-input readers of the class read on the
    receiver, transitively through the methods and properties of the class they use."""
    fns, reads, todo = [], set(), [f for f in (_member(c, r) for r in sorted(READER_ROOTS)) if f is not None]
    while todo:
        f = todo.pop()
        if any(f is g for g in fns):
            continue
        fns.append(f)
        for a in _self_reads(f):
            reads.add(a)
            g = _member(c, a)
            if g is not None and not any(g is h for h in fns):
                todo.append(g)
    return fns, reads


def _is_constant_expr(v):
    if v is None:
        return False
    if isinstance(v, ast.Constant):
        return True
    if isinstance(v, (ast.List, ast.Tuple, ast.Set)) and not v.elts:
        return True
    if isinstance(v, ast.Dict) and not v.keys:
        return True
    if isinstance(v, ast.UnaryOp) and isinstance(v.operand, ast.Constant):
        return True
    if isinstance(v, ast.Call) and not v.args and not v.keywords:
        return True                     # a fresh empty object
    return False


def _state_writes(prog, c, attr, ini, readers):
    """Where the attribute receives a value that is not a constant and not computed by one of its own readers: qualnames."""
    out = set()
    for fn in prog.all_functions():
        if any(fn is r or fn.node is r.node for r in readers):
            continue                    # what a reader stores is derived from what it reads (memo / cache)
        for n in ast.walk(fn.node):
            tgt, val = None, None
            if isinstance(n, ast.Assign):
                tgt, val = n.targets, n.value
            elif isinstance(n, ast.AugAssign):
                tgt, val = [n.target], None
            elif isinstance(n, ast.AnnAssign):
                tgt, val = [n.target], n.value
            if not tgt:
                continue
            for t in tgt:
                for x in ast.walk(t):
                    if isinstance(x, ast.Attribute) and isinstance(x.ctx, ast.Store) and x.attr == attr:
                        if isinstance(n, ast.AugAssign) or not _is_constant_expr(val):
                            out.add(fn.qualname)
    return out


def _typed(fn, clsname):
    """Scenario arguments: the operand of __or__ is an instance of clsname."""
    o = fn.params[1]
    return o, {o: Sym(o, types={clsname}, nonnull=True)}


def attach(rep, prog):
    K = prog.cls('pgpy.pgp', 'PGPKey')
    f = K.methods['__or__']
    me = f.params[0]
    # ---- a signature
    o, args = _typed(f, 'PGPSignature')
    outs, recs = observe(prog, f, args=args)
    live = [s for s in outs if s.raised is None]
    ins = bool(live) and all(sum(1 for c in s.calls if c[0] == '%s._signatures.insort' % me and c[1] == [o]) == 1 for s in live)
    rep.check(ins, 'C14.5', 'PGPKey.__or__', 'signature arm inserts into self._signatures',
              'a signature is inserted into the key\'s sorted collection (never replacing another)', where=f.where)
    rep.check(bool(live) and all(render(s.ret) == me for s in live), 'C14.5', 'PGPKey.__or__', 'returns %s' % sorted({render(s.ret) for s in live}),
              'attaching returns the key itself (`key |= x` keeps the key)', where=f.where)
    rejected = [s.raised for s in outs if s.raised is not None]
    replaced = sorted({p for s in live for p, v, l, _ in s.stores if p in ('%s._signatures' % me, '%s._uids' % me, '%s._children' % me)})
    rep.check(not rejected and not replaced, 'C14.5', 'PGPKey.__or__', 'signature operand: rejected %s, collections replaced %s' % (rejected, replaced),
              'every signature is accepted and added to the existing collection (none refused, the collection is not rebuilt / re-sorted)', where=f.where)
    binding = '%s.type == SignatureType.Subkey_Binding' % o
    emb_coll = "%s._signature.subpackets['EmbeddedSignature']" % o
    loops = [r for r in recs if r.coll in (emb_coll, "%s._signature.subpackets['h_EmbeddedSignature']" % o)]
    emb = bool(loops)
    detail = []
    for r in loops:
        when = atom_value(r.before.facts, binding)
        E = '(PGPSignature() | %s)' % r.var
        good = when is True and not r.conds
        for status, facts, events, _ in r.paths:
            linked = [e for e in events if e[0] == 'store' and e[1] == '%s._parent' % E and e[2] == o]
            inserted = [e for e in events if e[0] == 'call' and e[1] == '%s._signatures.insort' % me and e[2] == [E]]
            good = good and len(linked) == 1 and len(inserted) == 1 and status in ('normal', 'continue')
            detail.append((when, [e[1:3] for e in events if e[0] == 'store'], [e[1:3] for e in events if e[0] == 'call' and e[1].endswith('.insort')]))
        emb = emb and good
    # every path of a subkey binding signature reaches the extraction
    for s in live:
        if atom_value(s.facts, binding) is True:
            emb = emb and any(c[0] == '%s._signatures.insort' % me and c[1] and c[1][0].startswith('(PGPSignature() | ') for c in s.calls)
    rep.check(emb, 'C14.5', 'PGPKey.__or__', 'embedded signatures extracted %s' % detail,
              'the cross-signature embedded in a subkey binding is made visible, linked to its binding signature', where=f.where)
    # ---- a subkey
    o, args = _typed(f, 'PGPKey')
    live = [s for s in Interp(prog, Scenario(inline=noinline, args=args)).run(f) if s.raised is None]
    ok = bool(live)
    for s in live:
        st = {p: v for p, v, l, _ in s.stores}
        ok = ok and st.get('%s._parent' % o) == me and st.get('%s._children[%s.fingerprint.keyid]' % (me, o)) == o and \
            atom_value(s.facts, '%s.is_primary' % o) is False
    rep.check(ok, 'C14.5', 'PGPKey.__or__', 'subkey attached under its own key id, parent set', 'a subkey is attached to this key under its own key id', where=f.where)
    # ---- an identity
    o, args = _typed(f, 'PGPUID')
    live = [s for s in Interp(prog, Scenario(inline=noinline, args=args)).run(f) if s.raised is None]
    ok = bool(live)
    for s in live:
        st = {p: v for p, v, l, _ in s.stores}
        ok = ok and st.get('%s._parent' % o) in ('weakref.ref(%s)' % me, me) and sum(1 for c in s.calls if c[0] == '%s._uids.insort' % me and c[1] == [o]) == 1
    rep.check(ok, 'C14.5', 'PGPKey.__or__', 'identity linked and inserted', 'an identity is linked to and inserted into this key', where=f.where)
    U = prog.cls('pgpy.pgp', 'PGPUID')
    uf = U.methods['__or__']
    o, args = _typed(uf, 'PGPSignature')
    live = [s for s in Interp(prog, Scenario(inline=noinline, args=args)).run(uf) if s.raised is None]
    ok = bool(live) and all(sum(1 for c in s.calls if c[0] == '%s._signatures.insort' % uf.params[0] and c[1] == [o]) == 1 and render(s.ret) == uf.params[0] for s in live)
    rep.check(ok, 'C14.5', 'PGPUID.__or__', 'signature inserted', 'a certification is inserted into the identity\'s collection', where=uf.where)
    resorted(rep, prog, U, uf)


def _self_reads(fn):
    """Attributes of the receiver a function reads (structural: attribute loads on its first parameter)."""
    me = fn.params[0] if fn.params else None
    return {n.attr for n in ast.walk(fn.node) if isinstance(n, ast.Attribute) and isinstance(n.value, ast.Name) and n.value.id == me and isinstance(n.ctx, ast.Load)}


def resorted(rep, prog, U, uf):
    """C14.5: a user id is an element of its key's sorted collection; its rank (PGPUID.__lt__) reads its own signatures (the most
    recent self-issued one, whatever its type).  So every attachment of a signature that this read can select must re-sort the
    user id: the condition under which resort is reached may depend on the key being there, on the user id being filed in it, and
    on the very attributes of the signature the rank reads to select it - on nothing else (truth table over the decisions)."""
    lt = U.methods.get('__lt__')
    if lt is None:
        rep.ok('C14.5', 'PGPUID ordering', 'no __lt__: rank does not depend on signatures')
        return
    # does the rank read the signatures?  (closure over the properties of the class)
    seen, todo = set(), set(_self_reads(lt))
    getters = {}
    while todo:
        a = todo.pop()
        if a in seen:
            continue
        seen.add(a)
        pp = U.find_plain_prop(a)
        g = pp.get('get') if pp else None
        if g is not None:
            getters[a] = g
            todo |= _self_reads(g)
    if '_signatures' not in seen:
        rep.ok('C14.5', 'PGPUID ordering', 'rank does not read the signatures')
        return
    # which attributes of a signature decide whether the rank looks at it
    selects = set()
    for a, g in getters.items():
        if '_signatures' not in _self_reads(g):
            continue
        _, recs = observe(prog, g)
        for r in recs:
            if re.search(r'\._signatures\b', r.coll):
                v = re.escape(r.var)
                for status, facts, events, ys in r.paths:
                    for f in facts:
                        selects |= set(re.findall(r'%s\.(\w+)' % v, f[0]))
                for c in r.conds:
                    selects |= set(re.findall(r'%s\.(\w+)' % v, c))
    # properties of the user id whose value depends on its signatures: a re-sort may not be made conditional on them either
    sigdeps = {'_signatures'}
    grew = True
    while grew:
        grew = False
        for a, g in getters.items():
            if a not in sigdeps and _self_reads(g) & sigdeps:
                sigdeps.add(a)
                grew = True
    me = uf.params[0]
    o, args = _typed(uf, 'PGPSignature')
    outs = Interp(prog, Scenario(inline=noinline, args=args)).run(uf)
    live = [s for s in outs if s.raised is None]
    def resorts_after_insert(s):
        ins = [i for i, e in enumerate(s.events) if e[0] == 'call' and e[1] == '%s._signatures.insort' % me]
        res = [i for i, e in enumerate(s.events) if e[0] == 'call' and e[1].endswith('._uids.resort') and e[2] == [me]]
        return bool(ins) and bool(res) and max(ins) < min(res)          # ranked with the new signature in place
    reach = [path_cond(s.facts) for s in live if resorts_after_insert(s)]
    R = ('or', reach)
    free, forced = [], []
    for a in sorted(atoms(R)):
        mentions = re.findall(r'(?<![\w.])%s\.(\w+)' % re.escape(o), a)
        about_other = re.search(r'(?<![\w.])%s(?![\w])' % re.escape(o), a) is not None
        on_state = set(re.findall(r'(?<![\w.])%s\.(\w+)' % re.escape(me), a)) & sigdeps
        if on_state:
            forced.append(a)
        elif not about_other or (mentions and set(mentions) <= selects and len(mentions) == len(re.findall(r'(?<![\w.])%s(?![\w])' % re.escape(o), a))):
            free.append(a)          # key present / user id filed / the attributes the rank itself selects the signature by
        else:
            forced.append(a)        # anything else about the signature may not narrow the re-sort
    ok = bool(reach)
    if ok:
        names = free + forced
        if len(names) > 12:
            raise AnalysisError('PGPUID.__or__: resort guarded by %d decisions' % len(names))
        import itertools
        from sa.condtab import evaluate
        ok = False
        for fv in itertools.product((False, True), repeat=len(free)):
            if all(evaluate(R, dict(zip(names, fv + ov))) for ov in itertools.product((False, True), repeat=len(forced))):
                ok = True
                break
    rep.check(ok, 'C14.5', 'PGPUID.__or__', 'resort reached under %s; rank selects a signature by %s; narrowing decisions %s' % (
              [fact_list(s.facts) for s in live if resorts_after_insert(s)], sorted(selects), forced),
              'the rank of a user id in its key reads its most recent self-issued signature of ANY type: every attached signature the rank can '
              'select must be followed by the re-sort, or the in-memory order (and every later export / copy) goes stale', where=uf.where,
              expected='resort whenever the user id is filed in a key', found=forced)


def fact_list(facts):
    return [f[0] if f[1] else 'not ' + f[0] for f in facts]
