"""C14 - Transferable keys survive export and import with their structure intact (partial: grammar, filters, grouping, copies).

  C14.1 export grammar of PGPKey.__bytearray__: key, its signatures, (user id, its signatures)*, subkeys* (RFC 4880 11.1);
        every signature emission site keeps exactly the exportable ones; embedded signatures are skipped only at key level
  C14.2 `exportable` defaults to True and reads the ExportableCertification flag; that flag survives a parse (Boolean codec)
  C14.3 import: Trust packets are dropped BEFORE grouping; a group starts at every non-signature packet; every signature of a
        group is attached to the group's head; user ids and subkeys go to the most recent primary key; a primary starts a new key
  C14.4 copies carry the certificate state (key packet, user ids, subkeys, signatures, armor headers, received hashed octets)
  C14.5 attaching: signatures are inserted (never replaced) into sorted collections; embedded cross-signatures are extracted
"""
import ast
import re

from sa.interp import Interp, Scenario, Sym, Const, Bytes, render, merge_consts
from sa.loader import AnalysisError, dotted

noinline = lambda f: False  # noqa: E731


def run(rep, prog, tier):
    rep.rule('C14.1', 'export grammar and exportable filters', floor=6)
    rep.rule('C14.2', 'exportable default and Boolean subpacket codec', floor=5)
    rep.rule('C14.3', 'import grouping and attachment', floor=8)
    rep.rule('C14.4', 'copy completeness', floor=9)
    rep.rule('C14.5', 'attachment inserts; embedded signatures extracted', floor=5)
    rep.assume('SorteDeque.insort keeps elements with equal keys (bisect insertion, no replacement)')

    export(rep, prog)
    exportable(rep, prog)
    grouping(rep, prog)
    copies(rep, prog)
    attach(rep, prog)


def export(rep, prog):
    f = prog.method('pgpy.pgp', 'PGPKey', '__bytearray__')
    rep.saw(fn=f)
    for s in Interp(prog, Scenario(inline=noinline)).run(f):
        its = merge_consts(s.ret.items) if isinstance(s.ret, Bytes) else None
        if its is None:
            raise AnalysisError('PGPKey.__bytearray__ does not return bytes')
        kinds = []
        for it in its:
            if it[0] == 'SYM' and it[1] == 'self._key.__bytearray__()':
                kinds.append('KEY')
            elif it[0] == 'EACH':
                var, coll, body = it[1], it[2], it[3]
                btxt = ' '.join(render_item(b) for b in body)
                if '_uid.__bytearray__()' in btxt:
                    kinds.append('UIDS')
                    inner = [b for b in body if b[0] == 'EACH']
                    rep.check(len(inner) == 1 and body[0][0] == 'SYM' and body[0][1] == '%s._uid.__bytearray__()' % var, 'C14.1', 'PGPKey.__bytearray__',
                              'user id block %s' % btxt[:120], 'each user id / attribute packet is immediately followed by its own signatures', where=f.where)
                    for b in inner:
                        rep.check(('%s._signatures' % var) in b[2], 'C14.1', 'PGPKey.__bytearray__', 'uid signatures from %s' % b[2],
                                  'the signatures after a user id must be that user id\'s signatures', where=f.where)
                elif coll.startswith('self._children'):
                    kinds.append('SUBKEYS')
                    rep.check(btxt == '%s.__bytearray__()' % var, 'C14.1', 'PGPKey.__bytearray__', 'subkey block %s' % btxt,
                              'subkeys are exported through the same method (packet, then its signatures)', where=f.where)
                elif 'self._signatures' in coll:
                    kinds.append('KEYSIGS')
                else:
                    kinds.append('?(%s)' % coll[:40])
            else:
                kinds.append('?(%s)' % render_item(it)[:40])
        rep.check(kinds == ['KEY', 'KEYSIGS', 'UIDS', 'SUBKEYS'], 'C14.1', 'PGPKey.__bytearray__', 'sequence %s' % kinds,
                  'a transferable key is the key packet, its signatures, user ids each with their signatures, then subkeys (RFC 4880 11.1)', where=f.where,
                  expected=['KEY', 'KEYSIGS', 'UIDS', 'SUBKEYS'], found=kinds)
    # filters at every signature emission site
    sites = []
    for n in ast.walk(f.node):
        if isinstance(n, ast.For) and any(isinstance(c, ast.Call) and isinstance(c.func, ast.Attribute) and c.func.attr == '__bytearray__' and
                                          isinstance(c.func.value, ast.Name) and c.func.value.id == ast.unparse(n.target)
                                          for st in n.body for c in ast.walk(st)) and '_signatures' in ast.unparse(n.iter):
            sites.append(n)
    rep.check(len(sites) == 2, 'C14.1', 'PGPKey.__bytearray__', 'signature emission sites %d' % len(sites), 'key-level and user-id-level signature loops', where=f.where)
    for n in sites:
        comp = [c for c in ast.walk(n.iter) if isinstance(c, (ast.GeneratorExp, ast.ListComp))]
        conds = [ast.unparse(i).replace(' ', '') for c in comp for g in c.generators for i in g.ifs]
        flat = []
        for c in conds:
            flat.extend(x.strip('()') for x in c.split('and'))
        v = ast.unparse(comp[0].generators[0].target) if comp else '?'
        key_level = 'self._signatures' in ast.unparse(n.iter)
        pos = '%s.exportable' % v in flat
        rep.check(pos, 'C14.1', 'PGPKey.__bytearray__', 'filter at %s: %s' % (ast.unparse(n.iter)[:60], conds),
                  'exactly the exportable signatures are exported: the filter must keep s.exportable (positive polarity)', where='%s:%d' % (f.module.relpath, n.lineno),
                  expected='if s.exportable', found=conds)
        extra = [x for x in flat if x not in ('%s.exportable' % v, 'not%s.embedded' % v)]
        rep.check(not extra and (('not%s.embedded' % v in flat) == key_level), 'C14.1', 'PGPKey.__bytearray__', 'other filter terms %s' % extra,
                  'no other condition may drop signatures; embedded cross-signatures are skipped only in the key-level list (they live inside their binding)',
                  where='%s:%d' % (f.module.relpath, n.lineno), found=flat)


def render_item(it):
    from sa.interp import render_item as ri
    return ri(it)


def exportable(rep, prog):
    f = prog.method('pgpy.pgp', 'PGPSignature', 'exportable')
    rep.saw(fn=f)
    for present in (True, False):
        sc = Scenario(inline=noinline, axioms={"('ExportableCertification' in self._signature.subpackets)": present})
        for s in Interp(prog, sc).run(f):
            r = render(s.ret)
            if present:
                rep.check(r == "bool(next(iter(self._signature.subpackets['ExportableCertification'])))", 'C14.2', 'PGPSignature.exportable', r,
                          'with the subpacket present the flag decides', where=f.where)
            else:
                rep.check(r == 'True', 'C14.2', 'PGPSignature.exportable', 'default %s' % r, 'a signature without the subpacket is exportable', where=f.where,
                          expected='True', found=r)
    B = prog.cls('pgpy.packet.subpackets.signature', 'Boolean')
    p = B.props.get('bflag')
    if p is None:
        raise AnalysisError('Boolean.bflag vanished')
    sb = p.setters.get('bytearray')
    for s in Interp(prog, Scenario(inline=noinline, forward_stores=False)).run(sb):
        st = {pth: v for pth, v, l, _ in s.stores}
        ok = st.get('self.bflag') == 'bool(self.bytes_to_int(val))' or st.get('self._bool') == 'bool(self.bytes_to_int(val))'
        rep.check(ok, 'C14.2', 'Boolean.bflag_bytearray', 'stores %s' % st,
                  'the parsed flag octet must reach the attribute the flag is read from; otherwise an explicit exportable=true reads back as false, '
                  'the certification fails verification and is dropped on the next export', where=sb.where, expected='self.bflag = bool(...)', found=st)
    for s in Interp(prog, Scenario(inline=noinline)).run(p.setters['bool']):
        st = {pth: v for pth, v, l, _ in s.stores}
        rep.check(st == {'self._bool': 'val'}, 'C14.2', 'Boolean.bflag_bool', '%s' % st, 'the boolean setter stores the backing attribute', where=sb.where)
    for s in Interp(prog, Scenario(inline=noinline)).run(p.getter):
        rep.check(render(s.ret) == 'self._bool', 'C14.2', 'Boolean.bflag', render(s.ret), 'the flag is read from the backing attribute', where=p.getter.where)
    bb = B.methods['__bool__']
    for s in Interp(prog, Scenario(inline=noinline)).run(bb):
        rep.check(render(s.ret) == 'self.bflag', 'C14.2', 'Boolean.__bool__', render(s.ret), 'truthiness of the subpacket is its flag', where=bb.where)
    E = prog.cls('pgpy.packet.subpackets.signature', 'ExportableCertification')
    rep.check(B in E.mro() and ast.literal_eval(E.attrs['__typeid__']) == 0x04, 'C14.2', 'ExportableCertification', 'Boolean, type 4',
              'exportable certification is boolean subpacket type 4 (RFC 4880 5.2.3.11)', where=E.where)


def grouping(rep, prog):
    f = prog.method('pgpy.pgp', 'PGPKey', 'parse')
    rep.saw(fn=f)
    src = ast.unparse(f.node)
    # Trust removal before grouping
    getpkt = [n for n in ast.walk(f.node) if isinstance(n, ast.Assign) and ast.unparse(n.targets[0]) == 'getpkt']
    ok = len(getpkt) == 1
    if ok:
        v = getpkt[0].value
        ok = isinstance(v, ast.Call) and dotted(v.func) == 'filter' and 'p.header.tag != PacketTag.Trust' in ast.unparse(v.args[0])
    gb = [n for n in ast.walk(f.node) if isinstance(n, ast.Call) and dotted(n.func) == 'itertools.groupby']
    ok2 = len(gb) == 1 and ast.unparse(gb[0].args[0]) == 'getpkt'
    rep.check(ok and ok2, 'C14.3', 'PGPKey.parse', 'trust filter %s; groupby over %s' % (ast.unparse(getpkt[0].value)[:70] if getpkt else None, ast.unparse(gb[0].args[0]) if gb else None),
              'Trust packets (keyring-local) must be removed from the packet stream before grouping: a Trust packet that opens a group swallows the '
              'signatures that follow it', where=f.where, expected='getpkt = filter(lambda p: p.header.tag != PacketTag.Trust, ...); groupby(getpkt, ...)')
    # group key changes exactly on non-signature packets
    pg = [n for n in ast.walk(f.node) if isinstance(n, ast.ClassDef) and n.name == 'PktGrouper']
    ok = len(pg) == 1
    if ok:
        call = [m for m in pg[0].body if isinstance(m, ast.FunctionDef) and m.name == '__call__']
        t = ast.unparse(call[0]).replace(' ', '') if call else ''
        ok = 'ifpkt.header.tag!=PacketTag.Signature:' in t and 'self.last=' in t and t.rstrip().endswith('returnself.last') and 'id(pkt)' in t
    rep.check(ok, 'C14.3', 'PGPKey.parse.PktGrouper', 'group key', 'a new group starts at every packet that is not a signature, and only there', where=f.where)
    # skipped groups: only Opaque
    skip = re.findall(r"if not _\.endswith\((.*?)\)\)", src)
    rep.check(skip == ["'Opaque'"], 'C14.3', 'PGPKey.parse', 'skipped groups %s' % skip, 'only groups headed by an unknown (opaque) packet are skipped', where=f.where,
              expected="not _.endswith('Opaque')", found=skip)
    # attachment of every signature of the group
    att = [n for n in ast.walk(f.node) if isinstance(n, ast.ListComp) and 'operator.ior' in ast.unparse(n.elt)]
    ok = len(att) == 1
    if ok:
        g = att[0].generators[0]
        ok = ast.unparse(att[0].elt).replace(' ', '') == 'operator.ior(pgpobj,PGPSignature()|sig)' and ast.unparse(g.iter) == 'group' and \
            [ast.unparse(i).replace(' ', '') for i in g.ifs] == ['notisinstance(sig,Opaque)']
    rep.check(ok, 'C14.3', 'PGPKey.parse', 'signature attachment %s' % (ast.unparse(att[0])[:120] if att else 'not a single comprehension over the group'),
              'every signature packet of a group (except unparseable ones) is attached to the group\'s head - none dropped, merged or de-duplicated',
              where=f.where, expected='[operator.ior(pgpobj, PGPSignature() | sig) for sig in group if not isinstance(sig, Opaque)]')
    # filing
    t = src.replace(' ', '')
    rep.check('pgpobj=(selfifself._keyisNoneelsePGPKey())|pkt' in t, 'C14.3', 'PGPKey.parse', 'key head', 'a key packet starts a key object (the first one fills self)', where=f.where)
    rep.check('pgpobj=PGPUID()|pkt' in t, 'C14.3', 'PGPKey.parse', 'uid head', 'a user id / attribute packet starts an identity', where=f.where)
    rep.check('keys[pgpobj.fingerprint.keyid,pgpobj.is_public]=pgpobj' in t.replace('(', '').replace(')', '') or
              'keys[(pgpobj.fingerprint.keyid,pgpobj.is_public)]=pgpobj' in t, 'C14.3', 'PGPKey.parse', 'primary filed as a new key',
              'each primary key packet starts a new key in the result', where=f.where)
    n_recent = t.count('keys[next(reversed(keys))]|=pgpobj')
    rep.check(n_recent == 2, 'C14.3', 'PGPKey.parse', 'subkeys and identities go to the most recent primary (%d sites)' % n_recent,
              'subkeys and user ids belong to the primary key that precedes them', where=f.where)


def copies(rep, prog):
    K = prog.cls('pgpy.pgp', 'PGPKey')
    f = K.methods['__copy__']
    rep.saw(fn=f)
    t = ast.unparse(f.node).replace(' ', '')
    rep.check('key=super(PGPKey,self).__copy__()' in t, 'C14.4', 'PGPKey.__copy__', 'armor headers via Armorable.__copy__', 'a copy keeps the armor headers', where=f.where)
    rep.check('key._key=copy.copy(self._key)' in t, 'C14.4', 'PGPKey.__copy__', 'key packet copied', 'a copy has its own key packet', where=f.where)
    loops = {ast.unparse(n.iter): ' '.join(ast.unparse(x) for x in n.body).replace(' ', '') for n in ast.walk(f.node) if isinstance(n, ast.For)}
    rep.check('key|=copy.copy(uid)' in loops.get('self._uids', ''), 'C14.4', 'PGPKey.__copy__', 'user ids copied', 'a copy carries every user id and attribute', where=f.where)
    rep.check('key|=copy.copy(subkey)' in loops.get('self._children.items()', ''), 'C14.4', 'PGPKey.__copy__', 'subkeys copied', 'a copy carries every subkey', where=f.where)
    sl = loops.get('self._signatures', '')
    rep.check('key|=copy.copy(sig)' in sl and 'ifsig.embedded:' in sl and 'continue' in sl, 'C14.4', 'PGPKey.__copy__', 'signatures copied (embedded re-derived)',
              'a copy carries every signature; embedded cross-signatures are re-derived from their binding signature', where=f.where)
    A = prog.cls('pgpy.types', 'Armorable')
    ta = ast.unparse(A.methods['__copy__'].node).replace(' ', '')
    rep.check('obj=self.__class__()' in ta and 'obj.ascii_headers=self.ascii_headers.copy()' in ta, 'C14.4', 'Armorable.__copy__', 'headers copied', 'armor headers are copied',
              where=A.where)
    U = prog.cls('pgpy.pgp', 'PGPUID')
    tu = ast.unparse(U.methods['__copy__'].node).replace(' ', '')
    rep.check('uid|=copy.copy(self._uid)' in tu and 'forsiginself._signatures:' in tu and 'uid|=copy.copy(sig)' in tu, 'C14.4', 'PGPUID.__copy__', 'packet and signatures',
              'a copied identity carries its packet and all its signatures', where=U.where)
    S = prog.cls('pgpy.pgp', 'PGPSignature')
    ts = ast.unparse(S.methods['__copy__'].node).replace(' ', '')
    rep.check('sig=super(PGPSignature,self).__copy__()' in ts and 'sig|=copy.copy(self._signature)' in ts, 'C14.4', 'PGPSignature.__copy__', 'headers and packet',
              'a copied signature carries its packet', where=S.where)
    SP = prog.cls('pgpy.packet.fields', 'SubPackets')
    cp = SP.methods['__copy__']
    for s in Interp(prog, Scenario(inline=noinline)).run(cp):
        st = [(p, v) for p, v, l, _ in s.stores]
        obj = render(s.ret)
        d = dict(st)
        rep.check(d.get('%s._hashed_sp' % obj) == 'self._hashed_sp.copy()' and d.get('%s._unhashed_sp' % obj) == 'self._unhashed_sp.copy()', 'C14.4',
                  'SubPackets.__copy__', 'maps %s' % {k: v for k, v in d.items() if '_sp' in k}, 'a copied subpacket set carries both subpacket maps', where=cp.where)
        raw_idx = next((i for i, e in enumerate(s.events) if e[0] == 'store' and e[1].endswith('._hashed_raw')), None)
        late = [e for i, e in enumerate(s.events) if raw_idx is not None and i > raw_idx and e[0] == 'store' and "['h_'" in e[1].replace('(', '').replace('"', "'")]
        any_setitem = [e for e in s.events if e[0] == 'store' and '[' in e[1] and e[1].startswith(obj)]
        rep.check(raw_idx is not None and not late and not any_setitem, 'C14.4', 'SubPackets.__copy__', 'received hashed octets carried; item stores %s' % [e[1] for e in any_setitem],
                  'a copy must keep the received hashed octets: filing subpackets through __setitem__ invalidates them, so a copied imported '
                  'signature would be re-encoded and stop verifying', where=cp.where, expected='sp._hashed_raw = copy.copy(self._hashed_raw) with the maps copied directly')
    # new __init__ attributes must be classified
    known = {'PGPKey': {'_key', '_children', '_signatures', '_uids', '_sibling', '_self_verified', '_require_usage_flags'},
             'PGPUID': {'_uid', '_signatures'}, 'PGPSignature': {'_signature'}, 'SubPackets': {'_hashed_sp', '_unhashed_sp', '_hashed_raw'}}
    for cname, kn in known.items():
        c = prog.cls('pgpy.pgp' if cname != 'SubPackets' else 'pgpy.packet.fields', cname)
        ini = c.methods['__init__']
        attrs = set(n.attr for n in ast.walk(ini.node) if isinstance(n, ast.Attribute) and isinstance(n.ctx, ast.Store) and isinstance(n.value, ast.Name) and n.value.id == 'self')
        new = attrs - kn
        if new:
            rep.error('C14.4', '%s.__init__ has unclassified attributes %s: cannot tell whether a copy must carry them' % (cname, sorted(new)))
        else:
            rep.ok('C14.4', '%s.__init__' % cname, 'attributes %s all classified' % sorted(attrs))


def attach(rep, prog):
    K = prog.cls('pgpy.pgp', 'PGPKey')
    f = K.methods['__or__']
    t = ast.unparse(f.node).replace(' ', '')
    rep.check('elifisinstance(other,PGPSignature):self._signatures.insort(other)' in t.replace('\n', ''), 'C14.5', 'PGPKey.__or__', 'signature inserted',
              'a signature is inserted into the key\'s sorted collection (never replacing another)', where=f.where)
    rep.check("ifother.type==SignatureType.Subkey_Binding:" in t and "other._signature.subpackets['EmbeddedSignature']" in t and 'esig._parent=other' in t and
              'self._signatures.insort(esig)' in t, 'C14.5', 'PGPKey.__or__', 'embedded signatures extracted',
              'the cross-signature embedded in a subkey binding is made visible, linked to its binding signature', where=f.where)
    rep.check('other._parent=self' in t and 'self._children[other.fingerprint.keyid]=other' in t, 'C14.5', 'PGPKey.__or__', 'subkey attached by key id',
              'a subkey is attached to this key under its own key id', where=f.where)
    rep.check('other._parent=weakref.ref(self)' in t and 'self._uids.insort(other)' in t, 'C14.5', 'PGPKey.__or__', 'identity attached', 'an identity is linked to and inserted into this key',
              where=f.where)
    U = prog.cls('pgpy.pgp', 'PGPUID')
    tu = ast.unparse(U.methods['__or__'].node).replace(' ', '')
    rep.check('ifisinstance(other,PGPSignature):self._signatures.insort(other)' in tu.replace('\n', ''), 'C14.5', 'PGPUID.__or__', 'signature inserted',
              'a certification is inserted into the identity\'s collection', where=U.where)
