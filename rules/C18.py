"""C18 - Fingerprints and key ids are the RFC 4880 values and are stable.

  C18.1 PubKeyV4.fingerprint hashes  99 || len2(6+publen) || 04 || time4 || alg1 || material[:publen]  with SHA-1 (RFC 4880 12.2)
  C18.2 the time / algorithm / material terms are the same terms PubKeyV4.__bytearray__ exports after the version octet
  C18.3 publen of every private key-material class computes the very term the __len__ of its public sibling computes (C3 MRO)
  C18.4 Fingerprint.keyid / shortid are the low 64 / 32 bits; PGPKey.fingerprint delegates to the key packet
  C18.5 creation time is serialised with a UTC-correct idiom wherever it is hashed or exported
  C18.6 the public twin is built from copies of the private packet's own public terms
  C18.7 issuer key id / issuer fingerprint / recipient key id are those of the operating key itself
  C18.8 every key packet rebuilt from another one (pubkey, __copy__, sub-key conversion) takes created / pkalg / keymaterial from ONE source
  C18.10 widths computed from bit lengths (ECPoint.from_values, MPI.byte_length) are ceilings at 255/256/384/521 bits; ECPoint / MPI writer-reader pairs agree (finite-point evaluation, sa/ceval.py)
  C18.11 pkalg of every V4 key packet class (pubalg / halg / sigtype of SignatureV4) is the identity on its enum: the octet hashed is the octet received (sa/ceval.py)
  C18.9 __copy__ of the key material classes and of the field objects they serialise carries every attribute the serialiser reads

Every rule is decided on interpreter values (byte terms, call / store events, return values); nothing compares source text,
local names or statement shapes.
"""
import ast
import re

from sa.interp import Interp, Scenario, Bytes, render, render_items, merge_consts, render_item, lin_norm, lin_parse, sl, alpha
from sa.templates import C, INT, SYM, Pred, match
from sa.loader import AnalysisError
from sa import tables
from sa import families
from sa.timeidiom import check_time_sites, check_time_readers, is_utc_seconds

noinline = lambda f: False  # noqa: E731


def norm_fp_items(items):
    """Normal form of a hashed / exported octet sequence:
       SLICE(INT(2;x);;1) SLICE(INT(2;x);-1;)  ==  INT(2;x)   (high and low octet of a two-octet number)
       BYTE(x)                                 ==  INT(1;x)   (one octet either way; x < 256 for every algorithm id)
       BYTE(4), INT(1;4)                       ==  C(04)      (an octet given as a number)"""
    its = []
    for it in items:
        if it[0] == 'BYTE':
            it = ('INT', '1', it[1])
        if it[0] == 'INT' and it[1].isdigit() and it[2].isdigit() and 0 < int(it[1]) <= 8 and int(it[2]) < 256 ** int(it[1]):
            it = ('C', int(it[2]).to_bytes(int(it[1]), 'big'))
        its.append(it)
    its = merge_consts(its)
    out = []
    i = 0
    while i < len(its):
        a = its[i]
        if a[0] == 'SLICE' and i + 1 < len(its) and its[i + 1][0] == 'SLICE':
            b = its[i + 1]
            if not isinstance(a[1], str) and a[1] == b[1] and len(a[1]) == 1 and a[1][0][0] == 'INT' and a[1][0][1] == '2' \
                    and (a[2], a[3]) == ('', '1') and (b[2], b[3]) in (('-1', ''), ('1', ''), ('1', '2')):
                out.append(a[1][0])
                i += 2
                continue
        out.append(a)
        i += 1
    return out


def low_digits(text, base):
    """n if `text` is the slice term of the last n items of `base` (base[-n:], base[len(base) - n:], .. [: len(base)]), else None."""
    m = re.match(r'^SLICE\((%s|str\(%s\));(.*);(.*)\)$' % (re.escape(base), re.escape(base)), text or '')
    if not m:
        return None
    lo, hi = m.group(2), m.group(3)
    lens = ('len(%s)' % base, 'len(str(%s))' % base)
    if hi not in ('',) + lens:
        return None
    terms, c = lin_parse(lo) if lo else ({}, 0)
    if c < 0 and (terms == {} or terms in ({lens[0]: 1}, {lens[1]: 1})):
        return -c
    return None


def slice_terms(text):
    """(base, lo, hi) of every SLICE(base;lo;hi) term occurring anywhere in a rendered value."""
    out = []
    i = text.find('SLICE(')
    while i >= 0:
        j, d, parts, cur = i + 6, 1, [], ''
        while j < len(text) and d > 0:
            ch = text[j]
            if ch in '([{':
                d += 1
            elif ch in ')]}':
                d -= 1
                if d == 0:
                    break
            if ch == ';' and d == 1:
                parts.append(cur)
                cur = ''
            else:
                cur += ch
            j += 1
        parts.append(cur)
        if len(parts) == 3:
            out.append(tuple(parts))
        i = text.find('SLICE(', i + 6)
    return out


def check_fingerprint_cuts(rep, prog):
    """Outside the Fingerprint accessors, any place that cuts a fingerprint down to an id must take its LOW-order 16 / 8 digits.
    Functions are located by what they touch (an attribute called *fingerprint* and a slice); the cut is read off the values
    the interpreter sees in calls, stores, conditions and results (temporaries do not hide it)."""
    scanned, cuts = 0, 0
    for fn in prog.all_functions():
        if fn.cls is not None and fn.cls.name == 'Fingerprint':
            continue
        touches = any(isinstance(n, ast.Attribute) and 'fingerprint' in n.attr.lower() for n in ast.walk(fn.node))
        slices = any(isinstance(n, ast.Subscript) and isinstance(n.slice, ast.Slice) for n in ast.walk(fn.node))
        if not (touches and slices):
            continue
        scanned += 1
        texts = []
        try:
            for s in Interp(prog, Scenario(inline=noinline, join_unknown=True)).run(fn):
                for c in s.calls:
                    texts.extend([c[0]] + list(c[1]) + list(c[2].values()))
                for p, v, l, _ in s.stores:
                    texts.extend([p, v])
                texts.extend(f[0] for f in s.facts)
                texts.extend(render(y) for y in s.yields)
                texts.append(render(s.ret))
                texts.append(s.raised or '')
                for e in s.events:
                    if e[0] == 'assign':
                        texts.append(e[2])
        except AnalysisError:
            # not interpretable: the slices as written
            for n in ast.walk(fn.node):
                if isinstance(n, ast.Subscript) and isinstance(n.slice, ast.Slice):
                    lo = ast.unparse(n.slice.lower) if n.slice.lower is not None else ''
                    hi = ast.unparse(n.slice.upper) if n.slice.upper is not None else ''
                    texts.append('SLICE(%s;%s;%s)' % (ast.unparse(n.value), lo, hi))
        seen = set()
        for t in texts:
            for base, lo, hi in slice_terms(t or ''):
                if 'fingerprint' not in base.lower() or (base, lo, hi) in seen:
                    continue
                seen.add((base, lo, hi))
                cuts += 1
                n = low_digits('SLICE(%s;%s;%s)' % (base, lo, hi), base)
                rep.check(n in (16, 8), 'C18.4', fn.qualname, 'id cut from a fingerprint: %s[%s:%s]' % (base, lo, hi),
                          'a key id is the low-order 64 (short id: 32) bits of the fingerprint: its LAST 16 (8) hex digits', where=fn.where,
                          expected='%s[-16:] (or .keyid)' % base, found='%s[%s:%s]' % (base, lo, hi))
    rep.ok('C18.4', 'package', '%d function(s) touching a fingerprint and slicing scanned, %d direct cut(s)' % (scanned, cuts))


def _ceil8(bits):
    return -(-bits // 8)


def check_widths(rep, prog, rid):
    """Octet widths on the way into the fingerprint input are CEILINGS of the bit length, and what is written re-parses:
    ECPoint.from_values / to_mpibytes / __len__ / parse and MPI.byte_length / to_mpibytes / parse are evaluated by the checker's
    own finite-point evaluator (sa/ceval.py; nothing of the repository runs) at the curve sizes 255, 256, 384 and 521 (the one
    size that is not a multiple of 8) and at coordinates with and without leading zero octets; every ECPoint built for a key's
    own public point takes the width of the key's own curve."""
    from sa.ceval import Evaluator, VBuf, ClassRef, NoEval, Raised, Diverged
    E = Evaluator(prog)
    EP = prog.cls('pgpy.packet.fields', 'ECPoint')
    MPI = prog.cls('pgpy.packet.types', 'MPI')
    fmt = prog.cls('pgpy.constants', 'ECPointFormat').enum_members()
    fv = EP.find_method('from_values')
    if fv is None or 'Standard' not in fmt or 'Native' not in fmt:
        raise AnalysisError('ECPoint.from_values / ECPointFormat vanished')
    rep.saw(fn=fv)

    def guarded(construct, stmt, what, fn, where):
        try:
            ok, found, expected = fn()
        except Raised as ex:
            rep.violation(rid, construct, stmt, '%s: the evaluated code raises %s' % (what, ex), where=where, found=str(ex))
            return
        except (NoEval, Diverged) as ex:
            raise AnalysisError('%s: %s outside the evaluator (%s)' % (construct, stmt, ex))
        rep.check(ok, rid, construct, stmt, what, where=where, expected=expected, found=found)

    def ival(v):
        return getattr(v, 'ival', v)

    # 1. coordinate width of a point made from a curve size
    for bits in (255, 256, 384, 521):
        def f(bits=bits):
            pt = E.method(ClassRef(EP), 'from_values', bits, fmt['Standard'], E.new(MPI, 1), E.new(MPI, 1))
            return pt.attrs.get('bytelen') == _ceil8(bits), pt.attrs.get('bytelen'), _ceil8(bits)
        guarded('ECPoint.from_values', 'coordinate width for a %d-bit curve' % bits,
                'the coordinate width of an EC point is ceil(bits / 8) octets (fixed-width encoding; 521 bits need 66)', f, fv.where)
    # 2. what from_values builds is written fixed-width, has the length __len__ reports (publen!) and re-parses to the same point
    for bits in (256, 384, 521):
        full, small = (1 << (bits - 1)) | 5, 7
        for tag, x, y in (('x full, y short', full, small), ('x short, y full', small, full), ('both full', full, full - 2)):
            def f(bits=bits, x=x, y=y):
                pt = E.method(ClassRef(EP), 'from_values', bits, fmt['Standard'], E.new(MPI, x), E.new(MPI, y))
                raw = E.tobytes(E.method(pt, 'to_mpibytes'))
                back = E.new(EP, VBuf(raw))
                got = (len(raw), E.length(pt), ival(back.attrs.get('x')), ival(back.attrs.get('y')), back.attrs.get('bytelen'))
                want = (3 + 2 * _ceil8(bits), 3 + 2 * _ceil8(bits), x, y, _ceil8(bits))
                return got == want, got, want
            guarded('ECPoint.to_mpibytes', '%d-bit point, %s: written, measured, re-parsed' % (bits, tag),
                    'an EC point is written as 04 || X || Y with both coordinates ceil(bits / 8) octets wide; its length and its re-parse agree',
                    f, EP.where)
    for n in (32, 56):
        def f(n=n):
            x = bytes([0x40]) + bytes(range(1, n))
            pt = E.method(ClassRef(EP), 'from_values', 8 * n, fmt['Native'], x[1:] if False else x)
            raw = E.tobytes(E.method(pt, 'to_mpibytes'))
            back = E.new(EP, VBuf(raw))
            bx = back.attrs.get('x')
            got = (len(raw), E.length(pt), bytes(E.tobytes(bx)) if not isinstance(bx, bytes) else bx)
            want = (3 + n, 3 + n, x)
            return got == want, got, want
        guarded('ECPoint.to_mpibytes', 'native point of %d octets: written, measured, re-parsed' % n,
                'a native-format point is written as the format octet and the raw octets; its length and its re-parse agree', f, EP.where)
    # 3. multiprecision integers: width = ceil(bit length / 8), written = 2-octet bit count + that many octets, re-parsed = the value
    bl = MPI.find_method('byte_length')
    for bits in (1, 7, 8, 9, 255, 256, 521, 2048):
        def f(bits=bits):
            v = (1 << (bits - 1)) | 1
            m = E.new(MPI, v)
            raw = E.tobytes(E.method(m, 'to_mpibytes'))
            back = E.new(MPI, VBuf(raw))
            got = (E.method(m, 'byte_length'), E.length(m), raw, ival(back))
            want = (_ceil8(bits), _ceil8(bits) + 2, bits.to_bytes(2, 'big') + v.to_bytes(_ceil8(bits), 'big'), v)
            return got == want, got, want
        guarded('MPI.to_mpibytes', '%d-bit integer: width, length, written, re-parsed' % bits,
                'an MPI is its bit count in two octets and the value in ceil(bits / 8) octets', f, bl.where if bl is not None else MPI.where)
    # 4. every public point a key builds for itself takes the width of the key's own curve
    fields = prog.module('pgpy.packet.fields')
    sites = 0
    for K in fields.classes.values():
        if not any(getattr(b, 'name', None) == 'PubKey' for b in K.mro()):
            continue
        for m in K.methods.values():
            if not any(isinstance(n, ast.Attribute) and n.attr == 'from_values' for n in ast.walk(m.node)) or not m.params:
                continue
            me = m.params[0]
            for s in Interp(prog, Scenario(inline=noinline, join_unknown=True)).run(m):
                pts = [v for p, v, l, _ in s.stores if p == me + '.p']
                for c in s.calls:
                    if c[0] != 'ECPoint.from_values':
                        continue
                    b = families._bind_call(fv, c)
                    text = 'ECPoint.from_values(%s)' % ', '.join(list(c[1]) + ['%s=%s' % kv for kv in c[2].items()])
                    if text not in pts:
                        continue
                    sites += 1
                    # the curve of the object at that point: `self.oid`, or the value just stored into it (stores are forwarded)
                    own = [me + '.oid'] + [v for p, v, l, _ in s.stores if p == me + '.oid' and l <= c[3]]
                    rep.check(b.get(fv.params[1]) in [o + '.key_size' for o in own], rid, m.qualname, 'own public point: width from %s' % b.get(fv.params[1]),
                              'the public point of a key is as wide as the key\'s own curve', where='%s:%d' % (m.module.relpath, c[3]),
                              expected=me + '.oid.key_size', found=b.get(fv.params[1]))
    if sites < 3:
        raise AnalysisError('only %d ECPoint.from_values site(s) building a key\'s own public point found' % sites)


def check_received_codes(rep, prog, rid):
    """The algorithm octet that enters the fingerprint (and the export) is the one the packet was given: assigning any member of
    PubKeyAlgorithm to `pkalg` of a V4 key packet (parse and construction go through the same sdproperty setter) and reading it
    back gives that member - no folding of deprecated ids, no default.  The same identity for the pubalg / halg / sigtype
    octets of SignatureV4 (they are hashed with every signature the key makes).  Decided by the checker's finite-point
    evaluator (sa/ceval.py) at every member; nothing of the repository runs."""
    from sa.ceval import Evaluator, Obj as CObj, NoEval, Raised, Diverged
    E = Evaluator(prog)
    pk = prog.cls('pgpy.packet.packets', 'PubKeyV4')
    fam = sorted((c for c in prog.all_classes() if any(b is pk for b in c.mro())), key=lambda c: c.name)
    sig = prog.cls('pgpy.packet.packets', 'SignatureV4')
    domains = [(c, 'pkalg', 'PubKeyAlgorithm') for c in fam] + \
              [(sig, 'pubalg', 'PubKeyAlgorithm'), (sig, 'halg', 'HashAlgorithm'), (sig, 'sigtype', 'SignatureType')]
    for ci, attr, en in domains:
        members = prog.cls('pgpy.constants', en).enum_members()
        prop = ci.find_prop(attr)
        if prop is None:
            raise AnalysisError('%s.%s is no longer an sdproperty' % (ci.name, attr))
        bad, n = [], 0
        for name, val in sorted(members.items(), key=lambda kv: kv[1] if isinstance(kv[1], int) else -1):
            if not isinstance(val, int) or isinstance(val, bool):
                continue
            o = CObj(ci, {})
            try:
                E.set(o, attr, val)
                got = E.get(o, attr)
            except Raised as ex:
                bad.append('%s (%d) -> raises %s' % (name, val, ex))
                continue
            except (NoEval, Diverged) as ex:
                raise AnalysisError('%s.%s = %s.%s outside the evaluator (%s)' % (ci.name, attr, en, name, ex))
            n += 1
            got = getattr(got, 'ival', got)
            if not (isinstance(got, int) and got == val):
                bad.append('%s (%d) -> %r' % (name, val, got))
        rep.check(not bad and n > 0, rid, '%s.%s' % (ci.name, attr), '%d member(s) of %s read back as given%s' % (n, en, '; NOT: %s' % bad if bad else ''),
                  'the %s octet written / hashed must be the one received: the setter may not fold, default or renumber it' % attr,
                  where=(prop.getter.where if prop.getter is not None else ci.where), expected='identity on every member of %s' % en, found=bad)


def run(rep, prog, tier):
    rep.rule('C18.1', 'fingerprint hash input = RFC 4880 12.2 layout under SHA-1', floor=2)
    rep.rule('C18.2', 'fingerprint terms agree with the exported public-key packet body; packet version is 4', floor=4)
    rep.rule('C18.3', 'publen of each private class computes the term the __len__ of its public sibling computes', floor=9)
    rep.rule('C18.4', 'key id = last 16 hex digits, short id = last 8; PGPKey.fingerprint delegates to the packet', floor=3)
    rep.rule('C18.6', 'the public twin is built from copies of the private packet\'s own public terms (so it has the same fingerprint)', floor=20)
    rep.rule('C18.7', 'issuer key id, issuer fingerprint and recipient key id written are those of the operating key itself', floor=8)
    rep.rule('C18.8', 'a key packet rebuilt from another takes creation time, algorithm and key material from that one packet', floor=3)
    rep.rule('C18.9', 'copies of public key material and of its field objects carry every attribute their serialiser reads', floor=8)
    rep.rule('C18.10', 'octet widths entering the fingerprint input are ceilings of the bit length; EC points and MPIs re-parse to what was written', floor=20)
    rep.rule('C18.11', 'the algorithm octet of a key packet (and pubalg / halg / sigtype of a signature packet) reads back as the member it was given', floor=5)
    rep.rule('C18.5', 'creation time is serialised with a UTC-correct idiom wherever it is hashed or exported', floor=2)
    rep.assume('int_to_bytes(x, n) emits max(n, byte_length(x), 1) big-endian octets (pgpy.types.PGPObject; checked under C09)')

    ci = prog.cls('pgpy.packet.packets', 'PubKeyV4')
    fp = prog.method('pgpy.packet.packets', 'PubKeyV4', 'fingerprint')
    rep.saw(fn=fp)
    outs = Interp(prog, Scenario(inline=noinline)).run(fp)
    rep.analysed['paths'] += len(outs)
    PLEN = 'self.keymaterial.publen()'
    MAT = 'self.keymaterial.__bytearray__()'
    hashed = None
    if not any(not s.raised for s in outs):
        raise AnalysisError('PubKeyV4.fingerprint never returns')
    for s in outs:
        if s.raised:
            continue
        if not s.hashes:
            rep.violation('C18.1', 'PubKeyV4.fingerprint', 'no digest taken', 'the fingerprint is not a hash', where=fp.where)
            continue
        alg, raw_items, line = s.hashes[-1]
        items = norm_fp_items(raw_items)
        rep.check(alg.strip('\'"').lower() in ('sha1', 'sha-1'), 'C18.1', 'PubKeyV4.fingerprint', 'hash algorithm %s' % alg,
                  'a V4 fingerprint is a SHA-1 digest', where=fp.where, expected='sha1', found=alg)

        def time_pred(it):
            return it[0] == 'INT' and it[1] == '4' and is_utc_seconds(it[2], of='self.created')

        def len_pred(it):
            return it[0] == 'INT' and it[1] == '2' and lin_norm(it[2]) == lin_norm('(6 + %s)' % PLEN)
        tpl = [C('99'), Pred('INT(2; 6 + publen)', len_pred), C('04'), Pred('INT(4; UTC seconds of created)', time_pred),
               INT(1, 'self.pkalg'), ('SLICE', [SYM(MAT)], '', PLEN)]
        ok, idx, msg = match(items, tpl)
        rep.check(ok, 'C18.1', 'PubKeyV4.fingerprint', msg or 'layout', 'fingerprint hash input differs from RFC 4880 12.2: %s' % msg,
                  where=fp.where, expected='C(99) INT(2;6+publen) C(04) INT(4;time) INT(1;pkalg) SLICE(material;;publen)',
                  found=render_items(items))
        if ok or (hashed is None and len(items) >= 6):
            hashed = items
        # the value is the upper-case hex digest just taken, wrapped in Fingerprint
        r = render(s.ret)
        hx = 'hex(%s)' % render_item(('HASH', alg, list(raw_items)))
        if r == 'Fingerprint(%s)' % hx:
            # no .upper() here: sound only if Fingerprint itself upper-cases the text it is given
            rep.check(fingerprint_uppercases(prog), 'C18.1', 'PubKeyV4.fingerprint', 'return %s' % r[:60],
                      'the fingerprint value must be the upper-case hex digest (neither the method nor Fingerprint.__new__ upper-cases it)',
                      where=fp.where, expected='Fingerprint(<hex digest>.upper())', found=r[:200])
        else:
            rep.check(r == 'Fingerprint(%s.upper())' % hx, 'C18.1', 'PubKeyV4.fingerprint',
                      'return %s' % r[:60], 'the fingerprint value must be the hex digest itself', where=fp.where,
                      expected='Fingerprint(<hex digest>.upper())', found=r[:200])

    # C18.2 agreement with the export
    ba = prog.method('pgpy.packet.packets', 'PubKeyV4', '__bytearray__')
    rep.saw(fn=ba)
    outs = Interp(prog, Scenario()).run(ba)
    for s in outs:
        if s.raised:
            continue
        if not isinstance(s.ret, Bytes):
            raise AnalysisError('PubKeyV4.__bytearray__ does not return bytes')
        its = norm_fp_items(s.ret.items)
        if hashed is not None and len(hashed) >= 6:
            time_term, alg_term = hashed[3], hashed[4]
            found_tail = its[1:]
            ok = len(found_tail) == 3 and found_tail[0] == time_term and found_tail[1] == alg_term and \
                found_tail[2] == ('SYM', MAT)
            rep.check(ok, 'C18.2', 'PubKeyV4.__bytearray__', 'body terms %s' % render_items(found_tail),
                      'the exported packet body (after the version octet) must be the very terms the fingerprint hashes',
                      where=ba.where, expected='%s %s %s' % (render_item(time_term), render_item(alg_term), MAT),
                      found=render_items(found_tail))
        rep.check(bool(its) and its[0] == ('SYM', 'self.header.__bytearray__()'), 'C18.2', 'PubKeyV4.__bytearray__',
                  'first term %s' % (render_item(its[0]) if its else None),
                  'the packet starts with its header (tag, length, version octet)', where=ba.where)
    ver = ci.attrs.get('__ver__')
    try:
        ver_ok = ver is not None and ast.literal_eval(ver) == 4
    except ValueError:
        ver_ok = False
    rep.check(ver_ok, 'C18.2', 'PubKeyV4.__ver__', '__ver__ = %s' % (ast.unparse(ver) if ver is not None else None),
              'the version octet exported by the header must be the 04 the fingerprint hashes', where=ci.where)
    vh = prog.method('pgpy.packet.types', 'VersionedHeader', '__bytearray__')
    for s in Interp(prog, Scenario(inline=noinline)).run(vh):
        if s.raised:
            continue
        its = norm_fp_items(s.ret.items) if isinstance(s.ret, Bytes) else []
        rep.check(bool(its) and its[-1] == ('INT', '1', 'self.version'), 'C18.2', 'VersionedHeader.__bytearray__', 'return %s' % render(s.ret),
                  'the versioned header ends with the version octet', where=vh.where, found=render(s.ret))
    # parse side: created <- 4 octets, pkalg <- 1 octet, then the material: header.length - 6 octets (6 = version 1 + time 4 + algorithm 1),
    # i.e. the key material parser receives packet[5 : header.length - 1] of the body that follows the version octet
    pp = prog.method('pgpy.packet.packets', 'PubKeyV4', 'parse')
    rep.saw(fn=pp)
    buf = pp.params[1]
    want = sl(buf, (4, ''), (1, ''), ('', '(self.header.length - 6)'))
    n_ok = 0
    for s in Interp(prog, Scenario(inline=noinline, forward_stores=False)).run(pp):
        if s.raised:
            continue
        n_ok += 1
        got = [c[1][0] if c[1] else None for c in s.calls if c[0] == 'self.keymaterial.parse']
        rep.check(got == [want], 'C18.2', 'PubKeyV4.parse', 'material bound: keymaterial.parse(%s)' % got,
                  'the key material occupies header.length - 6 octets after the 4 time octets and the algorithm octet (version, time, algorithm = 6)',
                  where=pp.where, expected=want, found=got)
    if not n_ok:
        raise AnalysisError('PubKeyV4.parse never returns')

    # C18.3 (fallback container): the key material of an algorithm without a class is an opaque octet string; what the fingerprint
    # hashes is `__bytearray__()[:publen()]`, so publen() must be the number of octets the container holds.  Decided by
    # finite-point evaluation (sa.ceval): parse 40 arbitrary octets, then compare publen() with what is serialised.
    from sa import ceval as _ceval
    fbk = prog.module('pgpy.packet.fields').classes.get(tables.keymaterial_fallbacks(prog)[True])
    if fbk is None:
        raise AnalysisError('public fallback key material class vanished')
    try:
        _ev = _ceval.Evaluator(prog)
        _o = _ev.new(fbk)
        _ev.method(_o, 'parse', _ceval.VBuf(bytes(range(40))))
        _n = _ev.method(_o, 'publen')
        _b = _ev.method(_o, '__bytearray__')
        _blen = _ev.length(_b)
    except (_ceval.NoEval, _ceval.Raised, _ceval.Diverged) as e:
        raise AnalysisError('%s: parse / publen / __bytearray__ cannot be evaluated: %s' % (fbk.name, e))
    pl = fbk.find_method('publen')
    rep.check(_n == 40 and _blen == 40, 'C18.3', '%s.publen' % fbk.name, 'publen() = %r for 40 octets of material, %r serialised' % (_n, _blen),
              'the fingerprint hashes __bytearray__()[:publen()]: for the container of an unimplemented algorithm publen() must be the '
              'number of octets it holds, or the fingerprint covers none of the key material', where=(pl or fbk).where,
              expected={'publen': 40, 'serialised': 40}, found={'publen': _n, 'serialised': _blen})
    # C18.3 publen: the length term computed for a private object is the term its public sibling's __len__ computes
    f, tbl = tables.keymaterial_table(prog)
    fields = prog.module('pgpy.packet.fields')
    # every public-key algorithm of RFC 4880 9.1 / RFC 6637 / the EdDSA draft has its own key-material class on both sides: an
    # algorithm that silently falls back to the opaque container is fingerprinted over octets nobody parsed (frozen RFC table)
    for a in RFC_KEY_ALGORITHMS:
        have = [side for side, pubflag in (('public', True), ('private', False)) if (pubflag, a) in tbl]
        rep.check(len(have) == 2, 'C18.3', 'PubKeyV4.pkalg_int', 'algorithm %s implemented for: %s' % (a, have or 'neither side'),
                  'algorithm %s must be served by its own key-material class for public and private packets, not by the opaque fallback' % a,
                  where=f.where, expected='public and private class', found=have, scenario=a)
    algs = sorted(set(a for (_, a) in tbl))
    for a in algs:
        if (True, a) not in tbl or (False, a) not in tbl:
            rep.violation('C18.3', 'PubKeyV4.pkalg_int', 'table row %s' % a, 'algorithm %s lacks a public or private class' % a, where=f.where)
            continue
        pub = fields.classes.get(tbl[(True, a)])
        priv = fields.classes.get(tbl[(False, a)])
        if pub is None or priv is None:
            raise AnalysisError('key material class for %s not found in fields.py' % a)
        rep.saw(cls=priv)
        pub_len = length_term(prog, pub, '__len__')
        target = length_term(prog, priv, 'publen')
        pubt = length_term(prog, pub, 'publen')
        if pub_len is None:
            raise AnalysisError('%s.__len__ not found' % pub.name)
        rep.check(target == pub_len, 'C18.3', '%s.publen' % priv.name,
                  'publen -> %s' % (target,),
                  'the hashed prefix of a private key must be exactly the public material of %s' % pub.name, where=priv.where,
                  expected=pub_len, found=target, scenario=a)
        rep.check(pubt == pub_len, 'C18.3', '%s.publen' % pub.name, 'publen -> %s' % (pubt,),
                  'publen of a public key is its own length', where=pub.where, expected=pub_len, found=pubt, scenario=a)

    # C18.4
    fc = prog.cls('pgpy.types', 'Fingerprint')
    for name, n in (('keyid', 16), ('shortid', 8)):
        g = fc.methods.get(name)
        if g is None:
            raise AnalysisError('Fingerprint.%s vanished' % name)
        for s in Interp(prog, Scenario(inline=noinline)).run(g):
            r = render(s.ret)
            rep.check(low_digits(r, g.params[0]) == n, 'C18.4', 'Fingerprint.%s' % name, 'return %s' % r,
                      'the key id is the low-order %d bits of the fingerprint' % (n * 4), where=g.where,
                      expected='self[-%d:]' % n, found=r)
    kf = prog.method('pgpy.pgp', 'PGPKey', 'fingerprint')
    rets = sorted(set(render(s.ret) for s in Interp(prog, Scenario(inline=noinline)).run(kf) if not s.raised))
    some = [r for r in rets if r != 'None']
    rep.check(some == ['self._key.fingerprint'], 'C18.4', 'PGPKey.fingerprint', 'returns %s' % rets,
              'the key object reports the fingerprint of its key packet', where=kf.where, expected='self._key.fingerprint', found=rets)
    check_fingerprint_cuts(rep, prog)
    families.check_pubkey_derivation(rep, prog, 'C18.6')
    families.check_ids_rooted_at_self(rep, prog, 'C18.7')
    families.check_key_packet_rebuilds(rep, prog, 'C18.8')
    families.check_copy_carries_serialised(rep, prog, 'C18.9')
    check_widths(rep, prog, 'C18.10')
    check_received_codes(rep, prog, 'C18.11')
    # C18.5 time idiom
    check_time_sites(rep, prog, 'C18.5', only=('PubKeyV4.fingerprint', 'PubKeyV4.__bytearray__'))
    check_time_readers(rep, prog, 'C18.5', 'pgpy.packet.packets', 'PubKeyV4', 'created')


RFC_KEY_ALGORITHMS = ('RSAEncryptOrSign', 'RSAEncrypt', 'RSASign', 'DSA', 'ElGamal', 'FormerlyElGamalEncryptOrSign', 'ECDSA', 'ECDH', 'EdDSA')

LEN_POLICY = lambda f: f.name in ('__len__', 'publen')  # noqa: E731


def length_term(prog, cls, meth):
    """The term `cls().<meth>()` computes, with the length methods of the key-material classes resolved along the C3 MRO of
    `cls` and inlined (`len(self)`, `super().__len__()`, `K.__len__(self)`, temporaries: all the same term).  One text per
    method; several paths give 'ALT(..)'.  None if the class has no such method."""
    fi = cls.find_method(meth)
    if fi is None:
        return None
    outs = Interp(prog, Scenario(self_cls=cls, inline=LEN_POLICY, max_depth=5)).run(fi)
    texts = []
    for s in outs:
        t = 'raise %s' % s.raised if s.raised else alpha(lin_norm(render(s.ret)))
        if t not in texts:
            texts.append(t)
    return texts[0] if len(texts) == 1 else 'ALT(%s)' % ' | '.join(sorted(texts))


def fingerprint_uppercases(prog):
    """Fingerprint.__new__ makes its value from the upper-cased text on every path that builds a new object."""
    fc = prog.cls('pgpy.types', 'Fingerprint')
    fnew = fc.methods.get('__new__')
    if fnew is None or len(fnew.params) < 2:
        return False
    content = fnew.params[1]
    made = [render(s.ret) for s in Interp(prog, Scenario(inline=noinline, axioms={'isinstance(%s, Fingerprint)' % content: False})).run(fnew)
            if not s.raised]
    return bool(made) and all(re.match(r'^str\.__new__\(cls, %s(\.replace\(\' \', \'\'\))?\.upper\(\)(\.replace\(\' \', \'\'\))?\)$' % re.escape(content), m)
                              for m in made)
