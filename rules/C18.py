"""C18 - Fingerprints and key ids are the RFC 4880 values and are stable.

  C18.1 PubKeyV4.fingerprint hashes  99 || len2(6+publen) || 04 || time4 || alg1 || material[:publen]  with SHA-1 (RFC 4880 12.2)
  C18.2 the time / algorithm / material terms are the same terms PubKeyV4.__bytearray__ exports after the version octet
  C18.3 publen of every private key-material class resolves (C3 MRO) to the __len__ of its public sibling
  C18.4 Fingerprint.keyid / shortid are the low 64 / 32 bits; PGPKey.fingerprint delegates to the key packet
"""
import ast

from sa.interp import Interp, Scenario, Sym, Const, Bytes, render, render_items, merge_consts, render_item
from sa.templates import C, INT, SYM, Pred, match
from sa.loader import AnalysisError, dotted
from sa import tables
from sa import families
from sa.timeidiom import check_time_sites, UTC_TIME_FORMS


def norm_fp_items(items):
    """SLICE(INT(2;x);;1) SLICE(INT(2;x);-1;)  ==  INT(2;x)   (high and low octet of a two-octet number)"""
    its = merge_consts(items)
    out = []
    i = 0
    while i < len(its):
        a = its[i]
        if a[0] == 'SLICE' and i + 1 < len(its) and its[i + 1][0] == 'SLICE':
            b = its[i + 1]
            if not isinstance(a[1], str) and a[1] == b[1] and len(a[1]) == 1 and a[1][0][0] == 'INT' and a[1][0][1] == '2' \
                    and (a[2], a[3]) == ('', '1') and (b[2], b[3]) in (('-1', ''), ('1', ''), ('1', '2')):
                out.append(a[1][0])
                i += 2
                continue
        out.append(a)
        i += 1
    return out


def run(rep, prog, tier):
    rep.rule('C18.1', 'fingerprint hash input = RFC 4880 12.2 layout under SHA-1', floor=2)
    rep.rule('C18.2', 'fingerprint terms agree with the exported public-key packet body; packet version is 4', floor=4)
    rep.rule('C18.3', 'publen of each private class resolves to the __len__ of its public sibling', floor=9)
    rep.rule('C18.4', 'key id = last 16 hex digits, short id = last 8; PGPKey.fingerprint delegates to the packet', floor=3)
    rep.rule('C18.6', 'the public twin is built from copies of the private packet\'s own public terms (so it has the same fingerprint)', floor=20)
    rep.rule('C18.7', 'issuer key id, issuer fingerprint and recipient key id written are those of the operating key itself', floor=8)
    rep.rule('C18.5', 'creation time is serialised with a UTC-correct idiom wherever it is hashed or exported', floor=2)
    rep.assume('int_to_bytes(x, n) emits max(n, byte_length(x), 1) big-endian octets (pgpy.types.PGPObject; checked under C09)')

    ci = prog.cls('pgpy.packet.packets', 'PubKeyV4')
    fp = prog.method('pgpy.packet.packets', 'PubKeyV4', 'fingerprint')
    rep.saw(fn=fp)
    outs = Interp(prog, Scenario(inline=lambda f: False)).run(fp)
    rep.analysed['paths'] += len(outs)
    hashed = None
    for s in outs:
        if not s.hashes:
            rep.violation('C18.1', 'PubKeyV4.fingerprint', 'no digest taken', 'the fingerprint is not a hash', where=fp.where)
            continue
        alg, items, line = s.hashes[-1]
        items = norm_fp_items(items)
        hashed = items
        rep.check(alg.lower() in ('sha1', "'sha1'"), 'C18.1', 'PubKeyV4.fingerprint', 'hash algorithm %s' % alg,
                  'a V4 fingerprint is a SHA-1 digest', where=fp.where, expected='sha1', found=alg)
        PLEN = 'self.keymaterial.publen()'
        MAT = 'self.keymaterial.__bytearray__()'

        def time_pred(it):
            return it[0] == 'INT' and it[1] == '4' and it[2].replace('self.created', 'X') in UTC_TIME_FORMS

        def len_pred(it):
            return it[0] == 'INT' and it[1] == '2' and it[2].replace(' ', '') in ('(6+%s)' % PLEN, '(%s+6)' % PLEN)
        tpl = [C('99'), Pred('INT(2; 6 + publen)', len_pred), C('04'), Pred('INT(4; UTC seconds of created)', time_pred),
               INT(1, 'self.pkalg'), ('SLICE', [SYM(MAT)], '', PLEN)]
        ok, idx, msg = match(items, tpl)
        rep.check(ok, 'C18.1', 'PubKeyV4.fingerprint', msg or 'layout', 'fingerprint hash input differs from RFC 4880 12.2: %s' % msg,
                  where=fp.where, expected='C(99) INT(2;6+publen) C(04) INT(4;time) INT(1;pkalg) SLICE(material;;publen)',
                  found=render_items(items))
        # result is the upper-case hex digest wrapped in Fingerprint
        r = render(s.ret)
        rep.check(r.startswith('Fingerprint(hex(HASH(') and r.endswith('.upper())'), 'C18.1', 'PubKeyV4.fingerprint',
                  'return %s' % r[:60], 'the fingerprint value must be the hex digest itself', where=fp.where, found=r[:200])
    # C18.2 agreement with the export
    ba = prog.method('pgpy.packet.packets', 'PubKeyV4', '__bytearray__')
    rep.saw(fn=ba)
    outs = Interp(prog, Scenario()).run(ba)
    for s in outs:
        if not isinstance(s.ret, Bytes):
            raise AnalysisError('PubKeyV4.__bytearray__ does not return bytes')
        its = merge_consts(s.ret.items)
        exp_tail = None
        if hashed is not None and len(hashed) >= 6:
            time_term, alg_term = hashed[3], hashed[4]
            found_tail = its[1:]
            ok = len(found_tail) == 3 and found_tail[0] == time_term and found_tail[1] == alg_term and \
                found_tail[2] == ('SYM', 'self.keymaterial.__bytearray__()')
            rep.check(ok, 'C18.2', 'PubKeyV4.__bytearray__', 'body terms %s' % render_items(found_tail),
                      'the exported packet body (after the version octet) must be the very terms the fingerprint hashes',
                      where=ba.where, expected='%s %s self.keymaterial.__bytearray__()' % (render_item(time_term), render_item(alg_term)),
                      found=render_items(found_tail))
        rep.check(bool(its) and its[0][0] == 'SYM' and 'header' in its[0][1], 'C18.2', 'PubKeyV4.__bytearray__', 'first term %s' % render_item(its[0]),
                  'the packet starts with its header (tag, length, version octet)', where=ba.where)
    ver = ci.attrs.get('__ver__')
    rep.check(ver is not None and ast.literal_eval(ver) == 4, 'C18.2', 'PubKeyV4.__ver__', '__ver__ = %s' % (ast.unparse(ver) if ver is not None else None),
              'the version octet exported by the header must be the 04 the fingerprint hashes', where=ci.where)
    vh = prog.method('pgpy.packet.types', 'VersionedHeader', '__bytearray__')
    for s in Interp(prog, Scenario(inline=lambda f: False)).run(vh):
        r = render(s.ret)
        rep.check(r.endswith('BYTE(self.version)'), 'C18.2', 'VersionedHeader.__bytearray__', 'return %s' % r,
                  'the versioned header ends with the version octet', where=vh.where, found=r)
    # parse side: created <- 4 octets, pkalg <- 1 octet, material bounded by header.length - 6  (6 = 1 + 4 + 1)
    pp = prog.method('pgpy.packet.packets', 'PubKeyV4', 'parse')
    src = ast.unparse(pp.node)
    rep.check('self.header.length - 6' in src, 'C18.2', 'PubKeyV4.parse', 'material bound',
              'the key material occupies header.length - 6 octets (version, time, algorithm = 6)', where=pp.where)

    # C18.3 publen resolution
    f, tbl = tables.keymaterial_table(prog)
    fields = prog.module('pgpy.packet.fields')
    algs = sorted(set(a for (_, a) in tbl))
    for a in algs:
        if (True, a) not in tbl or (False, a) not in tbl:
            rep.violation('C18.3', 'PubKeyV4.pkalg_int', 'table row %s' % a, 'algorithm %s lacks a public or private class' % a, where=f.where)
            continue
        pub = fields.classes.get(tbl[(True, a)])
        priv = fields.classes.get(tbl[(False, a)])
        if pub is None or priv is None:
            raise AnalysisError('key material class for %s not found in fields.py' % a)
        rep.saw(cls=priv)
        pub_len = pub.find_method('__len__')
        target = resolve_publen(prog, priv)
        pubt = resolve_publen(prog, pub)
        rep.check(target is pub_len, 'C18.3', '%s.publen' % priv.name,
                  'publen -> %s' % (target.qualname if target else None),
                  'the hashed prefix of a private key must be exactly the public material of %s' % pub.name, where=priv.where,
                  expected=pub_len.qualname if pub_len else None, found=target.qualname if target else None, scenario=a)
        rep.check(pubt is pub_len, 'C18.3', '%s.publen' % pub.name, 'publen -> %s' % (pubt.qualname if pubt else None),
                  'publen of a public key is its own length', where=pub.where, scenario=a)

    # C18.4
    fc = prog.cls('pgpy.types', 'Fingerprint')
    for name, n in (('keyid', -16), ('shortid', -8)):
        g = fc.methods.get(name)
        if g is None:
            raise AnalysisError('Fingerprint.%s vanished' % name)
        for s in Interp(prog, Scenario(inline=lambda f: False)).run(g):
            r = render(s.ret)
            rep.check(r == 'SLICE(self;%d;)' % n, 'C18.4', 'Fingerprint.%s' % name, 'return %s' % r,
                      'the key id is the low-order %d bits of the fingerprint' % (-n * 4), where=g.where,
                      expected='self[%d:]' % n, found=r)
    kf = prog.method('pgpy.pgp', 'PGPKey', 'fingerprint')
    rets = [render(s.ret) for s in Interp(prog, Scenario(inline=lambda f: False, axioms={'self._key': True})).run(kf)]
    rep.check('self._key.fingerprint' in rets, 'C18.4', 'PGPKey.fingerprint', 'returns %s' % rets,
              'the key object reports the fingerprint of its key packet', where=kf.where, found=rets)
    families.check_pubkey_derivation(rep, prog, 'C18.6')
    families.check_ids_rooted_at_self(rep, prog, 'C18.7')
    # C18.5 time idiom
    check_time_sites(rep, prog, 'C18.5', only=('PubKeyV4.fingerprint', 'PubKeyV4.__bytearray__'))


def resolve_publen(prog, cls):
    """Follow publen() to the __len__ it returns: `return len(self)`, `return super(K, self).__len__()`, `return K.__len__(self)`."""
    f = cls.find_method('publen')
    if f is None:
        return None
    rets = [n for n in ast.walk(f.node) if isinstance(n, ast.Return)]
    if len(rets) != 1 or rets[0].value is None:
        return None
    v = rets[0].value
    if isinstance(v, ast.Call) and isinstance(v.func, ast.Name) and v.func.id == 'len' and len(v.args) == 1 and \
            isinstance(v.args[0], ast.Name) and v.args[0].id == f.params[0]:
        return cls.find_method('__len__')
    if isinstance(v, ast.Call) and isinstance(v.func, ast.Attribute) and v.func.attr == '__len__':
        b = v.func.value
        if isinstance(b, ast.Call) and dotted(b.func) == 'super':
            if b.args:
                k = prog.resolve_class_expr(f.module, b.args[0])
            else:
                k = f.cls
            if k is None:
                return None
            return cls.find_method('__len__', after=k)
        k = prog.resolve_class_expr(f.module, b)
        if k is not None:
            return k.find_method('__len__')
    return None
