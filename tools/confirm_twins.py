#!/venv/bin/python
"""Confirm behaviour-preserving refactorings (twins) made by independent sub-agents: /verif/twins/<prop>-ref<k>/.

For each: scratch git worktree of /repo HEAD under /tmp; equiv.py on the unchanged tree and on the refactored tree must print
the same output; the existing suite on the refactored tree must equal the baseline; the worktree is removed afterwards.
The result is written into the twin's meta.json under "confirmed".
usage: confirm_twins.py [--only C01] [--jobs 4] [--skip-suite]
"""
import argparse
import concurrent.futures
import hashlib
import json
import os
import re
import shutil
import subprocess

VERIF = os.path.dirname(os.path.dirname(os.path.abspath(__file__)))
BASE = {'passed': 1010, 'failed': 10, 'errors': 3}


def sh(cmd, cwd=None, timeout=3000, env=None):
    p = subprocess.run(cmd, shell=True, cwd=cwd, stdout=subprocess.PIPE, stderr=subprocess.STDOUT, text=True, timeout=timeout, env=env)
    return p.returncode, p.stdout


def one(a):
    name, skip_suite = a
    d = os.path.join(VERIF, 'twins', name)
    wt = '/tmp/ctwin_%s' % name
    sh('git -C /repo worktree remove --force %s' % wt)
    shutil.rmtree(wt, ignore_errors=True)
    rc, out = sh('git -C /repo worktree add -q --detach %s HEAD' % wt)
    res = {}
    try:
        if rc != 0:
            return name, {'status': 'worktree failed'}
        env = dict(os.environ, PYTHONDONTWRITEBYTECODE='1', PYTHONHASHSEED='0')
        # the probe runs as a file of the tree itself, so `import pgpy` finds the tree's package whichever way the probe sets its path up
        eq = os.path.join(wt, 'equiv_probe_.py')
        shutil.copy(os.path.join(d, 'equiv.py'), eq)
        env['PYTHONPATH'] = wt
        rc0, o0 = sh('/venv/bin/python %s 2>/dev/null' % eq, cwd=wt, timeout=1200, env=env)
        rc, out = sh('git apply %s' % os.path.join(d, 'patch.diff'), cwd=wt)
        if rc != 0:
            return name, {'status': 'patch does not apply', 'out': out[-300:]}
        rc1, o1 = sh('/venv/bin/python %s 2>/dev/null' % eq, cwd=wt, timeout=1200, env=env)
        res['equiv_exit'] = [rc0, rc1]
        res['equiv_digest'] = [hashlib.sha256(o0.encode()).hexdigest()[:16], hashlib.sha256(o1.encode()).hexdigest()[:16]]
        res['equiv_same'] = rc0 == 0 and rc1 == 0 and o0 == o1 and len(o0.strip()) > 0
        if not skip_suite:
            rc, out = sh('/venv/bin/python -m pytest -q -p no:cacheprovider -n 4 --dist loadfile --timeout=900 2>&1 | tail -3', cwd=wt, env=env)
            line = re.sub(r'\x1b\[[0-9;]*m', '', out.strip().splitlines()[-1] if out.strip() else '')
            res['suite'] = line
            nums = {m.group(2): int(m.group(1)) for m in re.finditer(r'(\d+) (passed|failed|errors?)', line)}
            nums['errors'] = nums.pop('error', nums.get('errors', 0))
            res['suite_matches_baseline'] = all(nums.get(k2, 0) == v for k2, v in BASE.items())
        res['status'] = 'confirmed' if res['equiv_same'] and (skip_suite or res['suite_matches_baseline']) else 'not confirmed'
        return name, res
    finally:
        sh('git -C /repo worktree remove --force %s' % wt)
        shutil.rmtree(wt, ignore_errors=True)


def main():
    ap = argparse.ArgumentParser()
    ap.add_argument('--only', default=None)
    ap.add_argument('--jobs', type=int, default=4)
    ap.add_argument('--skip-suite', action='store_true')
    ap.add_argument('--redo', action='store_true')
    a = ap.parse_args()
    todo = []
    for name in sorted(os.listdir(os.path.join(VERIF, 'twins'))):
        if not re.match(r'^C\d\d-ref\d+$', name) or (a.only and name[:3] not in a.only.split(',') and name not in a.only.split(',')):
            continue
        mp = os.path.join(VERIF, 'twins', name, 'meta.json')
        if not a.redo and os.path.exists(mp):
            try:
                if json.load(open(mp)).get('confirmed', {}).get('status') == 'confirmed':
                    continue
            except Exception:
                pass
        todo.append((name, a.skip_suite))
    with concurrent.futures.ThreadPoolExecutor(max_workers=a.jobs) as ex:
        for name, res in ex.map(one, todo):
            print(name, res.get('status'), res.get('equiv_same'), res.get('suite', ''), flush=True)
            mp = os.path.join(VERIF, 'twins', name, 'meta.json')
            try:
                meta = json.load(open(mp))
                if not isinstance(meta, dict):
                    meta = {'agent_meta': meta}
            except Exception:
                meta = {}
            meta['kind'] = 'behaviour-preserving refactoring (twin): every check must stay silent on it'
            meta['origin'] = 'independent sub-agent given only the property text and a scratch worktree'
            meta['confirmed'] = res
            with open(mp, 'w') as fh:
                json.dump(meta, fh, indent=1)


if __name__ == '__main__':
    main()
