#!/venv/bin/python
"""Regenerate /verif/MANIFEST.json from the per-property table below.  A property is claimed iff rules/<id>.py exists."""
import json
import os

HERE = os.path.dirname(os.path.dirname(os.path.abspath(__file__)))

TRUST = ('Trusted base: CPython ast (same grammar as the project interpreter), the semantics-preserving canonicaliser sa/canon.py '
         '(each rewrite listed in its header; guarded both ways by the twin and mutant corpora), the hand-written RFC 4880/6637 templates in '
         '/verif/sa (auditable, each cites its section), the axioms echoed in the evidence file, and the correctness of '
         'cryptography / zlib / bz2 / base64 / hashlib / pyasn1, which are never analysed.')

P = {
 'C01': dict(
    text='Decides, for every signature type x subject kind, that the octets PGPSignature.hashdata feeds to the hash are exactly the '
         'RFC 4880 5.2.4 layout (so no component can silently drop out of what is verified), that PGPKey.verify hands the loop\'s own '
         '(sig, subj) to the key material and maps a falsy result to WrongSig, that each key-material verify returns truthy only through '
         'the normal exit of the library call, and that the verdict object fails closed. Necessary conditions of soundness that hold for '
         'every input; symmetric sign/verify changes invisible to the suite move the code but not the RFC template.',
    technique='abstract interpretation over byte terms matched against RFC 5.2.4 templates; CFG must-pass-through; call-site argument provenance',
    ref='5/C01'),
 'C02': dict(
    text='Decides the signing path statically: the same RFC 5.2.4 templates for every type each emitting API can choose, one sigdata '
         'definition feeding hash2 and the signer, no hashed subpacket added after hashdata, every addnew keyword is an attribute of the '
         'subpacket class (no silently dropped option), per-algorithm signature codec pairs, and every emitted length prefix is followed by '
         'exactly the octets it counts. Does not run an independent verifier; the RFC templates are the independent oracle.',
    technique='abstract interpretation over byte terms; def-use/call-site tables over addnew sites; class-table checks',
    ref='5/C02'),
 'C03': dict(
    text='Decides the byte layouts PGPy builds around the primitives (PKESK m-value and checksum, SEIPD prefix and MDC, SKESK plaintext, '
         'RFC 6637 KDF parameter block, ECDH padding/wrap pairing, CFB IV defaults, compression inverse pairs) against RFC 4880 5.1/5.3/5.13 '
         'and RFC 6637 7-8 templates, plus agreement of the encrypt/decrypt siblings and of the operation wiring.',
    technique='abstract interpretation over byte terms vs RFC templates; sibling-agreement and call-site wiring checks',
    ref='5/C03'),
 'C04': dict(
    text='Decides that each integrity check (MDC compare, prefix repetition, PKESK checksum, secret-key SHA-1/checksum, for-else raise in '
         'PGPMessage.decrypt, recipient match in PGPKey.decrypt, ECDH unpad) exists, compares the right terms, has the right polarity, reacts '
         'by raising and dominates the return of the protected value, on every path of the function.',
    technique='path-sensitive guard analysis (atoms, polarity, reaction, dominance) over the interpreter paths and a hand-built CFG',
    ref='5/C04'),
 'C05': dict(
    text='Decides by provenance that the hashed-area octets hashed on the verify path are a verbatim copy of the octets SubPackets.parse '
         'received (captured before any consumption, invalidated on modification, carried by copies) and that the four header octets pass '
         'only through injective stores.',
    technique='def-use provenance over SubPackets.parse/__hashbytearray__/__setitem__/__copy__; injective-store table',
    ref='5/C05'),
 'C06': dict(
    text='Decides the control/data-flow skeleton of protect/unlock: cleanup on every exit of unlock (typestate over the CFG incl. exceptional '
         'edges), clear() covers all secret fields, encrypt_keyblob layout (MPIs + SHA-1, usage 254, fresh IV/salt, clear after), guards of '
         'decrypt_keyblob dominate the return and precede every secret store, secrets are emitted only on the unprotected arm, parse of '
         'protected material never consumes from an aliased buffer.',
    technique='typestate on CFG; guard dominance; byte-term layout; alias-then-consume rule',
    ref='5/C06'),
 'C07': dict(
    text='Decides that the public twin is built only from public classes and public fields (no secret field flows into it), the '
         '(public?, algorithm) -> class table pairs each private class with its public base, and private operations carry and check the '
         'is_public/is_unlocked preconditions before the action runs.',
    technique='forward taint from secret fields; class/registry tables; decorator-argument table; dominance in KeyAction.__call__',
    ref='5/C07'),
 'C08': dict(
    text='Decides reader/writer agreement of every packet, field and subpacket codec class: consume-what-you-read, alias-then-consume, '
         'field order and widths, remainder arithmetic against update_hlen, length-covers-what-follows, text codec symmetry, and '
         'update_hlen after mutation.',
    technique='codec-pair extraction (reader sequence vs writer byte terms) over the class table',
    ref='5/C08'),
 'C09': dict(
    text='Decides the numeric field codecs at the RFC 4880 boundary points: a checker-side evaluator (constant propagation over the canonicalised AST; the repository is never imported or run) evaluates the new/old-format length encoder and decoder, declared widths, partial-length chains, MPI bit counts, the S2K count codec, the subpacket header and the tag octet at every boundary value and compares values and octets consumed with the RFC formulas; every datetime<->4-octet site is classified by the value that reaches the conversion (UTC-correct idioms only). Finite points, not the whole value domain; DESIGN.md 10.8 states the scope and limits of this evaluation-based part.',
    technique='checker-side constant evaluation (partial evaluation with all inputs bound) of small pure codec functions at RFC boundary points; idiom classification on interpreter values',
    ref='5/C09'),
 'C10': dict(
    text='Decides CRC-24 by folding crc24 on every one-octet input and on register boundary states against the RFC 4880 6.1 algorithm; the armor writer as a piece sequence (payload and CRC derive from the same binary export, CRC written as exactly three octets, same label in BEGIN and END, labels per object kind); reader/writer agreement as regular-language inclusion and equality (line width <= 76 and within the reader bound, crc group, header separator); kind checks by evaluating the label condition for each real and look-alike label before anything is consumed; and that a CRC mismatch is reported (polarity and reaction on path facts).',
    technique='string-term piece sequences from interpreter values; regular languages (finite automata from re._parser trees) for reader/writer agreement; guard polarity on path facts; constant folding of crc24',
    ref='5/C10'),
 'C11': dict(
    text='Decides that dash-escape/unescape are an inverse regex pair applied exactly once each, the Hash: header alphabet is accepted by '
         'the reader, and the RFC 4880 7.1 canonicalisation steps (CRLF conversion, trailing-blank removal) are on every path from a '
         'cleartext message to hashdata in both sign and verify.',
    technique='regex-AST facts; call-count on interpreter paths; provenance of the signed text',
    ref='5/C11'),
 'C12': dict(
    text='Decides String2Key.derive_key as hash-input terms (salt before passphrase, salt only for salted specifiers, context i preloaded with i zero octets, digests joined in order and truncated to the key size) and compares the values of its index/length expressions (copies of the salt+passphrase unit, leading part, context count = ceil(key bits / digest bits)) with RFC 4880 3.7.1 on a grid of samples restricted per path; the coded-count codec is folded over all 256 values; the specifier codec is checked field by field. Not digest equality.',
    technique='abstract interpretation with hasher tracking; value comparison of extracted expressions on a finite sample grid; constant folding of the count codec',
    ref='5/C12'),
 'C13': dict(
    text='Decides that every secret random value (session key, SEIPD prefix, SKESK salt, key-protection IV and salt, ECDH ephemeral key) is '
         'def-use-linked, on every path, to an entropy call executed inside the operation itself (no constant, cache, default argument, '
         'class or module storage), with the right size expression, and that the session key flows only into encrypting calls.',
    technique='provenance / taint over interpreter paths; whole-package sweep for rebinding and caching of entropy sources',
    ref='5/C13'),
 'C14': dict(
    text='Decides the export grammar of PGPKey.__bytearray__ (key, signatures, user ids with their signatures, subkeys) with the exportable '
         'filter at every signature emission site, the exportable default, the parse grouping rules, and copy completeness of the certificate '
         'state.',
    technique='yield/emit grammar from byte terms; guard polarity; attribute-coverage tables',
    ref='5/C14'),
 'C16': dict(
    text='Decides the precondition table of every key operation, the usage scan (primary then subkeys, intersection test, raise unless '
         'disabled), that issuer id / issuer fingerprint / recipient id and the key material used are rooted at the same object, and that '
         'consumers of time-sorted signature collections read the most recent one.',
    technique='decorator-argument tables; guard polarity on CFG; call-site provenance; recency-form table',
    ref='5/C16'),
 'C17': dict(
    text='Decides that the verdict predicate is monotone in the issue bit-set with a mask containing exactly the disqualifying conditions, '
         'that good/bad/bool partition the records (truth tables over the two atoms), that every path through the verification loop records '
         'exactly once, and that the disqualified and crypto arms record the computed issues.',
    technique='finite flag-predicate typing (monotone/antitone lattice); truth-table comparison; CFG path counting',
    ref='5/C17'),
 'C18': dict(
    text='Decides that the fingerprint hash input is the RFC 4880 12.2 layout and agrees term-by-term with the exported public key packet '
         'body, that publen of every private class resolves through the MRO to the length of its public sibling, and the key-id slices.',
    technique='abstract interpretation with hasher tracking vs RFC 12.2 template; C3-MRO resolution table',
    ref='5/C18'),
 'C20': dict(
    text='Decides the yield grammar of PGPMessage.__iter__ against RFC 4880 11.3 (one-pass packets in reverse order of the trailing '
         'signatures, only the last flagged, session keys before the single container), that make_onepass copies its signature\'s own fields, '
         'that compression wraps the whole sequence, and the literal/compressed codecs.',
    technique='yield-grammar extraction from interpreter paths; codec-pair checks',
    ref='5/C20'),
}

NA = {
 'C15': 'Quantifies over unbounded histories of key-management operations on mutable object graphs and over the runtime validity of each '
        'resulting signature; no sound static abstraction of those histories is in reach. Its shape-of-code clauses are decided under '
        'C16.5 (most recent self-signature) and C01/C02 (binding / cross-signature layout).',
 'C19': 'Truth depends on the contents of layered alias dictionaries after arbitrary load/unload interleavings (the misbehaviour needs '
        'specific 4-5 step histories); a structural pairing rule is too weak a proxy to claim the property by.',
}


def rule_inventory(pid):
    """'C01.1 <description>; C01.2 ...' read from the rule module (as built)."""
    import re
    try:
        src = open(os.path.join(HERE, 'rules', pid + '.py')).read()
    except OSError:
        return ''
    rules = re.findall(r"rep\.rule\('(%s[^']*)',\s*'((?:[^'\\]|\\.)*)'" % pid, src)
    seen, out = set(), []
    for rid, desc in rules:
        if rid not in seen:
            seen.add(rid)
            out.append('%s %s' % (rid, desc.replace("\\'", "'")))
    return '; '.join(out)


def main():
    checks = []
    na = []
    for pid in ['C%02d' % i for i in range(1, 21)]:
        if pid in NA:
            na.append({'property_id': pid, 'reason': NA[pid]})
            continue
        if not os.path.exists(os.path.join(HERE, 'rules', pid + '.py')):
            na.append({'property_id': pid, 'reason': 'static check designed (DESIGN.md section 5/%s) but not built yet; not claimed until it is' % pid})
            continue
        d = P[pid]
        checks.append({
            'property_id': pid,
            'quick_cmd': './check %s --tier quick' % pid,
            'thorough_cmd': './check %s --tier thorough' % pid,
            'evidence_file': '/verif/evidence/%s.json' % pid,
            'replay_cmd_template': './check %s --replay {path}' % pid,
            'engine': 'sa',
            'level_claimed': {'category': 'other', 'text': d['text'] + ' Rules as built: ' + rule_inventory(pid) + '.', 'design_ref': 'DESIGN.md section ' + d['ref']},
            'level_note': 'Static analysis of the source only: a named structural clause that is a necessary condition of the property, '
                          'not the behaviour over the runtime domain. ' + TRUST,
            'technique': 'static analysis: ' + d['technique'],
        })
    m = {
        'version': 1,
        'setup_cmd': '/venv/bin/python -m compileall -q sa rules tools check >/dev/null 2>&1; /venv/bin/python -c "import ast,sys; print(sys.version)"',
        'hooks': {
            'guard': 'PGPY_VERIF',
            'enable': 'none needed: the checks read /repo/pgpy/**/*.py with ast and never import or execute it; no instrumentation exists in /repo',
            'baseline_off_cmd': 'cd /repo && /venv/bin/python -m pytest -ra -q -p no:cacheprovider --timeout=900 --continue-on-collection-errors',
            'source_commits': [],
            'add_only': True,
        },
        'engines': [
            {'name': 'sa', 'path': '/verif/sa', 'serves_properties': [c['property_id'] for c in checks],
             'kind_free_text': 'stdlib-only static analysis: loader/C3-MRO/sdproperty table, semantics-preserving canonicaliser (new helpers, '
                               'closures and constants inlined; spelling normal forms), byte-term abstract interpreter with per-path facts/events, '
                               'exact-path frames for search loops, statement CFG with dominators and class-aware exception edges, codec-pair '
                               'extractor, truth-table condition algebra, regular-language comparison of regexes, string-term piece sequences, '
                               'RFC-derived templates, and a checker-side finite-point evaluator for small numeric codecs (DESIGN.md 10.8)'},
        ],
        'checks': checks,
        'not_applicable': na,
        'notes': 'All checks are static (ast). exit 0 holds / exit 1 VIOLATION / exit 2 ANALYSIS-ERROR (checker cannot see; never a violation). '
                 'Genuine defects found on the pinned snapshot were repaired by 23 fix: commits in /repo (see known_findings.json "fixed" and '
                 'DESIGN.md 6 / 10.3); one is recorded as a known finding (C11.5) and prints a KNOWN-FINDING line. Regression corpora committed '
                 'under /verif: seeded/ (304 property-breaking changes by independent agents, tools/run_seeded.py must print missed=0; SEEDED.md '
                 'lists which rules report which change), twins/ (377 behaviour-preserving edits and benign behaviour changes, tools/run_twins.py must print noisy=0), '
                 'selftest/ (in-memory mutants and twins run by the thorough tier).',
    }
    with open(os.path.join(HERE, 'MANIFEST.json'), 'w') as fh:
        json.dump(m, fh, indent=1)
    print('claimed: %s' % ' '.join(c['property_id'] for c in checks))
    print('not applicable / not yet: %s' % ' '.join(n['property_id'] for n in na))


if __name__ == '__main__':
    main()
