#!/venv/bin/python
"""Confirm seeded changes produced by independent sub-agents and file them under /verif/seeded/.

For each /tmp/wt_out/<prop>/mut<k>/ (patch.diff, demo.py, meta.json):
  1. scratch copy of /repo HEAD (git worktree under /tmp), demo on the unchanged tree must exit 0
  2. apply the patch; demo must exit non-zero
  3. run the existing test suite on the changed tree: must equal the baseline (1010 passed, 10 failed, 3 errors)
  4. run /verif's check of that property (and optionally all) against the changed tree: record exit code and reporting rules
  5. remove the worktree; write /verif/seeded/<prop>-mut<k>/{patch.diff,demo.py,meta.json}
usage: confirm_seeded.py [--src /tmp/wt_out] [--only C01] [--jobs 4] [--skip-suite]
"""
import argparse
import concurrent.futures
import json
import os
import re
import shutil
import subprocess
import sys

VERIF = os.path.dirname(os.path.dirname(os.path.abspath(__file__)))
BASE = {'passed': 1010, 'failed': 10, 'errors': 3}


def sh(cmd, cwd=None, timeout=1800, env=None):
    p = subprocess.run(cmd, shell=True, cwd=cwd, stdout=subprocess.PIPE, stderr=subprocess.STDOUT, text=True, timeout=timeout, env=env)
    return p.returncode, p.stdout


def one(args):
    src, prop, k, skip_suite, all_checks = args
    d = os.path.join(src, prop, 'mut%d' % k)
    patch = os.path.join(d, 'patch.diff')
    demo = os.path.join(d, 'demo.py')
    if not (os.path.exists(patch) and os.path.exists(demo)):
        return prop, k, {'status': 'missing files'}
    wt = '/tmp/confirm_%s_%d' % (prop, k)
    sh('git -C /repo worktree remove --force %s' % wt)
    shutil.rmtree(wt, ignore_errors=True)
    rc, out = sh('git -C /repo worktree add -q --detach %s HEAD' % wt)
    res = {'property': prop, 'mutant': k}
    try:
        if rc != 0:
            res['status'] = 'worktree failed: %s' % out[-200:]
            return prop, k, res
        env = dict(os.environ, PYTHONDONTWRITEBYTECODE='1', PYTHONPATH=wt)
        rc0, o0 = sh('/venv/bin/python %s' % demo, cwd=wt, timeout=600, env=env)
        res['demo_unchanged_exit'] = rc0
        rc, out = sh('git apply %s' % patch, cwd=wt)
        if rc != 0:
            rc, out = sh('patch -p1 --no-backup-if-mismatch -F3 < %s' % patch, cwd=wt)
            res['applied_with'] = 'patch -F3'
            if rc != 0:
                res['status'] = 'patch does not apply to the current tree'
                res['apply_output'] = out[-400:]
                return prop, k, res
        _, diff = sh('git diff', cwd=wt)
        res['rebased_patch'] = diff
        rc1, o1 = sh('/venv/bin/python %s' % demo, cwd=wt, timeout=600, env=env)
        res['demo_changed_exit'] = rc1
        res['demo_changed_tail'] = o1[-300:]
        if not skip_suite:
            rc, out = sh('/venv/bin/python -m pytest -q -p no:cacheprovider -n 4 --dist loadfile --timeout=900 2>&1 | tail -3', cwd=wt, timeout=3000, env=env)
            line = out.strip().splitlines()[-1] if out.strip() else ''
            line = re.sub(r'\x1b\[[0-9;]*m', '', line)
            res['suite'] = line
            nums = {m.group(2): int(m.group(1)) for m in re.finditer(r'(\d+) (passed|failed|errors?)', line)}
            nums['errors'] = nums.pop('error', nums.get('errors', 0))
            res['suite_matches_baseline'] = all(nums.get(k2, 0) == v for k2, v in BASE.items())
        checks = {}
        props = [prop] if not all_checks else ['C%02d' % i for i in range(1, 21) if i not in (15, 19)]
        for p in props:
            rc, out = sh('./check %s --root %s --no-write' % (p, wt), cwd=VERIF, timeout=600)
            rules = sorted(set(re.findall(r'FINDING property=\S+ rule=(\S+)', out)))
            checks[p] = {'exit': rc, 'rules': rules}
        res['checks'] = checks
        res['detected_by_own_check'] = checks.get(prop, {}).get('exit') == 1
        ok = rc0 == 0 and rc1 != 0 and (skip_suite or res.get('suite_matches_baseline'))
        res['status'] = 'confirmed' if ok else 'not confirmed'
        return prop, k, res
    finally:
        sh('git -C /repo worktree remove --force %s' % wt)
        shutil.rmtree(wt, ignore_errors=True)


def main():
    ap = argparse.ArgumentParser()
    ap.add_argument('--src', default='/tmp/wt_out')
    ap.add_argument('--only', default=None)
    ap.add_argument('--jobs', type=int, default=4)
    ap.add_argument('--skip-suite', action='store_true')
    ap.add_argument('--all-checks', action='store_true')
    ap.add_argument('--tag', default='')
    a = ap.parse_args()
    todo = []
    for prop in sorted(os.listdir(a.src)):
        if not re.match(r'^C\d\d$', prop) or (a.only and prop not in a.only.split(',')):
            continue
        for k in range(1, 6):
            if os.path.isdir(os.path.join(a.src, prop, 'mut%d' % k)):
                todo.append((a.src, prop, k, a.skip_suite, a.all_checks))
    with concurrent.futures.ThreadPoolExecutor(max_workers=a.jobs) as ex:
        for prop, k, res in ex.map(one, todo):
            name = '%s-%smut%d' % (prop, a.tag, k)
            print(name, res.get('status'), 'demo %s/%s' % (res.get('demo_unchanged_exit'), res.get('demo_changed_exit')), res.get('suite', ''),
                  'detected=%s %s' % (res.get('detected_by_own_check'), (res.get('checks') or {}).get(prop, {}).get('rules')), flush=True)
            if res.get('status') != 'confirmed':
                os.makedirs('/tmp/seed_rejects', exist_ok=True)
                with open('/tmp/seed_rejects/%s.json' % name, 'w') as fh:
                    json.dump(res, fh, indent=1)
                continue
            out = os.path.join(VERIF, 'seeded', name)
            os.makedirs(out, exist_ok=True)
            with open(os.path.join(out, 'patch.diff'), 'w') as fh:
                fh.write(res.pop('rebased_patch'))
            shutil.copy(os.path.join(a.src, prop, 'mut%d' % k, 'demo.py'), os.path.join(out, 'demo.py'))
            meta = {}
            mp = os.path.join(a.src, prop, 'mut%d' % k, 'meta.json')
            if os.path.exists(mp):
                try:
                    meta = json.load(open(mp))
                except Exception:
                    meta = {}
            meta.update({'property': prop, 'origin': 'independent sub-agent given only the property text and a scratch worktree',
                         'confirmed': {'demo_unchanged_exit': res['demo_unchanged_exit'], 'demo_changed_exit': res['demo_changed_exit'],
                                       'suite_on_changed_tree': res.get('suite'), 'suite_matches_baseline': res.get('suite_matches_baseline'),
                                       'how': 'scratch git worktree of /repo HEAD under /tmp; `cd <tree> && /venv/bin/python demo.py` before and after '
                                              '`git apply patch.diff`; `pytest -n 4 --dist loadfile` on the changed tree; worktree removed afterwards'},
                         'checks': res['checks'], 'detected_by_own_check': res['detected_by_own_check']})
            with open(os.path.join(out, 'meta.json'), 'w') as fh:
                json.dump(meta, fh, indent=1)


if __name__ == '__main__':
    main()
