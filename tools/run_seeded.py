#!/venv/bin/python
"""Run the owning check against every confirmed seeded change: /verif/seeded/<prop>-mut<k>/patch.diff must give exit 1.
usage: run_seeded.py [--only C01,C02] [--jobs 8]"""
import argparse
import concurrent.futures
import os
import re
import shutil
import subprocess
import tempfile

VERIF = os.path.dirname(os.path.dirname(os.path.abspath(__file__)))


def one(a):
    d, prop = a
    root = tempfile.mkdtemp(prefix='seed_', dir='/tmp')
    try:
        shutil.copytree('/repo/pgpy', os.path.join(root, 'pgpy'), ignore=shutil.ignore_patterns('__pycache__'))
        p = subprocess.run('patch -p1 -s --no-backup-if-mismatch < %s' % os.path.join(VERIF, 'seeded', d, 'patch.diff'), shell=True, cwd=root,
                           stdout=subprocess.PIPE, stderr=subprocess.STDOUT, text=True)
        if p.returncode != 0:
            return d, 3, ['patch failed']
        q = subprocess.run('./check %s --root %s --no-write' % (prop, root), shell=True, cwd=VERIF, stdout=subprocess.PIPE, stderr=subprocess.STDOUT, text=True)
        rules = sorted(set(re.findall(r'FINDING property=\S+ rule=(\S+)', q.stdout)))
        errs = [l[:300] for l in q.stdout.splitlines() if l.startswith('ANALYSIS-ERROR')][:3]
        return d, q.returncode, rules + errs
    finally:
        shutil.rmtree(root, ignore_errors=True)


def main():
    ap = argparse.ArgumentParser()
    ap.add_argument('--only', default=None)
    ap.add_argument('--jobs', type=int, default=8)
    a = ap.parse_args()
    todo = []
    for d in sorted(os.listdir(os.path.join(VERIF, 'seeded'))):
        m = re.match(r'^(C\d\d)-(?:w\d)?mut\d+$', d)
        if m and not (a.only and m.group(1) not in a.only.split(',')):
            todo.append((d, m.group(1)))
    missed = 0
    with concurrent.futures.ThreadPoolExecutor(max_workers=a.jobs) as ex:
        for d, rc, info in ex.map(one, todo):
            if rc != 1:
                missed += 1
            print('%s rc=%d %s%s' % (d, rc, info, '' if rc == 1 else '   <-- MISSED'), flush=True)
    print('seeded=%d missed=%d' % (len(todo), missed))


if __name__ == '__main__':
    main()
