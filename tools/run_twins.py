#!/venv/bin/python
"""Run every check against behaviour-preserving refactorings (twins) made by independent sub-agents.

For each /verif/twins/<prop>-ref<k>/patch.diff: scratch copy of /repo/pgpy under /tmp, apply, run all checks with --root, remove.
Any exit code other than 0 is a false alarm (1) or a modelling gap (2) of the machinery and is printed with its first findings.
usage: run_twins.py [--only C01,C02] [--own] [--checks C04,C13] [--jobs 8]
"""
import argparse
import concurrent.futures
import os
import re
import shutil
import subprocess
import tempfile

VERIF = os.path.dirname(os.path.dirname(os.path.abspath(__file__)))
PROPS = ['C%02d' % i for i in range(1, 21) if i not in (15, 19)]


def one(a):
    src, prop, name, own, checks = a
    patch = os.path.join(src, '%s-%s' % (prop, name), 'patch.diff')
    root = tempfile.mkdtemp(prefix='twin_', dir='/tmp')
    try:
        shutil.copytree('/repo/pgpy', os.path.join(root, 'pgpy'), ignore=shutil.ignore_patterns('__pycache__'))
        p = subprocess.run('patch -p1 -s --no-backup-if-mismatch < %s' % patch, shell=True, cwd=root, stdout=subprocess.PIPE, stderr=subprocess.STDOUT, text=True)
        if p.returncode != 0:
            return prop, name, {'PATCH': (3, [p.stdout[-200:]])}
        res = {}
        for c in (checks or ([prop] if own else PROPS)):
            q = subprocess.run('./check %s --root %s --no-write' % (c, root), shell=True, cwd=VERIF, stdout=subprocess.PIPE, stderr=subprocess.STDOUT, text=True)
            if q.returncode != 0:
                lines = [l[:400] for l in q.stdout.splitlines() if re.match(r'^(FINDING|ANALYSIS-ERROR)', l)]
                res[c] = (q.returncode, lines[:6])
        return prop, name, res
    finally:
        shutil.rmtree(root, ignore_errors=True)


def main():
    ap = argparse.ArgumentParser()
    ap.add_argument('--src', default=os.path.join(VERIF, 'twins'))
    ap.add_argument('--only', default=None)
    ap.add_argument('--own', action='store_true')
    ap.add_argument('--checks', default=None, help='comma list: run only these checks (over every selected twin)')
    ap.add_argument('--jobs', type=int, default=8)
    a = ap.parse_args()
    todo = []
    for d in sorted(os.listdir(a.src)):
        m = re.match(r'^(C\d\d)-(ref\d+)$', d)
        if not m or (a.only and m.group(1) not in a.only.split(',')):
            continue
        todo.append((a.src, m.group(1), m.group(2), a.own, a.checks.split(',') if a.checks else None))
    bad = 0
    with concurrent.futures.ThreadPoolExecutor(max_workers=a.jobs) as ex:
        for prop, name, res in ex.map(one, todo):
            if not res:
                print('%s/%s silent' % (prop, name), flush=True)
                continue
            bad += 1
            for c, (rc, lines) in sorted(res.items()):
                print('%s/%s -> %s rc=%d' % (prop, name, c, rc), flush=True)
                for l in lines:
                    print('      ' + l, flush=True)
    print('twins=%d noisy=%d' % (len(todo), bad))


if __name__ == '__main__':
    main()
