#!/bin/bash
# usage: tools/seedtest.sh <patch.diff> <Cxx> [more props...]   - run checks against a scratch copy of /repo with the patch applied
set -u
patch="$1"; shift
root=$(mktemp -d /tmp/mutroot.XXXXXX)
cp -r /repo/pgpy "$root/pgpy"
find "$root" -name __pycache__ -type d -exec rm -rf {} + 2>/dev/null
if ! (cd "$root" && patch -p1 -s < "$patch"); then echo "PATCH-FAILED $patch"; rm -rf "$root"; exit 3; fi
for p in "$@"; do
  out=$(cd /verif && ./check "$p" --root "$root" --no-write 2>&1)
  rc=$?
  echo "== $p rc=$rc :: $(echo "$out" | grep -E '^FINDING|^ANALYSIS-ERROR' | head -4 | cut -c1-300)"
done
rm -rf "$root"
