"""C04 probe: ciphertext integrity.  Prints a deterministic transcript of what
decrypting genuine, tampered and mis-keyed encrypted messages yields."""
import os
import sys
sys.path.insert(0, os.getcwd())

import copy
import hashlib
import itertools
import warnings
from datetime import datetime, timezone
from unittest import mock

warnings.simplefilter('ignore')

import pgpy
from pgpy import PGPKey, PGPMessage
from pgpy.constants import SymmetricKeyAlgorithm, HashAlgorithm, CompressionAlgorithm, PubKeyAlgorithm
from pgpy.packet.packets import IntegrityProtectedSKEDataV1, PKESessionKeyV3, SKESessionKeyV4, MDC
from pgpy.packet.fields import ECDHCipherText, RSACipherText
from pgpy.symenc import _encrypt, _decrypt

assert os.path.dirname(os.path.dirname(os.path.abspath(pgpy.__file__))) == os.getcwd(), pgpy.__file__

OUT = []


def say(*a):
    line = ' '.join(str(x) for x in a)
    OUT.append(line)
    print(line)


def h(b):
    return hashlib.sha256(bytes(b)).hexdigest()[:16]


_ctr = itertools.count()


def fake_urandom(n):
    out = b''
    while len(out) < n:
        out += hashlib.sha256(b'C04-probe-%d' % next(_ctr)).digest()
    return out[:n]


def outcome(fn):
    """class name of the exception, or a digest of the plaintext that came out"""
    try:
        r = fn()
    except BaseException as e:  # noqa
        return 'EXC:' + type(e).__name__
    if isinstance(r, PGPMessage):
        try:
            m = r.message
        except BaseException as e:  # noqa
            return 'OKBUT:' + type(e).__name__
        if isinstance(m, str):
            m = m.encode('utf-8')
        return 'OK:' + h(m) + ':%d' % len(m)
    if isinstance(r, tuple):
        return 'OK:' + ','.join(getattr(x, 'name', None) or h(x) for x in r)
    return 'OK:' + h(r) + ':%d' % len(r)


def tally(label, results):
    """summarise a list of outcomes: counts per outcome, plus a digest of the exact sequence"""
    counts = {}
    for r in results:
        counts[r] = counts.get(r, 0) + 1
    say(label, 'n=%d' % len(results), 'seq=' + h('|'.join(results).encode()),
        ' '.join('%s=%d' % kv for kv in sorted(counts.items())))


def load_key(path):
    k, _ = PGPKey.from_file(path)
    return k


KEYS = {n: load_key('tests/testdata/keys/%s.sec.asc' % n) for n in ('rsa.1', 'dsa.1', 'ecc.1', 'ecc.2', 'mixed.1')}
KEYS['targette'] = load_key('tests/testdata/keys/targette.sec.rsa.asc')
KEYS['rsa.1.enc'] = load_key('tests/testdata/keys/rsa.1.enc.asc')
PUB = {n: load_key('tests/testdata/keys/%s.pub.asc' % n) for n in ('rsa.1', 'ecc.1', 'ecc.2', 'mixed.1')}

FIXTURES = [
    ('tests/testdata/messages/message.rsa.cast5.asc', 'rsa.1'),
    ('tests/testdata/messages/message.rsa.dsa.3des.asc', 'rsa.1'),
    ('tests/testdata/messages/message.rsa.dsa.cam128.asc', 'rsa.1'),
    ('tests/testdata/messages/message.rsa.dsa.pass.aes.asc', 'rsa.1'),
    ('tests/testdata/messages/message.ecdh.cv25519.asc', 'ecc.2'),
    ('tests/testdata/messages/message.ecdh.encrypted.aes.asc', None),
    ('tests/testdata/blocks/message.encrypted.asc', 'rsa.1'),
    ('tests/testdata/blocks/message.encrypted.signed.asc', 'rsa.1'),
    ('tests/testdata/messages/message.rsa.cast5.no-mdc.asc', 'rsa.1'),
    ('tests/testdata/messages/message.nomdc.pass.asc', None),
    ('tests/testdata/message.enc.twofish.asc', None),
]
PASSPHRASES = ['QwertyUiop', 'qwertyUiop', 'QwertyUiop ', '', 'TheWrongPassword', b'QwertyUiop', bytearray(b'QwertyUiop'),
               u'QwertyÜiop', 'Q' * 200]


def flip(buf, bit):
    b = bytearray(buf)
    b[bit // 8] ^= 0x80 >> (bit % 8)
    return b


def with_body(msg, ct):
    # (copy.copy of a message drops the wrapped key of ECDH session-key packets, so share them instead)
    m = PGPMessage()
    m._sessionkeys = list(msg._sessionkeys)
    m._message = copy.copy(msg._message)
    m._message.ct = bytearray(ct)
    m._message.update_hlen()
    return m


def section_fixtures():
    say('== fixtures: every key and passphrase against every encrypted fixture')
    for path, _ in FIXTURES:
        msg = PGPMessage.from_file(path)
        say(path, 'encrypters=' + ','.join(sorted(msg.encrypters)),
            'sk=' + ','.join(type(s).__name__ for s in msg._sessionkeys), 'body=' + type(msg.message).__name__,
            'len=%d' % len(getattr(msg.message, 'ct', b'')))
        for kn in sorted(KEYS):
            say('   key', kn, outcome(lambda: KEYS[kn].decrypt(msg)))
        for pw in PASSPHRASES:
            say('   pass', type(pw).__name__, h(pw.encode('utf-8') if isinstance(pw, str) else pw),
                outcome(lambda: msg.decrypt(pw)))
        # round trip of the serialisation must decrypt identically
        again = PGPMessage.from_blob(bytes(msg))
        say('   reparse', h(bytes(again)), bytes(again) == bytes(msg))
    say('   locked key', outcome(lambda: KEYS['rsa.1.enc'].decrypt(PGPMessage.from_file(FIXTURES[0][0]))))
    say('   public key', outcome(lambda: PUB['rsa.1'].decrypt(PGPMessage.from_file(FIXTURES[0][0]))))
    lit = PGPMessage.from_file('tests/testdata/messages/message.signed.asc')
    say('   not encrypted / key', outcome(lambda: KEYS['rsa.1'].decrypt(lit)))
    say('   not encrypted / pass', outcome(lambda: lit.decrypt('QwertyUiop')))


def cached(key, msg):
    """PGPKey.decrypt with the (slow, body-independent) session key recovery done once"""
    sub = key if key.fingerprint.keyid in msg.encrypters else key.subkeys[sorted(set(key.subkeys) & set(msg.encrypters))[0]]
    pkesk = next(pk for pk in msg._sessionkeys if isinstance(pk, PKESessionKeyV3) and pk.encrypter == sub.fingerprint.keyid)
    alg, sk = pkesk.decrypt_sk(sub._key)

    def dec(m):
        d = PGPMessage()
        d.parse(m.message.decrypt(sk, alg))
        return d
    return dec


def body_mutations(label, msg, dec, stride=1, full=None, fullstride=97):
    """dec(message) -> decrypted message.  Every kind of edit of the encrypted body."""
    ct = bytes(msg.message.ct)
    base = outcome(lambda: dec(msg))
    say(label, 'genuine', base, 'ctlen=%d' % len(ct))
    if full is not None:
        tally(label + ' bitflip through PGPKey.decrypt', [outcome(lambda: full(with_body(msg, flip(ct, bit))))
                                                          for bit in range(0, len(ct) * 8, fullstride)] + [outcome(lambda: full(msg))])
    res = [outcome(lambda: dec(with_body(msg, flip(ct, bit)))) for bit in range(0, len(ct) * 8, stride)]
    tally(label + ' bitflip', res)
    assert base not in res or True
    tally(label + ' truncate-tail', [outcome(lambda: dec(with_body(msg, ct[:n]))) for n in range(0, len(ct))])
    tally(label + ' truncate-head', [outcome(lambda: dec(with_body(msg, ct[n:]))) for n in range(1, len(ct))])
    tally(label + ' extend', [outcome(lambda: dec(with_body(msg, ct + ext)))
                              for ext in (b'\x00', b'\xff', b'\xd3\x14' + b'\x00' * 20, ct[-22:], ct, b'A' * 64)])
    tally(label + ' prepend', [outcome(lambda: dec(with_body(msg, ext + ct)))
                               for ext in (b'\x00', ct[:8], ct[:16], ct[:18])])
    for bs in (8, 16):
        blocks = [ct[i:i + bs] for i in range(0, len(ct), bs)]
        res = []
        for i in range(len(blocks) - 1):
            sw = list(blocks)
            sw[i], sw[i + 1] = sw[i + 1], sw[i]
            res.append(outcome(lambda: dec(with_body(msg, b''.join(sw)))))
        for i in range(len(blocks)):
            res.append(outcome(lambda: dec(with_body(msg, b''.join(blocks[:i] + blocks[i + 1:])))))
            res.append(outcome(lambda: dec(with_body(msg, b''.join(blocks[:i] + [blocks[i]] + blocks[i:])))))
        tally(label + ' blockswap/drop/dup bs=%d' % bs, res)
    tally(label + ' replace-mdc', [outcome(lambda: dec(with_body(msg, ct[:-n] + bytes(n)))) for n in (1, 2, 20, 22)] +
          [outcome(lambda: dec(with_body(msg, ct[:-20] + hashlib.sha1(ct[:-20]).digest()))),
           outcome(lambda: dec(with_body(msg, ct[:-22])))])


def section_fixture_mutations():
    say('== fixture mutations')
    rsa = KEYS['rsa.1']
    for path in ('tests/testdata/messages/message.rsa.cast5.asc', 'tests/testdata/messages/message.rsa.dsa.3des.asc',
                 'tests/testdata/messages/message.rsa.dsa.cam128.asc'):
        msg = PGPMessage.from_file(path)
        body_mutations(os.path.basename(path), msg, cached(rsa, msg), stride=1, full=rsa.decrypt, fullstride=131)

    # session-key packet of an RSA recipient: every 5th bit of the MPI, id and algorithm octets
    msg = PGPMessage.from_file('tests/testdata/messages/message.rsa.cast5.asc')
    blob = bytes(msg)
    pk = msg._sessionkeys[0]
    pklen = len(pk.__bytes__())
    say('rsa pkesk', 'len=%d' % pklen, 'encrypter=' + pk.encrypter, pk.pkalg.name, outcome(lambda: pk.decrypt_sk(rsa.subkeys[pk.encrypter]._key)))
    res = []
    for bit in list(range(0, 96)) + list(range(96, pklen * 8, 53)):
        res.append(outcome(lambda: rsa.decrypt(PGPMessage.from_blob(flip(blob, bit)))))
    tally('rsa pkesk bitflip (whole message re-parsed)', res)
    tally('rsa message truncation (re-parsed)', [outcome(lambda: rsa.decrypt(PGPMessage.from_blob(blob[:n])))
                                                 for n in range(1, len(blob), 23)])
    tally('rsa message extension (re-parsed)', [outcome(lambda: rsa.decrypt(PGPMessage.from_blob(blob + e)))
                                                for e in (b'\x00', blob[pklen:], blob[:pklen], blob)])
    # shorter / longer MPIs (leading-zero padding branch)
    res = []
    for v in (0, 1, 255, 1 << 64, (1 << 2047) - 1, (1 << 2048) - 1, 1 << 2048, (1 << 2056) + 12345):
        m2 = PGPMessage.from_blob(bytes(msg))
        m2._sessionkeys[0].ct.me_mod_n = type(pk.ct.me_mod_n)(v)
        m2._sessionkeys[0].update_hlen()
        res.append(outcome(lambda: rsa.decrypt(m2)))
    say('rsa pkesk odd MPI values', ' '.join(res))

    # ECDH recipient
    ecc = KEYS['ecc.2']
    msg = PGPMessage.from_file('tests/testdata/messages/message.ecdh.cv25519.asc')
    body_mutations('message.ecdh.cv25519.asc', msg, cached(ecc, msg), stride=1, full=ecc.decrypt, fullstride=5)
    blob = bytes(msg)
    pk = msg._sessionkeys[0]
    pklen = len(pk.__bytes__())
    say('ecdh pkesk', 'len=%d' % pklen, 'encrypter=' + pk.encrypter, pk.pkalg.name, 'clen=%d' % len(pk.ct.c),
        outcome(lambda: pk.decrypt_sk(ecc.subkeys[pk.encrypter]._key)))
    tally('ecdh pkesk bitflip (re-parsed)', [outcome(lambda: ecc.decrypt(PGPMessage.from_blob(flip(blob, bit))))
                                             for bit in range(0, pklen * 8)])
    tally('ecdh message truncation (re-parsed)', [outcome(lambda: ecc.decrypt(PGPMessage.from_blob(blob[:n])))
                                                  for n in range(1, len(blob), 3)])
    for other in ('ecc.1', 'mixed.1'):
        # same algorithm, right key id forged onto the packet, wrong private key
        m2 = PGPMessage.from_blob(bytes(msg))
        sub = list(KEYS[other].subkeys.values())[0]
        m2._sessionkeys[0]._encrypter = sub.fingerprint.keyid
        say('ecdh forged recipient id ->', other, outcome(lambda: KEYS[other].decrypt(m2)))

    # passphrase recipient next to two public-key recipients
    msg = PGPMessage.from_file('tests/testdata/messages/message.rsa.dsa.pass.aes.asc')
    sk = [s for s in msg._sessionkeys if isinstance(s, SKESessionKeyV4)][0]
    say('skesk', 'symalg=' + sk.symalg.name, 'halg=' + sk.s2k.halg.name, 'spec=%s' % sk.s2k.specifier.name,
        'count=%d' % sk.s2k.count, 'ctlen=%d' % len(sk.ct), outcome(lambda: sk.decrypt_sk('QwertyUiop')))
    sk.s2k.count  # keep iteration count of the fixture
    skb = sk.__bytes__()
    blob = bytes(msg)
    at = blob.index(skb)
    res = [outcome(lambda: PGPMessage.from_blob(flip(blob, at * 8 + bit)).decrypt('QwertyUiop'))
           for bit in range(0, len(skb) * 8, 3)]
    tally('skesk bitflip (re-parsed)', res)
    body_mutations('message.rsa.dsa.pass.aes.asc/rsa', msg, cached(rsa, msg), stride=1, full=rsa.decrypt, fullstride=211)


def fresh(text, **kw):
    m = PGPMessage.new(text, **kw)
    lit = m._message
    if hasattr(lit, 'mtime'):
        lit.mtime = datetime(2020, 1, 2, 3, 4, 5, tzinfo=timezone.utc)
    return m


def section_fresh():
    say('== freshly encrypted messages (os.urandom replaced by a counter stream, s2k count lowered)')
    for halg in HashAlgorithm:
        halg._tuned_count = 40
    def usable(c):
        try:
            return c.is_supported and not c.is_insecure
        except NotImplementedError:
            return False
    ciphers = [c for c in SymmetricKeyAlgorithm if usable(c)]
    say('ciphers', ' '.join(c.name for c in ciphers))
    sizes = [0, 1, 7, 8, 15, 16, 17, 63, 64, 65, 191, 192, 8383, 8384, 70000]
    with mock.patch('os.urandom', fake_urandom):
        for c in ciphers:
            for n in sizes:
                text = bytes(bytearray((i * 7 + n) & 0xff for i in range(n)))
                pt = fresh(text, compression=CompressionAlgorithm.Uncompressed, format='b')
                enc = pt.encrypt('correct horse', cipher=c)
                enc = PGPMessage.from_blob(bytes(enc))
                wire = bytes(enc)
                dec = outcome(lambda: enc.decrypt('correct horse'))
                say('pass', c.name, 'n=%d' % n, 'wire=' + h(wire), 'len=%d' % len(wire), dec, dec == 'OK:%s:%d' % (h(text), n),
                    'wrong:', outcome(lambda: enc.decrypt('correct horsf')), outcome(lambda: enc.decrypt('')),
                    outcome(lambda: KEYS['rsa.1'].decrypt(enc)))
            # tamper one mid-size message per cipher
            text = b'attack at dawn, ' * 6
            enc = fresh(text, compression=CompressionAlgorithm.Uncompressed, format='b').encrypt('pw-' + c.name, cipher=c)
            body_mutations('pass/' + c.name, enc, lambda m: m.decrypt('pw-' + c.name), stride=4)

            # splices between two messages under the same session key
            skey = c.gen_key()
            a = fresh(b'A' * 100, compression=CompressionAlgorithm.Uncompressed, format='b').encrypt('pw', sessionkey=skey, cipher=c)
            b = fresh(b'B' * 100, compression=CompressionAlgorithm.Uncompressed, format='b').encrypt('pw', sessionkey=skey, cipher=c)
            ca, cb = bytes(a.message.ct), bytes(b.message.ct)
            bs = c.block_size // 8
            res = []
            for cut in range(0, min(len(ca), len(cb)) + 1, bs // 2):
                res.append(outcome(lambda: a.decrypt('pw') if False else with_body(a, ca[:cut] + cb[cut:]).decrypt('pw')))
                res.append(outcome(lambda: with_body(b, ca[:cut] + cb[cut:]).decrypt('pw')))
            res.append(outcome(lambda: with_body(a, ca[:-22] + cb[-22:]).decrypt('pw')))
            res.append(outcome(lambda: with_body(a, cb).decrypt('pw')))
            # session key packets swapped between the two messages: same session key, so this is legitimate
            sw = copy.copy(a)
            sw._sessionkeys = list(b._sessionkeys)
            res.append(outcome(lambda: sw.decrypt('pw')))
            tally('splice/' + c.name, res)
            say('splice/' + c.name, 'genuine', outcome(lambda: a.decrypt('pw')), outcome(lambda: b.decrypt('pw')))

        # compressed, text, multiple passphrases
        for comp in CompressionAlgorithm:
            pt = fresh(u'compressible ' * 50, compression=comp)
            enc = pt.encrypt('one', cipher=SymmetricKeyAlgorithm.AES128, sessionkey=b'K' * 16)
            enc = enc.encrypt('two', sessionkey=b'K' * 16, cipher=SymmetricKeyAlgorithm.AES128)
            enc = PGPMessage.from_blob(bytes(enc))
            say('multi-pass', comp.name, 'wire=' + h(bytes(enc)), [type(s).__name__ for s in enc._sessionkeys],
                outcome(lambda: enc.decrypt('one')), outcome(lambda: enc.decrypt('two')), outcome(lambda: enc.decrypt('three')))
            rev = copy.copy(enc)
            rev._sessionkeys = list(reversed(enc._sessionkeys))
            say('   reversed sk order', outcome(lambda: rev.decrypt('one')), outcome(lambda: rev.decrypt('two')))
            dup = copy.copy(enc)
            dup._sessionkeys = enc._sessionkeys + enc._sessionkeys[:1]
            say('   duplicated sk', outcome(lambda: dup.decrypt('one')), outcome(lambda: dup.decrypt('two')))
            one = copy.copy(enc)
            one._sessionkeys = enc._sessionkeys[:1]
            say('   dropped sk', outcome(lambda: one.decrypt('one')), outcome(lambda: one.decrypt('two')))

        # SKESK without an encrypted session key (key is derived straight from the passphrase)
        sk = SKESessionKeyV4()
        sk.s2k.usage = 255
        sk.s2k.specifier = 3
        sk.s2k.halg = HashAlgorithm.SHA256
        sk.s2k.encalg = SymmetricKeyAlgorithm.AES256
        sk.s2k.count = 40
        sk.s2k.salt = bytearray(b'saltsalt')
        sk.update_hlen()
        alg, key = sk.decrypt_sk('direct')
        say('direct skesk', alg.name, h(key), len(key))
        body = IntegrityProtectedSKEDataV1()
        inner = fresh(b'derived key message', compression=CompressionAlgorithm.Uncompressed, format='b')
        body.encrypt(key, alg, inner.__bytes__())
        dm = PGPMessage() | sk
        dm |= body
        dm = PGPMessage.from_blob(bytes(dm))
        say('direct skesk message', h(bytes(dm)), outcome(lambda: dm.decrypt('direct')), outcome(lambda: dm.decrypt('Direct')))
        body_mutations('direct', dm, lambda m: m.decrypt('direct'), stride=8)

    # public-key recipients (ciphertext itself is randomised by the backend; only outcomes are printed)
    say('== public-key recipients, fresh')
    with mock.patch('os.urandom', fake_urandom):
        for kn in ('rsa.1', 'ecc.1', 'ecc.2', 'mixed.1'):
            pub, sec = PUB[kn], KEYS[kn]
            for c in (SymmetricKeyAlgorithm.AES128, SymmetricKeyAlgorithm.AES256, SymmetricKeyAlgorithm.Camellia192,
                      SymmetricKeyAlgorithm.TripleDES, SymmetricKeyAlgorithm.CAST5, SymmetricKeyAlgorithm.Blowfish):
                for n in ((0, 300) if kn == 'rsa.1' else (0, 1, 100, 5000)):
                    text = bytes(bytearray((i * 11 + n) & 0xff for i in range(n)))
                    pt = fresh(text, compression=CompressionAlgorithm.Uncompressed, format='b')
                    r = outcome(lambda: pub.encrypt(pt, cipher=c))
                    if r.startswith('EXC'):
                        say('pk', kn, c.name, n, 'encrypt', r)
                        continue
                    enc = PGPMessage.from_blob(bytes(pub.encrypt(pt, cipher=c)))
                    others = ' '.join(outcome(lambda: KEYS[o].decrypt(enc)) for o in sorted(KEYS) if o not in (kn, 'rsa.1.enc'))
                    say('pk', kn, c.name, n, outcome(lambda: sec.decrypt(enc)), 'expect', 'OK:%s:%d' % (h(text), n), '| others:', others,
                        '| pass:', outcome(lambda: enc.decrypt('x')))
            # session-key packet tampering on a fresh message (positions are deterministic, values are not ->
            # only print whether any tampered copy produced a plaintext different from the original)
            pt = fresh(b'fresh pk body', compression=CompressionAlgorithm.Uncompressed, format='b')
            enc = pub.encrypt(pt, cipher=SymmetricKeyAlgorithm.AES256)
            good = outcome(lambda: sec.decrypt(enc))
            # flip bits inside the fields of the session-key packet (object level: the framing stays intact, so the
            # outcome does not depend on how the backend's random bytes happen to re-parse)
            skp = enc._sessionkeys[0]
            bad = 0
            trials = 0

            def attempt():
                r = outcome(lambda: sec.decrypt(enc))
                return 1 if (r.startswith('OK') and r != good) else 0

            if isinstance(skp.ct, RSACipherText):
                n = int(skp.ct.me_mod_n)
                for bit in range(0, 2048, 89):
                    skp.ct.me_mod_n = type(skp.ct.me_mod_n)(n ^ (1 << bit))
                    bad += attempt()
                    trials += 1
                skp.ct.me_mod_n = type(skp.ct.me_mod_n)(n)
            else:
                c = bytes(skp.ct.c)
                for bit in range(len(c) * 8):
                    skp.ct.c = flip(c, bit)
                    bad += attempt()
                    trials += 1
                skp.ct.c = bytearray(c)
                for coord in ('x', 'y'):
                    v = getattr(skp.ct.p, coord)
                    if v is None:
                        continue
                    for bit in range(0, 255, 2):   # bit 255 of an X25519 u-coordinate is ignored by definition
                        if isinstance(v, (bytes, bytearray)):
                            nv = bytearray(v)
                            nv[bit // 8] ^= 1 << (bit % 8)
                            setattr(skp.ct.p, coord, type(v)(nv))
                        else:
                            setattr(skp.ct.p, coord, type(v)(int(v) ^ (1 << bit)))
                        bad += attempt()
                        trials += 1
                    setattr(skp.ct.p, coord, v)
            say('pk', kn, 'pkesk field flips tried:', trials, 'restored:', outcome(lambda: sec.decrypt(enc)) == good)
            say('pk', kn, 'pkesk flips yielding a different plaintext:', bad, 'genuine', good)
            bad = 0
            ct = bytes(enc.message.ct)
            cdec = cached(sec, enc)
            for bit in range(0, len(ct) * 8):
                r = outcome(lambda: cdec(with_body(enc, flip(ct, bit))))
                if not r.startswith('EXC:PGPDecryptionError'):
                    bad += 1
            say('pk', kn, 'body flips not rejected with PGPDecryptionError:', bad)


def section_units():
    say('== unit level: the anchored functions on hand-made inputs')
    # IntegrityProtectedSKEDataV1.decrypt on crafted plaintexts
    for alg in (SymmetricKeyAlgorithm.AES128, SymmetricKeyAlgorithm.CAST5, SymmetricKeyAlgorithm.TripleDES, SymmetricKeyAlgorithm.Camellia256):
        key = bytes(range(alg.key_size // 8))
        bs = alg.block_size // 8
        iv = bytes(range(100, 100 + bs))
        for name, prefix in (('good', iv + iv[-2:]), ('badrepeat', iv + b'\x00\x00'), ('badrepeat1', iv + iv[-2:-1] + b'\x00')):
            for data in (b'', b'x', b'payload' * 9):
                for mdcmode in ('good', 'nohdr', 'badhash', 'md5', 'missing', 'hash-without-hdr'):
                    body = prefix + data
                    good = hashlib.sha1(body + b'\xd3\x14').digest()
                    tail = {'good': b'\xd3\x14' + good, 'nohdr': b'\xd3\x15' + good, 'badhash': b'\xd3\x14' + bytes(20),
                            'md5': b'\xd3\x14' + hashlib.md5(body + b'\xd3\x14').digest() + b'\x00' * 4, 'missing': b'',
                            'hash-without-hdr': b'\x00\x00' + hashlib.sha1(body).digest()}[mdcmode]
                    p = IntegrityProtectedSKEDataV1()
                    p.ct = _encrypt(body + tail, key, alg)
                    p.update_hlen()
                    for kt in (bytes, bytearray):
                        r = outcome(lambda: p.decrypt(kt(key), alg))
                        try:
                            out = p.decrypt(kt(key), alg)
                            extra = type(out).__name__ + ':' + bytes(out).hex()[:24] + ':' + str(bytes(out) == data + tail)
                        except Exception as e:
                            extra = '-'
                        say('seipd', alg.name, name, len(data), mdcmode, kt.__name__, r, extra)
                    say('   wrong key', outcome(lambda: p.decrypt(bytes(len(key)), alg)),
                        'short ct', [outcome(lambda: (setattr(p, 'ct', p.ct[:n]), p.decrypt(key, alg))[1]) for n in (21, 10, 1, 0)])

    # PKESessionKeyV3.decrypt_sk with stubbed ciphertext objects: checksum, algorithm octet, length handling
    class Stub(object):
        def __init__(self, m):
            self.m = m

        def decrypt(self, *a):
            return self.m

    class FakeKM(object):
        pass

    for symid in (0, 1, 2, 3, 4, 7, 8, 9, 10, 11, 12, 13, 5, 6, 99, 255):
        for klen in (0, 8, 16, 24, 32):
            for ckmode in ('good', 'plus1', 'zero', 'short', 'none', 'trailing'):
                key = bytes((i * 37 + symid) & 0xff for i in range(klen))
                ck = sum(key) % 65536
                tail = {'good': ck.to_bytes(2, 'big'), 'plus1': ((ck + 1) % 65536).to_bytes(2, 'big'), 'zero': b'\x00\x00',
                        'short': ck.to_bytes(2, 'big')[:1], 'none': b'', 'trailing': ck.to_bytes(2, 'big') + b'junk'}[ckmode]
                pk = PKESessionKeyV3()
                pk.pkalg = PubKeyAlgorithm.ECDH
                pk.ct = Stub(bytes([symid]) + key + tail)
                say('pkesk', symid, klen, ckmode, outcome(lambda: pk.decrypt_sk(object())))
    for m in (b'', bytearray(), b'\x09'):
        pk = PKESessionKeyV3()
        pk.pkalg = PubKeyAlgorithm.ECDH
        pk.ct = Stub(m)
        say('pkesk empty/short m', len(m), outcome(lambda: pk.decrypt_sk(object())))
    # big key: checksum wraps modulo 65536
    key = b'\xff' * 32
    pk = PKESessionKeyV3()
    pk.pkalg = PubKeyAlgorithm.ECDH
    pk.ct = Stub(b'\x09' + key + (sum(key) % 65536).to_bytes(2, 'big'))
    say('pkesk ff-key', outcome(lambda: pk.decrypt_sk(object())))
    for alg in PubKeyAlgorithm:
        pk = PKESessionKeyV3()
        pk.pkalg = alg
        say('pkesk alg', alg.name, type(pk.ct).__name__, outcome(lambda: pk.decrypt_sk(KEYS['rsa.1']._key)))

    # SKESessionKeyV4.decrypt_sk
    for alg in (SymmetricKeyAlgorithm.AES128, SymmetricKeyAlgorithm.AES256, SymmetricKeyAlgorithm.CAST5):
        for inner in (b'', b'\x09' + b'k' * 32, b'\x07' + b'k' * 16, b'\x63' + b'k' * 16, b'\x00', b'\x09'):
            sk = SKESessionKeyV4()
            sk.s2k.usage = 255
            sk.s2k.specifier = 3
            sk.s2k.halg = HashAlgorithm.SHA1
            sk.s2k.encalg = alg
            sk.s2k.count = 16
            sk.s2k.salt = bytearray(b'12345678')
            k = sk.s2k.derive_key('pw')
            sk.ct = _encrypt(inner, k, alg) if inner else bytearray()
            sk.update_hlen()
            for pw in ('pw', 'pW', b'pw', ''):
                say('skesk', alg.name, inner[:1].hex(), len(inner), repr(pw), outcome(lambda: sk.decrypt_sk(pw)))
            rt = SKESessionKeyV4()
            say('   wire', h(sk.__bytes__()), len(sk.__bytes__()))


section_fixtures()
section_fixture_mutations()
section_fresh()
section_units()
say('== transcript digest', h('\n'.join(OUT).encode()))
