"""Equivalence digest for the C20 refactorings (message composition / literal / one-pass / compression codecs).

Run as:  cd <tree> && /venv/bin/python equiv.py
Prints one sha256 digest of every observable it collects; must be identical on the unchanged and refactored tree.
"""
import glob
import hashlib
import os
import sys
import warnings
from datetime import datetime, timezone

sys.path.insert(0, os.getcwd())
warnings.simplefilter('ignore')

import pgpy  # noqa: E402
from pgpy import PGPKey, PGPMessage, PGPSignature  # noqa: E402
from pgpy.constants import CompressionAlgorithm, HashAlgorithm  # noqa: E402
from pgpy.packet import Packet  # noqa: E402
from pgpy.packet.packets import CompressedData, LiteralData, OnePassSignatureV3  # noqa: E402

TD = os.path.join('tests', 'testdata')  # relative: some observations contain the path itself
T0 = datetime(2020, 1, 2, 3, 4, 5, tzinfo=timezone.utc)
out = []


def rec(label, value):
    if isinstance(value, (bytes, bytearray)):
        value = 'hex:' + bytes(value).hex()
    out.append('{}={!r}'.format(label, value))


def attempt(label, fn):
    try:
        rec(label, fn())
    except Exception as e:  # the exception class and text are observable too
        rec(label + '!', (type(e).__name__, str(e)))


def shape(msg):
    res = []
    for pkt in msg:
        item = [type(pkt).__name__]
        if isinstance(pkt, OnePassSignatureV3):
            item += [int(pkt.sigtype), int(pkt.halg), int(pkt.pubalg), pkt.signer, pkt.nested, bytes(pkt.__bytearray__()).hex()]
        elif isinstance(pkt, PGPSignature):
            item += [pkt.signer, pkt.created.isoformat(), pkt.hash_algorithm.name]
        res.append(item)
    return res


def describe(label, msg, raw=True):
    rec(label + '.type', msg.type)
    attempt(label + '.shape', lambda: shape(msg))
    if raw:
        attempt(label + '.bytes', lambda: bytes(msg))
        attempt(label + '.str', lambda: str(msg))
    else:
        # a decrypted message carries the MDC packet, whose hash covers the random IV prefix
        attempt(label + '.bytes.len', lambda: len(bytes(msg)))
        attempt(label + '.mdc', lambda: type(msg._mdc).__name__)
    attempt(label + '.message', lambda: msg.message if isinstance(msg.message, (str, bytes, bytearray)) else type(msg.message).__name__)
    attempt(label + '.filename', lambda: msg.filename)
    attempt(label + '.compressed', lambda: (msg.is_compressed, int(msg._compression)))
    attempt(label + '.signers', lambda: sorted(msg.signers))
    if isinstance(msg._message, LiteralData):
        lit = msg._message
        rec(label + '.lit', (lit.format, lit.filename, lit.mtime.isoformat(), bytes(lit._contents).hex(), lit.header.length))
        attempt(label + '.lit.contents', lambda: lit.contents)


def reimport(label, msg):
    def go():
        blob = bytes(msg)
        again = PGPMessage.from_blob(blob)
        describe(label + '.rt', again)
        again2 = PGPMessage.from_blob(str(msg))
        describe(label + '.rt_armor', again2)
        return len(blob)
    attempt(label + '.reimport', go)


def fixed(msg):
    # the modification time defaults to "now" (or to the checkout time of a fixture file): pin it for the digest
    if isinstance(msg._message, LiteralData):
        rec('mtime.aware', msg._message.mtime.tzinfo is not None)
        msg._message.mtime = T0
    return msg


# ---- 1. PGPMessage.new over contents x formats x compression x flags -------------------------------------------
contents = [
    ('empty', ''),
    ('emptyb', b''),
    ('ascii', 'The quick brown fox\njumps over - the lazy dog.  \r\n'),
    ('asciib', b'plain ascii bytes\n'),
    ('utf8', u'Grüße ☃ \U0001F600 café\n'),
    ('utf8b', u'Grüße ☃\n'.encode('utf-8')),
    ('binary', bytes(bytearray(range(256))) * 3),
    ('bytearray', bytearray(b'\x00\xff\x80 mixed \xc3\x28')),
    ('big', (b'0123456789abcdef' * 4096) + b'\x9c\x00'),
]
for cname, content in contents:
    for fmt in (None, 'b', 't', 'u', 'l', ''):
        for comp in (None,) + tuple(CompressionAlgorithm):
            kw = {}
            if fmt is not None:
                kw['format'] = fmt
            if comp is not None:
                kw['compression'] = comp
            label = 'new[{},{},{}]'.format(cname, fmt, None if comp is None else comp.name)

            def build():
                m = fixed(PGPMessage.new(content, **kw))
                describe(label, m)
                if cname != 'big' or fmt is None:
                    reimport(label, m)
                return True
            attempt(label, build)

for kw in ({'sensitive': True}, {'sensitive': True, 'cleartext': True}, {'cleartext': True},
           {'cleartext': True, 'format': 'b', 'compression': CompressionAlgorithm.BZ2},
           {'encoding': 'latin-1'}, {'encoding': 'latin-1', 'format': 't'}, {'encoding': 'utf-16', 'format': 'u'},
           {'encoding': ''}, {'encoding': 'no-such-codec'}, {'file': True}, {'file': False, 'format': 'u'},
           {'compression': 99}, {'format': 7}, {'bogus': 1}):
    for cname, content in (('latin', u'café naïve'.encode('latin-1')), ('str', u'café\n- dash\n'),
                           ('ascii', b'hello world'), ('u16', u'☃ snow'.encode('utf-16'))):
        label = 'newkw[{},{}]'.format(sorted((k, str(v)) for k, v in kw.items()), cname)

        def build():
            m = fixed(PGPMessage.new(content, **kw))
            describe(label, m)
            rec(label + '.charset', m.charset)
            reimport(label, m)
            return True
        attempt(label, build)

for path in sorted(glob.glob(os.path.join(TD, 'files', '*'))) + [os.path.join(TD, 'no-such-file'), TD]:
    for kw in ({'file': True}, {'file': True, 'sensitive': True}, {'file': True, 'format': 'b', 'compression': CompressionAlgorithm.ZLIB},
               {'file': True, 'cleartext': True}):
        label = 'newfile[{},{}]'.format(os.path.relpath(path, TD), sorted((k, str(v)) for k, v in kw.items()))

        def build():
            m = fixed(PGPMessage.new(path, **kw))
            describe(label, m)
            reimport(label, m)
            return True
        attempt(label, build)

attempt('new.none', lambda: bytes(PGPMessage.new(None)))
attempt('new.int', lambda: bytes(PGPMessage.new(5)))
attempt('new.longname', lambda: bytes(PGPMessage.new(os.path.join(TD, 'files', 'literal.1.txt'), file=True)))

# ---- 2. signed messages: one-pass order / nesting ------------------------------------------------------------
keys = []
for kf in ('rsa.1.sec.asc', 'targette.sec.rsa.asc'):
    k, _ = PGPKey.from_file(os.path.join(TD, 'keys', kf))
    keys.append(k)

times = [datetime(2021, 5, 1, 12, 0, 0, tzinfo=timezone.utc), datetime(2021, 5, 1, 12, 0, 0, tzinfo=timezone.utc),
         datetime(2019, 1, 1, tzinfo=timezone.utc), datetime(2022, 7, 7, 7, 7, 7, tzinfo=timezone.utc)]
hashes = [HashAlgorithm.SHA256, HashAlgorithm.SHA512, HashAlgorithm.SHA1, HashAlgorithm.SHA384]
for comp in (CompressionAlgorithm.Uncompressed, CompressionAlgorithm.ZIP, CompressionAlgorithm.BZ2):
    for content in (u'signed text ☃\n', b'\x00\x01binary\xff'):
        msg = fixed(PGPMessage.new(content, compression=comp))
        for n in range(len(times) + 1):
            label = 'signed[{},{},{}]'.format(comp.name, type(content).__name__, n)
            describe(label, msg)
            reimport(label, msg)
            attempt(label + '.verify', lambda: [bool(k.pubkey.verify(msg)) for k in keys])
            if n < len(times):
                msg |= keys[n % 2].sign(msg, created=times[n], hash=hashes[n])

        # the same through copy.copy and through composition from another message
        import copy
        describe('copy[{}]'.format(comp.name), copy.copy(msg))
        describe('merge[{}]'.format(comp.name), PGPMessage() | msg)

ct = PGPMessage.new(u'- cleartext\nline two  \nFrom me\n', cleartext=True)
for n in range(3):
    describe('cleartext[{}]'.format(n), ct)
    reimport('cleartext[{}]'.format(n), ct)
    ct |= keys[n % 2].sign(ct, created=times[n], hash=hashes[n])
describe('cleartext[3]', ct)
reimport('cleartext[3]', ct)

# ---- 3. fixtures ---------------------------------------------------------------------------------------------
for path in sorted(glob.glob(os.path.join(TD, 'messages', '*')) + glob.glob(os.path.join(TD, 'blocks', '*'))
                   + glob.glob(os.path.join(TD, 'keys', 'rsa.1.pub.asc')) + glob.glob(os.path.join(TD, 'signatures', '*'))):
    label = 'fixture[{}]'.format(os.path.relpath(path, TD))

    def load():
        with warnings.catch_warnings(record=True) as w:
            warnings.simplefilter('always')
            m = PGPMessage.from_file(path)
        rec(label + '.warnings', sorted(str(x.message) for x in w))
        describe(label, m)
        rec(label + '.sessionkeys', [type(p).__name__ for p in m._sessionkeys])
        reimport(label, m)
        return True
    attempt(label, load)

# ---- 4. encryption (random salt / IV: only structure and round trip are digested) ----------------------------
base = fixed(PGPMessage.new(u'secret ☃', compression=CompressionAlgorithm.ZLIB))
base |= keys[0].sign(base, created=times[0])
enc = base.encrypt('pass', sessionkey=b'\x11' * 32)
rec('enc.shape', [type(p).__name__ for p in enc])
rec('enc.type', (enc.type, enc.is_encrypted, enc.is_compressed))
enc2 = PGPMessage.from_blob(bytes(enc))
rec('enc2.shape', [type(p).__name__ for p in enc2])
describe('dec', enc2.decrypt('pass'), raw=False)


def pk_roundtrip():
    enc3 = keys[0].pubkey.encrypt(enc2, sessionkey=b'\x11' * 32, cipher=pgpy.constants.SymmetricKeyAlgorithm.AES256)
    rec('enc3.shape', [type(p).__name__ for p in PGPMessage.from_blob(str(enc3))])
    describe('dec3', keys[0].decrypt(enc3), raw=False)
    return True


attempt('enc3', pk_roundtrip)
attempt('dec.wrong', lambda: enc2.decrypt('wrong'))
attempt('dec.plain', lambda: base.decrypt('pass'))

# ---- 5. composition corner cases -------------------------------------------------------------------------------
attempt('empty.bytes', lambda: bytes(PGPMessage()))
attempt('empty.iter', lambda: list(PGPMessage()))
attempt('empty.type', lambda: PGPMessage().type)
attempt('or.int', lambda: PGPMessage() | 5)
attempt('or.none', lambda: PGPMessage() | None)
attempt('or.key', lambda: PGPMessage() | keys[0])
m = PGPMessage() | u'first'
attempt('or.second_text', lambda: m | u'second')
attempt('or.second_bytes', lambda: m | b'second')
m = PGPMessage.new('x')
attempt('or.second_literal', lambda: m | LiteralData())
attempt('or.text_after_literal', lambda: m | 'txt')
attempt('or.marker', lambda: (m | Packet(bytearray(b'\xca\x03PGP'))) is m)
attempt('or.onepass', lambda: (m | OnePassSignatureV3()) is m)
attempt('parse.key', lambda: PGPMessage.from_file(os.path.join(TD, 'keys', 'rsa.1.sec.asc')))
attempt('parse.empty', lambda: describe('parse.empty', PGPMessage.from_blob(b'')))
attempt('parse.garbage', lambda: PGPMessage.from_blob(b'\xff\xfe\x00garbage'))

# ---- 6. packet codecs directly ---------------------------------------------------------------------------------
for fmt in ('b', 't', 'u', 'l', '1', '', 'tu'):
    for fname in ('', 'a.txt', '_CONSOLE', u'ümläut.txt', 'x' * 255, 'x' * 256, u'ü' * 128):
        for body in (b'', b'caf\xc3\xa9', b'\xff\xfe'):
            label = 'lit[{},{},{}]'.format(fmt, fname[:12] + str(len(fname)), body.hex())

            def go():
                lit = LiteralData()
                lit.format = fmt
                lit.filename = fname
                lit.mtime = T0
                lit._contents = bytearray(body)
                attempt(label + '.contents', lambda: lit.contents)
                lit.update_hlen()
                raw = lit.__bytearray__()
                rec(label + '.raw', raw)
                back = Packet(bytearray(raw))
                rec(label + '.back', (type(back).__name__, back.format, back.filename, back.mtime.isoformat(), bytes(back._contents).hex()))
                cp = copy.copy(lit)
                rec(label + '.copy', bytes(cp.__bytearray__()).hex())
                return True
            attempt(label, go)

for mt in (0, 1, 2 ** 31, 2 ** 32 - 1, b'\x00\x00\x00\x01', bytearray(b'\x5e\x0d\x5e\x05'), datetime(2000, 1, 1), None, 'x', 2 ** 32):
    def go():
        lit = LiteralData()
        lit.mtime = mt
        lit.update_hlen()
        return (lit.mtime.isoformat(), bytes(lit.__bytearray__()).hex())
    attempt('lit.mtime[{!r}]'.format(mt), go)

# literal data from other producers: old-format header, partial lengths, truncated
for raw in ('ac0862017800000000 6869', 'cb0862017800000000 6869', 'cb0674000000002a', 'cb0a75036162630000002ac3a9',
            'cb e1 62 00 00000000 ' + '41' * 0 + '4242' + ' 02 4343', 'cb0562017800', 'cb03620178', 'cb00',
            'ae 62017800000000 68696a'):
    def go():
        data = bytearray.fromhex(raw.replace(' ', ''))
        pkt = Packet(data)
        res = [type(pkt).__name__, len(data)]
        if isinstance(pkt, LiteralData):
            res += [pkt.format, pkt.filename, pkt.mtime.isoformat(), bytes(pkt._contents).hex(), bytes(pkt.__bytearray__()).hex()]
        return res
    attempt('litraw[{}]'.format(raw), go)

for st in (0x00, 0x01, 0x10, 0x18, 0x50, 0x99, None):
    for ha in (1, 2, 8, 10, 11, 99, 300, None):
        for pa in (1, 3, 17, 19, 22, 99, None):
            for signer in ('0123456789ABCDEF', bytearray(b'\x01\x02\x03\x04\x05\x06\x07\x08'), '', 'zz', None):
                for nested in (False, True, 0, 1, 2):
                    if (st, ha, pa) != (0, 8, 1) and (signer, nested) != ('0123456789ABCDEF', True):
                        continue
                    label = 'ops[{},{},{},{!r},{}]'.format(st, ha, pa, signer, nested)

                    def go():
                        ops = OnePassSignatureV3()
                        if st is not None:
                            ops.sigtype = st
                        if ha is not None:
                            ops.halg = ha
                        if pa is not None:
                            ops.pubalg = pa
                        if signer is not None:
                            ops.signer = signer
                        ops.nested = nested
                        ops.update_hlen()
                        raw = ops.__bytearray__()
                        back = Packet(bytearray(raw))
                        return (bytes(raw).hex(), type(back).__name__, back.sigtype, back.halg, back.pubalg, back.signer, back.nested,
                                bytes(back.__bytearray__()).hex())
                    attempt(label, go)

for raw in ('c40d0300080101020304050607080a', 'c40d03000801010203040506070800', 'c40d03000801010203040506070801', '900d0300080101020304050607080101',
            'c40c030008010102030405060708', 'c4050300080101', 'c40d0400080101020304050607080a', 'c40d03630801010203040506070801',
            'c40d0300636301020304050607080100'):
    def go():
        data = bytearray.fromhex(raw)
        pkt = Packet(data)
        res = [type(pkt).__name__, len(data)]
        if isinstance(pkt, OnePassSignatureV3):
            res += [pkt.sigtype, pkt.halg, pkt.pubalg, pkt.signer, pkt.nested, bytes(pkt.__bytearray__()).hex()]
        return res
    attempt('opsraw[{}]'.format(raw), go)

for calg in list(CompressionAlgorithm) + [0, 1, 2, 3, 4, 110, None]:
    for npk in (0, 1, 3):
        def go():
            cd = CompressedData()
            if calg is not None:
                cd.calg = calg
            for i in range(npk):
                lit = LiteralData()
                lit.mtime = T0
                lit.filename = 'f{}'.format(i)
                lit._contents = bytearray(b'payload %d ' % i * (i + 1))
                lit.update_hlen()
                cd.packets.append(lit)
            cd.update_hlen()
            raw = cd.__bytearray__()
            back = Packet(bytearray(raw))
            return (bytes(raw).hex(), type(back).__name__, int(back.calg), [bytes(p.__bytearray__()).hex() for p in back.packets])
        attempt('comp[{!r},{}]'.format(calg, npk), go)

for raw in ('c80100', 'c8020000', 'c80363', 'c803014b0400', 'c80301ffff', 'c80302789c', 'c800', 'a3014b0400'):
    def go():
        data = bytearray.fromhex(raw)
        pkt = Packet(data)
        return [type(pkt).__name__, len(data), getattr(pkt, 'calg', None), len(getattr(pkt, 'packets', []))]
    attempt('compraw[{}]'.format(raw), go)

# make_onepass on fixture signatures
for path in sorted(glob.glob(os.path.join(TD, 'signatures', '*')) + glob.glob(os.path.join(TD, 'blocks', 'signature*'))):
    def go():
        sig = PGPSignature.from_file(path)
        ops = sig.make_onepass()
        return (type(ops).__name__, ops.sigtype, ops.halg, ops.pubalg, ops.signer, ops.nested, ops.header.length, bytes(ops.__bytearray__()).hex())
    attempt('make_onepass[{}]'.format(os.path.relpath(path, TD)), go)

blob = '\n'.join(out).encode('utf-8', 'backslashreplace')
print('observations', len(out))
print('errors', sum(1 for o in out if o.split('=', 1)[0].endswith('!')))
print('digest', hashlib.sha256(blob).hexdigest())
if os.environ.get('EQUIV_DUMP'):
    with open(os.environ['EQUIV_DUMP'], 'wb') as f:
        f.write(blob)
