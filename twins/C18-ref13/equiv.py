"""Behaviour digest for property C18 (fingerprints / key ids / creation time codec).

Run as:  cd <tree> && /venv/bin/python equiv.py
Prints one sha256 digest over every observable collected below; it must be the
same on the unchanged and on the refactored tree.
"""
import os
import sys
sys.path.insert(0, os.getcwd())

import copy
import glob
import hashlib
import pickle
import warnings
from datetime import datetime, timezone, timedelta

import pgpy
from pgpy.types import Fingerprint
from pgpy.packet.packets import PubKeyV4, PubSubKeyV4, PrivKeyV4, PrivSubKeyV4
from pgpy.packet import fields

out = []


def rec(*a):
    out.append(repr(a))


def attempt(label, fn):
    try:
        with warnings.catch_warnings(record=True) as w:
            warnings.simplefilter('always')
            r = fn()
        rec(label, 'ok', r, [(x.category.__name__, str(x.message)) for x in w])
    except Exception as e:  # noqa
        rec(label, 'exc', type(e).__name__, str(e))


def all_keys(k):
    yield k
    for sk in k.subkeys.values():
        yield sk


# ---- fixture keys: fingerprints, key ids, packet level views -------------------------------
for path in sorted(glob.glob('tests/testdata/keys/*.asc')) + ['tests/testdata/pubtest.asc', 'tests/testdata/sectest.asc']:
    with warnings.catch_warnings():
        warnings.simplefilter('ignore')
        key, _ = pgpy.PGPKey.from_file(path)
    for k in all_keys(key):
        fp = k.fingerprint
        pkt = k._key
        km = pkt.keymaterial
        rec(os.path.basename(path), type(pkt).__name__, type(km).__name__, str(fp), fp.keyid, fp.shortid,
            bytes(fp).hex(), repr(fp), hash(fp) == hash(str(fp)), km.publen(), len(km),
            bytes(km.__bytearray__()[:km.publen()]).hex(), bytes(pkt.__bytearray__()).hex(),
            pkt.created.isoformat(), int(pkt.pkalg))
        # independent recomputation
        body = bytes(pkt.__bytearray__())[len(pkt.header):]
        pub = body[:6 + km.publen()]
        ref = hashlib.sha1(b'\x99' + len(pub).to_bytes(2, 'big') + pub).hexdigest().upper()
        rec('ref', ref == fp, ref[-16:] == fp.keyid)
        # copy / public twin / roundtrip
        c = copy.copy(pkt)
        rec('copy', str(c.fingerprint), bytes(c.__bytearray__()) == bytes(pkt.__bytearray__()),
            sorted(vars(c)) == sorted(vars(pkt)), sorted(vars(c.keymaterial)) == sorted(vars(km)))
        if not k.is_public:
            rec('pub', str(k.pubkey.fingerprint), k.pubkey._key.keymaterial.publen())
    with warnings.catch_warnings():
        warnings.simplefilter('ignore')
        k2, _ = pgpy.PGPKey.from_blob(bytes(key))
    rec('rt', [str(k.fingerprint) for k in all_keys(k2)], bytes(k2) == bytes(key))
    for uid in key.userids:
        for sig in uid._signatures:
            rec('sig', sig.signer, str(sig.signer_fingerprint))

# unlock a protected key and look again
with warnings.catch_warnings():
    warnings.simplefilter('ignore')
    enc, _ = pgpy.PGPKey.from_file('tests/testdata/keys/rsa.1.enc.asc')
    rec('locked', str(enc.fingerprint), enc._key.keymaterial.publen(), len(enc._key.keymaterial))
    with enc.unlock('QwertyUiop'):
        rec('unlocked', str(enc.fingerprint), enc._key.keymaterial.publen(), len(enc._key.keymaterial))
        for sk in enc.subkeys.values():
            rec('unlocked-sub', str(sk.fingerprint), sk._key.keymaterial.publen())

# ---- creation time codec -------------------------------------------------------------------
with warnings.catch_warnings():
    warnings.simplefilter('ignore')
    base, _ = pgpy.PGPKey.from_file('tests/testdata/keys/rsa.1.pub.asc')
for cls in (PubKeyV4, PubSubKeyV4, PrivKeyV4, PrivSubKeyV4):
    rec(cls.__name__, sorted(k for k in vars(cls()) if k != '_created'))
for t in (0, 1, 86399, 86400, 1000000000, 1396310400, 2 ** 31 - 1, 2 ** 31, 2 ** 32 - 1):
    def mk(t=t):
        p = copy.copy(base._key)
        p.created = t
        return (p.created.isoformat(), str(p.fingerprint), bytes(p.__bytearray__()).hex()[:40])
    attempt(('int', t), mk)

    def mkb(t=t):
        p = copy.copy(base._key)
        p.created = t.to_bytes(4, 'big')
        q = copy.copy(base._key)
        q.created = bytearray(t.to_bytes(4, 'big'))
        return (p.created.isoformat(), str(p.fingerprint), str(q.fingerprint))
    attempt(('bytes', t), mkb)
for val in (datetime(2014, 4, 1, 0, 0, 0), datetime(2014, 4, 1, 0, 0, 0, tzinfo=timezone.utc),
            datetime(2014, 4, 1, 5, 30, 0, tzinfo=timezone(timedelta(hours=5, minutes=30))),
            datetime(1970, 1, 1, tzinfo=timezone.utc), datetime(2200, 1, 1, tzinfo=timezone.utc),
            datetime(1969, 12, 31, tzinfo=timezone.utc),
            -1, 2 ** 32, 2 ** 70, None, 'x', 1.5, b'', b'\x00' * 5, True):
    def mkd(val=val):
        p = copy.copy(base._key)
        p.created = val
        return (repr(p.created), str(p.fingerprint), bytes(p.__bytearray__()).hex()[:40])
    attempt(('misc', repr(val)), mkd)


def nomaterial():
    p = PubKeyV4()
    p.created = 0
    p.keymaterial = None
    return p.fingerprint
attempt('nomaterial', nomaterial)


def opaque():
    p = PubKeyV4()
    p.created = 5
    p.keymaterial.data = bytearray(b'abcdef')
    return (str(p.fingerprint), p.keymaterial.publen(), bytes(p.__bytearray__()).hex())
attempt('opaque', opaque)

# ---- key material publen --------------------------------------------------------------------
for name in ('RSAPub', 'DSAPub', 'ElGPub', 'ECDSAPub', 'EdDSAPub', 'ECDHPub', 'OpaquePubKey',
             'RSAPriv', 'DSAPriv', 'ElGPriv', 'ECDSAPriv', 'EdDSAPriv', 'ECDHPriv', 'OpaquePrivKey'):
    def mkm(name=name):
        m = getattr(fields, name)()
        return (m.publen(), len(m), bytes(m.__bytearray__()).hex(), sorted(vars(m)))
    attempt(name, mkm)

# ---- Fingerprint ----------------------------------------------------------------------------
samples = ['F4294BC8094A7E0585C85E8637473B3758C44F36', 'f4294bc8094a7e0585c85e8637473b3758c44f36',
           'F429 4BC8 094A 7E05 85C8  5E86 3747 3B37 58C4 4F36', '37473B3758C44F36', '58C44F36', 'AB', 'ab\n',
           ' a b ', '0' * 64, '', ' ', 'XYZ', 'G' * 40, 'ABCD\n\n', '\nABCD', u'é', b'ABCD', bytearray(b'AB'), None,
           12, ['A'], 'A' * 39 + ' ', 'ß', 'ａ', '١٢']
for s in samples:
    def mkf(s=s):
        f = Fingerprint(s)
        r = [type(f).__name__, str(f), f.keyid, f.shortid, hash(f) == hash(str(f)), sorted(vars(f))]
        for fn in (bytes, repr, f.__class__.__pretty__):
            try:
                r.append(fn(f))
            except Exception as e:  # noqa
                r.append((type(e).__name__, str(e)))
        r.append(Fingerprint(f) is f)
        r.append(type(copy.copy(f)).__name__ + str(copy.copy(f)))
        r.append(type(copy.deepcopy(f)).__name__ + str(copy.deepcopy(f)))
        g = pickle.loads(pickle.dumps(f))
        r.append((type(g).__name__, str(g), g == f, pickle.dumps(f, 2).hex()))
        r.append([f == o for o in samples if isinstance(o, (str, bytes, bytearray))])
        r.append([f != o for o in samples if isinstance(o, str)])
        r.append([f == 5, f == None, f in {str(f): 1}, f < 'B', f + 'x', type(f.lower()).__name__])  # noqa
        return r
    attempt(('fp', repr(s)), mkf)
attempt('fp-noarg', lambda: Fingerprint())
attempt('fp-kw', lambda: str(Fingerprint(content='abcd')))
attempt('fp-2arg', lambda: Fingerprint('ab', 'cd'))

print(hashlib.sha256('\n'.join(out).encode('utf-8')).hexdigest(), len(out))
