"""Digest of the observable behaviour around the C17 mechanism.

Run as:  cd <tree> && /venv/bin/python equiv.py
Prints the same digest on the unchanged and on the refactored tree.
"""
import glob
import hashlib
import os
import re
import sys
import warnings

sys.path.insert(0, os.getcwd())

import pgpy  # noqa: E402
from pgpy import PGPKey, PGPMessage, PGPSignature  # noqa: E402
from pgpy.constants import EllipticCurveOID, PubKeyAlgorithm, SecurityIssues  # noqa: E402
from pgpy.errors import PGPError  # noqa: E402
from pgpy.types import SignatureVerification  # noqa: E402

OUT = []
_ADDR = re.compile(r'0x[0-9A-Fa-f]+')


def emit(*parts):
    OUT.append(' | '.join(_ADDR.sub('0xADDR', str(p)) for p in parts))


def attempt(label, fn):
    """run fn under a warning recorder; emit value-or-exception plus the warnings raised"""
    with warnings.catch_warnings(record=True) as caught:
        warnings.simplefilter('always')
        try:
            res = fn()
        except Exception as exc:  # noqa
            res = 'EXC {}: {}'.format(type(exc).__name__, exc)
    emit(label, res, [(w.category.__name__, str(w.message)) for w in caught])
    return res


def describe(sv):
    if not isinstance(sv, SignatureVerification):
        return sv
    good = list(sv.good_signatures)
    bad = list(sv.bad_signatures)

    def row(s):
        return (int(s.issues), type(s.issues).__name__, type(s.by).__name__, type(s.signature).__name__,
                type(s.subject).__name__, tuple(s._fields))
    return (bool(sv), sv.__nonzero__(), len(sv), repr(sv), [row(s) for s in good], [row(s) for s in bad],
            type(sv.good_signatures).__name__, type(sv.bad_signatures).__name__)


# ---------------------------------------------------------------- enum level
all_values = range(1 << 11)
emit('members', [(m.name, int(m)) for m in SecurityIssues], list(SecurityIssues.__members__))
emit('fatal', ''.join('1' if SecurityIssues(v).causes_signature_verify_to_fail else '0' for v in all_values))
emit('fatal-type', {type(SecurityIssues(v).causes_signature_verify_to_fail).__name__ for v in all_values})

sizes = [None, 0, 1, 512, 1023, 1024, 2047, 2048, 2049, 3072, 4096, 2048.0, True, 'x', b'y', (), frozenset()]
sizes += list(EllipticCurveOID)
for alg in PubKeyAlgorithm:
    for size in sizes:
        attempt('validate_params {} {!r}'.format(alg.name, size), lambda: repr(alg.validate_params(size)))

# the minimums table is looked up in the module at call time: swap it and look again
import pgpy.constants as _constants  # noqa: E402
_saved = _constants.MINIMUM_ASYMMETRIC_KEY_LENGTHS
try:
    _constants.MINIMUM_ASYMMETRIC_KEY_LENGTHS = {PubKeyAlgorithm.RSAEncryptOrSign: 4096,
                                                 PubKeyAlgorithm.DSA: {EllipticCurveOID.NIST_P256},
                                                 PubKeyAlgorithm.ECDSA: 0,
                                                 PubKeyAlgorithm.ElGamal: frozenset([2048])}
    for alg in PubKeyAlgorithm:
        for size in (None, 0, 2048, 4096, EllipticCurveOID.NIST_P256, EllipticCurveOID.Ed25519):
            attempt('patched validate_params {} {!r}'.format(alg.name, size), lambda: repr(alg.validate_params(size)))
    _k, _ = PGPKey.from_file('tests/testdata/keys/rsa.1.pub.asc')
    attempt('patched check_primitives', lambda: repr(_k.check_primitives()))
finally:
    _constants.MINIMUM_ASYMMETRIC_KEY_LENGTHS = _saved
attempt('restored validate_params', lambda: repr(PubKeyAlgorithm.RSAEncryptOrSign.validate_params(2048)))

# ------------------------------------------------- SignatureVerification level
for v in all_values:
    sv = SignatureVerification()
    sv.add_sigsubj('sig', 'key', 'subj', SecurityIssues(v))
    OUT.append('sv1 {} {}'.format(v, describe(sv)))

sv = SignatureVerification()
emit('empty', describe(sv), 'x' in sv, None in sv)
sv.add_sigsubj('sigA', 'keyA')
emit('default-issues', describe(sv), 'sigA' in sv, None in sv, 'keyA' in sv, repr(sv._subjects))
attempt('contains-unhashable', lambda: [] in sv)
other = SignatureVerification()
other.add_sigsubj('sigB', 'keyB', 'subjB', SecurityIssues.OK)
other.add_sigsubj(signature='sigC', by='keyC', subject=bytearray(b'unhashable'), issues=SecurityIssues.InsecureCurve)
before = list(other._subjects)
res = other & sv
emit('and', res is other, describe(res), other._subjects[:2] == before, len(sv), isinstance(other._subjects, list))
attempt('contains-unhashable-subject', lambda: 'sigB' in other)
for bad in (None, 1, [], 'x', True):
    attempt('and-typeerror {!r}'.format(bad), lambda: other & bad)
acc = SignatureVerification()
for v in (0, 64, 256, 512, 8, 32, 128):
    one = SignatureVerification()
    one.add_sigsubj('s%d' % v, 'k', 'subj', SecurityIssues(v))
    acc &= one
emit('advisory-only', describe(acc))
for v in (1, 2, 4, 16, 1024):
    one = SignatureVerification()
    one.add_sigsubj('s%d' % v, 'k', 'subj', SecurityIssues(v | 64 | 256 | 512))
    acc2 = SignatureVerification()
    acc2 &= acc
    acc2 &= one
    emit('advisory+fatal', v, describe(acc2))
emit('slots', SignatureVerification.__slots__, SignatureVerification.__mro__, SignatureVerification._sigsubj._fields,
     SignatureVerification._sigsubj.__name__)

# ------------------------------------------------------------- PGPKey level
keyfiles = sorted(glob.glob('tests/testdata/keys/*.asc') + glob.glob('tests/testdata/blocks/*key.asc') +
                  ['tests/testdata/blocks/expyro.asc', 'tests/testdata/blocks/revochiio.asc',
                   'tests/testdata/pubtest.asc', 'tests/testdata/sectest.asc'] +
                  glob.glob('tests/testdata/signatures/*.key.asc'))
keys = {}
for kf in keyfiles:
    with warnings.catch_warnings():
        warnings.simplefilter('ignore')
        try:
            keys[kf], _ = PGPKey.from_file(kf)
        except Exception as exc:  # noqa
            emit('load', kf, type(exc).__name__, exc)

for kf, key in sorted(keys.items()):
    attempt('check_primitives ' + kf, lambda: repr(key.check_primitives()))
    for flag in (False, True):
        attempt('check_management {} {}'.format(kf, flag), lambda: repr(key.check_management(flag)))
        attempt('check_soundness {} {}'.format(kf, flag), lambda: repr(key.check_soundness(flag)))
        attempt('check_soundness-kw {} {}'.format(kf, flag), lambda: repr(key.check_soundness(self_verifying=flag)))
        attempt('is_considered_insecure {} {}'.format(kf, flag), lambda: repr(key.is_considered_insecure(flag)))
    attempt('is_considered_insecure-default ' + kf, lambda: repr(key.is_considered_insecure()))
    attempt('self_verify ' + kf, lambda: repr(key.self_verify()))
    attempt('self_verified ' + kf, lambda: repr(key.self_verified))
    attempt('verify-self ' + kf, lambda: describe(key.verify(key)))
    for uid in key.userids:
        attempt('verify-uid ' + kf, lambda: describe(key.verify(uid)))
        for sig in uid.__sig__:
            attempt('verify-uid-sig ' + kf, lambda: describe(key.verify(uid, sig)))
            attempt('verify-wrong-subject ' + kf, lambda: describe(key.verify('not the subject', sig)))
    for sk in key.subkeys.values():
        attempt('verify-subkey ' + kf, lambda: describe(key.verify(sk)))
        attempt('subkey-verify-parent ' + kf, lambda: describe(sk.verify(key)))
        attempt('subkey soundness ' + kf, lambda: repr(sk.check_soundness()))
    attempt('verify-text-nosig ' + kf, lambda: describe(key.verify('some text')))
    attempt('verify-none ' + kf, lambda: describe(key.verify(None)))
    attempt('verify-badtype ' + kf, lambda: describe(key.verify(12)))
    attempt('verify-badsigtype ' + kf, lambda: describe(key.verify('text', 'sig')))

attempt('empty-key verify', lambda: describe(PGPKey().verify('text')))
attempt('empty-key verify badtype', lambda: describe(PGPKey().verify(3.5)))
attempt('empty-key primitives', lambda: repr(PGPKey().check_primitives()))

for name in ('aptapproval-test', 'debian-sid', 'ubuntu-precise'):
    base = 'tests/testdata/signatures/' + name
    sig = PGPSignature.from_file(base + '.sig.asc')
    with open(base + '.subj', 'rb') as f:
        subj = f.read()
    for kf, key in sorted(keys.items()):
        if 'signatures/' not in kf and 'rsa.1.pub' not in kf:
            continue
        attempt('detached {} by {}'.format(name, kf), lambda: describe(key.verify(subj, sig)))
        attempt('detached-str {} by {}'.format(name, kf), lambda: describe(key.verify(subj.decode('latin-1'), sig)))
        attempt('detached-tampered {} by {}'.format(name, kf), lambda: describe(key.verify(subj + b'x', sig)))
        attempt('detached-bytearray {} by {}'.format(name, kf), lambda: describe(key.verify(bytearray(subj), sig)))

sig = PGPSignature.from_file('tests/testdata/signatures/ecc.2.sig.asc')
for kf, key in sorted(keys.items()):
    if 'ecc.2' in kf:
        attempt('ecc.2 sig by ' + kf, lambda: describe(key.verify('This is a test message', sig)))
        attempt('ecc.2 sig obj by ' + kf, lambda: describe(key.verify(sig)))

for mf in sorted(glob.glob('tests/testdata/messages/*signed*.asc')):
    msg = PGPMessage.from_file(mf)
    for kf, key in sorted(keys.items()):
        if key.is_public:
            attempt('message {} by {}'.format(mf, kf), lambda: describe(key.verify(msg)))

# fresh signatures with the fixture secret keys (the signature bytes are not digested, only the verdicts)
for kf, key in sorted(keys.items()):
    if key.is_public or key.is_protected:
        continue
    with warnings.catch_warnings():
        warnings.simplefilter('ignore')
        try:
            msg = PGPMessage.new('fresh text')
            s1 = key.sign(msg)
            msg |= s1
            s2 = key.sign('detached text')
        except Exception as exc:  # noqa
            emit('sign', kf, type(exc).__name__)
            continue
    attempt('fresh message ' + kf, lambda: describe(key.pubkey.verify(msg)))
    attempt('fresh detached ' + kf, lambda: describe(key.pubkey.verify('detached text', s2)))
    attempt('fresh detached wrong ' + kf, lambda: describe(key.pubkey.verify('detached text!', s2)))
    attempt('fresh detached seckey ' + kf, lambda: describe(key.verify('detached text', s2)))
    for okf, okey in sorted(keys.items()):
        if okey.is_public and okey.fingerprint != key.fingerprint:
            attempt('fresh other key {} {}'.format(kf, okf), lambda: describe(okey.verify('detached text', s2)))
            break

blob = '\n'.join(OUT).encode('utf-8', 'replace')
print('lines', len(OUT))
print('sha256', hashlib.sha256(blob).hexdigest())
if os.environ.get('EQUIV_DUMP'):
    with open(os.environ['EQUIV_DUMP'], 'wb') as f:
        f.write(blob)
