"""Behavioural digest of the ASCII-armor code paths of PGPy (property C10).

Run as:  cd <tree> && /venv/bin/python equiv.py
Prints the same digest on the unchanged and on the refactored tree.
"""
import glob
import hashlib
import os
import sys
import warnings

sys.path.insert(0, os.getcwd())

import pgpy  # noqa: E402
from pgpy import PGPKey, PGPKeyring, PGPMessage, PGPSignature  # noqa: E402
from pgpy.types import Armorable  # noqa: E402

out = []


def rec(*items):
    out.append(repr(items))


def attempt(label, fn, *args, **kwargs):
    """record result or exception (type + message) and every warning (category + message)"""
    with warnings.catch_warnings(record=True) as caught:
        warnings.simplefilter('always')
        try:
            res = fn(*args, **kwargs)
            rec(label, 'ok', summarise(res))
        except Exception as ex:  # noqa: BLE001
            rec(label, 'exc', type(ex).__name__, str(ex))
    for w in caught:
        rec(label, 'warn', w.category.__name__, str(w.message), os.path.basename(w.filename))
    return None


def summarise(res):
    if isinstance(res, tuple):
        return tuple(summarise(r) for r in res)
    if isinstance(res, dict):
        return sorted((str(k), summarise(v)) for k, v in res.items())
    if isinstance(res, (PGPKey, PGPMessage, PGPSignature)):
        return (type(res).__name__, res.magic, list(res.ascii_headers.items()), type(res.ascii_headers).__name__,
                hashlib.sha256(bytes(res)).hexdigest(), hashlib.sha256(str(res).encode('utf-8')).hexdigest())
    if isinstance(res, (bytes, bytearray)):
        return (type(res).__name__, hashlib.sha256(bytes(res)).hexdigest())
    return (type(res).__name__, repr(res))


KINDS = (PGPKey, PGPMessage, PGPSignature)
files = sorted(glob.glob('tests/testdata/blocks/*.asc')) + sorted(glob.glob('tests/testdata/messages/*.asc')) \
    + sorted(glob.glob('tests/testdata/keys/*.asc')) + sorted(glob.glob('tests/testdata/signatures/*.asc')) \
    + ['tests/testdata/messages/message.nomdc.pass', 'tests/testdata/nonsense.asc', 'tests/testdata/nonsense.txt']

for path in files:
    with open(path, 'rb') as fh:
        raw = fh.read()
    text = raw.decode('latin-1')
    rec(path, 'is_ascii', Armorable.is_ascii(raw), Armorable.is_ascii(bytearray(raw)), Armorable.is_ascii(text))
    attempt(path + ':is_armor', Armorable.is_armor, text)
    attempt(path + ':is_armor/b', Armorable.is_armor, raw)
    attempt(path + ':unarmor', Armorable.ascii_unarmor, text)
    for cls in KINDS:
        tag = '%s:%s' % (path, cls.__name__)
        attempt(tag + ':file', cls.from_file, path)
        attempt(tag + ':str', cls.from_blob, text)
        attempt(tag + ':bytes', cls.from_blob, raw)
        attempt(tag + ':bytearray', cls.from_blob, bytearray(raw))
        attempt(tag + ':crlf', cls.from_blob, text.replace('\n', '\r\n'))
        attempt(tag + ':wrapped', cls.from_blob, 'leading junk\n\n' + text + '\ntrailing junk\n')

# corrupted CRC / body on one block of each kind
for path, cls in (('tests/testdata/blocks/rsapubkey.asc', PGPKey),
                  ('tests/testdata/blocks/message.signed.asc', PGPMessage),
                  ('tests/testdata/blocks/cleartext.asc', PGPMessage),
                  ('tests/testdata/blocks/rsasignature.asc', PGPSignature)):
    with open(path) as fh:
        lines = fh.read().split('\n')
    crc_idx = max(i for i, ln in enumerate(lines) if ln.startswith('=') and len(ln) == 5)
    for repl in ('=AAAA', '=////', '=' + lines[crc_idx][1:][::-1]):
        bad = list(lines)
        bad[crc_idx] = repl
        attempt('%s:crc:%s' % (path, repl), cls.from_blob, '\n'.join(bad))
        attempt('%s:crc/b:%s' % (path, repl), cls.from_blob, '\n'.join(bad).encode('latin-1'))
    body_idx = crc_idx - 2
    for pos in (0, 7, 31):
        ln = lines[body_idx]
        if pos < len(ln):
            bad = list(lines)
            bad[body_idx] = ln[:pos] + ('A' if ln[pos] != 'A' else 'B') + ln[pos + 1:]
            attempt('%s:body:%d' % (path, pos), cls.from_blob, '\n'.join(bad))

# odd inputs
for cls in KINDS:
    for label, val in (('none', None), ('int', 5), ('empty-str', ''), ('empty-bytes', b''), ('list', [1, 2]),
                       ('non-latin1', u'€ uro'), ('memoryview', memoryview(b'abc')), ('nul', b'\x00')):
        attempt('%s:odd:%s' % (cls.__name__, label), cls.from_blob, val)
    attempt('%s:nofile' % cls.__name__, cls.from_file, 'tests/testdata/does-not-exist.asc')

for label, val in (('empty', ''), ('emptyb', b''), ('tab', 'a\tb\r\n'), ('vt', 'a\x0bb'), ('del', b'a\x7f'),
                   ('hi', b'\x80abc'), ('hi-str', u'caf\xe9'), ('nl-end', 'abc\n'), ('bell-nl', 'abc\x07\n'),
                   ('ba', bytearray(b'plain text ~')), ('nul', '\x00'), ('int', 3), ('none', None)):
    attempt('is_ascii:' + label, Armorable.is_ascii, val)
    attempt('is_armor:' + label, Armorable.is_armor, val)

# CRC-24 and armoring of synthetic payloads
for n in (0, 1, 2, 3, 47, 48, 49, 95, 96, 97, 1000):
    for fill in (b'\x00', b'\xff', b'\x5a'):
        data = fill * n
        rec('crc24', n, fill, Armorable.crc24(data), Armorable.crc24(bytearray(data)), Armorable.crc24(list(data)))
rec('crc24-seq', Armorable.crc24(bytes(range(256)) * 3))

# re-armoring with custom headers, copy, charset, cleartext messages, keyring loading
key, _ = PGPKey.from_file('tests/testdata/keys/rsa.1.sec.asc')
pub = key.pubkey
rec('pub', summarise(pub))
for obj in (key, pub):
    obj.ascii_headers['Comment'] = 'equiv check'
    obj.ascii_headers['Version'] = 'PGPy test'
    rec('hdr', summarise(obj), obj.charset)
    obj.charset = 'latin1'
    rec('charset', obj.charset, summarise(obj))
    attempt('hdr-roundtrip', type(obj).from_blob, str(obj))
attempt('bad-charset', setattr, key, 'charset', 'no-such-codec')

import copy  # noqa: E402
sig = PGPSignature.from_file('tests/testdata/blocks/rsasignature.asc')
sig.ascii_headers['Comment'] = 'sig copy'
rec('sigcopy', summarise(copy.copy(sig)), summarise(sig))

for path in sorted(glob.glob('tests/testdata/messages/cleartext*.asc')) + ['tests/testdata/blocks/cleartext.twosigs.asc']:
    msg = PGPMessage.from_file(path)
    rec('clear', path, msg.type, msg.magic, str(msg), hashlib.sha256(bytes(msg)).hexdigest())
    msg.ascii_headers['Comment'] = 'x: y'
    rec('clear-hdr', str(msg))
    attempt('clear-roundtrip', PGPMessage.from_blob, str(msg))

for text in (u'plain\n- dash\n-- two\n-\n', u'', u'trailing space \nline\t\n', u'été'):
    m = PGPMessage.new(text, cleartext=True)
    rec('new-clear', text, m.magic, str(m))
    m2 = PGPMessage.new(text)
    rec('new-lit', text, m2.magic, len(str(m2).split('\n')), max(len(ln) for ln in str(m2).split('\n')))
rec('new-bin', PGPMessage.new(b'\x00\x01\xfe\xff' * 40, file=False).message)

kr = PGPKeyring()
with open('tests/testdata/keys/dsa.1.pub.asc') as fh:
    dsa_text = fh.read()
rec('keyring', sorted(kr.load('tests/testdata/keys/rsa.1.pub.asc', dsa_text, [dsa_text.encode('latin-1'), pub])))
attempt('keyring-bad', kr.load, '-----BEGIN PGP MESSAGE-----\n\nAAAA\n=AAAA\n-----END PGP MESSAGE-----\n')

digest = hashlib.sha256('\n'.join(out).encode('utf-8')).hexdigest()
print('records:', len(out))
print('digest :', digest)
