"""Observable-behaviour digest for the key-usage / issuer / recipient-id code of PGPy.

Run as:  cd <tree> && /venv/bin/python equiv.py
Prints one digest line; it must be the same on the unchanged and on the refactored tree.
"""
import glob
import hashlib
import logging
import os
import sys
import warnings
from datetime import datetime, timezone

sys.path.insert(0, os.getcwd())

import pgpy  # noqa: E402
from pgpy import PGPKey, PGPMessage, PGPSignature, PGPUID  # noqa: E402
from pgpy.constants import (CompressionAlgorithm, HashAlgorithm, KeyFlags, PubKeyAlgorithm,  # noqa: E402
                            SignatureType, SymmetricKeyAlgorithm)
from pgpy.packet.packets import OnePassSignatureV3, PKESessionKeyV3  # noqa: E402
from pgpy.packet.subpackets.signature import Issuer  # noqa: E402

warnings.simplefilter('ignore')

OUT = []
LOGGED = []


class _Capture(logging.Handler):
    def emit(self, record):
        LOGGED.append((record.levelname, record.getMessage()))


logging.getLogger().addHandler(_Capture())
logging.getLogger().setLevel(logging.DEBUG)


def rec(*items):
    OUT.append(' | '.join(str(i) for i in items))


def attempt(label, fn):
    del LOGGED[:]
    try:
        with warnings.catch_warnings(record=True) as caught:
            warnings.simplefilter('always')
            res = fn()
        rec(label, 'ok', res, sorted(str(w.message) for w in caught), list(LOGGED))
        return res
    except Exception as e:  # noqa
        rec(label, 'EXC', type(e).__name__, str(e), list(LOGGED))
        return None


def h(b):
    return hashlib.sha256(bytes(b)).hexdigest()[:16]


WHEN = datetime(2020, 1, 2, 3, 4, 5, tzinfo=timezone.utc)
KEYDIR = 'tests/testdata/keys'


def load(name):
    k, _ = PGPKey.from_file(os.path.join(KEYDIR, name))
    return k


def sigdesc(sig):
    if sig is None:
        return None
    return (sig.signer, str(sig.signer_fingerprint), sig.type.name, sig.key_algorithm.name, sig.hash_algorithm.name,
            sig.created.isoformat(), h(sig._signature.subpackets.__bytearray__()),
            sorted(f.name for f in sig.key_flags))


# ---- 1. raw key-id setters of the packet layer --------------------------------------------------------------------
for raw in (bytearray(8), bytearray(b'\xde\xad\xbe\xef\x00\x01\x9a\xff'), bytearray(b'\x01\x02'), bytearray()):
    i = Issuer()
    i.issuer = raw
    rec('Issuer', bytes(raw), i.issuer, type(i.issuer).__name__, bytes(i.__bytearray__()))
    p = PKESessionKeyV3()
    p.encrypter = raw
    rec('PKESK', bytes(raw), p.encrypter, type(p.encrypter).__name__)
    o = OnePassSignatureV3()
    o.signer = raw
    rec('OPS', bytes(raw), o.signer, type(o.signer).__name__)
    o.signer = 'ABCDEF0123456789'
    rec('OPS-str', o.signer)
p = PKESessionKeyV3()
rec('PKESK default', p.encrypter, p.pkalg, p.ct)
o = OnePassSignatureV3()
rec('OPS default', o.signer)

# ---- 2. fixture keys: form predicates and capability flags ---------------------------------------------------------
names = sorted(os.path.basename(f) for f in glob.glob(os.path.join(KEYDIR, '*.asc')))
keys = {}
for n in names:
    k = attempt('load ' + n, lambda: load(n))
    if k is None:
        continue
    keys[n] = k
    rec('key', n, k.fingerprint, k.fingerprint.keyid, k.is_public, k.is_primary, k.is_protected, k.is_unlocked,
        k.key_algorithm.name, [u.userid for u in k.userids], list(k.subkeys))
    attempt('flags ' + n, lambda: sorted(f.name for f in k._get_key_flags()))
    for u in k.userids:
        attempt('flags %s user=%s' % (n, u.name), lambda: sorted(f.name for f in k._get_key_flags(u.name)))
        rec('uid selfsig', n, u.name, sigdesc(u.selfsig), u.is_primary)
    attempt('flags %s user=nobody' % n, lambda: sorted(f.name for f in k._get_key_flags('no such user')))
    for skid, sk in k.subkeys.items():
        rec('subkey', n, skid, sk.fingerprint, sk.is_public, sk.is_primary, sk.is_protected, sk.is_unlocked,
            sk.key_algorithm.name, [sigdesc(s) for s in sk.self_signatures])
        attempt('flags %s/%s' % (n, skid), lambda: sorted(f.name for f in sk._get_key_flags()))
    rec('key bytes', n, h(k.__bytes__()))

# ---- 3. every operation on every fixture key ------------------------------------------------------------------------
text = 'The quick brown fox jumps over the lazy dog'
for n, k in sorted(keys.items()):
    for enforce in (True, False):
        k._require_usage_flags = enforce
        tag = '%s enforce=%s' % (n, enforce)
        attempt('sign ' + tag, lambda: sigdesc(k.sign(text, created=WHEN)))
        attempt('sign-ts ' + tag, lambda: sigdesc(k.sign(None, created=WHEN)))
        attempt('sign-msg ' + tag, lambda: sigdesc(k.sign(PGPMessage.new(text), created=WHEN, hash=HashAlgorithm.SHA512)))
        attempt('sign-clear ' + tag, lambda: sigdesc(k.sign(PGPMessage.new(text, cleartext=True), created=WHEN)))
        attempt('sign-nofpr ' + tag, lambda: sigdesc(k.sign(text, created=WHEN, include_issuer_fingerprint=False)))
        if k.userids:
            uname = k.userids[0].name
            attempt('sign-user ' + tag, lambda: sigdesc(k.sign(text, created=WHEN, user=uname)))
            attempt('certify ' + tag, lambda: sigdesc(k.certify(k.userids[0], created=WHEN)))
            attempt('certify-usage ' + tag, lambda: sigdesc(k.certify(k.userids[0], SignatureType.Positive_Cert, created=WHEN,
                                                                         usage={KeyFlags.Sign}, exportable=False)))
            attempt('revoke-uid ' + tag, lambda: sigdesc(k.revoke(k.userids[0], created=WHEN, comment='x')))
        attempt('certify-key ' + tag, lambda: sigdesc(k.certify(k, created=WHEN)))
        attempt('revoke-key ' + tag, lambda: sigdesc(k.revoke(k, created=WHEN)))
        for skid, sk in k.subkeys.items():
            attempt('revoke-sub %s %s' % (tag, skid), lambda: sigdesc(k.revoke(sk, created=WHEN)))
            attempt('bind %s %s' % (tag, skid), lambda: sigdesc(k.bind(sk, created=WHEN, crosssign=False,
                                                                     usage={KeyFlags.EncryptCommunications})))
            attempt('sub-sign %s %s' % (tag, skid), lambda: sigdesc(sk.sign(text, created=WHEN)))
        attempt('revoker ' + tag, lambda: sigdesc(k.revoker(keys['rsa.1.pub.asc'], created=WHEN, sensitive=True)))

        def enc(target, **kw):
            m = target.encrypt(PGPMessage.new(text, compression=CompressionAlgorithm.Uncompressed),
                               sessionkey=bytes(bytearray(range(32))), cipher=SymmetricKeyAlgorithm.AES256, **kw)
            pk = [bytes(s.__bytearray__()[:len(s.header) + 10]) for s in m._sessionkeys]
            return sorted(m.encrypters), sorted(m.issuers), pk, m.is_encrypted

        attempt('encrypt ' + tag, lambda: enc(k))
        if k.userids:
            attempt('encrypt-user ' + tag, lambda: enc(k, user=k.userids[0].name))
        for skid, sk in k.subkeys.items():
            attempt('sub-encrypt %s %s' % (tag, skid), lambda: enc(sk))
        attempt('decrypt-plain ' + tag, lambda: k.decrypt(PGPMessage.new(text)).message)
    k._require_usage_flags = True

# ---- 4. round trips: encrypt to the public half, decrypt with the private half ----------------------------------------
pairs = [('rsa.1.pub.asc', 'rsa.1.sec.asc'), ('ecc.1.pub.asc', 'ecc.1.sec.asc'), ('ecc.2.pub.asc', 'ecc.2.sec.asc'),
         ('mixed.1.pub.asc', 'mixed.1.sec.asc'), ('dsa.1.pub.asc', 'dsa.1.sec.asc'),
         ('targette.pub.rsa.asc', 'targette.sec.rsa.asc'), ('rsa.1.pub.asc', 'ecc.1.sec.asc')]
for pn, sn in pairs:
    if pn not in keys or sn not in keys:
        continue
    pub, sec = keys[pn], keys[sn]

    def roundtrip():
        m = pub.encrypt(PGPMessage.new(text), sessionkey=bytes(bytearray(range(32))), cipher=SymmetricKeyAlgorithm.AES256)
        d = sec.decrypt(m)
        return sorted(m.encrypters), d.message

    attempt('roundtrip %s -> %s' % (pn, sn), roundtrip)

for n in ('rsa.1.enc.asc', 'dsa.1.enc.asc'):
    if n not in keys:
        continue
    k = keys[n]
    pubn = n.replace('.enc.', '.pub.')

    def locked():
        m = keys[pubn].encrypt(PGPMessage.new(text), sessionkey=bytes(bytearray(range(32))),
                               cipher=SymmetricKeyAlgorithm.AES256)
        return k.decrypt(m).message

    attempt('decrypt locked ' + n, locked)
    attempt('sign locked ' + n, lambda: sigdesc(k.sign(text, created=WHEN)))

# ---- 5. a key in the process of being created -----------------------------------------------------------------------
base = keys.get('rsa.1.sec.asc')
if base is not None:
    bare = PGPKey()
    attempt('empty key sign', lambda: bare.sign(text))
    bare._key = base._key
    attempt('no-uid sign', lambda: sigdesc(bare.sign(text, created=WHEN)))
    attempt('no-uid flags', lambda: sorted(f.name for f in bare._get_key_flags()))
    attempt('no-uid encrypt', lambda: bare.encrypt(PGPMessage.new(text)))
    attempt('no-uid decrypt', lambda: bare.decrypt(PGPMessage.new(text)))
    uid = PGPUID.new('Equiv Test', comment='c', email='equiv@example.com')
    attempt('no-uid add_uid', lambda: bare.add_uid(uid, usage={KeyFlags.Sign}, hashes=[HashAlgorithm.SHA256],
                                                  ciphers=[SymmetricKeyAlgorithm.AES256],
                                                  compression=[CompressionAlgorithm.Uncompressed], created=WHEN))
    rec('after add_uid', sigdesc(uid.selfsig), sorted(f.name for f in bare._get_key_flags()))
    attempt('sign-only sign', lambda: sigdesc(bare.sign(text, created=WHEN)))
    attempt('sign-only pub encrypt', lambda: sorted(bare.pubkey.encrypt(PGPMessage.new(text)).encrypters))
    pk = bare.pubkey
    pk._require_usage_flags = False
    attempt('sign-only pub encrypt unenforced',
            lambda: sorted(pk.encrypt(PGPMessage.new(text), sessionkey=bytes(bytearray(range(32))),
                                      cipher=SymmetricKeyAlgorithm.AES256).encrypters))

# ---- 6. fixture messages and signatures: who is named in them ---------------------------------------------------------
for f in sorted(glob.glob('tests/testdata/messages/*.asc')) + ['tests/testdata/message.enc.twofish.asc']:
    def msg():
        m = PGPMessage.from_file(f)
        ops = [(o.signer, h(o.__bytearray__())) for o in m if isinstance(o, OnePassSignatureV3)]
        return (m.type, sorted(m.encrypters), sorted(m.signers), sorted(m.issuers), h(m.__bytes__()), ops,
                [sigdesc(s) for s in m.signatures])
    attempt('message ' + os.path.basename(f), msg)
    for sn in ('rsa.1.sec.asc', 'ecc.1.sec.asc', 'dsa.1.sec.asc', 'mixed.1.sec.asc'):
        if sn in keys:
            def dec():
                m = PGPMessage.from_file(f)
                d = keys[sn].decrypt(m)
                return d.type, h(d.__bytes__())
            attempt('decrypt %s with %s' % (os.path.basename(f), sn), dec)

for f in sorted(glob.glob('tests/testdata/signatures/*.asc')):
    def sg():
        s = PGPSignature.from_file(f)
        return sigdesc(s), h(s.__bytes__())
    attempt('signature ' + os.path.basename(f), sg)

for f in sorted(glob.glob('tests/testdata/packets/*')):
    base_name = os.path.basename(f)
    if base_name[:2] in ('01', '02', '04'):
        def pkt():
            from pgpy.packet import Packet
            with open(f, 'rb') as fh:
                data = bytearray(pgpy.types.Armorable.ascii_unarmor(fh.read())['body'])
            p = Packet(data)
            who = getattr(p, 'encrypter', None) or getattr(p, 'signer', None)
            return type(p).__name__, who, h(p.__bytes__())
        attempt('packet ' + base_name, pkt)

# ---- 7. all four key forms of one key: public, private-unprotected, private-locked, private-unlocked -----------------
def forms():
    sec = load('rsa.1.sec.asc')
    pub = sec.pubkey
    res = []

    def state(label, k):
        res.append((label, k.is_public, k.is_protected, k.is_unlocked, k.magic,
                    [(sk.is_public, sk.is_protected, sk.is_unlocked, sk.magic) for sk in k.subkeys.values()]))

    def ops(label, k):
        for name, fn in (('sign', lambda: sigdesc(k.sign(text, created=WHEN))),
                         ('certify', lambda: sigdesc(k.certify(k.userids[0], created=WHEN))),
                         ('encrypt', lambda: sorted(k.encrypt(PGPMessage.new(text), sessionkey=bytes(bytearray(range(32))),
                                                              cipher=SymmetricKeyAlgorithm.AES256).encrypters)),
                         ('decrypt', lambda: k.decrypt(pub.encrypt(PGPMessage.new(text), sessionkey=bytes(bytearray(range(32))),
                                                                   cipher=SymmetricKeyAlgorithm.AES256)).message)):
            try:
                res.append((label, name, 'ok', fn()))
            except Exception as e:  # noqa
                res.append((label, name, type(e).__name__, str(e)))

    state('public', pub)
    ops('public', pub)
    state('private-unprotected', sec)
    ops('private-unprotected', sec)
    sec.protect('correct horse', SymmetricKeyAlgorithm.AES256, HashAlgorithm.SHA256)
    state('just protected', sec)
    locked = PGPKey()
    locked.parse(bytes(sec))
    state('private-locked', locked)
    ops('private-locked', locked)
    try:
        with locked.unlock('wrong horse'):
            res.append('unlocked with the wrong passphrase')
    except Exception as e:  # noqa
        res.append(('wrong passphrase', type(e).__name__, str(e)))
    state('after wrong passphrase', locked)
    with locked.unlock('correct horse') as unlocked:
        state('private-unlocked', unlocked)
        ops('private-unlocked', unlocked)
    state('relocked', locked)
    ops('relocked', locked)
    return res


for item in attempt('forms', forms) or ():
    rec('form', item)

for n, k in sorted(keys.items()):
    rec('magic', n, k.magic, [sk.magic for sk in k.subkeys.values()], str(k).splitlines()[0])
rec('magic empty', PGPKey().magic)

digest = hashlib.sha256('\n'.join(OUT).encode('utf-8')).hexdigest()
if '-v' in sys.argv:
    print('\n'.join(OUT))
print('records=%d digest=%s' % (len(OUT), digest))
