"""Deterministic probe for property C14 (transferable keys survive export and import).

Run as:  cd <tree> && PYTHONHASHSEED=0 /venv/bin/python equiv.py
Prints only deterministic facts (packet tags, digests of serialisations of parsed
test-data keys, counts, verify verdicts, exception class names).
"""
import copy
from datetime import datetime, timedelta, timezone
import glob
import hashlib
import os
import sys
import warnings

sys.path.insert(0, os.getcwd())
warnings.simplefilter('ignore')

import pgpy
from pgpy import PGPKey, PGPUID, PGPSignature, PGPKeyring
from pgpy.constants import (HashAlgorithm, KeyFlags, PubKeyAlgorithm, SignatureType,
                            SymmetricKeyAlgorithm, CompressionAlgorithm)
from pgpy.packet import Packet
from pgpy.packet.packets import UserID, UserAttribute

assert os.path.dirname(os.path.dirname(os.path.abspath(pgpy.__file__))) == os.getcwd(), pgpy.__file__


T0 = datetime(2020, 1, 2, 3, 4, 5, tzinfo=timezone.utc)


def out(*a):
    print(*a)


def h(b):
    return hashlib.sha256(bytes(b)).hexdigest()[:24]


# ---------------------------------------------------------------- independent packet splitter
def split_packets(data):
    data = bytes(data)
    pos = 0
    pkts = []
    while pos < len(data):
        start = pos
        hdr = data[pos]
        assert hdr & 0x80
        pos += 1
        if hdr & 0x40:  # new format
            tag = hdr & 0x3F
            o = data[pos]
            if o < 192:
                ln = o
                pos += 1
            elif o < 224:
                ln = ((o - 192) << 8) + data[pos + 1] + 192
                pos += 2
            elif o == 255:
                ln = int.from_bytes(data[pos + 1:pos + 5], 'big')
                pos += 5
            else:
                raise ValueError('partial length')
        else:
            tag = (hdr & 0x3C) >> 2
            lt = hdr & 3
            if lt == 3:
                ln = len(data) - pos
            else:
                n = 1 << lt
                ln = int.from_bytes(data[pos:pos + n], 'big')
                pos += n
        body = data[pos:pos + ln]
        pos += ln
        pkts.append((tag, body, data[start:pos]))
    return pkts


def sig_type_of(body):
    if body[0] == 4:
        return body[1]
    if body[0] == 3:
        return body[2]
    return -1


def tagline(data):
    parts = []
    for tag, body, _ in split_packets(data):
        if tag == 2:
            parts.append('S%02x' % sig_type_of(body))
        else:
            parts.append('T%d' % tag)
    return ' '.join(parts)


def with_trust(data):
    """interleave GnuPG-style trust packets after every packet"""
    res = b''
    for i, (tag, body, raw) in enumerate(split_packets(data)):
        res += raw + bytes([0xB0, 0x02, i & 0xFF, 0x00])
    return res


# ---------------------------------------------------------------- describing a key
def describe_sig(s):
    return '%s/%s/%s/%s/exp=%s/emb=%s' % (s.type.name, s.key_algorithm.name, s.hash_algorithm.name,
                                          s.signer, s.exportable, s.embedded)


def describe(key, indent='  '):
    out(indent + 'fp', key.fingerprint, 'public' if key.is_public else 'private',
        'primary' if key.is_primary else 'sub', key.key_algorithm.name)
    out(indent + 'keymat', h(key._key.keymaterial.__bytearray__() if key.is_public else key._key.__bytearray__()))
    out(indent + 'own sigs', len(key._signatures))
    for s in key._signatures:
        out(indent + '  ', describe_sig(s), h(s.__bytearray__()))
    out(indent + 'uids', len(key._uids))
    for u in key._uids:
        out(indent + '  ', 'uid' if u.is_uid else 'ua', h(u._uid.__bytearray__()),
            repr(u.name) if u.is_uid else len(u.image), 'nsigs', len(u._signatures),
            'parent_ok', u.parent is key)
        for s in u._signatures:
            out(indent + '    ', describe_sig(s), h(s.__bytearray__()))
    out(indent + 'subkeys', list(key._children.keys()))
    for kid, sk in key._children.items():
        out(indent + '  sub', kid, sk.fingerprint, sk.key_algorithm.name, 'parent_ok', sk.parent is key,
            h(sk._key.__bytearray__()))
        for s in sk._signatures:
            out(indent + '    ', describe_sig(s), h(s.__bytearray__()))


def verify_all(key, pub=None, indent='  '):
    """verify every signature that can be verified with the key itself"""
    vk = pub if pub is not None else key
    try:
        sv = vk.verify(key)
        out(indent + 'verify(key):', bool(sv), len(list(sv.good_signatures)), len(list(sv.bad_signatures)))
    except Exception as e:
        out(indent + 'verify(key):', type(e).__name__)
    for u in key._uids:
        try:
            sv = vk.verify(u)
            out(indent + 'verify(uid):', bool(sv), len(list(sv.good_signatures)), len(list(sv.bad_signatures)))
        except Exception as e:
            out(indent + 'verify(uid):', type(e).__name__)


def roundtrip(name, key):
    out('==', name)
    describe(key)
    b = bytes(key)
    out('  export', len(b), h(b))
    out('  tags', tagline(b))
    # binary
    k2, rest = PGPKey.from_blob(b)
    out('  bin rt same bytes', bytes(k2) == b, 'others', len(rest), 'fp', k2.fingerprint == key.fingerprint)
    # armored
    a = str(key)
    k3, rest3 = PGPKey.from_blob(a)
    out('  asc rt same bytes', bytes(k3) == b, 'others', len(rest3), 'armor same', str(k3) == a)
    # bytearray / memory input
    k4, _ = PGPKey.from_blob(bytearray(b))
    out('  bytearray rt same', bytes(k4) == b)
    # copies
    c = copy.copy(key)
    out('  copy same bytes', bytes(c) == b, 'copy same armor', str(c) == a, 'copy-of-copy', bytes(copy.copy(c)) == b)
    out('  copy uids', [x.name if x.is_uid else 'ua' for x in c._uids] ==
        [x.name if x.is_uid else 'ua' for x in key._uids], 'copy nsigs', len(c._signatures), len(key._signatures))
    # trust packets interleaved
    kt, restt = PGPKey.from_blob(with_trust(b))
    out('  trust rt same bytes', bytes(kt) == b, 'others', len(restt))
    # structure after import
    describe(k2, indent='  > ')
    verify_all(k2, pub=(k2 if k2.is_public else k2.pubkey))
    if not key.is_public:
        p = key.pubkey
        pb = bytes(p)
        out('  pubkey export', h(pb), tagline(pb))
        p2, _ = PGPKey.from_blob(pb)
        out('  pubkey rt', bytes(p2) == pb, p2.fingerprint == key.fingerprint)
    return k2


# ---------------------------------------------------------------- 1. every test-data key
files = sorted(glob.glob('tests/testdata/keys/*.asc')) + \
    sorted(glob.glob('tests/testdata/blocks/*key.asc')) + \
    ['tests/testdata/blocks/expyro.asc', 'tests/testdata/blocks/revochiio.asc',
     'tests/testdata/pubtest.asc', 'tests/testdata/sectest.asc'] + \
    sorted(glob.glob('tests/testdata/signatures/*.key.asc'))

loaded = {}
for f in files:
    try:
        key, others = PGPKey.from_file(f)
    except Exception as e:
        out('==', f, 'LOAD', type(e).__name__)
        continue
    out('#', f, 'others', [(k[0], k[1]) for k in others.keys()])
    loaded[f] = key
    try:
        roundtrip(f, key)
    except Exception as e:
        out('  ROUNDTRIP', type(e).__name__, e.__class__.__mro__[1].__name__)
    for kid, ok in others.items():
        if ok is key:
            continue
        try:
            roundtrip(f + ':' + str(kid), ok)
        except Exception as e:
            out('  ROUNDTRIP other', type(e).__name__)

# ---------------------------------------------------------------- 2. concatenations
out('## concatenations')
pubs = [k for f, k in sorted(loaded.items()) if k.is_public]
secs = [k for f, k in sorted(loaded.items()) if not k.is_public]
for group_name, group in (('pubs', pubs), ('secs', secs), ('mixed', pubs[:3] + secs[:3]), ('dup', pubs[:2] + pubs[:2])):
    for trust in (False, True):
        blob = b''.join(bytes(k) for k in group)
        if trust:
            blob = with_trust(blob)
        first, others = PGPKey.from_blob(blob)
        out(group_name, 'trust' if trust else 'plain', 'n', len(group), 'first same', bytes(first) == bytes(group[0]),
            'others', len(others))
        for (kid, ispub), k in others.items():
            match = [g for g in group if g.fingerprint == k.fingerprint and g.is_public == k.is_public]
            out('   ', kid, ispub, 'identity', k is first, 'matches', [bytes(m) == bytes(k) for m in match])
    # keyring load of the concatenation
    kr = PGPKeyring()
    res = kr.load(b''.join(bytes(k) for k in group))
    out(group_name, 'keyring', len(kr), sorted(res) == sorted(set(res)), len(res))

# ---------------------------------------------------------------- 3. histories: manual attachment, non-exportable
out('## histories')
rsa_sec, _ = PGPKey.from_file('tests/testdata/keys/rsa.1.sec.asc')
rsa_pub, _ = PGPKey.from_file('tests/testdata/keys/rsa.1.pub.asc')
targ_pub, _ = PGPKey.from_file('tests/testdata/keys/targette.pub.rsa.asc')
targ_sec, _ = PGPKey.from_file('tests/testdata/keys/targette.sec.rsa.asc')
nonexp = PGPSignature.from_file('tests/testdata/blocks/signature.non-exportable.asc')
out('nonexp sig exportable', nonexp.exportable, nonexp.type.name)

base = bytes(targ_pub)
k = copy.copy(targ_pub)
k |= nonexp
out('key+nonexp: nsigs', len(k._signatures), 'export unchanged', bytes(k) == base, 'in', nonexp in k)
k2, _ = PGPKey.from_blob(bytes(k))
out('  reimport nsigs', len(k2._signatures), bytes(k2) == base)
kc = copy.copy(k)
out('  copy keeps nonexp', len(kc._signatures), bytes(kc) == base)

k = copy.copy(targ_pub)
u = k._uids[0]
u |= copy.copy(nonexp)
out('uid+nonexp: nsigs', len(u._signatures), 'export unchanged', bytes(k) == base)
k2, _ = PGPKey.from_blob(bytes(k))
out('  reimport uid nsigs', [len(x._signatures) for x in k2._uids], bytes(k2) == base)

# third-party certifications with explicit exportable true / false / default (RSA: structure only)
out('rsa_sec protected', rsa_sec.is_protected)
for exp in (None, True, False):
    k = copy.copy(targ_pub)
    kw = {} if exp is None else {'exportable': exp}
    try:
        sig = rsa_sec.certify(k._uids[0], level=SignatureType.Positive_Cert, created=T0, **kw)
    except Exception as e:
        out('certify', exp, type(e).__name__)
        continue
    k._uids[0] |= sig
    b = bytes(k)
    out('certify exportable=%s' % exp, 'sig.exportable', sig.exportable, 'tags', tagline(b), h(b))
    k2, _ = PGPKey.from_blob(b)
    out('  rt', bytes(k2) == b, [len(x._signatures) for x in k2._uids],
        'verifies', [bool(rsa_pub.verify(x)) for x in k2._uids if any(s.signer == rsa_pub.fingerprint.keyid for s in x._signatures)])
    out('  copy', bytes(copy.copy(k)) == b, [len(x._signatures) for x in copy.copy(k)._uids])

# new uid / user attribute / direct key sig / revoker / revocation on a private key (structure only)
for step in (timedelta(0), timedelta(seconds=1), timedelta(seconds=-1)):
    out('history step', step.total_seconds())
    k = copy.copy(targ_sec)
    try:
        nu = PGPUID.new('Probe User', comment='c14', email='probe@example.com')
        k.add_uid(nu, usage={KeyFlags.Sign}, hashes=[HashAlgorithm.SHA256], ciphers=[SymmetricKeyAlgorithm.AES128],
                  compression=[CompressionAlgorithm.ZIP], created=T0 + step * 1)
        with open('tests/testdata/simple.jpg', 'rb') as fh:
            ua = PGPUID.new(bytearray(fh.read()))
        k.add_uid(ua, created=T0 + step * 2)
        k |= k.certify(k, revoker=rsa_pub.fingerprint, created=T0 + step * 3)
        k |= k.certify(k, exportable=False, created=T0 + step * 3)
        k._uids[0] |= k.revoke(k._uids[0], created=T0 + step * 4)
        b = bytes(k)
        out('history tags', tagline(b), h(b))
        k2, _ = PGPKey.from_blob(b)
        out('history rt', bytes(k2) == b, 'nuids', len(k2._uids), [len(x._signatures) for x in k2._uids],
            'own', len(k2._signatures), 'vs orig own', len(k._signatures))
        out('history attach', [(x.is_uid, [s.type.name for s in x._signatures]) for x in k2._uids])
        out('history own', [s.type.name for s in k2._signatures])
        out('history verify', bool(k2.pubkey.verify(k2)), [bool(k2.pubkey.verify(x)) for x in k2._uids])
        out('history copy', bytes(copy.copy(k)) == b)
        out('history pub', tagline(bytes(k.pubkey)), bytes(PGPKey.from_blob(bytes(k.pubkey))[0]) == bytes(k.pubkey))
        out('history trust', bytes(PGPKey.from_blob(with_trust(b))[0]) == b)
        k.del_uid('Probe User')
        b3 = bytes(k)
        out('history del_uid tags', tagline(b3), bytes(PGPKey.from_blob(b3)[0]) == b3)
    except Exception as e:
        out('history', type(e).__name__)

# manual rebuild of a key from its packets with `|`
for f in ('tests/testdata/keys/rsa.1.pub.asc', 'tests/testdata/keys/mixed.1.pub.asc', 'tests/testdata/keys/ecc.2.sec.asc'):
    src = loaded[f]
    nk = PGPKey()
    nk |= copy.copy(src._key)
    for s in src._signatures:
        if not s.embedded:
            nk |= copy.copy(s)
    for u in reversed(list(src._uids)):
        nk |= copy.copy(u)
    for sk in src._children.values():
        nk |= copy.copy(sk)
    out('rebuild', f, bytes(nk) == bytes(src), len(nk._signatures), len(src._signatures),
        [x.parent is nk for x in nk._uids], [x.parent is nk for x in nk._children.values()])

# ---------------------------------------------------------------- 4. rejected inputs (class names only)
out('## rejected inputs')


def exc(label, fn):
    with warnings.catch_warnings(record=True) as w:
        warnings.simplefilter('always')
        try:
            r = fn()
            out(label, 'OK', type(r).__name__, 'warnings', [x.category.__name__ for x in w])
        except BaseException as e:
            out(label, type(e).__name__, [c.__name__ for c in type(e).__mro__[1:3]],
                'warnings', [x.category.__name__ for x in w])


exc('key|int', lambda: PGPKey() | 5)
exc('key|None', lambda: PGPKey() | None)
exc('key|str', lambda: copy.copy(rsa_pub) | 'uid')
exc('key|keypkt twice', lambda: copy.copy(rsa_pub) | copy.copy(rsa_pub._key))
exc('pub|primary', lambda: copy.copy(rsa_pub) | copy.copy(targ_pub))
exc('pub|sec subkey', lambda: copy.copy(rsa_pub) | copy.copy(next(iter(rsa_sec._children.values()))))
exc('sec|pub subkey', lambda: copy.copy(rsa_sec) | copy.copy(next(iter(rsa_pub._children.values()))))
exc('pub|pub subkey', lambda: copy.copy(targ_pub) | copy.copy(next(iter(rsa_pub._children.values()))))
exc('uid|int', lambda: PGPUID() | 5)
exc('uid|key', lambda: PGPUID() | rsa_pub)
exc('uid|uidpkt twice', lambda: copy.copy(rsa_pub._uids[0]) | copy.copy(rsa_pub._uids[0]._uid))
exc('uid|uapkt twice', lambda: copy.copy(rsa_pub._uids[0]) | UserAttribute())
exc('uid|uidpkt', lambda: PGPUID() | copy.copy(rsa_pub._uids[0]._uid))
exc('uid|sig', lambda: copy.copy(rsa_pub._uids[0]) | copy.copy(nonexp))
exc('sig in key', lambda: nonexp in rsa_pub)
exc('int in key', lambda: 5 in rsa_pub)
with open('tests/testdata/blocks/message.signed.asc') as fh:
    msgtxt = fh.read()
with open('tests/testdata/blocks/rsasignature.asc') as fh:
    sigtxt = fh.read()
exc('from_blob(message)', lambda: PGPKey.from_blob(msgtxt))
exc('from_blob(signature)', lambda: PGPKey.from_blob(sigtxt))
exc('from_blob(cleartext)', lambda: PGPKey.from_file('tests/testdata/blocks/cleartext.asc'))
exc('from_blob(empty bytes)', lambda: PGPKey.from_blob(b''))
exc('from_blob(empty str)', lambda: PGPKey.from_blob(''))
exc('from_blob(int)', lambda: PGPKey.from_blob(5))
exc('from_blob(None)', lambda: PGPKey.from_blob(None))
exc('from_blob(nonsense)', lambda: PGPKey.from_file('tests/testdata/nonsense.asc'))
pk = split_packets(bytes(rsa_pub))
exc('from_blob(sig first)', lambda: PGPKey.from_blob(pk[2][2] + pk[0][2]))
exc('from_blob(sig only)', lambda: PGPKey.from_blob(pk[2][2]))
exc('from_blob(key sig sig uid)', lambda: PGPKey.from_blob(pk[0][2] + pk[2][2] + pk[2][2] + pk[1][2]))
exc('from_blob(key, marker, uid)', lambda: bytes(PGPKey.from_blob(pk[0][2] + bytes([0xCA, 0x03]) + b'PGP' + pk[2][2] + pk[1][2] + pk[2][2])[0]) == pk[0][2] + pk[1][2] + pk[2][2])
exc('from_blob(uid first)', lambda: PGPKey.from_blob(pk[1][2] + pk[2][2]))
exc('from_blob(uid only)', lambda: PGPKey.from_blob(pk[1][2]))
exc('from_blob(subkey first)', lambda: PGPKey.from_blob(b''.join(p[2] for p in pk if p[0] == 14)))
exc('from_blob(key only)', lambda: PGPKey.from_blob(pk[0][2]))
exc('from_blob(truncated)', lambda: PGPKey.from_blob(bytes(rsa_pub)[:-7]))
exc('from_blob(key + literal)', lambda: PGPKey.from_blob(bytes(rsa_pub) + bytes([0xCB, 0x07]) + b'b\x00\x00\x00\x00\x00x'))
exc('from_blob(key + marker)', lambda: PGPKey.from_blob(bytes(rsa_pub) + bytes([0xCA, 0x03]) + b'PGP'))

r = PGPKey.from_blob(pk[0][2])[0]
out('key-only export', tagline(bytes(r)), bytes(r) == pk[0][2])
with warnings.catch_warnings(record=True) as w:
    warnings.simplefilter('always')
    try:
        r, o = PGPKey.from_blob(bytes(rsa_pub) + bytes([0xCA, 0x03]) + b'PGP')
        out('key+marker export same', bytes(r) == bytes(rsa_pub), len(o), len(w))
    except Exception as e:
        out('key+marker', type(e).__name__)

out('done')
