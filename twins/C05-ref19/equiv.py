import copy
import glob
import hashlib
import os
import pickle
import sys
import warnings
from datetime import datetime, timezone

sys.path.insert(0, os.getcwd())
warnings.simplefilter('ignore')

import pgpy
from pgpy.constants import HashAlgorithm, KeyFlags, SignatureType
from pgpy.packet import fields
from pgpy.packet.fields import SubPackets, UserAttributeSubPackets

out = hashlib.sha256()


def emit(*parts):
    for p in parts:
        if isinstance(p, (bytes, bytearray)):
            p = type(p).__name__ + ':' + bytes(p).hex()
        out.update(repr(p).encode() + b"\n")


def state(sps):
    return ([(k, type(v).__name__, bytes(v.__bytearray__())) for k, v in sps._hashed_sp.items()],
            [(k, type(v).__name__, bytes(v.__bytearray__())) for k, v in sps._unhashed_sp.items()],
            sps._hashed_raw, type(sps._hashed_raw).__name__)


def show(tag, sps):
    emit(tag, type(sps).__name__, state(sps), sps.__bytearray__(), sps.__hashbytearray__(), sps.__unhashbytearray__(),
         len(sps), [type(sp).__name__ for sp in sps], 'KeyFlags' in sps, 'h_KeyFlags' in sps, 'Nope' in sps,
         [type(sp).__name__ for sp in sps['h_KeyFlags']], [type(sp).__name__ for sp in sps['Issuer']],
         len(list(sps.keys())), bool(sps))


emit([c.__name__ for c in SubPackets.__mro__], [c.__name__ for c in UserAttributeSubPackets.__mro__],
     sorted(n for n in vars(SubPackets) if not n.startswith('_abc')), fields.__all__ == sorted(set(fields.__all__), key=fields.__all__.index))

# a fresh container filled through addnew
when = datetime(2021, 5, 6, 7, 8, 9, tzinfo=timezone.utc)
sps = SubPackets()
show('empty', sps)
sps.addnew('CreationTime', hashed=True, created=when)
sps.addnew('KeyFlags', hashed=True, flags={KeyFlags.Sign, KeyFlags.Certify})
sps.addnew('KeyFlags', True, flags={KeyFlags.Authentication}, not_an_attribute=1)
sps.addnew('Issuer', _issuer='0123456789ABCDEF')
sps.addnew('Issuer', hashed=0, _issuer='FEDCBA9876543210')
sps.addnew('Policy', hashed='yes', uri='https://example.org/é')
sps.addnew('NotationData', hashed=True, flags=0x80, name='n@example.org', value='v')
sps.addnew('PreferredHashAlgorithms', hashed=False, flags=[HashAlgorithm.SHA256, HashAlgorithm.SHA512])
show('built', sps)
for bad in ('NoSuchSubpacket', 'h_KeyFlags'):
    try:
        sps.addnew(bad, hashed=True)
    except Exception as e:
        emit('exc', type(e).__name__, str(e))
try:
    del sps['Issuer']
except Exception as e:
    emit('exc', type(e).__name__, str(e))
cp = copy.copy(sps)
show('copy', cp)
cp.addnew('Revocable', hashed=True, bflag=True)
show('copy+1', cp)
show('orig', sps)
dc = copy.deepcopy(sps)
show('deep', dc)
show('pickle', pickle.loads(pickle.dumps(sps)))

# parsed containers: the hashed area must come back verbatim, also after copying
areas = [
    b'\x00\x00\x00\x00',
    b'\x00\x06\x05\x02\x5f\x00\x00\x00\x00\x0a\x09\x10' + b'\x11' * 8,
    # non-minimal length encodings, unknown type, unknown flag bits, boolean 2, non UTF-8 text
    b'\x00\x27' + b'\xff\x00\x00\x00\x05\x02\x5f\x00\x00\x01' + b'\xc0\x03\x9b\xf0\x0f' + b'\x02\x1b\xff' + b'\x02\x07\x02'
    + b'\x04\x1a\xff\xfeh' + b'\x03\x65ab' + b'\x04\x1e\xff\x00\x01' + b'\x00\x0a\x09\x10' + b'\x22' * 8,
]
for i, area in enumerate(areas):
    buf = bytearray(area + b'TAIL')
    p = SubPackets()
    p.parse(buf)
    show('parsed%d' % i, p)
    emit(buf)
    c = copy.copy(p)
    show('pcopy%d' % i, c)
    c._hashed_raw[0:1] = b'\x7f' if c._hashed_raw else b''
    show('porig%d' % i, p)
    c2 = copy.copy(p)
    c2.addnew('KeyFlags', hashed=False, flags={KeyFlags.Sign})
    show('pcopy-unh%d' % i, c2)
    c2.addnew('KeyFlags', hashed=True, flags={KeyFlags.Sign})
    show('pcopy-h%d' % i, c2)
    c2.update_hlen()
    show('pcopy-hlen%d' % i, c2)
    show('porig-again%d' % i, p)

# fixtures
for fn in sorted(glob.glob('tests/testdata/keys/*.pub.asc') + glob.glob('tests/testdata/signatures/*.key.asc')
                 + ['tests/testdata/pubtest.asc']):
    key, _ = pgpy.PGPKey.from_file(fn)
    emit(fn, bytes(key))
    for uid in list(key.userids) + list(key.userattributes):
        if uid.is_ua:
            emit(type(uid._uid.subpackets).__name__, uid._uid.subpackets.__bytearray__(), len(uid._uid.subpackets))
        for sig in uid.__sig__:
            show('fx', sig._signature.subpackets)
            show('fxc', copy.copy(sig)._signature.subpackets)
            emit(sig.hashdata(uid))
            if sig.signer == key.fingerprint.keyid:
                emit(bool(key.verify(uid, sig)))

# new signatures with a fixed creation time (RSA PKCS#1 v1.5 is deterministic)
sec, _ = pgpy.PGPKey.from_file('tests/testdata/keys/rsa.1.sec.asc')
sig = sec.sign('text to sign', created=when, notation={'a@b.c': 'd'}, policy_uri='https://p.example/')
show('sign', sig._signature.subpackets)
emit(bytes(sig), bool(sec.pubkey.verify('text to sign', sig)))
cert = sec.certify(sec.userids[0], level=SignatureType.Positive_Cert, created=when, usage={KeyFlags.Sign},
                   exportable=True, trust=(1, 60), regex='.*')
show('certify', cert._signature.subpackets)
emit(bytes(cert), bool(sec.pubkey.verify(sec.userids[0], cert)))

print(out.hexdigest())
