import datetime
import glob
import hashlib
import os
import sys
import warnings

sys.path.insert(0, os.getcwd())
warnings.simplefilter('ignore')

import pgpy  # noqa: E402
from pgpy import PGPKey, PGPMessage, PGPUID  # noqa: E402
from pgpy.errors import PGPError  # noqa: E402
from pgpy.decorators import KeyAction  # noqa: E402

out = []


def rec(*a):
    out.append(' | '.join(str(x) for x in a))


def pkt_summary(pk):
    return (type(pk).__name__, type(pk.keymaterial).__name__, bytes(pk).hex(), pk.header.length,
            str(pk.fingerprint))


def key_summary(label, key):
    pub = key.pubkey
    rec(label, 'is_public', pub.is_public, pub.magic, str(pub.fingerprint), list(pub.subkeys.keys()))
    rec(label, 'same-object-on-second-call', key.pubkey is pub, pub.pubkey is pub)
    rec(label, 'bytes', hashlib.sha256(bytes(pub)).hexdigest(), len(bytes(pub)))
    rec(label, 'str', hashlib.sha256(str(pub).encode('latin-1')).hexdigest())
    rec(label, 'privbytes', hashlib.sha256(bytes(key)).hexdigest())
    rec(label, 'privstr', hashlib.sha256(str(key).encode('latin-1')).hexdigest())
    rec(label, 'headers', list(pub.ascii_headers.items()))
    rec(label, 'uids', [((u.name, u.comment, u.email) if u.is_uid else hashlib.sha256(bytes(u._uid)).hexdigest(), u.is_uid, len(u._signatures), [type(s.parent).__name__ for s in u._signatures])
                        for u in pub._uids])
    rec(label, 'sigs', [(s.type, s.signer, type(s.parent).__name__) for s in pub._signatures])
    if not key.is_public:
        rec(label, 'sibling', pub._sibling() is key, key._sibling() is pub, pub.parent is None)
    for kid, sk in pub.subkeys.items():
        rec(label, 'sub', kid, sk.is_public, type(sk._key).__name__, sk.parent is pub,
            [s.type for s in sk._signatures], key.is_public or sk._sibling() is key.subkeys[kid])
    if not key.is_public:
        rec(label, 'pkt', pkt_summary(key._key.pubkey()))
        for kid, sk in key.subkeys.items():
            rec(label, 'subpkt', kid, pkt_summary(sk._key.pubkey()))
        # a subkey's own public twin, derived directly
        for kid, sk in key.subkeys.items():
            sp = sk.pubkey
            rec(label, 'subpub', kid, sp.is_public, hashlib.sha256(bytes(sp)).hexdigest(),
                type(sp.parent).__name__)
    # private operations on the public object
    for name, fn in (('sign', lambda: pub.sign('hello')),
                     ('certify', lambda: pub.certify(pub.userids[0])),
                     ('revoke', lambda: pub.revoke(pub.userids[0])),
                     ('decrypt', lambda: pub.decrypt(PGPMessage.new('x'))),
                     ('bind', lambda: pub.bind(pub))):
        try:
            fn()
            rec(label, name, 'NO EXCEPTION')
        except Exception as e:
            rec(label, name, type(e).__name__, str(e))


for kf in sorted(glob.glob('tests/testdata/keys/*.asc')) + ['tests/testdata/pubtest.asc', 'tests/testdata/sectest.asc']:
    key, _ = PGPKey.from_file(kf)
    key_summary(kf, key)
    # round trip of the armored export through the parser
    again, _ = PGPKey.from_blob(str(key.pubkey))
    rec(kf, 'reparse', again.is_public, str(again.fingerprint), hashlib.sha256(bytes(again)).hexdigest())

# protected keys: locked and unlocked
for kf in ('tests/testdata/keys/rsa.1.enc.asc', 'tests/testdata/keys/dsa.1.enc.asc'):
    key, _ = PGPKey.from_file(kf)
    rec(kf, 'locked', key.is_protected, key.is_unlocked)
    try:
        key.sign('hello')
        rec(kf, 'locked-sign', 'NO EXCEPTION')
    except Exception as e:
        rec(kf, 'locked-sign', type(e).__name__, str(e))
    with key.unlock('QwertyUiop') as uk:
        rec(kf, 'unlocked', uk.is_unlocked)
        key_summary(kf + ':unlocked', uk)

# non-exportable and direct-key signatures (RSA PKCS#1 v1.5 signing is deterministic, creation time fixed)
signer = PGPKey.from_file('tests/testdata/keys/rsa.1.sec.asc')[0]
for target_file in ('tests/testdata/keys/targette.pub.rsa.asc', 'tests/testdata/keys/targette.sec.rsa.asc'):
    target = PGPKey.from_file(target_file)[0]
    when = datetime.datetime(2020, 1, 1, tzinfo=datetime.timezone.utc)
    before = bytes(target)
    local_cert = signer.certify(target.userids[0], exportable=False, created=when)
    target.userids[0] |= local_cert
    rec(target_file, 'local cert hidden', bytes(target) == before, local_cert.exportable)
    public_cert = signer.certify(target.userids[0], created=when)
    target.userids[0] |= public_cert
    direct_local = signer.certify(target, exportable=False, created=when)
    target |= direct_local
    direct = signer.certify(target, created=when)
    target |= direct
    rec(target_file, 'with certs', hashlib.sha256(bytes(target)).hexdigest(), len(bytes(target)), len(before),
        hashlib.sha256(str(target).encode('latin-1')).hexdigest())
    tp = target.pubkey
    rec(target_file, 'pub with certs', hashlib.sha256(bytes(tp)).hexdigest(), len(bytes(tp)),
        hashlib.sha256(str(tp).encode('latin-1')).hexdigest(), len(tp._signatures),
        [len(u._signatures) for u in tp._uids])

# KeyAction.check_attributes directly
class Dummy(object):
    is_public = False
    is_unlocked = True
    other = None


for conds in ({}, {'is_public': False}, {'is_public': True}, {'is_unlocked': True, 'is_public': False},
              {'is_unlocked': False}, {'other': None}, {'other': 0}, {'missing': 1}):
    try:
        rec('check', sorted(conds.items()), KeyAction(**conds).check_attributes(Dummy()))
    except Exception as e:
        rec('check', sorted(conds.items()), type(e).__name__, str(e))

# incomplete / empty keys
try:
    PGPKey().sign('x')
except Exception as e:
    rec('empty', type(e).__name__, str(e))

# armoring of a non-key object (Armorable.__str__ is shared); RSA PKCS#1 v1.5 is deterministic
sig = PGPKey.from_file('tests/testdata/keys/rsa.1.sec.asc')[0].sign('fixed', created=datetime.datetime(2020, 1, 1, tzinfo=datetime.timezone.utc))
rec('sigstr', hashlib.sha256(str(sig).encode('latin-1')).hexdigest())

digest = hashlib.sha256('\n'.join(out).encode('utf-8')).hexdigest()
print(len(out), digest)
if os.environ.get("EQUIV_DUMP"):
    open(os.environ["EQUIV_DUMP"], "w").write("\n".join(out))
