"""Equivalence probe for the ASCII-armor code paths (property C10).

Run as:  cd <tree> && /venv/bin/python equiv.py
Prints a digest over observable outputs; must be identical on the unchanged and the refactored tree.
"""
import glob
import hashlib
import os
import sys
import warnings

sys.path.insert(0, os.getcwd())
import pgpy  # noqa: E402
from pgpy.types import Armorable  # noqa: E402

H = hashlib.sha256()
N = [0]


def rec(*items):
    for it in items:
        if isinstance(it, (bytes, bytearray)):
            b = bytes(it)
        else:
            b = repr(it).encode('utf-8', 'backslashreplace')
        H.update(len(b).to_bytes(8, 'big'))
        H.update(b)
        N[0] += 1


def attempt(label, fn):
    """Run fn, record result-or-exception plus all warnings raised."""
    with warnings.catch_warnings(record=True) as w:
        warnings.simplefilter('always')
        try:
            res = fn()
            rec(label, 'ok', res)
        except Exception as ex:  # noqa
            rec(label, 'exc', type(ex).__name__, str(ex))
        rec(sorted((x.category.__name__, str(x.message)) for x in w))


def norm(o):
    if isinstance(o, tuple):
        return tuple(norm(x) for x in o)
    if isinstance(o, (pgpy.PGPKey, pgpy.PGPMessage, pgpy.PGPSignature)):
        return (type(o).__name__, o.magic, list(o.ascii_headers.items()), bytes(o), str(o))
    if isinstance(o, dict):
        return sorted((k, norm(v)) for k, v in o.items())
    if isinstance(o, bytearray):
        return ('bytearray', bytes(o))
    return o


# ---- crc24 on many payloads and input types
payloads = [b'', b'\x00', b'\x00' * 7, b'\xff' * 49, bytes(range(256)) * 5]
for n in list(range(1, 100)) + [143, 144, 145, 1000, 3071, 3072, 3073]:
    payloads.append(hashlib.sha512(str(n).encode()).digest() * (n // 64 + 1))
    payloads[-1] = payloads[-1][:n]
for p in payloads:
    attempt('crc-bytes', lambda: Armorable.crc24(p))
    attempt('crc-bytearray', lambda: Armorable.crc24(bytearray(p)))
    attempt('crc-list', lambda: Armorable.crc24(list(p)))
attempt('crc-none', lambda: Armorable.crc24(None))
attempt('crc-str', lambda: Armorable.crc24('abc'))
attempt('crc-gen', lambda: Armorable.crc24(x for x in (1, 2, 3)))
attempt('crc-big', lambda: Armorable.crc24([1, 300, 70000]))

# ---- fixtures: load, re-armor, reload from str / bytes / bytearray / CRLF / surrounding text
files = sorted(glob.glob('tests/testdata/blocks/*.asc') + glob.glob('tests/testdata/keys/*.asc') +
               glob.glob('tests/testdata/messages/*.asc') + glob.glob('tests/testdata/signatures/*.asc'))
classes = [pgpy.PGPKey, pgpy.PGPMessage, pgpy.PGPSignature]

for f in files:
    with open(f, 'rb') as fh:
        raw = fh.read()
    try:
        text = raw.decode('latin-1')
    except Exception:  # pragma: no cover
        continue
    rec(f, Armorable.is_armor(text), Armorable.is_ascii(text))
    attempt('unarmor', lambda: norm(Armorable.ascii_unarmor(text)))
    attempt('unarmor-bytes', lambda: norm(Armorable.ascii_unarmor(raw)))
    attempt('unarmor-ba', lambda: norm(Armorable.ascii_unarmor(bytearray(raw))))
    for cls in classes:
        attempt('from_file ' + cls.__name__, lambda: norm(cls.from_file(f)))
        attempt('from_blob str ' + cls.__name__, lambda: norm(cls.from_blob(text)))
        attempt('from_blob bytes ' + cls.__name__, lambda: norm(cls.from_blob(raw)))
        attempt('from_blob ba ' + cls.__name__, lambda: norm(cls.from_blob(bytearray(raw))))
        attempt('from_blob crlf ' + cls.__name__, lambda: norm(cls.from_blob(text.replace('\r\n', '\n').replace('\n', '\r\n'))))
        attempt('from_blob wrapped ' + cls.__name__, lambda: norm(cls.from_blob('hello\n\n' + text + '\ntrailing text\n')))

        # round trip through binary and through str(), with extra armor headers
        def rt():
            o = cls.from_blob(text)
            o = o[0] if isinstance(o, tuple) else o
            o.ascii_headers['Comment'] = 'equiv probe'
            o.ascii_headers['Version'] = 'X 1.0'
            s = str(o)
            assert all(len(line) <= 76 for line in s.split('\n'))
            o2 = cls.from_blob(s)
            o3 = cls.from_blob(bytes(o))
            return (s, norm(o2), norm(o3), norm(Armorable.ascii_unarmor(s)))
        attempt('roundtrip ' + cls.__name__, rt)

# ---- corruption of body / crc of one small block
with open('tests/testdata/blocks/rsasignature.asc') as fh:
    sig = fh.read()
lines = sig.split('\n')
body_start = next(i for i, l in enumerate(lines) if l == '') + 1
crc_idx = next(i for i, l in enumerate(lines) if l.startswith('=') and len(l) == 5)
for li in (body_start, crc_idx - 1, crc_idx):
    for pos in range(0, len(lines[li]), 7):
        for ch in 'A', '/', '=', '!', ' ':
            if lines[li][pos] == ch:
                continue
            mod = list(lines)
            mod[li] = mod[li][:pos] + ch + mod[li][pos + 1:]
            t = '\n'.join(mod)
            attempt('corrupt', lambda: norm(Armorable.ascii_unarmor(t)))
            attempt('corrupt sig', lambda: norm(pgpy.PGPSignature.from_blob(t)))

# ---- odd inputs
attempt('not armor', lambda: norm(Armorable.ascii_unarmor('just some text')))
attempt('binary', lambda: norm(Armorable.ascii_unarmor(b'\x00\x01\xff')))
attempt('binary-ba', lambda: norm(Armorable.ascii_unarmor(bytearray(b'\x00\x01\xff'))))
attempt('empty str', lambda: norm(Armorable.ascii_unarmor('')))
attempt('int', lambda: norm(Armorable.ascii_unarmor(5)))
attempt('blob none', lambda: norm(pgpy.PGPKey.from_blob(None)))
attempt('blob int', lambda: norm(pgpy.PGPMessage.from_blob(5)))
attempt('blob empty', lambda: norm(pgpy.PGPSignature.from_blob('')))
attempt('blob nonlatin', lambda: norm(pgpy.PGPSignature.from_blob(u'€')))
attempt('file missing', lambda: norm(pgpy.PGPKey.from_file('/nonexistent/x.asc')))
for cls in classes:
    attempt('fresh str ' + cls.__name__, lambda: str(cls()))
    attempt('copy hdr ' + cls.__name__, lambda: sorted(k for k in vars(cls()) if 'ascii' in k or 'armor' in k.lower()))

# new messages / cleartext with fixed content
attempt('new msg', lambda: norm(pgpy.PGPMessage.new('hello world', compression=pgpy.constants.CompressionAlgorithm.Uncompressed)).__getitem__(1))
attempt('new cleartext', lambda: pgpy.PGPMessage.new('- dash\nhello', cleartext=True).magic)

print('items', N[0])
print('digest', H.hexdigest())
