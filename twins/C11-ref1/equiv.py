import datetime
import glob
import hashlib
import os
import sys
import warnings

sys.path.insert(0, os.getcwd())
warnings.simplefilter('ignore')

import pgpy  # noqa: E402
from pgpy import PGPKey, PGPMessage, PGPSignature  # noqa: E402
from pgpy.constants import HashAlgorithm, SignatureType  # noqa: E402
from pgpy.types import Armorable  # noqa: E402

out = []


def rec(label, value):
    out.append('{}={!r}'.format(label, value))


def attempt(label, fn):
    try:
        rec(label, fn())
    except Exception as e:  # record type and message of the failure as well
        rec(label, ('EXC', type(e).__name__, str(e)))


TEXTS = [
    u'',
    u'\n',
    u'-',
    u'- ',
    u'- - x',
    u'-----BEGIN PGP SIGNATURE-----',
    u'-----BEGIN PGP SIGNATURE-----\nabc\n-----END PGP SIGNATURE-----\n',
    u'From me\n- dash space\n-dash\n--\n\n- - twice\n',
    u'trailing blanks  \t \nnext\t\n  \nend   ',
    u'crlf line\r\n-dash crlf \r\nlast\r\n',
    u'lone cr\r-after cr\rend',
    u'mixed\n\r\n\r\r\n-x\n',
    u'non-ascii éü 中文 \U0001F600\n-é\n',
    u'x' * 5000 + u'\n-' + u'y' * 3000,
    u'no final newline',
    u'final newline\n',
    u'\n\n\n',
    u'-\n-\n-',
    u'a\n -not at start\n\t-tab\n',
]

# 1. dash escaping / unescaping
for i, t in enumerate(TEXTS):
    attempt('esc%d' % i, lambda: PGPMessage.dash_escape(t))
    attempt('unesc%d' % i, lambda: PGPMessage.dash_unescape(t))
    attempt('rt%d' % i, lambda: PGPMessage.dash_unescape(PGPMessage.dash_escape(t)) == t)
for bad in (None, b'- bytes', 5):
    attempt('esc_bad%r' % (bad,), lambda: PGPMessage.dash_escape(bad))
    attempt('unesc_bad%r' % (bad,), lambda: PGPMessage.dash_unescape(bad))

# 2. keys (RSA PKCS#1 v1.5 signatures are deterministic once the creation time is fixed)
rsa, _ = PGPKey.from_file('tests/testdata/keys/rsa.1.sec.asc')
rsapub, _ = PGPKey.from_file('tests/testdata/keys/rsa.1.pub.asc')
tgt, _ = PGPKey.from_file('tests/testdata/keys/targette.sec.rsa.asc')
WHEN = datetime.datetime(2020, 1, 2, 3, 4, 5)

for i, t in enumerate(TEXTS):
    msg = PGPMessage.new(t, cleartext=True)
    rec('type%d' % i, msg.type)
    attempt('unsigned_str%d' % i, lambda: str(msg))
    attempt('signed_data%d' % i, lambda: msg._signed_data)
    for h in (HashAlgorithm.SHA256, HashAlgorithm.SHA512):
        sig = rsa.sign(msg, hash=h, created=WHEN)
        rec('sigtype%d%s' % (i, h.name), (sig.type, sig.hash_algorithm, sig.created))
        rec('hashdata%d%s' % (i, h.name), hashlib.sha256(bytes(sig.hashdata(msg._signed_data))).hexdigest())
        msg |= sig
    if i % 3 == 0:
        msg |= tgt.sign(msg, hash=HashAlgorithm.SHA1, created=WHEN)
    s = str(msg)
    rec('str%d' % i, s)
    attempt('verify%d' % i, lambda: (lambda sv: (bool(sv), [(int(v.issues), str(v.by.fingerprint), str(v.subject)) for v in sv.good_signatures], len(list(sv.bad_signatures))))(rsapub.verify(msg)))

    def readback():
        m2 = PGPMessage.from_blob(s)
        return (m2.type, m2.message, [bytes(x.__bytearray__()) for x in m2.signatures], str(m2) == s,
                bool(rsapub.verify(m2)), sorted(m2.signers))
    attempt('readback%d' % i, readback)
    attempt('unarmor%d' % i, lambda: sorted((k, v if not isinstance(v, bytearray) else bytes(v))
                                            for k, v in Armorable.ascii_unarmor(s).items()))
    # the same message with CRLF line endings on the wire
    attempt('readback_crlf%d' % i, lambda: (lambda m3: (m3.type, m3.message, len(m3.signatures), str(m3)))(
        PGPMessage.from_blob(s.replace('\r\n', '\n').replace('\n', '\r\n'))))

# 3. non-cleartext subjects of PGPKey.sign and hashdata
lit = PGPMessage.new(u'literal message\n-with dash  \n')
sig = rsa.sign(lit, created=WHEN)
rec('lit_sig', (sig.type, bytes(sig.__bytearray__())))
sig = rsa.sign(u'plain string\n-dash  \r\n', created=WHEN)
rec('str_sig', (sig.type, bytes(sig.__bytearray__())))
sig = rsa.sign(None, created=WHEN)
rec('ts_sig', (sig.type, bytes(sig.__bytearray__())))
sig = rsa.sign(b'bytes subject\n', created=WHEN, hash=HashAlgorithm.SHA384)
rec('bytes_sig', (sig.type, bytes(sig.__bytearray__())))
attempt('bad_subject', lambda: bytes(rsa.sign(12345, created=WHEN).__bytearray__()))
attempt('bad_pref', lambda: bytes(rsa.sign(PGPMessage.new(u'x', cleartext=True), created=WHEN, nonsense=1).__bytearray__()))

for st in (SignatureType.BinaryDocument, SignatureType.CanonicalDocument):
    for subj in (u'a\nb\r\nc\rd\n', b'a\nb\r\nc\rd\n', bytearray(b'\n\n'), u'', u'é\n', u'\udcff\n'):
        ps = PGPSignature.new(st, rsa.key_algorithm, HashAlgorithm.SHA256, rsa.fingerprint.keyid, created=WHEN)
        attempt('hd_%s_%r' % (st.name, subj), lambda: bytes(ps.hashdata(subj)))
    ps = PGPSignature.new(st, rsa.key_algorithm, HashAlgorithm.SHA256, rsa.fingerprint.keyid, created=WHEN)
    attempt('hd_%s_None' % st.name, lambda: bytes(ps.hashdata(None)))
    attempt('hd_%s_int' % st.name, lambda: bytes(ps.hashdata(7)))

# 4. fixtures made by other implementations, plus malformed input
for f in sorted(glob.glob('tests/testdata/messages/cleartext*.asc') + glob.glob('tests/testdata/blocks/cleartext*.asc')
                + glob.glob('tests/testdata/messages/message.signed*.asc')):
    def load():
        m = PGPMessage.from_file(f)
        return (m.type, m.message, [bytes(x.__bytearray__()) for x in m.signatures], str(m),
                sorted(m.signers), list(m.ascii_headers.items()))
    attempt('fixture:' + os.path.basename(f), load)
    with open(f) as fh:
        blob = fh.read()
    attempt('unarmor:' + os.path.basename(f), lambda: sorted((k, v if not isinstance(v, bytearray) else bytes(v))
                                                             for k, v in Armorable.ascii_unarmor(blob).items()))
    attempt('is_armor:' + os.path.basename(f), lambda: Armorable.is_armor(blob))

for f in ('tests/testdata/keys/rsa.1.pub.asc', 'tests/testdata/blocks/rsapubkey.asc'):
    if os.path.exists(f):
        attempt('wrongmagic:' + f, lambda: PGPMessage.from_file(f))

attempt('garbage', lambda: PGPMessage.from_blob('-----BEGIN PGP SIGNED MESSAGE-----\n\nx\n'))
attempt('empty_msg_str', lambda: str(PGPMessage()))

print(hashlib.sha256('\n'.join(out).encode('utf-8', 'surrogatepass')).hexdigest(), len(out))
