import os
import sys
import glob
import copy
import hashlib
import warnings
from datetime import datetime, timezone

sys.path.insert(0, os.getcwd())
warnings.simplefilter('ignore')

import pgpy
from pgpy import PGPMessage, PGPSignature
from pgpy.constants import CompressionAlgorithm
from pgpy.packet import Packet
from pgpy.packet.packets import OnePassSignatureV3, LiteralData, CompressedData

out = []


def rec(*a):
    out.append(repr(a))


def describe(msg):
    pk = []
    for p in msg:
        d = [type(p).__name__]
        if isinstance(p, OnePassSignatureV3):
            d += [int(p.sigtype), int(p.halg), int(p.pubalg), p.signer, p.nested, bytes(p.__bytearray__()).hex()]
        elif isinstance(p, LiteralData):
            d += [p.format, p.filename, p.mtime.isoformat(), hashlib.sha256(bytes(p._contents)).hexdigest(),
                  type(p.contents).__name__]
        elif isinstance(p, PGPSignature):
            d += [p.signer, p.type.name, p.hash_algorithm.name, p.key_algorithm.name]
        pk.append(tuple(d))
    return pk


def snapshot(tag, msg):
    try:
        _snapshot(tag, msg)
    except Exception as e:
        rec(tag, 'SNAP-EXC', type(e).__name__, str(e))


def _snapshot(tag, msg):
    m = msg.message
    if isinstance(m, str):
        m = m.encode('utf-8', 'surrogateescape')
    elif isinstance(m, (bytes, bytearray)):
        m = bytes(m)
    else:
        m = bytes(m.__bytearray__())
    rec(tag, msg.type, msg.is_compressed, msg.is_encrypted, msg.is_signed, msg.is_sensitive,
        msg.filename if msg.type == 'literal' else None, sorted(msg.signers), hashlib.sha256(m).hexdigest(),
        describe(msg), hashlib.sha256(bytes(msg)).hexdigest(), hashlib.sha256(str(msg).encode('utf-8')).hexdigest())


FIXED = datetime(2020, 2, 3, 4, 5, 6, tzinfo=timezone.utc)

# 1. every fixture message: import, describe, re-export, re-import, copy
sigs = []
for fn in sorted(glob.glob('tests/testdata/messages/*.asc')) + ['tests/testdata/message.enc.twofish.asc']:
    try:
        msg = PGPMessage.from_file(fn)
    except Exception as e:
        rec(fn, 'EXC', type(e).__name__, str(e))
        continue
    snapshot(fn, msg)
    snapshot(fn + ':reimport', PGPMessage.from_blob(bytes(msg)))
    snapshot(fn + ':copy', copy.copy(msg))
    for s in msg.signatures:
        sigs.append(s)

for fn in sorted(glob.glob('tests/testdata/signatures/*.sig.asc')):
    sigs.append(PGPSignature.from_file(fn))

# de-duplicate while keeping order
seen = set()
usigs = []
for s in sigs:
    k = bytes(s)
    if k not in seen:
        seen.add(k)
        usigs.append(s)
rec('nsigs', len(usigs))

# 2. one-pass packets built from each signature
for s in usigs:
    ops = s.make_onepass()
    rec('ops', bytes(ops.__bytearray__()).hex(), ops.nested, ops.header.length, type(ops.signer).__name__)
    buf = bytearray(ops.__bytearray__())
    back = Packet(buf)
    rec('ops-rt', type(back).__name__, back.nested, back.signer, int(back.sigtype), int(back.halg), int(back.pubalg),
        len(buf))

# 3. new messages over content / format / filename / compression, with 0..n fixture signatures attached
contents = [
    ('empty', ''), ('ascii', 'hello world\n'), ('utf8', u'café ☃ \U0001f600\r\n'),
    ('bin', bytes(bytearray(range(256))) * 5), ('asciibytes', b'just bytes\r\nmore\r\n'),
    ('big', b'0123456789abcdef' * 4096),
]
for cname, content in contents:
    for comp in CompressionAlgorithm:
        for nsig in (0, 1, 2, len(usigs)):
            for kw in ({}, {'sensitive': True}, {'format': 'b'} if isinstance(content, bytes) else {'format': 't'}):
                try:
                    msg = PGPMessage.new(content, compression=comp, **kw)
                    msg._message.mtime = FIXED
                    for s in usigs[:nsig]:
                        msg |= s
                    tag = (cname, comp.name, nsig, sorted(kw.items()))
                    snapshot(tag, msg)
                    back = PGPMessage.from_blob(bytes(msg))
                    snapshot((tag, 'rt'), back)
                    back2 = PGPMessage.from_blob(str(msg))
                    snapshot((tag, 'rt-armor'), back2)
                except Exception as e:
                    rec(cname, comp.name, nsig, sorted(kw.items()), 'EXC', type(e).__name__, str(e))

# 4. cleartext and charset messages
for kw in ({'cleartext': True}, {'encoding': 'latin-1'}, {'cleartext': True, 'encoding': 'latin-1'}):
    for content in (u'plain\n- dash\n', u'café', b'caf\xe9'):
        try:
            msg = PGPMessage.new(content, **kw)
            if msg.type == 'literal':
                msg._message.mtime = FIXED
            for s in usigs[:2]:
                msg |= s
            snapshot((sorted(kw.items()), repr(content)), msg)
        except Exception as e:
            rec(sorted(kw.items()), repr(content), 'EXC', type(e).__name__, str(e))

# 5. file-based message (mtime pinned afterwards)
msg = PGPMessage.new('tests/testdata/nonsense.txt', file=True)
msg._message.mtime = FIXED
snapshot('file', msg)
msg = PGPMessage.new('tests/testdata/pgp.jpg', file=True, compression=CompressionAlgorithm.BZ2)
msg._message.mtime = FIXED
snapshot('file-jpg', msg)

# 6. literal / compressed codecs directly, incl. error cases
for fname in (u'', u'a.txt', u'_CONSOLE', u'ümläut.txt', u'x' * 255, u'x' * 256, u'é' * 128):
    lit = LiteralData()
    lit.format = 'u'
    lit.filename = fname
    lit.mtime = FIXED
    lit._contents = bytearray(b'abc')
    try:
        lit.update_hlen()
        b = lit.__bytearray__()
        p = Packet(bytearray(b))
        rec('lit', fname, bytes(b).hex(), type(p).__name__, getattr(p, 'filename', None), p.header.length,
            bytes(copy.copy(p).__bytearray__()).hex())
    except Exception as e:
        rec('lit', fname, 'EXC', type(e).__name__, str(e))

for trunc in (b'\xc4\x01\x03', b'\xc4\x05\x03\x00\x02\x11\x22', b'\xcb\x03b\x00\x00', b'\xcb\x06b\x09abc',
              b'\xc8\x01\x09', b'\xc8\x03\x00\xcb\x00'):
    try:
        p = Packet(bytearray(trunc))
        rec('trunc', trunc.hex(), type(p).__name__, bytes(p.__bytearray__()).hex())
    except Exception as e:
        rec('trunc', trunc.hex(), 'EXC', type(e).__name__, str(e))

# 7. composition errors
for other in (None, 5, 1.5, object):
    try:
        PGPMessage() | other
        rec('or', repr(other), 'ok')
    except Exception as e:
        rec('or', repr(other), 'EXC', type(e).__name__, str(e))
try:
    list(PGPMessage())
except Exception as e:
    rec('iter-empty', type(e).__name__, str(e))
try:
    bytes(PGPMessage())
except Exception as e:
    rec('bytes-empty', type(e).__name__, str(e))

if os.environ.get("EQUIV_DUMP"):
    print("\n".join(o[:300] for o in out if "EXC" in o))
print(len(out), hashlib.sha256('\n'.join(out).encode('utf-8')).hexdigest())
