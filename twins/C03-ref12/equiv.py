"""equivalence probe for C03 refactorings: run as `cd <tree> && /venv/bin/python equiv.py`"""
import glob
import hashlib
import itertools
import os
import sys
import warnings

from datetime import datetime, timezone

sys.path.insert(0, os.getcwd())

import pgpy  # noqa: E402
from pgpy import PGPKey, PGPMessage  # noqa: E402
from pgpy.constants import CompressionAlgorithm, HashAlgorithm, SymmetricKeyAlgorithm  # noqa: E402
from pgpy.packet.packets import IntegrityProtectedSKEDataV1, SKESessionKeyV4  # noqa: E402

warnings.simplefilter('ignore')
out = []


def rec(tag, val):
    if isinstance(val, str):
        val = val.encode('utf-8')
    out.append('{}={}'.format(tag, hashlib.sha256(bytes(val)).hexdigest()))


# deterministic os.urandom so that passphrase encryption output is reproducible
_ctr = itertools.count()
_real_urandom = os.urandom


def fake_urandom(n):
    return hashlib.shake_128(b'equiv-%d' % next(_ctr)).digest(n)


def obs(d):
    # observable result of a decryption (the MDC packet kept in the message depends on the random prefix)
    return repr((d.message, d.filename, d.is_compressed, d.is_encrypted, d._message.mtime, d._message.format,
                 len(d.signatures), [type(p).__name__ for p in d]))


def usable(c):
    try:
        return c.is_supported and not c.is_insecure
    except NotImplementedError:
        return False


MTIME = datetime(2020, 1, 1, tzinfo=timezone.utc)

# 1. decrypt foreign fixtures (passphrase)
for f in sorted(glob.glob('tests/testdata/messages/message*.pass*.asc')):
    m = PGPMessage.from_file(f)
    try:
        d = m.decrypt("QwertyUiop")
        rec('pass:' + os.path.basename(f), bytes(d))
    except Exception as e:
        rec('pass-err:' + os.path.basename(f), '{}:{}'.format(type(e).__name__, e))
    try:
        m.decrypt("wrong passphrase")
        rec('wrong:' + os.path.basename(f), b'decrypted?!')
    except Exception as e:
        rec('wrong:' + os.path.basename(f), '{}:{}'.format(type(e).__name__, e))

# 2. decrypt foreign fixtures (public key) with every fixture secret key
seckeys = [PGPKey.from_file(f)[0] for f in sorted(glob.glob('tests/testdata/keys/*.sec.asc'))]
for f in sorted(glob.glob('tests/testdata/messages/message*.asc')):
    m = PGPMessage.from_file(f)
    if not m.is_encrypted:
        continue
    for sk in seckeys:
        try:
            d = sk.decrypt(m)
            rec('pk:{}:{}'.format(os.path.basename(f), sk.fingerprint), bytes(d))
        except Exception as e:
            rec('pk-err:{}:{}'.format(os.path.basename(f), sk.fingerprint), '{}:{}'.format(type(e).__name__, e))

# 3. deterministic passphrase encryption, all ciphers / hashes / compression
os.urandom = fake_urandom
try:
    bodies = [b'', b'hello', bytes(range(256)) * 40, u'text éè'.encode('utf-8')]
    ciphers = [c for c in sorted(SymmetricKeyAlgorithm) if usable(c)]
    combos = [(b'hello', c, CompressionAlgorithm.ZIP, HashAlgorithm.SHA256) for c in ciphers]
    combos += [(b, SymmetricKeyAlgorithm.AES256, comp, HashAlgorithm.SHA256)
               for b, comp in itertools.product(bodies, sorted(CompressionAlgorithm))]
    combos += [(b'hello', SymmetricKeyAlgorithm.AES192, CompressionAlgorithm.BZ2, h)
               for h in (HashAlgorithm.SHA1, HashAlgorithm.SHA384, HashAlgorithm.SHA512)]
    for body, cipher, comp, halg in combos:
        msg = PGPMessage.new(body, compression=comp)
        msg._message.mtime = MTIME
        enc = msg.encrypt("QwertyUiop", cipher=cipher, hash=halg)
        rec('enc:{}:{}:{}:{}'.format(len(body), cipher.name, comp.name, halg.name), bytes(enc))
        dec = enc.decrypt("QwertyUiop")
        rec('dec', bytes(dec))
        assert dec.message == msg.message and dec.is_compressed == msg.is_compressed
    # two passphrases, caller-supplied session key
    sk = SymmetricKeyAlgorithm.AES128.gen_key()
    msg = PGPMessage.new(b'two recipients')
    msg._message.mtime = MTIME
    enc = msg.encrypt("one", sessionkey=sk, cipher=SymmetricKeyAlgorithm.AES128).encrypt("two", sessionkey=sk, cipher=SymmetricKeyAlgorithm.AES128)
    rec('enc2', bytes(enc))
    for pw in ("one", "two"):
        rec('dec2:' + pw, bytes(enc.decrypt(pw)))
    # insecure / unsupported cipher errors
    for cipher in sorted(SymmetricKeyAlgorithm):
        if usable(cipher):
            continue
        try:
            msg.encrypt("x", cipher=cipher)
            rec('bad:' + cipher.name, b'ok?!')
        except Exception as e:
            rec('bad:' + cipher.name, '{}:{}'.format(type(e).__name__, e))
    # packet-level
    skd = IntegrityProtectedSKEDataV1()
    skd.encrypt(b'k' * 16, SymmetricKeyAlgorithm.AES128, b'payload')
    rec('skd', bytes(skd))
    rec('skd-dec', skd.decrypt(b'k' * 16, SymmetricKeyAlgorithm.AES128))
    try:
        skd.decrypt(b'j' * 16, SymmetricKeyAlgorithm.AES128)
        rec('skd-bad', b'ok?!')
    except Exception as e:
        rec('skd-bad', '{}:{}'.format(type(e).__name__, e))
    skd.ct = skd.ct[:5]
    try:
        skd.decrypt(b'k' * 16, SymmetricKeyAlgorithm.AES128)
        rec('skd-short', b'ok?!')
    except Exception as e:
        rec('skd-short', '{}:{}'.format(type(e).__name__, e))
    sesk = SKESessionKeyV4()
    sesk.s2k.usage = 255
    sesk.s2k.specifier = 3
    sesk.s2k.halg = HashAlgorithm.SHA256
    sesk.s2k.encalg = SymmetricKeyAlgorithm.AES256
    sesk.s2k.count = 96
    sesk.encrypt_sk("pw", b's' * 32)
    rec('skesk', bytes(sesk))
    a, k = sesk.decrypt_sk("pw")
    rec('skesk-dec', bytes([a]) + bytes(k))
finally:
    os.urandom = _real_urandom

# 4. public-key round trips (randomised ciphertext: digest plaintext only)
for f in sorted(glob.glob('tests/testdata/keys/*.sec.asc')):
    sec, _ = PGPKey.from_file(f)
    msg = PGPMessage.new(b'pk round trip', compression=CompressionAlgorithm.ZLIB)
    msg._message.mtime = MTIME
    for cipher in (SymmetricKeyAlgorithm.AES128, SymmetricKeyAlgorithm.CAST5, SymmetricKeyAlgorithm.Camellia256):
        try:
            enc = sec.pubkey.encrypt(msg, cipher=cipher)
            rec('pkrt-types:' + os.path.basename(f), ','.join(type(p).__name__ for p in enc))
            rec('pkrt:' + os.path.basename(f) + cipher.name, obs(sec.decrypt(enc)))
        except Exception as e:
            rec('pkrt-err:' + os.path.basename(f) + cipher.name, '{}:{}'.format(type(e).__name__, e))

print(len(out), hashlib.sha256('\n'.join(out).encode()).hexdigest())
