"""Prints a digest of observable outputs of the signature-verification path.

Run as:  cd <tree> && /venv/bin/python equiv.py
Must print the same digest on the unchanged and on the refactored tree.
Only deterministic values are digested (hashed octets, serialisations, verdicts, issue flags,
exception types/messages, warning texts); freshly made signature integers are never digested.
"""
import os
import sys
sys.path.insert(0, os.getcwd())

import copy
import glob
import hashlib
import pickle
import re
import warnings
from datetime import datetime, timezone

import pgpy
from pgpy import PGPKey, PGPMessage, PGPSignature, PGPUID
from pgpy.constants import (HashAlgorithm, PubKeyAlgorithm, SignatureType, SecurityIssues,
                            EllipticCurveOID, KeyFlags)
from pgpy.packet import fields
from pgpy.packet.types import MPI
from pgpy.types import SignatureVerification

H = hashlib.sha256()
NLINES = [0]


def rec(*parts):
    line = ' | '.join(p if isinstance(p, str) else repr(p) for p in parts)
    line = re.sub(r'0x[0-9a-fA-F]{6,}', '0xID', line)
    H.update(line.encode('utf-8', 'replace') + b'\n')
    NLINES[0] += 1
    if os.environ.get('EQUIV_DUMP'):
        with open(os.environ['EQUIV_DUMP'], 'a') as f:
            f.write(line + '\n')


def hx(b):
    if b is None:
        return 'None'
    return type(b).__name__ + ':' + hashlib.sha256(bytes(b)).hexdigest()[:24] + ':%d' % len(b)


def guarded(label, fn):
    with warnings.catch_warnings(record=True) as w:
        warnings.simplefilter('always')
        try:
            out = fn()
        except Exception as e:  # noqa
            out = 'EXC %s: %s' % (type(e).__name__, e)
    rec(label, out, sorted((x.category.__name__, str(x.message)) for x in w))
    return out


def sv_summary(sv):
    return (bool(sv), len(sv), repr(sv),
            [(int(s.issues), type(s.issues).__name__, s.signature.type.name, s.signature.signer,
              type(s.subject).__name__) for s in sv._subjects],
            [s.signature.signer for s in sv.good_signatures],
            [s.signature.signer for s in sv.bad_signatures])


def load_key(path):
    with warnings.catch_warnings():
        warnings.simplefilter('ignore')
        k, _ = PGPKey.from_file(path)
    return k


keyfiles = sorted(glob.glob('tests/testdata/keys/*.asc')) + \
    sorted(glob.glob('tests/testdata/blocks/*key*.asc')) + \
    sorted(glob.glob('tests/testdata/signatures/*.key.asc')) + \
    ['tests/testdata/pubtest.asc', 'tests/testdata/sectest.asc',
     'tests/testdata/blocks/expyro.asc', 'tests/testdata/blocks/revochiio.asc']
keys = {}
for kf in keyfiles:
    try:
        keys[kf] = load_key(kf)
    except Exception as e:  # noqa
        rec('load', kf, type(e).__name__, str(e))

# 1. subject octets, serialisation, and self-verification of every fixture key
for kf, key in keys.items():
    rec('key', kf, str(key.fingerprint), key.is_public, key.key_algorithm.name, repr(key.key_size))
    rec('key.hashdata', hx(key.hashdata), 'bytes', hx(bytes(key)), 'pkt', hx(key._key.__bytearray__()))
    for kid, sk in key.subkeys.items():
        rec('subkey', kid, hx(sk.hashdata), type(sk.hashdata).__name__)
    for uid in list(key.userids) + list(key.userattributes):
        rec('uid', uid.is_uid, uid.is_ua, hx(uid.hashdata), hx(uid._uid.__bytearray__()))
    pub = key if key.is_public else key.pubkey
    rec('pub.hashdata', hx(pub.hashdata))

    subjects = [key] + list(key.userids) + list(key.userattributes) + list(key.subkeys.values())
    for subj in subjects:
        for sig in subj.__sig__:
            sp = sig._signature.subpackets
            rec('sig', sig.type.name, sig.signer, sig.key_algorithm.name, sig.hash_algorithm.name,
                hx(sig.__sig__), hx(bytes(sig)), hx(sig._signature.__bytearray__()),
                hx(getattr(sig._signature, 'canonical_bytes', lambda: None)()), hx(sp.__hashbytearray__()), hx(sp.__unhashbytearray__()),
                hx(sp.__bytearray__()), hx(sig._signature.signature.__bytearray__()),
                type(sig._signature.signature).__name__)
            guarded('sig.hashdata', lambda: hx(sig.hashdata(subj)))
            c = copy.copy(sig)
            rec('sig.copy', hx(bytes(c)), hx(c._signature.subpackets.__hashbytearray__()))
            guarded('verify1', lambda: sv_summary(pub.verify(subj, sig)))
            # the same signature over a different subject must not verify
            other = subjects[(subjects.index(subj) + 1) % len(subjects)]
            guarded('verify1.other', lambda: sv_summary(pub.verify(other, sig)))
    guarded('verify.key', lambda: sv_summary(pub.verify(key)))
    for uid in key.userids:
        guarded('verify.uid', lambda: sv_summary(pub.verify(uid)))
    guarded('soundness', lambda: (int(pub.check_soundness()), int(pub.check_primitives()),
                                   int(pub.check_management()), type(pub.check_management()).__name__))
    # pickling / copying of keys
    guarded('pickle', lambda: hx(bytes(pickle.loads(pickle.dumps(key)))))
    guarded('copy', lambda: hx(bytes(copy.copy(key))))

# 2. cross-key: every key against every other key (wrong signer -> error or falsy)
klist = list(keys.items())
for i, (kf, key) in enumerate(klist):
    other = klist[(i + 1) % len(klist)][1]
    pub = key if key.is_public else key.pubkey
    guarded('cross ' + kf, lambda: sv_summary(pub.verify(other)))

# 3. detached signatures, good and tampered subjects
for sigf in sorted(glob.glob('tests/testdata/signatures/*.sig.asc')):
    base = sigf[:-len('.sig.asc')]
    sig = PGPSignature.from_file(sigf)
    rec('dsig', sigf, sig.type.name, sig.signer, hx(sig.__sig__), hx(bytes(sig)))
    if os.path.exists(base + '.subj') and (base + '.key.asc') in keys:
        with open(base + '.subj', 'rb') as f:
            subj = f.read()
        k = keys[base + '.key.asc']
        guarded('dsig.hashdata', lambda: hx(sig.hashdata(subj)))
        guarded('dsig.ok', lambda: sv_summary(k.verify(subj, sig)))
        guarded('dsig.tampered', lambda: sv_summary(k.verify(subj + b'x', sig)))
        guarded('dsig.empty', lambda: sv_summary(k.verify(b'', sig)))
        try:
            guarded('dsig.text', lambda: sv_summary(k.verify(subj.decode('utf-8'), sig)))
        except UnicodeDecodeError:
            pass

# 4. signed messages and cleartext messages against every key
msgfiles = sorted(glob.glob('tests/testdata/messages/*signed*.asc')) + \
    ['tests/testdata/blocks/message.signed.asc', 'tests/testdata/blocks/cleartext.asc',
     'tests/testdata/blocks/cleartext.twosigs.asc', 'tests/testdata/blocks/message.onepass.asc',
     'tests/testdata/blocks/message.two_onepass.asc']
for mf in msgfiles:
    try:
        msg = PGPMessage.from_file(mf)
    except Exception as e:  # noqa
        rec('msg.load', mf, type(e).__name__, str(e))
        continue
    for sig in msg.signatures:
        guarded('msg.sig ' + mf, lambda: (sig.type.name, sig.signer, hx(sig.__sig__), hx(sig.hashdata(msg._signed_data))))
    for kf, key in klist:
        pub = key if key.is_public else key.pubkey
        guarded('msg.verify %s %s' % (mf, kf), lambda: sv_summary(pub.verify(msg)))

# 5. fresh signatures with the fixture secret keys (only deterministic parts are digested)
CREATED = datetime(2020, 1, 2, 3, 4, 5, tzinfo=timezone.utc)
for kf, key in klist:
    if key.is_public or key.is_protected:
        continue
    pub = key.pubkey
    for subject, hashalg in (("some text\nwith lines\r\nmixed\n", HashAlgorithm.SHA256),
                             (b'\x00\x01binary\xff', HashAlgorithm.SHA512),
                             (None, HashAlgorithm.SHA256)):
        def make():
            with warnings.catch_warnings():
                warnings.simplefilter('ignore')
                return key.sign(subject, created=CREATED, hash=hashalg)
        try:
            sig = make()
        except Exception as e:  # noqa
            rec('sign', kf, type(e).__name__, str(e))
            continue
        rec('fresh', kf, sig.type.name, sig.signer, hx(sig.hashdata(subject)),
            hx(sig._signature.subpackets.__hashbytearray__()), len(sig._signature.subpackets.__unhashbytearray__()))
        guarded('fresh.ok', lambda: sv_summary(pub.verify(subject, sig)))
        guarded('fresh.tampered', lambda: sv_summary(pub.verify((subject or b'') + (b'!' if isinstance(subject, (bytes, type(None))) else '!'), sig)))
        # re-parsed signature behaves the same
        sig2 = PGPSignature.from_blob(bytes(sig))
        rec('fresh.reparse', hx(sig2.hashdata(subject)) == hx(sig.hashdata(subject)), bytes(sig2) == bytes(sig))
        guarded('fresh.reparse.ok', lambda: sv_summary(pub.verify(subject, sig2)))
        # change the hash algorithm octet / the signature type: must not verify
        sig3 = PGPSignature.from_blob(bytes(sig))
        sig3._signature.halg = HashAlgorithm.SHA384
        guarded('fresh.halg', lambda: sv_summary(pub.verify(subject, sig3)))
        sig4 = PGPSignature.from_blob(bytes(sig))
        sig4._signature._sigtype = SignatureType.Standalone if sig.type != SignatureType.Standalone else SignatureType.Timestamp
        guarded('fresh.type', lambda: sv_summary(pub.verify(subject, sig4)))
        # corrupt the signature integers
        sig5 = PGPSignature.from_blob(bytes(sig))
        sm = sig5._signature.signature
        for name in sm.__mpis__:
            setattr(sm, name, MPI(int(getattr(sm, name)) ^ 1))
        guarded('fresh.mpi', lambda: sv_summary(pub.verify(subject, sig5)))

# 6. classification tables
rec('issues', [(v, SecurityIssues(v).causes_signature_verify_to_fail, type(SecurityIssues(v).causes_signature_verify_to_fail).__name__)
               for v in range(0, 2048)])
sizes = [0, 1, 512, 1023, 1024, 2047, 2048, 2049, 3072, 4096, 8192] + list(EllipticCurveOID)
for alg in PubKeyAlgorithm:
    for size in sizes:
        guarded('validate_params', lambda: (alg.name, repr(size), int(alg.validate_params(size)),
                                            type(alg.validate_params(size)).__name__, repr(alg.validate_params(size))))
for h in HashAlgorithm:
    guarded('hash', lambda: (h.name, int(h.is_considered_secure), h.is_collision_resistant, h.is_second_preimage_resistant))

# 7. SignatureVerification truthiness over synthetic issue combinations
for combo in ([], [0], [1], [0, 0], [0, 1], [64], [64, 0], [64 | 1], [8], [2], [4], [16], [1024], [256, 512, 32], [0xFF], [None]):
    sv = SignatureVerification()
    for c in combo:
        sv.add_sigsubj('sig%r' % c, 'by', 'subj', None if c is None else SecurityIssues(c))
    rec('sv', combo, bool(sv), len(sv), repr(sv), [int(s.issues) for s in sv.good_signatures],
        [int(s.issues) for s in sv.bad_signatures], 'sig0' in sv, 'subj' in sv, 'nope' in sv)

# 8. signature-value encodings handed to the crypto backend
vals = [0, 1, 127, 128, 255, 256, 0x7fff, 0x8000, 2 ** 159 - 1, 2 ** 160, 2 ** 255 - 19, 2 ** 255, 2 ** 256 - 1,
        2 ** 256, 2 ** 521 - 1, int.from_bytes(hashlib.sha512(b'r').digest(), 'big'),
        int.from_bytes(hashlib.sha256(b's').digest(), 'big')]
for cls in (fields.DSASignature, fields.ECDSASignature, fields.EdDSASignature):
    for r in vals:
        for s in (vals[3], vals[-1], r):
            o = cls()
            o.r, o.s = MPI(r), MPI(s)
            guarded(cls.__name__, lambda: (hx(o.__sig__()), type(o.__sig__()).__name__, hx(o.__bytearray__()), len(o)))
# negative / oversized integers cannot come out of the parser, but the encoders must still treat them the same
for cls in (fields.DSASignature, fields.ECDSASignature, fields.EdDSASignature):
    for r, s in ((-1, 5), (-128, -129), (5, -2 ** 160), (2 ** 300, 1)):
        o = cls()
        o.r, o.s = MPI(r), MPI(s)
        guarded(cls.__name__ + '.odd', lambda: (hx(o.__sig__()), type(o.__sig__()).__name__))
for alg in PubKeyAlgorithm:
    from pgpy.packet.packets import SignatureV4
    def _mk():
        p = SignatureV4()
        p.pubalg = alg
        return (alg.name, type(p.signature).__name__, hx(p.signature.__bytearray__()))
    guarded('pubalg', _mk)
    guarded('pubalg.int', lambda: type(SignatureV4.__new__(SignatureV4)).__name__)
for n in vals:
    o = fields.RSASignature()
    o.md_mod_n = MPI(n)
    guarded('RSASignature', lambda: (hx(o.__sig__()), hx(o.__bytearray__()), len(o)))
    m = MPI(n)
    rec('MPI', n.bit_length(), hx(m.to_mpibytes()), m.byte_length(), len(m))

print('%d lines' % NLINES[0])
print(H.hexdigest())
