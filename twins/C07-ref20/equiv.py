"""C07 probe: the public export of every private test key, seen by an independent parser."""
import sys, os, glob, hashlib, copy, warnings, datetime, logging
sys.path.insert(0, os.getcwd())
warnings.simplefilter('ignore')
logging.disable(logging.CRITICAL)
import pgpy
from pgpy import PGPKey, PGPUID, PGPMessage, PGPSignature
from pgpy.constants import (PubKeyAlgorithm, KeyFlags, HashAlgorithm, SymmetricKeyAlgorithm,
                            CompressionAlgorithm, SignatureType, EllipticCurveOID)
from pgpy.errors import PGPError
from pgpy.packet.packets import PrivKeyV4, PrivSubKeyV4, PubKeyV4, PubSubKeyV4

assert os.path.dirname(os.path.abspath(pgpy.__file__)) == os.path.join(os.getcwd(), 'pgpy'), pgpy.__file__

FIXED = datetime.datetime(2020, 1, 2, 3, 4, 5, tzinfo=datetime.timezone.utc)
PASS = {'tests/testdata/keys/rsa.1.enc.asc': 'QwertyUiop', 'tests/testdata/keys/dsa.1.enc.asc': 'QwertyUiop'}


def p(*a):
    print(*a)


def sha(b):
    return hashlib.sha256(bytes(b)).hexdigest()[:24]


def tags(blob):
    """independent RFC 4880 packet header walker -> list of (tag, length)"""
    blob = bytes(blob)
    out, i = [], 0
    while i < len(blob):
        h = blob[i]
        assert h & 0x80, 'not a packet header at %d' % i
        i += 1
        if h & 0x40:
            tag = h & 0x3f
            o = blob[i]
            if o < 192:
                ln, i = o, i + 1
            elif o < 224:
                ln, i = ((o - 192) << 8) + blob[i + 1] + 192, i + 2
            elif o == 255:
                ln, i = int.from_bytes(blob[i + 1:i + 5], 'big'), i + 5
            else:
                raise AssertionError('partial length in key export')
        else:
            tag = (h >> 2) & 0xf
            lt = h & 3
            if lt == 3:
                ln = len(blob) - i
            else:
                n = 1 << lt
                ln, i = int.from_bytes(blob[i:i + n], 'big'), i + n
        out.append((tag, ln))
        i += ln
    assert i == len(blob)
    return out


def dearmor(text):
    import base64
    lines = text.strip().split('\n')
    assert lines[0].startswith('-----BEGIN ') and lines[-1].startswith('-----END ')
    body = lines[1:-1]
    k = body.index('')
    body = body[k + 1:]
    crc = body[-1]
    assert crc.startswith('=')
    return lines[0], body[:k], base64.b64decode(''.join(body[:-1])), crc


def secret_octets(key):
    """octet strings of every secret integer of the (unlocked) key and its subkeys"""
    out = []
    for k in [key] + list(key.subkeys.values()):
        km = k._key.keymaterial
        for f in getattr(km, '__privfields__', ()):
            v = getattr(km, f)
            try:
                n = int(v)
            except Exception:
                continue
            if n.bit_length() < 64:
                continue
            out.append((k.fingerprint.keyid, f, n.to_bytes((n.bit_length() + 7) // 8, 'big')))
    return out


def exc(label, fn):
    try:
        r = fn()
    except Exception as e:
        p('   ', label, '->', type(e).__name__, 'PGPError' if isinstance(e, PGPError) else '-', '|', str(e)[:120])
    else:
        p('   ', label, '-> returned', type(r).__name__)


def uidkey(u):
    return (u.name, u.comment, u.email, [sha(x.__bytearray__()) for x in u._signatures]) if u.is_uid else \
        (sha(u.image), [sha(x.__bytearray__()) for x in u._signatures])


def describe(pub, priv):
    p('  is_public', pub.is_public, 'is_protected', pub.is_protected, 'magic', pub.magic)
    p('  fp', str(pub.fingerprint), 'same', pub.fingerprint == priv.fingerprint)
    p('  alg', pub.key_algorithm.name, 'size', pub.key_size, 'created', pub.created)
    p('  uids', [(u.name, u.comment, u.email, u.is_uid, len(u._signatures)) for u in pub.userids + pub.userattributes],
      'same', [uidkey(u) for u in pub._uids] == [uidkey(u) for u in priv._uids])
    p('  subkeys', [(kid, type(sk._key).__name__, sk.key_algorithm.name, str(sk.fingerprint), len(sk._signatures))
                    for kid, sk in pub.subkeys.items()],
      'same', list(pub.subkeys) == list(priv.subkeys) and
      [sk.fingerprint for sk in pub.subkeys.values()] == [sk.fingerprint for sk in priv.subkeys.values()])
    p('  direct sigs', [(s.type.name, s.signer, s.exportable) for s in pub._signatures])
    p('  sig hashes same', [sha(s.__bytearray__()) for s in pub.__sig__] == [sha(s.__bytearray__()) for s in priv.__sig__],
      len(list(pub.__sig__)))
    p('  key packet', type(pub._key).__name__, sha(pub._key.__bytearray__()), len(pub._key))
    for sk in pub.subkeys.values():
        p('    sub packet', type(sk._key).__name__, sha(sk._key.__bytearray__()), 'parent ok', sk.parent is pub,
          'public', sk.is_public)
    p('  sibling identity', priv.pubkey is pub, pub.pubkey is pub)


def export(pub, secrets):
    b = bytes(pub)
    t = tags(b)
    p('  bin', len(b), sha(b), 'tags', t)
    p('  only public tags', all(tg in (6, 14, 13, 17, 2) for tg, _ in t), 'first', t[0][0])
    a = str(pub)
    head, hdrs, raw, crc = dearmor(a)
    p('  asc', len(a), sha(a.encode()), head, hdrs, crc, 'raw==bin', raw == b)
    for kid, f, octets in secrets:
        p('    secret', kid, f, len(octets), 'in bin', octets in b, 'in asc-raw', octets in raw)
    # what an independent load of the export sees
    k2, _ = PGPKey.from_blob(a)
    p('  reload', k2.is_public, str(k2.fingerprint), len(k2.subkeys), len(k2._uids), sha(bytes(k2)) == sha(b))
    k3, _ = PGPKey.from_blob(b)
    p('  reload bin', k3.is_public, sha(bytes(k3)) == sha(b), all(not hasattr(x._key.keymaterial, 's2k') for x in [k3] + list(k3.subkeys.values())))
    return k2


MSG = None


def refuse(pub, encmsgs):
    someuid = pub.userids[0] if pub.userids else None
    exc('sign', lambda: pub.sign('hello'))
    exc('sign msg', lambda: pub.sign(PGPMessage.new('hello', compression=CompressionAlgorithm.Uncompressed)))
    if someuid is not None:
        exc('certify', lambda: pub.certify(someuid))
        exc('revoke uid', lambda: pub.revoke(someuid))
        exc('certify user=', lambda: pub.certify(someuid, user=someuid.name))
    exc('revoke key', lambda: pub.revoke(pub))
    exc('certify key', lambda: pub.certify(pub))
    for sk in pub.subkeys.values():
        exc('bind', lambda: pub.bind(sk))
        exc('revoke sub', lambda: pub.revoke(sk))
        exc('sub.sign', lambda: sk.sign('hello'))
        break
    exc('add_uid', lambda: pub.add_uid(PGPUID.new('X Y', email='x@y'), usage={KeyFlags.Sign}))
    exc('protect', lambda: pub.protect('pw', SymmetricKeyAlgorithm.AES128, HashAlgorithm.SHA256))
    for name, m in encmsgs:
        exc('decrypt ' + name, lambda: pub.decrypt(m))
    try:
        with pub.unlock('QwertyUiop') as u:
            p('    unlock ctx gives self', u is pub)
    except Exception as e:
        p('    unlock ->', type(e).__name__)


def main():
    encmsgs = []
    for f in sorted(glob.glob('tests/testdata/messages/message.*.asc')) + ['tests/testdata/blocks/message.encrypted.asc',
                                                                            'tests/testdata/blocks/message.ecc.encrypted.asc']:
        try:
            m = PGPMessage.from_file(f)
        except Exception as e:
            continue
        if m.is_encrypted:
            encmsgs.append((os.path.basename(f), m))
    p('encrypted messages', [n for n, _ in encmsgs])

    files = sorted(set(glob.glob('tests/testdata/keys/*.asc') + glob.glob('tests/testdata/blocks/*key*.asc') +
                       ['tests/testdata/blocks/expyro.asc', 'tests/testdata/sectest.asc', 'tests/testdata/pubtest.asc',
                        'tests/testdata/blocks/revochiio.asc']))
    privs = []
    for f in files:
        try:
            key, others = PGPKey.from_file(f)
        except Exception as e:
            p('LOAD', f, type(e).__name__)
            continue
        p('=' * 8, f, repr(key).split(' at ')[0], 'others', sorted(str(k) for k in others) if others else None)
        if key.is_public:
            p(' loaded public')
            p('  pubkey is self', key.pubkey is key)
            b = bytes(key)
            p('  bin', len(b), sha(b), 'tags', tags(b))
            refuse(key, encmsgs)
            exc('pubkey setter on public', lambda: setattr(key, 'pubkey', key))
            continue

        privs.append((f, key))
        p(' private: protected', key.is_protected, 'unlocked', key.is_unlocked)
        # derive while locked (if protected)
        pub = key.pubkey
        describe(pub, key)
        if key.is_protected:
            p(' -- locked private refuses')
            exc('locked sign', lambda: key.sign('x'))
            exc('locked certify', lambda: key.certify(key.userids[0]))
            exc('locked revoke', lambda: key.revoke(key))
            for name, m in encmsgs[:3]:
                exc('locked decrypt ' + name, lambda: key.decrypt(m))
            exported_locked = sha(bytes(pub))
            pw = PASS.get(f)
            if pw is None:
                exc('unlock wrong pass', lambda: key.unlock('certainly wrong').__enter__())
                p('  no passphrase known; locked-only checks')
                secrets = []
            else:
              with key.unlock(pw) as uk:
                  secrets = secret_octets(uk)
                  p(' -- unlocked: pubkey same object', uk.pubkey is pub, 'bytes same', sha(bytes(uk.pubkey)) == exported_locked)
                  # fresh derivation while unlocked
                  uk._sibling = None
                  pub2 = uk.pubkey
                  p('  fresh twin while unlocked equals locked twin', bytes(pub2) == bytes(pub), pub2 is not pub)
                  export(pub2, secrets)
                  refuse(pub2, encmsgs[:2])
            p(' -- relocked', key.is_unlocked, 'twin bytes same', sha(bytes(key.pubkey)) == exported_locked)
        else:
            secrets = secret_octets(key)
        p('  nsecrets', len(secrets), [(k, f_, len(o)) for k, f_, o in secrets])
        k2 = export(pub, secrets)
        p(' -- derived public refuses')
        refuse(pub, encmsgs)
        p(' -- reloaded public refuses')
        refuse(k2, encmsgs[:2])
        # the private key's own export must still be private and contain the secrets (sanity of the detector)
        if not key.is_protected:
            sb = bytes(key)
            p('  private export tags', sorted(set(t for t, _ in tags(sb))), 'secrets present',
              all(o in sb for _, _, o in secrets))
        # packet-level pubkey()
        for k in [key] + list(key.subkeys.values()):
            pk = k._key.pubkey()
            p('  pkt', type(k._key).__name__, '->', type(pk).__name__, pk.pkalg.name, sha(pk.__bytearray__()),
              'hlen', pk.header.length, 'fp', pk.fingerprint == k._key.fingerprint,
              'fields indep', all(getattr(pk.keymaterial, f_) is not getattr(k._key.keymaterial, f_) or
                                  isinstance(getattr(pk.keymaterial, f_), (int,)) and False
                                  for f_ in pk.keymaterial.__pubfields__),
              'oid', getattr(pk.keymaterial, 'oid', None), 'kdf', sha(pk.keymaterial.kdf.__bytearray__()) if hasattr(pk.keymaterial, 'kdf') else None,
              'kdf indep', (pk.keymaterial.kdf is not k._key.keymaterial.kdf) if hasattr(pk.keymaterial, 'kdf') else None,
              'privfields', [hasattr(pk.keymaterial, f_) for f_ in getattr(k._key.keymaterial, '__privfields__', ())])
        # pubkey setter
        exc('setter already set', lambda: setattr(key, 'pubkey', pub))
        exc('setter private arg', lambda: setattr(key, 'pubkey', key))
        exc('setter on public', lambda: setattr(pub, 'pubkey', pub))

    # histories: twin derived before later additions (RSA keys only: deterministic signatures with fixed time)
    p('#' * 8, 'histories')
    for f, key in privs:
        if key.is_protected or key.key_algorithm != PubKeyAlgorithm.RSAEncryptOrSign:
            continue
        key, _ = PGPKey.from_file(f)
        p('--', f)
        old = key.pubkey
        before = bytes(old)
        nu = PGPUID.new('History Uid', comment='later', email='h@example.com')
        try:
            key.add_uid(nu, usage={KeyFlags.Sign}, hashes=[HashAlgorithm.SHA256], created=FIXED)
        except Exception as e:
            p('  add_uid', type(e).__name__)
            continue
        p('  old twin unchanged', bytes(old) == before, 'still twin', key.pubkey is old, len(old._uids), len(key._uids))
        secrets = secret_octets(key)
        export(old, secrets)
        key._sibling = None
        new = key.pubkey
        p('  new twin', new is not old, len(new._uids), [u.name for u in new.userids])
        describe(new, key)
        export(new, secrets)
        refuse(new, encmsgs[:1])
        # revoke the new uid, attach photo, third-party certification by another rsa key
        try:
            rev = key.revoke(key.get_uid('History Uid'), created=FIXED + datetime.timedelta(seconds=10))
            hu = key.get_uid('History Uid')
            hu |= rev
        except Exception as e:
            p('  revoke', type(e).__name__)
        with open('tests/testdata/simple.jpg', 'rb') as fh:
            ua = PGPUID.new(bytearray(fh.read()))
        try:
            key.add_uid(ua, created=FIXED + datetime.timedelta(seconds=20))
        except Exception as e:
            p('  add ua', type(e).__name__)
        other, _ = PGPKey.from_file('tests/testdata/keys/targette.sec.rsa.asc')
        if other.fingerprint != key.fingerprint:
            try:
                c = other.certify(key.userids[0], created=FIXED + datetime.timedelta(seconds=30))
                u0 = key.userids[0]
                u0 |= c
                ne = other.certify(u0, created=FIXED + datetime.timedelta(seconds=40), exportable=False)
                u0 |= ne
            except Exception as e:
                p('  3rd party', type(e).__name__)
        key._sibling = None
        newest = key.pubkey
        describe(newest, key)
        export(newest, secrets)
        allsigs = list(newest._signatures) + [x for u in newest._uids for x in u._signatures] + \
            [x for sk in newest.subkeys.values() for x in sk._signatures]
        p('  non-exportable kept out', sum(1 for x in allsigs if not x.exportable),
          sum(1 for tg, _ in tags(bytes(newest)) if tg == 2), len(allsigs))
        p('  old twin still unchanged', bytes(old) == before)
        # copies
        cp = copy.copy(newest)
        p('  copy of twin', cp.is_public, bytes(cp) == bytes(newest))
        refuse(cp, encmsgs[:1])

    # freshly shaped packets (no randomness: reuse loaded material on the other packet class)
    p('#' * 8, 'packet classes')
    for f, key in privs:
        if key.is_protected:
            continue
        src = key._key
        alt = PrivSubKeyV4() if not isinstance(src, PrivSubKeyV4) else PrivKeyV4()
        alt.created = src.created
        alt.pkalg = src.pkalg
        alt.keymaterial = src.keymaterial
        alt.update_hlen()
        pk = alt.pubkey()
        p(' ', os.path.basename(f), type(alt).__name__, '->', type(pk).__name__, sha(pk.__bytearray__()), len(pk.__bytearray__()))
    p('done')


main()
