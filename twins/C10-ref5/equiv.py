import glob
import hashlib
import os
import re
import sys
import warnings

sys.path.insert(0, os.getcwd())

import pgpy
from pgpy.types import Armorable

out = []


def rec(*a):
    # object addresses appear in some warning / repr texts; they are not part of the behaviour
    out.append(re.sub(r'0x[0-9a-fA-F]{6,}', '0xADDR', repr(a)))


def attempt(tag, fn):
    with warnings.catch_warnings(record=True) as w:
        warnings.simplefilter('always')
        try:
            r = fn()
        except Exception as e:
            r = ('EXC', type(e).__name__, str(e))
        rec(tag, r, [(x.category.__name__, str(x.message)) for x in w])


def load(cls, blob):
    r = cls.from_blob(blob)
    obj = r[0] if isinstance(r, tuple) else r
    return (obj.magic, list(obj.ascii_headers.items()), str(obj), bytes(obj).hex())


# crc24 on assorted inputs and input types
payloads = [b'', b'\x00', b'\x00' * 5, b'\xff' * 49, bytes(range(256)) * 9, b'abc', b'\x00\x00\x01']
for p in payloads:
    for conv in (bytes, bytearray, list, tuple, memoryview):
        attempt('crc', lambda: Armorable.crc24(conv(p)))
attempt('crc-str', lambda: Armorable.crc24('abc'))
attempt('crc-int', lambda: Armorable.crc24(5))
attempt('crc-none', lambda: Armorable.crc24(None))
attempt('crc-gen', lambda: Armorable.crc24(x for x in b'hello'))

classes = (pgpy.PGPKey, pgpy.PGPMessage, pgpy.PGPSignature)
files = sorted(glob.glob('tests/testdata/blocks/*.asc')) + sorted(glob.glob('tests/testdata/keys/*.asc'))[:6]
for fn in files:
    with open(fn, 'rb') as f:
        raw = f.read()
    text = raw.decode('latin-1')
    attempt(('unarmor', fn), lambda: sorted((k, repr(v)) for k, v in Armorable.ascii_unarmor(text).items()))
    for cls in classes:
        for conv in (lambda t: t, lambda t: t.encode('latin-1'), lambda t: bytearray(t.encode('latin-1')),
                     lambda t: t.replace('\n', '\r\n'), lambda t: 'junk before\n' + t + 'junk after\n'):
            attempt(('load', fn, cls.__name__), lambda: load(cls, conv(text)))
        attempt(('file', fn, cls.__name__), lambda: (lambda r: str(r[0] if isinstance(r, tuple) else r))(cls.from_file(fn)))

# header handling, binary round trip, corruption
with open('tests/testdata/blocks/rsapubkey.asc') as f:
    ktext = f.read()
key, _ = pgpy.PGPKey.from_blob(ktext)
key.ascii_headers.clear()
attempt('nohdr', lambda: str(key))
key.ascii_headers['Version'] = 'x 1.0'
key.ascii_headers['Comment'] = 'a: b'
key.ascii_headers['Num'] = 17
attempt('hdrs', lambda: str(key))
attempt('bin', lambda: load(pgpy.PGPKey, bytes(key)))
attempt('binarr', lambda: load(pgpy.PGPKey, bytearray(bytes(key))))
attempt('rt', lambda: load(pgpy.PGPKey, str(key)))
arm = str(key)
lines = arm.split('\n')
for i in (3, 5, len(lines) - 4, len(lines) - 3):
    for j in (0, 1, len(lines[i]) - 1):
        for ch in ('A', 'B', '/', '=', '!', ' '):
            if lines[i][j] == ch:
                continue
            bad = list(lines)
            bad[i] = bad[i][:j] + ch + bad[i][j + 1:]
            attempt(('corrupt', i, j, ch), lambda: load(pgpy.PGPKey, '\n'.join(bad)))
attempt('notarmor', lambda: Armorable.ascii_unarmor('hello world'))
attempt('nonascii-str', lambda: Armorable.ascii_unarmor('h\xe9llo'))
attempt('nonascii-bytes', lambda: sorted((k, repr(v)) for k, v in Armorable.ascii_unarmor(b'\x99\x01\x02').items()))
attempt('badtype', lambda: Armorable.ascii_unarmor(5))
attempt('blob-int', lambda: pgpy.PGPKey.from_blob(5))
attempt('blob-none', lambda: pgpy.PGPKey.from_blob(None))
attempt('blob-empty', lambda: pgpy.PGPKey.from_blob(''))
attempt('blob-emptyb', lambda: pgpy.PGPSignature.from_blob(b''))
attempt('blob-mem', lambda: load(pgpy.PGPKey, memoryview(bytes(key))))
attempt('is_armor', lambda: (Armorable.is_armor(arm), Armorable.is_armor('x'), Armorable.is_armor(arm.encode())))

# message / signature armor built from scratch with different payload sizes
for n in (0, 1, 2, 3, 47, 48, 49, 1000):
    msg = pgpy.PGPMessage.new((bytes(range(256)) * 4)[:n],
                              compression=pgpy.constants.CompressionAlgorithm.Uncompressed, file=False)
    msg._message.mtime = msg._message.mtime.replace(year=2020, month=1, day=1, hour=0, minute=0, second=0, microsecond=0)
    attempt(('msg', n), lambda: (str(msg), max(len(l) for l in str(msg).split('\n'))))
    attempt(('msgrt', n), lambda: load(pgpy.PGPMessage, str(msg)))

if '-v' in sys.argv:
    print('\n'.join(o[:300] for o in out))
h = hashlib.sha256('\n'.join(out).encode('utf-8', 'backslashreplace')).hexdigest()
print(len(out), h)
