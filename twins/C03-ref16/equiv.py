"""Equivalence probe for the C03 refactorings.

Run as:  cd <tree> && /venv/bin/python equiv.py
Prints one SHA-256 digest of every observable output collected below; the digest must be
identical on the unchanged and on the refactored tree.
"""
import copy
from datetime import datetime, timezone
import glob
import hashlib
import itertools
import os
import sys
import warnings

sys.path.insert(0, os.getcwd())

with warnings.catch_warnings(record=True) as _import_warnings:
    warnings.simplefilter('always')
    import pgpy  # noqa: E402
_import_warnings = sorted((x.category.__name__, str(x.message)[:60]) for x in _import_warnings)
from pgpy import PGPKey, PGPMessage  # noqa: E402
from pgpy.constants import CompressionAlgorithm, HashAlgorithm, SymmetricKeyAlgorithm, PubKeyAlgorithm  # noqa: E402
from pgpy.packet import Packet  # noqa: E402
from pgpy.packet.packets import PKESessionKeyV3, SKESessionKeyV4, IntegrityProtectedSKEDataV1  # noqa: E402
from pgpy.packet.fields import String2Key  # noqa: E402
from pgpy.symenc import _encrypt, _decrypt  # noqa: E402

warnings.simplefilter('ignore')

out = []


def rec(label, value):
    if isinstance(value, (bytes, bytearray)):
        value = bytes(value).hex()
    out.append('{}={!r}'.format(label, value))


def attempt(label, fn):
    try:
        rec(label, fn())
    except Exception as ex:  # same exception type and message expected on both trees
        rec(label, (type(ex).__name__, str(ex)))


# deterministic os.urandom so that passphrase encryption output is reproducible
_ctr = itertools.count()
_real_urandom = os.urandom


def fake_urandom(n):
    return hashlib.shake_128(b'equiv-%d' % next(_ctr)).digest(n)


def newmsg(body, **kw):
    # PGPMessage.new stamps the literal with the current time: pin it
    m = PGPMessage.new(body, **kw)
    m._message.mtime = datetime(2020, 1, 2, 3, 4, 5, tzinfo=timezone.utc)
    return m


def descr(msg):
    return (msg.type, msg.is_compressed, msg.is_encrypted, msg.is_signed, msg.filename,
            bytes(msg.message) if isinstance(msg.message, (bytes, bytearray)) else msg.message,
            [s.signer for s in msg.signatures], bytes(msg).hex())


# 1. parse + reserialise + copy every fixture message; decrypt the passphrase ones
for f in sorted(glob.glob('tests/testdata/messages/message*.asc')):
    m = PGPMessage.from_file(f)
    rec('ser:' + f, bytes(m))
    rec('copy:' + f, bytes(copy.copy(m)))
    rec('encrypters:' + f, sorted(m.encrypters))
    if m.is_encrypted:
        attempt('pass:' + f, lambda: descr(m.decrypt('QwertyUiop')))
        attempt('badpass:' + f, lambda: descr(m.decrypt('wrong')))
        attempt('bytespass:' + f, lambda: descr(m.decrypt(b'QwertyUiop')))

# 2. decrypt with the fixture secret keys
seckeys = [PGPKey.from_file(f)[0] for f in sorted(glob.glob('tests/testdata/keys/*.sec.asc')) + ['tests/testdata/keys/targette.sec.rsa.asc']]
pubkeys = [PGPKey.from_file(f)[0] for f in sorted(glob.glob('tests/testdata/keys/*.pub.asc')) + ['tests/testdata/keys/targette.pub.rsa.asc']]
for f in sorted(glob.glob('tests/testdata/messages/message*.asc')):
    m = PGPMessage.from_file(f)
    if not m.is_encrypted:
        continue
    for sk in seckeys:
        attempt('key:{}:{}'.format(f, sk.fingerprint), lambda: descr(sk.decrypt(m)))

# 3. S2K key derivation and raw CFB helpers on fixed inputs
for spec, halg, encalg, pw in itertools.product((0, 1, 3), (HashAlgorithm.MD5, HashAlgorithm.SHA1, HashAlgorithm.SHA256, HashAlgorithm.SHA512),
                                               sorted(SymmetricKeyAlgorithm), ('', 'a', 'QwertyUiop', b'\xff\x00bytes', u'päss' * 40)):
    s2k = String2Key()
    s2k.usage = 255
    s2k.specifier = spec
    s2k.halg = halg
    s2k.encalg = encalg
    s2k.salt = bytearray(b'\x01\x02\x03\x04\x05\x06\x07\x08')
    for count in (0, 16, 96, 200):
        s2k.count = count
        attempt('s2k:{}:{}:{}:{!r}:{}'.format(spec, halg.name, encalg.name, pw, count), lambda: s2k.derive_key(pw))

for alg in sorted(SymmetricKeyAlgorithm):
    attempt('alg:' + alg.name, lambda: (alg.is_supported, alg.is_insecure, alg.block_size, alg.key_size, repr(alg.cipher)[:40]))
    os.urandom = fake_urandom
    attempt('gen:' + alg.name, lambda: (alg.gen_iv(), alg.gen_key()))
    os.urandom = _real_urandom
    for ptlen in (0, 1, 15, 16, 17, 100):
        pt = bytes(range(ptlen))

        def rt():
            key = bytes(range(alg.key_size // 8))
            ct = _encrypt(pt, key, alg)
            ct2 = _encrypt(pt, key, alg, bytes(range(alg.block_size // 8)))
            return (type(ct).__name__, bytes(ct), bytes(ct2), type(_decrypt(bytes(ct), key, alg)).__name__, bytes(_decrypt(bytes(ct), key, alg)),
                    bytes(_decrypt(bytes(ct2), key, alg, bytes(range(alg.block_size // 8)))))
        attempt('cfb:{}:{}'.format(alg.name, ptlen), rt)

for alg in CompressionAlgorithm:
    for data in (b'', b'a', b'hello world' * 100, bytes(range(256)) * 33):
        attempt('comp:{}:{}'.format(alg.name, len(data)), lambda: (alg.compress(data), alg.decompress(alg.compress(data))))

# 4. passphrase encryption with deterministic randomness: exact bytes are observable
bodies = ['', 'This message is to be encrypted', b'\x00\xff' * 5000, u'色は匂へど' * 10]
os.urandom = fake_urandom
try:
    combos = list(itertools.product(bodies, CompressionAlgorithm, (SymmetricKeyAlgorithm.AES256,), (HashAlgorithm.SHA256,)))
    combos += list(itertools.product(bodies[1:2], (CompressionAlgorithm.ZIP,), sorted(SymmetricKeyAlgorithm),
                                     (HashAlgorithm.SHA1, HashAlgorithm.SHA512)))
    for body, comp, cipher, halg in combos:
        def enc():
            msg = newmsg(body, compression=comp, file=False)
            e = msg.encrypt('QwertyUiop', cipher=cipher, hash=halg)
            e2 = PGPMessage.from_blob(bytes(e))
            d = e2.decrypt('QwertyUiop')
            return (bytes(e), str(e) == str(e2), descr(d), [repr(p.header.tag) for p in e])
        attempt('penc:{!r}:{}:{}:{}'.format(body[:8], comp.name, cipher.name, halg.name), enc)

    def two():
        sk = bytes(range(32))
        msg = newmsg('two passphrases')
        e = msg.encrypt('QwertyUiop', sessionkey=sk).encrypt('AsdfGhjkl', sessionkey=sk)
        return (bytes(e), descr(e.decrypt('QwertyUiop')), descr(e.decrypt('AsdfGhjkl')))
    attempt('penc2', two)
finally:
    os.urandom = _real_urandom

# 5. public-key encryption (ciphertext is randomised by OpenSSL: digest structure + round trip)
for pub, sec in zip(pubkeys, seckeys):
    for cipher in (SymmetricKeyAlgorithm.AES256, SymmetricKeyAlgorithm.CAST5, SymmetricKeyAlgorithm.TripleDES,
                   SymmetricKeyAlgorithm.Camellia192, SymmetricKeyAlgorithm.IDEA, SymmetricKeyAlgorithm.Twofish256):
        def pk():
            msg = newmsg('This message will have been encrypted', compression=CompressionAlgorithm.ZIP)
            sk = bytes(range(cipher.key_size // 8))
            os.urandom = fake_urandom  # pins the SEIPD prefix (the decrypted message keeps the MDC packet)
            try:
                e = pub.encrypt(msg, cipher=cipher, sessionkey=sk)
            finally:
                os.urandom = _real_urandom
            e2 = PGPMessage.from_blob(bytes(e))
            pkesk = e2._sessionkeys[0]
            shape = (type(pkesk).__name__, pkesk.encrypter, pkesk.pkalg.name, type(pkesk.ct).__name__, pkesk.header.length,
                     bytes(pkesk)[:12], len(bytes(e2)), bytes(copy.copy(pkesk)) == bytes(pkesk))
            return (shape, sorted(e2.encrypters), descr(sec.decrypt(e2)))
        attempt('pkenc:{}:{}'.format(pub.fingerprint, cipher.name), pk)

# 6. packet-level corner cases
for alg in PubKeyAlgorithm:
    def pke():
        p = PKESessionKeyV3()
        p.pkalg = alg
        p.encrypter = bytearray(b'\x01\x23\x45\x67\x89\xab\xcd\xef')
        before = bytes(p)
        p.header.length = 14
        return (type(p.ct).__name__, before, bytes(p), bytes(copy.copy(p)))
    attempt('pkesk:' + alg.name, pke)


def opaque_pkesk():
    # PKESK with an unknown-ciphertext algorithm (DSA = 17): body kept as zeros of the declared length
    raw = bytearray(b'\xc1\x0e\x03' + bytes(range(8)) + b'\x11' + b'\xaa\xbb\xcc\xdd')
    p = Packet(raw)
    return (type(p).__name__, bytes(p), len(raw))


attempt('pkesk-opaque', opaque_pkesk)


def skesk_noct():
    p = SKESessionKeyV4()
    p.s2k.usage = 255
    p.s2k.specifier = 3
    p.s2k.halg = HashAlgorithm.SHA1
    p.s2k.encalg = SymmetricKeyAlgorithm.AES128
    p.s2k.salt = bytearray(b'12345678')
    p.s2k.count = 96
    p.update_hlen()
    raw = bytes(p)
    q = Packet(bytearray(raw))
    return (raw, bytes(q), q.decrypt_sk('pw'), bytes(copy.copy(q)))


attempt('skesk-noct', skesk_noct)


def seipd():
    p = IntegrityProtectedSKEDataV1()
    os.urandom = fake_urandom
    try:
        p.encrypt(bytes(range(16)), SymmetricKeyAlgorithm.AES128, b'payload')
    finally:
        os.urandom = _real_urandom
    q = Packet(bytearray(bytes(p)))
    bad = Packet(bytearray(bytes(p)))
    bad.ct[-1] ^= 1
    res = [bytes(p), bytes(q), bytes(q.decrypt(bytes(range(16)), SymmetricKeyAlgorithm.AES128)), bytes(copy.copy(q))]
    try:
        bad.decrypt(bytes(range(16)), SymmetricKeyAlgorithm.AES128)
    except Exception as ex:
        res.append((type(ex).__name__, str(ex)))
    return res


attempt('seipd', seipd)

# 7. warnings emitted while using the cipher tables (cryptography deprecations come from the table lookups)
def warned():
    with warnings.catch_warnings(record=True) as w:
        warnings.simplefilter('always')
        for alg in sorted(SymmetricKeyAlgorithm):
            for prop in ('key_size', 'is_insecure', 'block_size', 'is_supported'):
                try:
                    getattr(alg, prop)
                except NotImplementedError:
                    pass
        _decrypt(bytes(_encrypt(b'x' * 20, bytes(16), SymmetricKeyAlgorithm.AES128)), bytes(16), SymmetricKeyAlgorithm.AES128)
        return sorted((x.category.__name__, str(x.message)[:60], os.path.basename(x.filename)) for x in w)


attempt('warnings', warned)
rec('import-warnings', _import_warnings)

if os.environ.get("EQUIV_DUMP"):
    open(os.environ["EQUIV_DUMP"], "w").write("\n".join(out))
print(len(out), hashlib.sha256('\n'.join(out).encode('utf-8')).hexdigest())
