import glob
import hashlib
import os
import sys
import warnings

sys.path.insert(0, os.getcwd())
warnings.simplefilter('ignore')

import pgpy
from pgpy import PGPKey, PGPSignature
from pgpy.constants import SecurityIssues

out = []


def sigdig(sig):
    return hashlib.sha256(bytes(sig)).hexdigest()[:16]


def describe(label, key):
    out.append('%s expires_at=%r is_expired=%r primary=%r' % (label, key.expires_at, key.is_expired, key.is_primary))
    out.append('%s self=%r' % (label, [sigdig(s) for s in key.self_signatures]))
    out.append('%s revoc=%r' % (label, [sigdig(s) for s in key.revocation_signatures]))
    out.append('%s mgmt=%r sound=%r' % (label, int(key.check_management()), int(key.check_soundness())))
    # the getters are generators: nothing is computed before the first next()
    g = key.self_signatures
    out.append('%s gen=%s' % (label, type(g).__name__))


def verdict(label, key, subject, sig=None):
    try:
        sv = key.verify(subject, sig) if sig is not None else key.verify(subject)
    except Exception as e:
        out.append('%s EXC %s %s' % (label, type(e).__name__, e))
        return
    out.append('%s bool=%r n=%d good=%r bad=%r' % (
        label, bool(sv), len(sv),
        [(int(s.issues), sigdig(s.signature)) for s in sv.good_signatures],
        [(int(s.issues), sigdig(s.signature)) for s in sv.bad_signatures]))


paths = sorted(glob.glob('tests/testdata/keys/*.asc')) + [
    'tests/testdata/blocks/expyro.asc', 'tests/testdata/blocks/revochiio.asc',
    'tests/testdata/blocks/rsapubkey.asc', 'tests/testdata/blocks/dsapubkey.asc',
    'tests/testdata/blocks/eccpubkey.asc', 'tests/testdata/blocks/openpgp.js.pubkey.asc',
    'tests/testdata/signatures/debian-sid.key.asc', 'tests/testdata/signatures/ubuntu-precise.key.asc',
]
keys = {}
for p in paths:
    if '.enc.' in p:
        continue
    try:
        key, _ = PGPKey.from_file(p)
    except Exception as e:
        out.append('%s LOAD %s' % (p, type(e).__name__))
        continue
    keys[p] = key
    describe(p, key)
    for kid, sk in key.subkeys.items():
        describe('%s/%s' % (p, kid), sk)
    verdict(p + ' selfverify', key, key)
    for uid in key.userids:
        verdict(p + ' uid', key, uid)

# revocation certificates merged into the key they belong to
for name in ('dsa.1', 'ecc.1', 'rsa.1'):
    key, _ = PGPKey.from_file('tests/testdata/keys/%s.pub.asc' % name)
    # the fixture is a bare revocation signature armored as a key block
    with open('tests/testdata/revocations/%s.revoc.asc' % name) as f:
        rev = PGPSignature.from_blob(f.read().replace('PUBLIC KEY BLOCK', 'SIGNATURE'))
    key |= rev
    describe(name + '+revoc', key)
    verdict(name + '+revoc selfverify', key, key)
    verdict(name + '+revoc rev', key, key, rev)

# detached signatures over files
for name in ('debian-sid', 'ubuntu-precise', 'aptapproval-test'):
    key, _ = PGPKey.from_file('tests/testdata/signatures/%s.key.asc' % name)
    sig = PGPSignature.from_file('tests/testdata/signatures/%s.sig.asc' % name)
    with open('tests/testdata/signatures/%s.subj' % name, 'rb') as f:
        subj = f.read()
    verdict(name + ' good', key, subj, sig)
    verdict(name + ' tampered', key, subj + b'x', sig)


# every fixture key against every signed fixture message (most pairs raise "No signatures to verify")
from pgpy import PGPMessage
msgs = sorted(glob.glob('tests/testdata/messages/*signed*.asc')) + [
    'tests/testdata/blocks/cleartext.asc', 'tests/testdata/blocks/cleartext.twosigs.asc',
    'tests/testdata/blocks/message.signed.asc', 'tests/testdata/blocks/message.onepass.asc',
    'tests/testdata/blocks/message.two_onepass.asc']
for mp in msgs:
    try:
        msg = PGPMessage.from_file(mp)
    except Exception as e:
        out.append('%s LOAD %s' % (mp, type(e).__name__))
        continue
    for kp in sorted(keys):
        verdict('%s by %s' % (mp, kp), keys[kp], msg)

# type checks at the top of verify
k = keys['tests/testdata/keys/rsa.1.pub.asc']
for bad in (42, object):
    try:
        k.verify(bad)
    except Exception as e:
        out.append('badsubj %s %s' % (type(e).__name__, e))
try:
    k.verify('text', 'notasig')
except Exception as e:
    out.append('badsig %s %s' % (type(e).__name__, e))

text = '\n'.join(out)
print(len(out), hashlib.sha256(text.encode('utf-8')).hexdigest())
