import hashlib
import itertools
import os
import sys
import warnings

sys.path.insert(0, os.getcwd())

import pgpy  # noqa: E402
from pgpy.constants import HashAlgorithm, SymmetricKeyAlgorithm  # noqa: E402
from pgpy.errors import PGPDecryptionError, PGPError  # noqa: E402

# deterministic "randomness" so that the protected export itself can be digested
_ctr = itertools.count()


def _fake_urandom(n):
    out = b''
    while len(out) < n:
        out += hashlib.sha256(b'equiv-%d' % next(_ctr)).digest()
    return out[:n]


os.urandom = _fake_urandom

out = []


def rec(*a):
    out.append(repr(a))


def secrets(key):
    res = []
    for sk in itertools.chain([key], key.subkeys.values()):
        km = sk._key.keymaterial
        res.append(tuple((f, int(getattr(km, f))) for f in km.__privfields__))
    return res


def state(key):
    return (key.is_protected, key.is_unlocked, secrets(key), hashlib.sha256(bytes(key)).hexdigest(),
            sorted(k for k in vars(key._key.keymaterial)), bytes(key._key.keymaterial.chksum).hex(),
            int(key._key.keymaterial.s2k.usage), len(key._key.keymaterial.encbytes))


KEYS = ['rsa.1.sec.asc', 'dsa.1.sec.asc', 'ecc.1.sec.asc', 'ecc.2.sec.asc', 'mixed.1.sec.asc']
COMBOS = [(SymmetricKeyAlgorithm.AES256, HashAlgorithm.SHA256),
          (SymmetricKeyAlgorithm.CAST5, HashAlgorithm.SHA1),
          (SymmetricKeyAlgorithm.AES128, HashAlgorithm.SHA512)]
PASSES = ['QwertyUiop', u'pässwörd ☃', 'x' * 300]

with warnings.catch_warnings(record=True) as wlog:
    warnings.simplefilter('always')

    for kf in KEYS:
        for (enc, halg), pw in zip(COMBOS, PASSES):
            key, _ = pgpy.PGPKey.from_file('tests/testdata/keys/' + kf)
            orig = secrets(key)
            rec(kf, 'loaded', state(key))

            key.protect(pw, enc, halg)
            rec(kf, 'protected', state(key))
            exported = str(key)

            # re-import of the export, wrong passphrase, then right passphrase
            key2, _ = pgpy.PGPKey.from_blob(exported)
            rec(kf, 'reimport', state(key2))
            try:
                with key2.unlock('definitely wrong'):
                    rec(kf, 'UNREACHABLE')
            except Exception as e:
                rec(kf, 'wrong', type(e).__name__, str(e), state(key2))

            with key2.unlock(pw) as uk:
                rec(kf, 'unlocked', uk is key2, state(key2), secrets(key2) == orig)
                if key2.key_algorithm.can_sign:
                    sig = key2.sign('some text', created=__import__('datetime').datetime(2020, 1, 1))
                    rec(kf, 'verify', bool(key2.pubkey.verify('some text', sig)))
            rec(kf, 'relocked', state(key2))

            # exception inside the scope
            try:
                with key2.unlock(pw):
                    raise KeyError('boom')
            except KeyError as e:
                rec(kf, 'exc', str(e), state(key2))

            # private operation on a locked key
            try:
                key2.sign('x')
            except PGPError as e:
                rec(kf, 'locked-sign', type(e).__name__, str(e))

            # re-protect with another passphrase inside the scope
            with key2.unlock(pw):
                key2.protect('second', SymmetricKeyAlgorithm.AES192, HashAlgorithm.SHA384)
            rec(kf, 'reprotected', state(key2))
            with key2.unlock('second'):
                rec(kf, 'unlocked2', secrets(key2) == orig, state(key2))
            rec(kf, 'end', state(key2))

            # protect on an already locked key, unlock of an unprotected key / public key: warnings only
            key2.protect('third', enc, halg)
            rec(kf, 'protect-locked', state(key2))
            key3, _ = pgpy.PGPKey.from_file('tests/testdata/keys/' + kf)
            with key3.unlock('whatever') as u3:
                rec(kf, 'unlock-unprotected', u3 is key3, state(key3))
            pub = key3.pubkey
            with pub.unlock('whatever') as u4:
                rec(kf, 'unlock-public', u4 is pub)
            pub.protect('whatever', enc, halg)

    # pre-existing protected fixtures (foreign producer)
    for kf, pw in [('rsa.1.enc.asc', 'QwertyUiop'), ('dsa.1.enc.asc', 'QwertyUiop')]:
        key, _ = pgpy.PGPKey.from_file('tests/testdata/keys/' + kf)
        rec(kf, 'loaded', state(key))
        try:
            with key.unlock('ClearlyTheWrongPassword'):
                rec(kf, 'UNREACHABLE')
        except PGPDecryptionError as e:
            rec(kf, 'wrong', str(e), state(key))
        try:
            with key.unlock(pw):
                rec(kf, 'unlocked', state(key))
        except Exception as e:
            rec(kf, 'unlock-failed', type(e).__name__, str(e))
        rec(kf, 'end', state(key))

    rec('warnings', [(w.category.__name__, str(w.message)) for w in wlog])

print(len(out), hashlib.sha256('\n'.join(out).encode('utf-8')).hexdigest())
