import hashlib
import os
import sys
import warnings

sys.path.insert(0, os.getcwd())
warnings.simplefilter('ignore')

import copy
import pickle
from datetime import datetime, timezone

import pgpy
from pgpy.types import Header as BaseHeader
from pgpy.packet.types import Header as PktHeader, MPI
from pgpy.packet.subpackets.types import Header as SubHeader
from pgpy.packet.subpackets.signature import CreationTime
from pgpy.packet.fields import String2Key
from pgpy.packet.packets import PubKeyV4

h = hashlib.sha256()


def put(*items):
    for it in items:
        h.update(repr(it).encode('utf-8'))
        h.update(b'|')


def attempt(fn):
    try:
        return ('ok', fn())
    except Exception as e:  # noqa
        return ('exc', type(e).__name__, str(e))


LENGTHS = list(range(0, 9000)) + list(range(65000, 66100, 7)) + \
    [16777215, 16777216, 2 ** 31 - 1, 2 ** 31, 2 ** 32 - 2, 2 ** 32 - 1]

# 1. Header.encode_length, both formats
for n in LENGTHS:
    put(bytes(BaseHeader.encode_length(n)))
    for ll in (0, 1, 2, 4):
        put(attempt(lambda: bytes(BaseHeader.encode_length(n, False, ll))))

# 2. packet header, new format: build, serialise, re-parse
for n in LENGTHS:
    ph = PktHeader()
    ph.tag = 11
    ph.length = n
    b = ph.__bytearray__()
    put(bytes(b), len(ph), ph.llen)
    ph2 = PktHeader()
    buf = bytearray(b) + b'\xAA\xBB'
    ph2.parse(buf)
    put(ph2.length, ph2.llen, int(ph2.tag), bytes(buf), bytes(ph2.__bytearray__()))

# 3. packet header, old format incl. growth across width boundary after parse
for first, lenbytes in ((0x98, b'\x05'), (0x99, b'\x01\x00'), (0x9a, b'\x00\x01\x00\x00'), (0x98, b'\xff'),
                        (0x99, b'\xff\xff'), (0x9a, b'\xff\xff\xff\xff'), (0x9b, b'')):
    buf = bytearray([first]) + bytearray(lenbytes) + bytearray(b'xyz')
    ph = PktHeader()
    ph.parse(buf)
    put(ph.length, ph.llen, int(ph.tag), bytes(buf), bytes(ph.__bytearray__()), len(ph))
    for newlen in (0, 1, 255, 256, 65535, 65536, 2 ** 24, 2 ** 32 - 1):
        ph.length = newlen
        put(ph.llen, len(ph), attempt(lambda: bytes(ph.__bytearray__())))
    c = copy.copy(ph)
    put(sorted(c.__dict__.items(), key=lambda kv: kv[0]) == sorted(ph.__dict__.items(), key=lambda kv: kv[0]),
        sorted(ph.__dict__))

# 4. partial body lengths
for chunks in ([(0xE0, 1), (0x05, 5)], [(0xE9, 512), (0xE1, 2), (0xC0, 192)], [(0xF0, 65536), (0xE0, 1), (0x00, 0)]):
    buf = bytearray()
    for oct_, n in chunks:
        if oct_ == 0xC0:
            buf += b'\xC0\x00'
        else:
            buf.append(oct_)
        buf += b'\x42' * n
    full = bytearray([0xCB]) + buf
    ph = PktHeader()
    ph.parse(full)
    put(ph.length, len(full), hashlib.sha256(bytes(full)).hexdigest(), bytes(ph.__bytearray__()))

# malformed / truncated
for raw in (b'', b'\xCB', b'\xCB\xC0', b'\xCB\xFF\x00', b'\xCB\xE0'):
    put(attempt(lambda: (lambda p, bb: (p.parse(bb), p.length, bytes(bb))[1:])(PktHeader(), bytearray(raw))))

# 5. subpacket headers
for n in LENGTHS:
    for crit in (False, True):
        sh = SubHeader()
        sh.typeid = 2
        sh.critical = crit
        sh.length = n
        b = sh.__bytearray__()
        put(bytes(b), len(sh))
        sh2 = SubHeader()
        buf = bytearray(b) + b'\x01'
        sh2.parse(buf)
        put(sh2.length, sh2.typeid, sh2.critical, bytes(buf))
for t in (0, 1, 0x7f, 0x80, 0xff, 0x1ff):
    sh = SubHeader()
    sh.typeid = t
    put(sh.typeid, bytes(sh.__bytearray__()))
    sh.typeid = bytearray([t & 0xff])
    put(sh.typeid, sh.critical, bytes(sh.__bytearray__()))

# 6. MPIs
vals = [0, 1, 2, 3, 127, 128, 255, 256, 65535, 65536]
for bits in list(range(0, 300)) + [1023, 1024, 1025, 2047, 2048, 4095, 4096, 4200]:
    vals += [(1 << bits), (1 << bits) - 1, (1 << bits) | 1]
for v in vals:
    m = MPI(v)
    mb = m.to_mpibytes()
    put(int(m), m.byte_length(), len(m), bytes(mb))
    buf = bytearray(mb) + b'\xEE\xFF'
    m2 = MPI(buf)
    put(int(m2), type(m2).__name__, bytes(buf))
    put(int(MPI(bytes(mb))), type(copy.copy(m)).__name__, int(copy.copy(m)), int(copy.deepcopy(m)))
    put(pickle.dumps(m, 2))
# leading zero bits / over-long / truncated bodies
for raw in (b'\x00\x09\x00\xff', b'\x00\x01\xff', b'\x00\x10\x01', b'\x00', b'', b'\xff\xff\x01\x02', b'\x00\x00', b'\x00\x00\x07'):
    buf = bytearray(raw)
    put(attempt(lambda: (int(MPI(buf)), bytes(buf))))
put(attempt(lambda: MPI(None)), attempt(lambda: MPI('12')), attempt(lambda: int(MPI(1.9))), attempt(lambda: int(MPI(True))))

# 7. S2K coded count
for c in range(256):
    s = String2Key()
    s.count = c
    put(s.count, s._count)
    s.usage = 254
    s.encalg = 9
    s.specifier = 3
    s.halg = 8
    s.salt = bytearray(b'12345678')
    s.iv = bytearray(16)
    b = s.__bytearray__()
    s2 = String2Key()
    s2.parse(bytearray(b))
    put(bytes(b), s2.count, s2._count, copy.copy(s2).count, bytes(copy.copy(s2).__bytearray__()))
for bad in (-1, 256, 1000):
    put(attempt(lambda: setattr(String2Key(), 'count', bad)))

# 8. timestamps
for ts in (0, 1, 59, 86399, 86400, 951782400, 2 ** 31 - 1, 2 ** 31, 2 ** 32 - 2, 2 ** 32 - 1):
    raw = ts.to_bytes(4, 'big')
    ct = CreationTime()
    ct.created = bytearray(raw)
    ct.update_hlen()
    put(ct.created.isoformat(), bytes(ct.__bytearray__()))
    ct2 = CreationTime()
    ct2.parse(bytearray(ct.__bytearray__()))
    put(ct2.created.isoformat(), ct2.created == ct.created)
    ct.created = ts
    put(ct.created.isoformat())
    ct.created = datetime.fromtimestamp(ts, timezone.utc)
    put(bytes(ct.__bytearray__()))

    pk = PubKeyV4()
    pk.created = raw
    put(pk.created.isoformat())
    pk.created = bytearray(raw)
    put(pk.created.isoformat())
    pk.created = ts
    put(pk.created.isoformat())

# 9. whole fixture keys / signatures round trip
import glob
for fn in sorted(glob.glob('tests/testdata/keys/*.asc'))[:12] + sorted(glob.glob('tests/testdata/blocks/*.asc')):
    def load():
        if 'keys' in fn or 'key' in os.path.basename(fn):
            k, _ = pgpy.PGPKey.from_file(fn)
            return (str(k.fingerprint), k.created.isoformat(), hashlib.sha256(bytes(k)).hexdigest())
        if 'signature' in fn:
            s = pgpy.PGPSignature.from_file(fn)
            return (s.created.isoformat(), hashlib.sha256(bytes(s)).hexdigest())
        if 'message' in fn or 'cleartext' in fn:
            m = pgpy.PGPMessage.from_file(fn)
            return (hashlib.sha256(bytes(m)).hexdigest(),)
        return None
    put(os.path.basename(fn), attempt(load))

print(h.hexdigest())
