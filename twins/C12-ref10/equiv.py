import os
import sys
import hashlib
import itertools
sys.path.insert(0, os.getcwd())
import warnings
warnings.simplefilter('ignore')
import pgpy  # noqa: E402
from pgpy.packet.fields import String2Key  # noqa: E402
from pgpy.constants import HashAlgorithm, SymmetricKeyAlgorithm, String2KeyType  # noqa: E402

out = hashlib.sha256()


def rec(*items):
    if os.environ.get('EQUIV_DUMP'):
        sys.stderr.write(repr(items) + '\n')
    out.update(repr(items).encode('utf-8') + b'\n')


def attempt(label, fn):
    try:
        r = fn()
    except Exception as e:
        rec(label, 'EXC', type(e).__name__, str(e))
    else:
        if isinstance(r, (bytes, bytearray)):
            r = bytes(r).hex()
        rec(label, 'OK', r)


halgs = [HashAlgorithm.MD5, HashAlgorithm.SHA1, HashAlgorithm.RIPEMD160, HashAlgorithm.SHA224,
         HashAlgorithm.SHA256, HashAlgorithm.SHA384, HashAlgorithm.SHA512]
encs = [SymmetricKeyAlgorithm.CAST5, SymmetricKeyAlgorithm.TripleDES, SymmetricKeyAlgorithm.AES128,
        SymmetricKeyAlgorithm.AES192, SymmetricKeyAlgorithm.AES256, SymmetricKeyAlgorithm.Camellia256,
        SymmetricKeyAlgorithm.Plaintext]
specs = [String2KeyType.Simple, String2KeyType.Salted, String2KeyType.Reserved, String2KeyType.Iterated]
salts = [bytearray(b'\x01\x23\x45\x67\x89\xab\xcd\xef'), bytearray(), bytearray(range(200, 208))]
passes = [b'', 'x', 'correct horse battery staple', u'pässwörd ☃', b'\xff\x00\xfe' * 7,
          'A' * 1023, b'C' * 1016, b'B' * 5000, bytearray(b'abc'), None, 12]
counts = [0, 1, 15, 16, 96, 107, 144]

# count decode for every coded value (+ setter range/type errors)
for c in list(range(256)) + [-1, 256, True]:
    s = String2Key()
    attempt(('count', c), lambda: (setattr(s, 'count', c), s.count, s._count)[1:])
attempt(('count', 'str'), lambda: setattr(String2Key(), 'count', '3'))

# derive_key
for halg, enc, spec, salt in itertools.product(halgs, encs, specs, salts):
    for pw in passes:
        for c in (counts if spec == String2KeyType.Iterated else counts[:1]):
            if len(pw if hasattr(pw, '__len__') else b'') > 1000 and c not in (0, 96):
                continue
            s = String2Key()
            s.usage = 254
            s.halg = halg
            s.encalg = enc
            s.specifier = spec
            s.salt = bytearray(salt)
            s.count = c
            before = bytes(s.__bytearray__())
            attempt(('dk', int(halg), int(enc), int(spec), bytes(salt), repr(pw)[:40], c),
                    lambda: s.derive_key(pw))
            rec('state', before == bytes(s.__bytearray__()), bytes(s.salt), s._count)

# parse / __bytearray__ / __len__ / __bool__ / __copy__
blobs = [
    b'\x00rest', b'\x09\x01\x02', b'', b'\xfe', b'\xff\x09',
    b'\xfe\x09\x00\x02' + bytes(range(16)) + b'tail',
    b'\xfe\x07\x01\x08' + bytes(range(8)) + bytes(range(16)) + b'tail',
    b'\xff\x03\x02\x02' + bytes(range(8)) + bytes(range(8)) + b'tail',
    b'\xfe\x09\x03\x08' + bytes(range(8)) + b'\x60' + bytes(range(16)) + b'tail',
    b'\xfe\x09\x03\x08' + bytes(range(8)) + b'\xff' + bytes(range(5)),
    b'\xfe\x09\x03\x08' + bytes(range(4)),
    b'\xfe\x09\x03', b'\xfe\x09\x04\x08', b'\xfe\x63\x03\x08', b'\xfe\x09\x03\x63',
    b'\xfe\x00\x03\x02' + bytes(range(8)) + b'\x10' + bytes(range(16)),
    b'\xfe\x00\x65\x00GNU\x01more', b'\xff\x00\x65\x00GNU\x02\x04abcdefg', b'\xfe\x00\x65\x00GNU\x02\x20' + bytes(40),
    b'\xfe\x00\x65\x00GNX\x01', b'\xfe\x00\x65\x00GNU', b'\xfe\x00\x65\x00GNU\x07',
]
for blob in blobs:
    for iv in (True, False):
        s = String2Key()
        pkt = bytearray(blob)
        attempt(('parse', blob, iv), lambda: s.parse(pkt, iv) if iv is False else s.parse(pkt))
        rec('left', bytes(pkt))
        attempt(('attrs', blob, iv), lambda: (s.usage, int(s.encalg), int(s.specifier), int(s.halg), bytes(s.salt),
                                              s._count, s.count, None if s.iv is None else bytes(s.iv),
                                              int(s.gnuext), None if s.scserial is None else bytes(s.scserial)))
        attempt(('bytes', blob, iv), lambda: s.__bytearray__())
        attempt(('len', blob, iv), lambda: (len(s), bool(s), s.__nonzero__()))
        attempt(('copy', blob, iv), lambda: s.__copy__().__bytearray__())
        if bool(s):
            attempt(('dk2', blob, iv), lambda: s.derive_key('hunter2'))

# fixture keys: unlock exercises parse + derive_key end to end
for fn, pw in [('tests/testdata/keys/rsa.1.enc.asc', 'QwertyUiop'),
               ('tests/testdata/keys/dsa.1.enc.asc', 'QwertyUiop'),
               ('tests/testdata/keys/rsa.1.enc.asc', 'wrong-pass')]:
    if not os.path.exists(fn):
        rec('missing', fn)
        continue
    key, _ = pgpy.PGPKey.from_file(fn)
    s2k = key._key.keymaterial.s2k
    rec('fixture', fn, bytes(s2k.__bytearray__()), s2k.count)
    attempt(('fixture-dk', fn), lambda: s2k.derive_key(pw))

    def unl():
        with key.unlock(pw):
            return key.is_unlocked
    attempt(('fixture-unlock', fn), unl)

print(out.hexdigest())
