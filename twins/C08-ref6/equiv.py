"""Prints a digest of the observable behaviour of the packet codec on fixed inputs.

Run as:  cd <tree> && /venv/bin/python equiv.py
The digest must be identical on the unchanged and on the refactored tree.
"""
import glob
import hashlib
import os
import sys
import warnings

sys.path.insert(0, os.getcwd())
warnings.simplefilter('ignore')

import pgpy  # noqa: E402
from pgpy.packet import Packet  # noqa: E402
from pgpy.packet.types import Header, Opaque  # noqa: E402
from pgpy.packet.subpackets import Signature as SignatureSP  # noqa: E402
from pgpy.packet.subpackets import UserAttribute as UserAttributeSP  # noqa: E402
from pgpy.types import Header as BaseHeader  # noqa: E402
from pgpy.packet.subpackets.types import Header as SPHeader  # noqa: E402

out = []


def rec(*items):
    out.append(repr(items))


def attrs(obj):
    # public, non-callable attributes that are plain values
    res = []
    for name in sorted(n for n in dir(obj) if not n.startswith('_')):
        try:
            v = getattr(obj, name)
        except Exception as e:  # noqa
            res.append((name, 'EXC', type(e).__name__, str(e)))
            continue
        if callable(v):
            continue
        if isinstance(v, (int, str, bytes, bytearray, bool, type(None), list, tuple, set, frozenset)):
            if isinstance(v, (set, frozenset)):
                v = sorted(repr(i) for i in v)
            if isinstance(v, (list, tuple)) and not all(isinstance(i, (int, str, bytes, bytearray, bool, type(None))) for i in v):
                v = [type(i).__name__ for i in v]
            if isinstance(v, str):
                v = str.__str__(v) if type(v) is str else ''.join(v)
            res.append((name, type(v).__name__, repr(v)))
    return res


def try_parse(label, root, data, trailing=b''):
    buf = bytearray(data) + bytearray(trailing)
    try:
        pkt = root(buf)
    except Exception as e:  # noqa
        rec(label, 'EXC', type(e).__name__, str(e), type(e.__cause__).__name__, len(buf))
        return None
    try:
        ser = bytes(pkt)
    except Exception as e:  # noqa
        ser = ('EXC', type(e).__name__, str(e))
    hdr = pkt.header
    rec(label, type(pkt).__name__, type(hdr).__name__, hdr.length, hdr.llen, getattr(hdr, '_lenfmt', None),
        getattr(hdr, 'version', None), repr(getattr(hdr, 'typeid', None)), len(hdr),
        ser, bytes(buf), attrs(pkt))
    # second pass: fixed point
    if isinstance(ser, bytes):
        buf2 = bytearray(ser) + b'\xAA\xBB'
        try:
            pkt2 = root(buf2)
            rec(label, 'pass2', type(pkt2).__name__, bytes(pkt2) == ser, bytes(buf2))
        except Exception as e:  # noqa
            rec(label, 'pass2', 'EXC', type(e).__name__, str(e))
    return pkt


def new_hdr(tag, n, form):
    t = bytes([0xC0 | tag])
    if form == 1:
        return t + bytes([n])
    if form == 2:
        v = n - 192
        return t + bytes([(v >> 8) + 192, v & 0xFF])
    return t + b'\xff' + n.to_bytes(4, 'big')


def old_hdr(tag, n, lt):
    t = bytes([0x80 | (tag << 2) | lt])
    if lt == 3:
        return t
    return t + n.to_bytes({0: 1, 1: 2, 2: 4}[lt], 'big')


# 1. every fixture packet, alone and with trailing data
for fn in sorted(glob.glob('tests/testdata/packets/*')):
    with open(fn, 'rb') as f:
        data = f.read()
    name = os.path.basename(fn)
    try_parse(name, Packet, data)
    pkt = try_parse(name + '+trail', Packet, data, b'\x01\x02\x03trailing')
    # truncated input
    try_parse(name + '-trunc', Packet, data[:max(1, len(data) // 2)])
    try_parse(name + '-hdronly', Packet, data[:1])
    # mutate and re-serialise
    if pkt is not None:
        try:
            pkt.update_hlen()
            rec(name, 'update_hlen', pkt.header.length, bytes(pkt))
        except Exception as e:  # noqa
            rec(name, 'update_hlen', 'EXC', type(e).__name__, str(e))

# 2. literal packet body under every header encoding
for blen in (0, 6, 100, 191, 192, 193, 700, 8383, 8384, 70000):
    body = b'b' + b'\x03abc' + b'\x00\x00\x00\x01' + bytes((i * 7) & 0xFF for i in range(max(0, blen - 9)))
    body = body[:max(blen, 9)]
    n = len(body)
    forms = []
    if n < 192:
        forms.append(('new1', new_hdr(11, n, 1)))
    if 192 <= n < 8384:
        forms.append(('new2', new_hdr(11, n, 2)))
    forms.append(('new5', new_hdr(11, n, 5)))
    if n < 256:
        forms.append(('old0', old_hdr(11, n, 0)))
    if n < 65536:
        forms.append(('old1', old_hdr(11, n, 1)))
    forms.append(('old2', old_hdr(11, n, 2)))
    forms.append(('old3', old_hdr(11, n, 3)))
    for fname, h in forms:
        try_parse('lit-%d-%s' % (n, fname), Packet, h + body, b'' if fname == 'old3' else b'\x99\x98')

# 3. partial body lengths
body = b'b' + b'\x00' + b'\x00\x00\x00\x02' + bytes((i * 13 + 5) & 0xFF for i in range(1200))
for label, chunks, lastform in (('p512', [9], 1), ('p512-2', [9], 2), ('p1-2-256', [0, 1, 8], 2), ('p1-1-1024', [0, 0, 10], 5),
                                ('p-trunc', [9, 9, 9], 1)):
    data = bytearray([0xC0 | 11])
    pos = 0
    for c in chunks:
        data.append(0xE0 | c)
        data += body[pos:pos + (1 << c)]
        pos += (1 << c)
    rest = body[pos:]
    if lastform == 1:
        rest = rest[:150]
    data += new_hdr(11, len(rest), lastform)[1:] if not (lastform == 2 and len(rest) < 192) else new_hdr(11, len(rest), 5)[1:]
    data += rest
    try_parse(label, Packet, bytes(data), b'\x42\x42')

# 4. unknown tags and unknown versions
for tag in (0, 15, 16, 20, 40, 60, 63):
    try_parse('newtag-%d' % tag, Packet, new_hdr(tag, 5, 1) + b'hello', b'!!')
for tag in (0, 15):
    try_parse('oldtag-%d' % tag, Packet, old_hdr(tag, 5, 0) + b'hello', b'!!')
for tag in (1, 2, 3, 4, 5, 6, 7, 14, 18):
    for ver in (0, 1, 2, 3, 4, 5, 9, 255):
        try_parse('tag%d-v%d' % (tag, ver), Packet, new_hdr(tag, 12, 1) + bytes([ver]) + b'\x00\x01\x02\x03\x04\x05\x06\x07\x08\x09\x0a', b'TT')
try_parse('empty', Packet, b'')
try_parse('one', Packet, b'\xcb')
try_parse('ff-short', Packet, b'\xcb\xff\x00\x00')

# 5. default construction
for cls in (Packet, Opaque, SignatureSP, UserAttributeSP, Header, BaseHeader):
    try:
        o = cls()
        rec('ctor', cls.__name__, type(o).__name__)
    except Exception as e:  # noqa
        rec('ctor', cls.__name__, 'EXC', type(e).__name__, str(e))
for cls in (pgpy.packet.packets.LiteralData, pgpy.packet.packets.SignatureV4, pgpy.packet.packets.UserID,
            pgpy.packet.packets.PubKeyV4, pgpy.packet.packets.Signature):
    try:
        o = cls()
        rec('ctor', cls.__name__, type(o).__name__, type(o.header).__name__, repr(o.header.tag), o.header.length)
    except Exception as e:  # noqa
        rec('ctor', cls.__name__, 'EXC', type(e).__name__, str(e))

# 6. signature subpackets, incl. fingerprint subpackets of every version
fp20 = bytes(range(1, 21))
fp32 = bytes(range(101, 133))
for typ in (0x21, 0x23, 0x21 | 0x80):
    for ver, fp in ((4, fp20), (5, fp32), (4, fp32), (5, fp20), (6, fp32), (3, fp20[:16]), (0, b''), (4, fp20[:7])):
        body = bytes([typ, ver]) + fp
        for lf in (1, 5):
            h = new_hdr(0, len(body), lf)[1:]
            try_parse('sp-%02x-v%d-%d-l%d' % (typ, ver, len(fp), lf), SignatureSP, h + body, b'\x07\x07\x07')
try_parse('sp-21-nover', SignatureSP, b'\x01\x21', b'')
for typ in range(0, 40):
    body = bytes([typ]) + b'\x04\x00\x00\x00\x00\x03\x00\x05abchello'[:16]
    try_parse('sp-type-%d' % typ, SignatureSP, bytes([len(body)]) + body, b'\x55')
for typ in (0, 1, 2, 100):
    body = bytes([typ]) + b'\x10\x00\x01\x01' + bytes(12) + b'JPEGDATA'
    try_parse('uasp-type-%d' % typ, UserAttributeSP, bytes([len(body)]) + body, b'\x55')
    try_parse('uasp2-type-%d' % typ, UserAttributeSP, new_hdr(0, len(body), 5)[1:] + body, b'\x55')

# 7. length codec directly
for raw in (b'\x00', b'\xbf', b'\xc0\x00', b'\xdf\xff', b'\xff\x00\x01\x00\x00', b'\xff\xff\xff\xff\xff', b'\xe0A\x01B',
            b'\xe1AB\xe0C\x00', b'\xe0', b'', b'\xc0', b'\xff\x00', b'\xe1AB', b'\xe1A'):
    for cls in (SPHeader, Header):
        h = cls()
        buf = bytearray(raw) + b'zz'
        try:
            h.length = buf
            rec('len', cls.__name__, raw, h.length, h.llen, bytes(buf))
        except Exception as e:  # noqa
            rec('len', cls.__name__, raw, 'EXC', type(e).__name__, str(e), bytes(buf), h.length)
        h = cls()
        try:
            h.length = bytes(raw)
            rec('lenb', cls.__name__, raw, h.length)
        except Exception as e:  # noqa
            rec('lenb', cls.__name__, raw, 'EXC', type(e).__name__, str(e), h.length)
for raw in (b'', b'\x05', b'\x01\x02', b'\x01\x02\x03\x04', b'\xff\xff\xff\xff\xff'):
    for lt in (0, 1, 2, 3):
        h = Header()
        h._lenfmt = 0
        h.llen = lt
        buf = bytearray(raw) + b'zz'
        try:
            h.length = buf
            rec('oldlen', lt, raw, h.length, h.llen, bytes(buf), bytes(h.__bytearray__()))
        except Exception as e:  # noqa
            rec('oldlen', lt, raw, 'EXC', type(e).__name__, str(e), bytes(buf))
for n in (0, 1, 191, 192, 193, 8383, 8384, 65535, 65536, 2 ** 32 - 1, 2 ** 32, -1):
    for nhf, llen in ((True, 1), (False, 0), (False, 1), (False, 2), (False, 4)):
        try:
            rec('enc', n, nhf, llen, BaseHeader.encode_length(n, nhf, llen))
        except Exception as e:  # noqa
            rec('enc', n, nhf, llen, 'EXC', type(e).__name__, str(e))

# 8. whole keys / messages through the public API
for fn in sorted(glob.glob('tests/testdata/keys/*.asc'))[:12] + ['tests/testdata/pubtest.asc', 'tests/testdata/sectest.asc']:
    try:
        key, _ = pgpy.PGPKey.from_file(fn)
        rec('key', os.path.basename(fn), str(key.fingerprint), hashlib.sha256(bytes(key)).hexdigest())
    except Exception as e:  # noqa
        rec('key', os.path.basename(fn), 'EXC', type(e).__name__, str(e))
for fn in sorted(glob.glob('tests/testdata/messages/*.asc'))[:12]:
    try:
        msg = pgpy.PGPMessage.from_file(fn)
        rec('msg', os.path.basename(fn), hashlib.sha256(bytes(msg)).hexdigest())
    except Exception as e:  # noqa
        rec('msg', os.path.basename(fn), 'EXC', type(e).__name__, str(e))
for fn in sorted(glob.glob('tests/testdata/signatures/*.asc'))[:12]:
    try:
        sig = pgpy.PGPSignature.from_file(fn)
        rec('sig', os.path.basename(fn), hashlib.sha256(bytes(sig)).hexdigest())
    except Exception as e:  # noqa
        rec('sig', os.path.basename(fn), 'EXC', type(e).__name__, str(e))

blob = '\n'.join(out).encode('utf-8', 'backslashreplace')
print('records:', len(out))
print('digest:', hashlib.sha256(blob).hexdigest())
if os.environ.get('EQUIV_DUMP'):
    with open(os.environ['EQUIV_DUMP'], 'wb') as f:
        f.write(blob)
