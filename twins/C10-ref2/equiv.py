"""Digest of the observable behaviour of the ASCII-armor code paths (property C10).

Run as:  cd <tree> && /venv/bin/python equiv.py
Prints the same digest on the unchanged and on the refactored tree.
"""
import glob
import hashlib
import os
import sys
import warnings

sys.path.insert(0, os.getcwd())

import pgpy  # noqa: E402
from pgpy.types import Armorable  # noqa: E402
from pgpy.errors import PGPError  # noqa: E402

H = hashlib.sha256()
NOBS = [0]


def obs(*parts):
    NOBS[0] += 1
    for p in parts:
        if isinstance(p, (bytes, bytearray)):
            H.update(b'B' + bytes(p))
        else:
            H.update(b'S' + repr(p).encode('utf-8'))
        H.update(b'\x00')


def attempt(label, fn):
    with warnings.catch_warnings(record=True) as caught:
        warnings.simplefilter('always')
        try:
            res = fn()
        except Exception as ex:  # noqa
            res = ('EXC', type(ex).__name__, str(ex))
    obs(label, res, sorted((w.category.__name__, str(w.message)) for w in caught))
    return res


def kind(obj):
    if isinstance(obj, tuple):
        obj = obj[0]
    return obj


def describe_unarmored(d):
    out = []
    for k in sorted(d):
        v = d[k]
        if isinstance(v, (bytes, bytearray)):
            v = ('bytes', type(v).__name__, hashlib.sha256(bytes(v)).hexdigest())
        elif isinstance(v, dict):
            v = ('dict', type(v).__name__, list(v.items()))
        out.append((k, v))
    return out


# ---- 1. crc24 on fixed data of many lengths / types ------------------------------------------------
def pattern(n, seed):
    out = bytearray()
    x = seed
    for _ in range(n):
        x = (x * 1103515245 + 12345) & 0x7FFFFFFF
        out.append((x >> 16) & 0xFF)
    return out


for n in list(range(0, 70)) + [95, 96, 97, 143, 144, 145, 1000, 4097]:
    for data in (bytearray(n), bytearray(b'\xff' * n), pattern(n, n + 1)):
        obs('crc', n, Armorable.crc24(data), Armorable.crc24(bytes(data)), Armorable.crc24(list(data)))
attempt('crc-str', lambda: Armorable.crc24('abc'))
attempt('crc-none', lambda: Armorable.crc24(None))

# ---- 2. every armored fixture: unarmor, load, re-armor -------------------------------------------------
CLASSES = (pgpy.PGPKey, pgpy.PGPMessage, pgpy.PGPSignature)
files = sorted(glob.glob('tests/testdata/blocks/*.asc') + glob.glob('tests/testdata/keys/*.asc') +
               glob.glob('tests/testdata/signatures/*.asc') + glob.glob('tests/testdata/messages/*.asc') +
               glob.glob('tests/testdata/*.asc'))

for fn in files:
    with open(fn, 'rb') as f:
        raw = f.read()
    text = raw.decode('latin-1')
    obs('file', fn, Armorable.is_armor(text))
    attempt('unarmor-str ' + fn, lambda: describe_unarmored(Armorable.ascii_unarmor(text)))
    attempt('unarmor-bytes ' + fn, lambda: describe_unarmored(Armorable.ascii_unarmor(raw)))
    attempt('unarmor-crlf ' + fn,
            lambda: describe_unarmored(Armorable.ascii_unarmor(text.replace('\r\n', '\n').replace('\n', '\r\n'))))
    attempt('unarmor-wrapped ' + fn,
            lambda: describe_unarmored(Armorable.ascii_unarmor('leading text\n\n' + text + '\ntrailing text\n')))
    for cls in CLASSES:
        def load_all():
            res = []
            for blob in (text, raw, bytearray(raw)):
                o = kind(cls.from_blob(blob))
                res.append((type(o).__name__, o.magic, list(o.ascii_headers.items()), str(o),
                            hashlib.sha256(bytes(o)).hexdigest()))
            o = kind(cls.from_file(fn))
            res.append((type(o).__name__, o.magic, list(o.ascii_headers.items()), str(o)))
            # binary export loads to the same thing
            o2 = kind(cls.from_blob(bytes(o)))
            res.append((o2.magic, str(o2), bytes(o2) == bytes(o)))
            # custom armor headers are emitted, in insertion order
            o.ascii_headers['Comment'] = 'equivalence check'
            o.ascii_headers['X-Empty'] = ''
            o.ascii_headers['Version'] = 'PGPy test'
            s = str(o)
            res.append(s)
            res.append(max(len(line) for line in s.split('\n')))
            o3 = kind(cls.from_blob(s))
            res.append((list(o3.ascii_headers.items()), str(o3)))
            return res
        attempt('load %s %s' % (cls.__name__, fn), load_all)

# ---- 3. corruption of the body / CRC line of one block -------------------------------------------------
with open('tests/testdata/blocks/rsasignature.asc') as f:
    sigtext = f.read()
lines = sigtext.split('\n')
crc_idx = [i for i, line in enumerate(lines) if line.startswith('=') and len(line) == 5][0]
for pos in range(1, 5):
    for ch in 'A/+z0=':
        mod = list(lines)
        mod[crc_idx] = mod[crc_idx][:pos] + ch + mod[crc_idx][pos + 1:]
        t = '\n'.join(mod)
        attempt('crc-corrupt %d %s' % (pos, ch), lambda: describe_unarmored(Armorable.ascii_unarmor(t)))
        attempt('crc-corrupt-load %d %s' % (pos, ch), lambda: str(pgpy.PGPSignature.from_blob(t)))
body_idx = crc_idx - 1
for pos in range(0, len(lines[body_idx])):
    for ch in 'A=!':
        mod = list(lines)
        mod[body_idx] = mod[body_idx][:pos] + ch + mod[body_idx][pos + 1:]
        t = '\n'.join(mod)
        attempt('body-corrupt %d %s' % (pos, ch), lambda: describe_unarmored(Armorable.ascii_unarmor(t)))
first_body = crc_idx - 2
for pos in (0, 1, 31, 63):
    mod = list(lines)
    mod[first_body] = mod[first_body][:pos] + ('B' if mod[first_body][pos] != 'B' else 'C') + mod[first_body][pos + 1:]
    t = '\n'.join(mod)
    attempt('body2-corrupt %d' % pos, lambda: describe_unarmored(Armorable.ascii_unarmor(t)))
    attempt('body2-corrupt-load %d' % pos, lambda: str(pgpy.PGPSignature.from_blob(t)))

# ---- 4. odd inputs --------------------------------------------------------------------------------------
for label, val in (('empty-str', ''), ('empty-bytes', b''), ('plain', 'hello world\n'), ('nonascii-str', u'h\xe9llo'),
                   ('nonascii-bytes', b'\x99\x01\x02'), ('nonascii-bytearray', bytearray(b'\x99\x01\x02')),
                   ('none', None), ('int', 5),
                   ('no-crc', '-----BEGIN PGP MESSAGE-----\n\nAAAA\n-----END PGP MESSAGE-----\n'),
                   ('mismatch', '-----BEGIN PGP MESSAGE-----\n\nAAAA\n=AAAA\n-----END PGP SIGNATURE-----\n'),
                   ('badpad', '-----BEGIN PGP MESSAGE-----\n\nAAAAA\n=AAAA\n-----END PGP MESSAGE-----\n'),
                   ('hdrs', '-----BEGIN PGP MESSAGE-----\nA: b\nA: c\nB: d: e\n\nAAAA\n=AAAA\n-----END PGP MESSAGE-----\n')):
    attempt('odd-unarmor ' + label, lambda: describe_unarmored(Armorable.ascii_unarmor(val)))
    attempt('odd-is_armor ' + label, lambda: Armorable.is_armor(val))
    for cls in CLASSES:
        attempt('odd-load %s %s' % (cls.__name__, label), lambda: str(kind(cls.from_blob(val))))
for cls in CLASSES:
    attempt('nofile ' + cls.__name__, lambda: cls.from_file('tests/testdata/does-not-exist.asc'))
    attempt('empty-obj ' + cls.__name__, lambda: str(cls()))

print('observations:', NOBS[0])
print('digest:', H.hexdigest())
