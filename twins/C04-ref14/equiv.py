"""Equivalence probe for C04 refactorings: prints a digest of observable decryption behaviour.

Run as:  cd <tree> && /venv/bin/python equiv.py
"""
import copy
import glob
import hashlib
import os
import sys
import warnings

sys.path.insert(0, os.getcwd())

import pgpy  # noqa: E402
from pgpy import PGPKey, PGPMessage  # noqa: E402
from pgpy.constants import SymmetricKeyAlgorithm  # noqa: E402
from pgpy.packet.packets import IntegrityProtectedSKEDataV1, PKESessionKeyV3, SKESessionKeyV4  # noqa: E402
from pgpy.symenc import _decrypt, _encrypt  # noqa: E402

out = []


def rec(label, fn):
    with warnings.catch_warnings(record=True) as w:
        warnings.simplefilter('always')
        try:
            r = fn()
        except BaseException as ex:  # noqa
            r = ('EXC', type(ex).__name__, str(ex))
    # CryptographyDeprecationWarning noise depends on which (random) cipher id a wrong key happens to produce
    out.append((label, repr(r), sorted((x.category.__name__, str(x.message)) for x in w
                                       if x.category.__name__ != 'CryptographyDeprecationWarning')))


def msg_repr(m):
    body = m.message
    if isinstance(body, (bytes, bytearray)):
        body = bytes(body)
    elif not isinstance(body, str) and body is not None:
        body = bytes(body.__bytearray__())
    return (m.type, m.is_encrypted, m.is_signed, sorted(m.encrypters), sorted(m.signers), sorted(m.issuers),
            body, bytes(m))


keys = {}
for kf in sorted(glob.glob('tests/testdata/keys/*.sec.asc')) + ['tests/testdata/keys/targette.sec.rsa.asc']:
    k, _ = PGPKey.from_file(kf)
    keys[os.path.basename(kf)] = k

msgfiles = sorted(glob.glob('tests/testdata/messages/message.*.asc')) + ['tests/testdata/message.enc.twofish.asc']

for mf in msgfiles:
    name = os.path.basename(mf)
    rec(('load', name), lambda: msg_repr(PGPMessage.from_file(mf)))
    try:
        m = PGPMessage.from_file(mf)
    except Exception:
        continue

    # passphrases: right one, wrong ones, odd types
    for pw in ("QwertyUiop", "AsdfGhjkl", "", b"QwertyUiop", None, 12):
        rec(('pw', name, repr(pw)), lambda: msg_repr(PGPMessage.from_file(mf).decrypt(pw)))

    # every secret key (recipient or not)
    for kn, k in keys.items():
        rec(('key', name, kn), lambda: msg_repr(k.decrypt(PGPMessage.from_file(mf))))
        for skid, sk in k.subkeys.items():
            rec(('subkey', name, kn, skid), lambda: msg_repr(sk.decrypt(PGPMessage.from_file(mf))))

    if not m.is_encrypted:
        continue

    # tampering with the encrypted body: bit flips, truncation, extension
    ctlen = len(m._message.ct)
    for pos in sorted({0, 1, 7, 8, 9, 15, 16, 17, 18, ctlen // 2, ctlen - 23, ctlen - 22, ctlen - 21, ctlen - 2, ctlen - 1}):
        if not 0 <= pos < ctlen:
            continue

        def tamper(pos=pos):
            t = PGPMessage.from_file(mf)
            t._message.ct[pos] ^= 0x10
            res = []
            try:
                res.append(msg_repr(t.decrypt("QwertyUiop")))
            except BaseException as ex:  # noqa
                res.append((type(ex).__name__, str(ex)))
            for kn, k in keys.items():
                try:
                    res.append(msg_repr(k.decrypt(t)))
                except BaseException as ex:  # noqa
                    res.append((type(ex).__name__, str(ex)))
            return res
        rec(('flip', name, pos), tamper)

    for cut in (1, 2, 20, 22, 23, ctlen - 1, ctlen):
        def trunc(cut=cut):
            t = PGPMessage.from_file(mf)
            del t._message.ct[len(t._message.ct) - cut:]
            res = []
            try:
                res.append(msg_repr(t.decrypt("QwertyUiop")))
            except BaseException as ex:  # noqa
                res.append((type(ex).__name__, str(ex)))
            for kn, k in keys.items():
                try:
                    res.append(msg_repr(k.decrypt(t)))
                except BaseException as ex:  # noqa
                    res.append((type(ex).__name__, str(ex)))
            return res
        rec(('trunc', name, cut), trunc)

    # tampering with session key packets
    for i, skp in enumerate(m._sessionkeys):
        def tsk(i=i):
            t = PGPMessage.from_file(mf)
            p = t._sessionkeys[i]
            if isinstance(p, SKESessionKeyV4):
                if len(p.ct):
                    p.ct[0] ^= 1
                else:
                    p.s2k.salt[0] ^= 1
            else:
                p2 = copy.copy(p)
                raw = p2.ct.__bytearray__()
                raw[-1] ^= 1
                p.ct.parse(raw)
            res = [bytes(p.__bytearray__())]
            try:
                res.append(msg_repr(t.decrypt("QwertyUiop")))
            except BaseException as ex:  # noqa
                res.append((type(ex).__name__, str(ex)))
            for kn, k in keys.items():
                try:
                    res.append(msg_repr(k.decrypt(t)))
                except BaseException as ex:  # noqa
                    res.append((type(ex).__name__, str(ex)))
            return res
        rec(('tamper-sk', name, i), tsk)
        rec(('sk-copy', name, i), lambda: bytes(copy.copy(skp).__bytearray__()))
        rec(('sk-attrs', name, i), lambda: sorted((k, repr(type(v))) for k, v in vars(skp).items()))

# round trips through every fixture key (encryption is randomised, so only the decrypted side is digested)
for kn, k in keys.items():
    for calg in (SymmetricKeyAlgorithm.AES256, SymmetricKeyAlgorithm.CAST5, SymmetricKeyAlgorithm.Camellia192):
        def rt():
            m = PGPMessage.new("round trip plaintext " * 7, compression=pgpy.constants.CompressionAlgorithm.Uncompressed)
            e = k.pubkey.encrypt(m, cipher=calg, sessionkey=bytes(range(calg.key_size // 8)))
            e = PGPMessage.from_blob(bytes(e))
            d = k.decrypt(e)
            wrong = []
            for on, ok in keys.items():
                if ok is k:
                    continue
                try:
                    ok.decrypt(e)
                    wrong.append((on, 'decrypted'))
                except BaseException as ex:  # noqa
                    wrong.append((on, type(ex).__name__, str(ex)))
            # flip a bit in the body: must fail
            e._message.ct[len(e._message.ct) // 2] ^= 0x01
            try:
                k.decrypt(e)
                wrong.append('tampered decrypted')
            except BaseException as ex:  # noqa
                wrong.append((type(ex).__name__, str(ex)))
            return (d.message, d.type, wrong)
        rec(('roundtrip', kn, calg.name), rt)

for calg in (SymmetricKeyAlgorithm.AES128, SymmetricKeyAlgorithm.TripleDES, SymmetricKeyAlgorithm.Blowfish):
    def prt():
        m = PGPMessage.new("passphrase round trip " * 5, compression=pgpy.constants.CompressionAlgorithm.Uncompressed)
        sk = bytes(range(calg.key_size // 8))
        e = m.encrypt("first", cipher=calg, sessionkey=sk).encrypt("second", cipher=calg, sessionkey=sk)
        e = PGPMessage.from_blob(bytes(e))
        res = []
        for pw in ("first", "second", "third"):
            try:
                res.append(e.decrypt(pw).message)
            except BaseException as ex:  # noqa
                res.append((type(ex).__name__, str(ex)))
        return res
    rec(('pw-roundtrip', calg.name), prt)

# raw CFB helpers with fixed inputs
fixed_pt = bytes(range(256)) * 3 + b'tail'
for alg in SymmetricKeyAlgorithm:
    def kbytes():
        return bytes(range(1, 1 + alg.key_size // 8))
    for iv in (None, 'bs'):
        def enc():
            _iv = None if iv is None else bytes(range(100, 100 + alg.block_size // 8))
            r = _encrypt(fixed_pt, kbytes(), alg, _iv)
            return (type(r).__name__, bytes(r))

        def dec():
            _iv = None if iv is None else bytes(range(100, 100 + alg.block_size // 8))
            r = _decrypt(fixed_pt, kbytes(), alg, _iv)
            return (type(r).__name__, bytes(r))
        rec(('_encrypt', alg.name, iv), enc)
        rec(('_decrypt', alg.name, iv), dec)
        rec(('_decrypt-empty', alg.name, iv), lambda: bytes(_decrypt(b'', kbytes(), alg)))
    rec(('_decrypt-badkey', alg.name), lambda: bytes(_decrypt(fixed_pt, b'\x01\x02\x03', alg)))
    rec(('algprops', alg.name), lambda: (alg.key_size, alg.block_size, alg.is_supported, alg.is_insecure, repr(alg.cipher)))

    # SEIPD packet on its own: deterministic decrypt of fixed (garbage) ciphertext and of a crafted valid one
    def seipd_garbage():
        p = IntegrityProtectedSKEDataV1()
        p.ct = bytearray(fixed_pt)
        return bytes(p.decrypt(kbytes(), alg))
    rec(('seipd-garbage', alg.name), seipd_garbage)

    def seipd_valid():
        bs = alg.block_size // 8
        pre = bytes(range(50, 50 + bs))
        body = pre + pre[-2:] + b'hello world, this is the plaintext'
        body += b'\xd3\x14' + hashlib.sha1(body + b'\xd3\x14').digest()
        p = IntegrityProtectedSKEDataV1()
        p.ct = _encrypt(body, kbytes(), alg) if not alg.is_insecure else bytearray(body)
        p.update_hlen()
        r = p.decrypt(kbytes(), alg)
        return (type(r).__name__, bytes(r), bytes(p.__bytearray__()), bytes(copy.copy(p).ct))
    rec(('seipd-valid', alg.name), seipd_valid)

# PKESK object surface
for alg in (0, 1, 2, 3, 16, 17, 18, 19, 20, 21, 22):
    def pk():
        p = PKESessionKeyV3()
        p.pkalg = alg
        p.encrypter = bytearray(b'\x01\x23\x45\x67\x89\xab\xcd\xef')
        return (p.encrypter, repr(p.pkalg), type(p.ct).__name__, sorted(vars(p)))
    rec(('pkesk-new', alg), pk)
rec(('pkesk-badalg', 99), lambda: setattr(PKESessionKeyV3(), 'pkalg', 99))
rec(('pkesk-badenc', 'str'), lambda: setattr(PKESessionKeyV3(), 'encrypter', 'abc'))

blob = repr(out).encode('utf-8')
print(len(out), hashlib.sha256(blob).hexdigest())
if '-v' in sys.argv:
    for o in out:
        print(o[0], hashlib.sha256(repr(o[1:]).encode()).hexdigest()[:12], o[1][:100])
