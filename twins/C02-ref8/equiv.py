import os
import sys
sys.path.insert(0, os.getcwd())

import glob
import hashlib
import re
import warnings
from datetime import datetime, timedelta, timezone

import pgpy
from pgpy import PGPKey, PGPMessage, PGPSignature, PGPUID
from pgpy.constants import (HashAlgorithm, KeyFlags, PubKeyAlgorithm, RevocationReason,
                            SignatureType, SymmetricKeyAlgorithm, CompressionAlgorithm)
from pgpy.errors import PGPError
from pgpy.packet.fields import DSASignature, ECDSASignature, EdDSASignature, RSASignature

OUT = []
T0 = datetime(2020, 1, 2, 3, 4, 5, tzinfo=timezone.utc)
DETERMINISTIC = {PubKeyAlgorithm.RSAEncryptOrSign, PubKeyAlgorithm.EdDSA}


def rec(label, value):
    if isinstance(value, (bytes, bytearray)):
        value = type(value).__name__ + ':' + bytes(value).hex()
    OUT.append('{}={}'.format(label, value))


def attempt(label, fn):
    with warnings.catch_warnings(record=True) as w:
        warnings.simplefilter('always')
        try:
            r = fn()
        except Exception as e:
            rec(label + '!exc', '{}:{}'.format(type(e).__name__, e))
            r = None
        rec(label + '!warn', sorted(re.sub(r' at 0x[0-9A-Fa-f]+', '', '{}:{}'.format(x.category.__name__, x.message)) for x in w))
    return r


def load(path):
    with warnings.catch_warnings():
        warnings.simplefilter('ignore')
        k, _ = PGPKey.from_file(path)
    return k


def describe(label, sig, subject, pub, verify_subject=None):
    if sig is None:
        return
    rec(label + '.type', sig.type)
    rec(label + '.halg', sig.hash_algorithm)
    rec(label + '.hashdata', hashlib.sha256(sig.hashdata(subject)).hexdigest())
    rec(label + '.hash2', sig.hash2)
    rec(label + '.hashed_sp', bytes(sig._signature.subpackets.__hashbytearray__()))
    rec(label + '.unhashed_sp', bytes(sig._signature.subpackets.__unhashbytearray__()))
    blob = bytes(sig)
    if sig.key_algorithm in DETERMINISTIC:
        rec(label + '.hlen', sig._signature.header.length)
        rec(label + '.bytes', hashlib.sha256(blob).hexdigest())
        rec(label + '.canonical', type(sig._signature.canonical_bytes()).__name__ + hashlib.sha256(sig._signature.canonical_bytes()).hexdigest())
    else:
        rec(label + '.len_ok', len(blob) > 20)
        rec(label + '.canonical_type', type(sig._signature.canonical_bytes()).__name__)
    again = PGPSignature.from_blob(blob)
    rec(label + '.roundtrip', bytes(again) == blob)
    rec(label + '.rt_hashdata', again.hashdata(subject) == sig.hashdata(subject))
    vs = subject if verify_subject is None else verify_subject
    if vs is not None:
        for s in (sig, again):
            v = attempt(label + '.verify', lambda: pub.verify(vs, s))
            if v is not None:
                rec(label + '.verified', bool(v))


def main():
    keys = {}
    for name in ('rsa.1', 'dsa.1', 'ecc.1', 'ecc.2'):
        keys[name] = (load('tests/testdata/keys/{}.sec.asc'.format(name)), load('tests/testdata/keys/{}.pub.asc'.format(name)))
    targette = load('tests/testdata/keys/targette.pub.rsa.asc')

    subjects = [b'', b'\x00\xff binary \r\n data\n', 'text with\nunix\r\ndos\rmac\n', u'unicodé € line\n', bytearray(b'ba\n')]
    for name, (sec, pub) in sorted(keys.items()):
        halgs = [None, HashAlgorithm.SHA512, HashAlgorithm.SHA1, HashAlgorithm.SHA224]
        for i, subj in enumerate(subjects):
            for h in halgs[:2] if i else halgs:
                label = 'sign.{}.{}.{}'.format(name, i, h)
                sig = attempt(label, lambda: sec.sign(subj, created=T0, hash=h))
                describe(label, sig, subj, pub)
        # cleartext
        msg = PGPMessage.new('clear\ntext  \r\nmessage \n- dash\n', cleartext=True)
        label = 'clear.' + name
        sig = attempt(label, lambda: sec.sign(msg, created=T0))
        if sig is not None:
            describe(label, sig, msg._signed_data, pub)
        # timestamp / standalone
        label = 'ts.' + name
        sig = attempt(label, lambda: sec.sign(None, created=T0))
        describe(label, sig, None, pub)
        label = 'standalone.' + name
        sig = attempt(label, lambda: sec.sign(None, created=T0, notation={'a@b': 'c'}))
        describe(label, sig, None, pub)
        # options
        optsets = [
            dict(expires=timedelta(days=3), notation={'n1@example.com': 'v1', 'n2@example.com': bytearray(b'\x01\x02')},
                 policy_uri='https://example.com/policy', revocable=False),
            dict(expires=datetime(2030, 1, 1, tzinfo=timezone.utc), include_issuer_fingerprint=False),
            dict(intended_recipients=[pub, targette, targette.fingerprint, 'junk', None]),
            dict(user=str(sec.userids[0].name), revocable=True, notation={}),
            dict(user='nobody-like-this'),
            dict(intended_recipients=[], policy_uri='', expires=timedelta(0)),
        ]
        for j, opts in enumerate(optsets):
            label = 'opts.{}.{}'.format(name, j)
            sig = attempt(label, lambda: sec.sign(b'option subject', created=T0, **opts))
            describe(label, sig, b'option subject', pub)
        # certifications
        uid = pub.userids[0]
        for level in (SignatureType.Generic_Cert, SignatureType.Persona_Cert, SignatureType.Casual_Cert, SignatureType.Positive_Cert):
            label = 'cert.{}.{}'.format(name, int(level))
            sig = attempt(label, lambda: sec.certify(uid, level, created=T0, usage={KeyFlags.Sign, KeyFlags.Certify},
                                                     hashes=[HashAlgorithm.SHA384, HashAlgorithm.SHA256],
                                                     ciphers=[SymmetricKeyAlgorithm.AES256],
                                                     compression=[CompressionAlgorithm.ZLIB], primary=True,
                                                     key_expiration=timedelta(days=400), keyserver='hkp://example.com',
                                                     exportable=True))
            describe(label, sig, uid, pub)
        # third-party certification of targette's uid and key
        tuid = targette.userids[0]
        label = 'cert3.' + name
        sig = attempt(label, lambda: sec.certify(tuid, SignatureType.Casual_Cert, created=T0, trust=(1, 60), regex='.*', exportable=False))
        describe(label, sig, tuid, pub)
        label = 'direct.' + name
        sig = attempt(label, lambda: sec.certify(targette, created=T0))
        describe(label, sig, targette, pub)
        label = 'directself.' + name
        sig = attempt(label, lambda: sec.certify(pub, created=T0))
        describe(label, sig, pub, pub)
        # a fresh uid and a user attribute
        nuid = PGPUID.new('Néw Usér', comment='c', email='new@example.com')
        label = 'newuid.' + name
        sig = attempt(label, lambda: sec.certify(nuid, created=T0))
        if sig is not None:
            rec(label + '.hashdata', hashlib.sha256(sig.hashdata(nuid)).hexdigest())
        with open('tests/testdata/simple.jpg', 'rb') as f:
            photo = PGPUID.new(bytearray(f.read()))
        label = 'photo.' + name
        sig = attempt(label, lambda: sec.certify(photo, created=T0))
        if sig is not None:
            rec(label + '.hashdata', hashlib.sha256(sig.hashdata(photo)).hexdigest())
            rec(label + '.hash2', sig.hash2)
        # revocations
        label = 'revkey.' + name
        sig = attempt(label, lambda: sec.revoke(pub, created=T0, reason=RevocationReason.Retired, comment='bye'))
        describe(label, sig, pub, pub)
        label = 'revuid.' + name
        sig = attempt(label, lambda: sec.revoke(uid, created=T0))
        describe(label, sig, uid, pub)
        for k, (skid, sub) in enumerate(sorted(pub.subkeys.items())):
            label = 'revsub.{}.{}'.format(name, k)
            sig = attempt(label, lambda: sec.revoke(sub, created=T0, reason=RevocationReason.Superseded, comment=''))
            describe(label, sig, sub, pub)
            label = 'bind.{}.{}'.format(name, k)
            ssub = sec.subkeys[skid]
            sig = attempt(label, lambda: sec.bind(ssub, created=T0, crosssign=False))
            describe(label, sig, sub, pub)
            if ssub.key_algorithm in (PubKeyAlgorithm.RSAEncryptOrSign, PubKeyAlgorithm.DSA):
                label = 'subsign.{}.{}'.format(name, k)
                sig = attempt(label, lambda: ssub.sign(b'by subkey', created=T0))
                describe(label, sig, b'by subkey', pub)
        label = 'revoker.' + name
        sig = attempt(label, lambda: sec.revoker(targette, created=T0, sensitive=True))
        describe(label, sig, pub, pub)

    # fixture signatures
    for sigfile in sorted(glob.glob('tests/testdata/signatures/*.sig.asc')):
        base = sigfile[:-len('.sig.asc')]
        if not os.path.exists(base + '.subj'):
            continue
        sig = PGPSignature.from_file(sigfile)
        key = load(base + '.key.asc')
        with open(base + '.subj', 'rb') as f:
            subj = f.read()
        label = 'fixture.' + os.path.basename(base)
        rec(label + '.hashdata', hashlib.sha256(sig.hashdata(subj)).hexdigest())
        rec(label + '.canonical', bytes(sig._signature.canonical_bytes()))
        v = attempt(label, lambda: key.verify(subj, sig))
        rec(label + '.verified', bool(v))

    # self-signatures and revocations already on fixture keys
    for path in sorted(glob.glob('tests/testdata/keys/*.pub.asc')):
        key = load(path)
        label = 'selfsig.' + os.path.basename(path)
        for s in key._signatures:
            rec(label + '.keysig', hashlib.sha256(s.hashdata(key)).hexdigest())
            rec(label + '.canon', hashlib.sha256(s._signature.canonical_bytes()).hexdigest())
        for u in key.userids:
            for s in u._signatures:
                rec(label + '.uid', hashlib.sha256(s.hashdata(u)).hexdigest())
                rec(label + '.canon', hashlib.sha256(s._signature.canonical_bytes()).hexdigest())
        for sub in key.subkeys.values():
            for s in sub._signatures:
                rec(label + '.sub', hashlib.sha256(s.hashdata(sub)).hexdigest())
        v = attempt(label, lambda: key.verify(key))
        rec(label + '.verified', bool(v))

    # from_signer on fixed encodings
    def der_int(n):
        b = n.to_bytes(max(1, (n.bit_length() + 8) // 8), 'big')
        ln = len(b)
        if ln < 128:
            return b'\x02' + bytes([ln]) + b
        lb = ln.to_bytes((ln.bit_length() + 7) // 8, 'big')
        return b'\x02' + bytes([0x80 | len(lb)]) + lb + b

    def der_seq(*ints):
        body = b''.join(der_int(i) for i in ints)
        ln = len(body)
        if ln < 128:
            return b'\x30' + bytes([ln]) + body
        lb = ln.to_bytes((ln.bit_length() + 7) // 8, 'big')
        return b'\x30' + bytes([0x80 | len(lb)]) + lb + body

    cases = [(1, 2), (0, 0), (2 ** 159 + 12345, 2 ** 160 - 1), (2 ** 255 + 7, 2 ** 256 - 1), (2 ** 1100 + 3, 2 ** 2047 + 5), (2 ** 1016, 1)]
    for n, (r, s) in enumerate(cases):
        for cls in (DSASignature, ECDSASignature):
            for conv in (bytes, bytearray):
                label = 'from_signer.{}.{}.{}'.format(cls.__name__, n, conv.__name__)
                o = cls()
                arg = conv(der_seq(r, s))
                attempt(label, lambda: o.from_signer(arg))
                rec(label + '.rs', (int(o.r), int(o.s), type(o.r).__name__))
                rec(label + '.bytes', bytes(o.__bytearray__()))
                rec(label + '.sig', bytes(o.__sig__()))
                rec(label + '.arg_after', bytes(arg))
    for bad in (b'', b'\x31\x03\x02\x01\x01', b'\x30', b'\x30\x03\x04\x01\x01', b'\x30\x06\x02\x01\x01', bytearray(b'\x30\x81'), b'\x30\x06\x02\x01\x05\x02\x05\x01'):
        label = 'from_signer.bad.{}'.format(bytes(bad).hex())
        o = DSASignature()
        attempt(label, lambda: o.from_signer(bad))
        rec(label + '.rs', (int(o.r), int(o.s)))
    for raw in (b'', b'\x01', b'\x00' * 64, bytes(range(64)), bytes(range(1, 65)), b'\xff' * 63, bytearray(range(10, 74)), b'\x01\x02'):
        label = 'from_signer.eddsa.{}'.format(hashlib.sha256(bytes(raw)).hexdigest()[:8])
        o = EdDSASignature()
        attempt(label, lambda: o.from_signer(raw))
        rec(label + '.rs', (int(o.r), int(o.s)))
        rec(label + '.bytes', bytes(o.__bytearray__()))
        label = 'from_signer.rsa.{}'.format(hashlib.sha256(bytes(raw)).hexdigest()[:8])
        o = RSASignature()
        attempt(label, lambda: o.from_signer(raw))
        rec(label + '.v', int(o.md_mod_n))
        rec(label + '.bytes', bytes(o.__bytearray__()))
        rec(label + '.sig', bytes(o.__sig__()))

    text = '\n'.join(OUT)
    print(len(OUT), hashlib.sha256(text.encode('utf-8')).hexdigest())
    if os.environ.get('EQUIV_DUMP'):
        with open(os.environ['EQUIV_DUMP'], 'w') as f:
            f.write(text)


main()
