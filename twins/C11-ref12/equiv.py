"""Equivalence probe for the cleartext signature framework (property C11).

Run as:  cd <tree> && /venv/bin/python equiv.py
Prints one digest; it must be the same on the unchanged and on the refactored tree.
"""
import hashlib
import os
import sys
import warnings

sys.path.insert(0, os.getcwd())

import pgpy  # noqa: E402
from datetime import datetime, timezone  # noqa: E402
from pgpy import PGPKey, PGPMessage, PGPSignature  # noqa: E402
from pgpy.constants import HashAlgorithm, SignatureType  # noqa: E402
from pgpy.types import Armorable  # noqa: E402

warnings.simplefilter('ignore')

out = []


def rec(label, value):
    out.append('{}={!r}'.format(label, value))


def attempt(label, fn, *args, **kwargs):
    try:
        rec(label, fn(*args, **kwargs))
    except Exception as e:  # noqa
        rec(label, (type(e).__name__, str(e)))


TEXTS = [
    u'',
    u'\n',
    u'one line',
    u'one line\n',
    u'-',
    u'- ',
    u'- - -',
    u'-leading dash\n- dash space\n-- two\nmiddle - dash\n',
    u'From me\n-----BEGIN PGP SIGNATURE-----\n-----END PGP SIGNATURE-----\n',
    u'trailing blanks  \t \nsecond\t\n   \n\nend  ',
    u'crlf line\r\n-dash crlf\r\nlast\r\n',
    u'lone cr\rnext\r-dash\r',
    u'non-ascii é中\U0001F600\n- é\n',
    u'x' * 5000 + u'\n-' + u'y' * 3000,
    u'\n\n-\n\n',
]

# 1. the two static helpers, including the error cases
for i, t in enumerate(TEXTS):
    e = PGPMessage.dash_escape(t)
    rec('esc%d' % i, e)
    rec('unesc%d' % i, PGPMessage.dash_unescape(t))
    rec('rt%d' % i, PGPMessage.dash_unescape(e) == t)
    rec('esc_type%d' % i, type(e).__name__)
for bad in (None, b'- bytes', bytearray(b'-x'), 5, ['-']):
    attempt('esc_bad_%s' % type(bad).__name__, PGPMessage.dash_escape, bad)
    attempt('unesc_bad_%s' % type(bad).__name__, PGPMessage.dash_unescape, bad)


class MyStr(str):
    pass


for s in (MyStr('plain'), MyStr('-x\n- y')):
    rec('sub_esc', (type(PGPMessage.dash_escape(s)).__name__, PGPMessage.dash_escape(s)))
    rec('sub_unesc', (type(PGPMessage.dash_unescape(s)).__name__, PGPMessage.dash_unescape(s)))

# 2. hashdata of a text signature, on str / bytes / bytearray subjects and error cases
when = datetime(2020, 1, 2, 3, 4, 5, tzinfo=timezone.utc)
sec, _ = PGPKey.from_file('tests/testdata/keys/rsa.1.sec.asc')
pub, _ = PGPKey.from_file('tests/testdata/keys/rsa.1.pub.asc')
for st in (SignatureType.CanonicalDocument, SignatureType.BinaryDocument):
    sig = PGPSignature.new(st, sec.key_algorithm, HashAlgorithm.SHA256, sec.fingerprint.keyid, created=when)
    for i, t in enumerate(TEXTS):
        rec('hd_%s_%d' % (st.name, i), hashlib.sha256(bytes(sig.hashdata(t))).hexdigest())
        rec('hdb_%s_%d' % (st.name, i), hashlib.sha256(bytes(sig.hashdata(t.encode('utf-8')))).hexdigest())
        rec('hdba_%s_%d' % (st.name, i), hashlib.sha256(bytes(sig.hashdata(bytearray(t.encode('utf-8'))))).hexdigest())
    for bad in (None, 5, ['a']):
        attempt('hd_bad_%s_%s' % (st.name, type(bad).__name__), sig.hashdata, bad)

# 3. sign / write / read back / verify (RSA PKCS#1 v1.5 is deterministic; fixed creation time)
for i, t in enumerate(TEXTS):
    for halgs in ((HashAlgorithm.SHA256,), (HashAlgorithm.SHA512, HashAlgorithm.SHA1), ()):
        msg = PGPMessage.new(t, cleartext=True)
        for h in halgs:
            msg |= sec.sign(msg, hash=h, created=when)
        label = 'ct%d_%s' % (i, '+'.join(h.name for h in halgs))
        s = str(msg)
        rec(label + '_str', hashlib.sha256(s.encode('utf-8')).hexdigest())
        rec(label + '_msg', msg.message)
        rec(label + '_type', msg.type)
        rec(label + '_bytes', hashlib.sha256(bytes(msg)).hexdigest())
        if halgs:
            try:
                back = PGPMessage.from_blob(s)
            except Exception as e:  # noqa  (non-latin-1 text given as str: pre-existing limitation)
                rec(label + '_back_exc', (type(e).__name__, str(e)))
                try:
                    back = PGPMessage.from_blob(s.encode('utf-8'))
                except Exception as e2:  # noqa
                    rec(label + '_back_exc2', (type(e2).__name__, str(e2)))
                    continue
            rec(label + '_back_msg', back.message)
            rec(label + '_back_eq', back.message == t)
            rec(label + '_back_str', str(back) == s)
            rec(label + '_back_sigs', [(x.hash_algorithm.name, x.type.name, x.signer, bytes(x).hex()) for x in back.signatures])
            rec(label + '_back_hdrs', list(back.ascii_headers.items()))
            attempt(label + '_verify', lambda m=msg: bool(pub.verify(m)))
            attempt(label + '_back_verify', lambda m=back: bool(pub.verify(m)))
            attempt(label + '_unarmor', lambda s=s: (lambda un: (un['magic'], un.get('hashes'), un.get('cleartext'), un['headers'] and list(un['headers'].items()), un['crc'], bytes(un['body']).hex()))(Armorable.ascii_unarmor(s)))
        else:
            attempt(label + '_back', PGPMessage.from_blob, s)

# 4. fixtures produced by GnuPG
for fn in ('cleartext.signed.asc', 'cleartext.dashesc.signed.asc', 'cleartext.oneline.signed.asc', 'cleartext.empty.signed.asc'):
    p = os.path.join('tests/testdata/messages', fn)
    m = PGPMessage.from_file(p)
    rec(fn + '_msg', m.message)
    rec(fn + '_type', m.type)
    rec(fn + '_str', str(m))
    rec(fn + '_sigs', [(x.hash_algorithm.name, x.type.name, x.signer, bytes(x).hex()) for x in m.signatures])
    rec(fn + '_signers', sorted(m.signers))
    rec(fn + '_flags', (m.is_signed, m.is_encrypted, m.is_compressed, m.is_sensitive, m.filename))
    rec(fn + '_rt', str(PGPMessage.from_blob(str(m))) == str(m))
    import copy
    c = copy.copy(m)
    rec(fn + '_copy', (str(c) == str(m), c.message, c is not m))
for fn in ('cleartext.asc', 'cleartext.twosigs.asc'):
    p = os.path.join('tests/testdata/blocks', fn)
    m = PGPMessage.from_file(p)
    rec(fn + '_str', str(m))
    rec(fn + '_msg', m.message)
    rec(fn + '_sigs', [(x.hash_algorithm.name, x.signer, bytes(x).hex()) for x in m.signatures])

# 5. a detached signature block fed to PGPMessage (error path of the cleartext branch)
attempt('detached_as_msg', PGPMessage.from_file, 'tests/testdata/blocks/rsasignature.asc')
attempt('bad_magic', PGPMessage.from_file, 'tests/testdata/keys/rsa.1.pub.asc')

blob = '\n'.join(out).encode('utf-8', 'backslashreplace')
print(len(out), hashlib.sha256(blob).hexdigest())
