"""Digest of observable String2Key behaviour (derive_key / count / parse / serialise / copy)."""
import os
import sys
sys.path.insert(0, os.getcwd())

import copy
import hashlib
import pickle
import warnings

import pgpy
from pgpy.constants import HashAlgorithm, String2KeyType, SymmetricKeyAlgorithm
from pgpy.packet.fields import String2Key

warnings.simplefilter('ignore')
out = hashlib.sha256()


def rec(*items):
    out.update(repr(items).encode('utf-8') + b'\n')


def attempt(fn):
    try:
        return ('ok', fn())
    except Exception as e:  # same type and message expected on both trees
        return ('exc', type(e).__name__, str(e))


HALGS = [HashAlgorithm.MD5, HashAlgorithm.SHA1, HashAlgorithm.RIPEMD160, HashAlgorithm.SHA256,
         HashAlgorithm.SHA384, HashAlgorithm.SHA512, HashAlgorithm.SHA224]
CIPHERS = [SymmetricKeyAlgorithm.TripleDES, SymmetricKeyAlgorithm.CAST5,
           SymmetricKeyAlgorithm.AES192, SymmetricKeyAlgorithm.AES256]
PASSES = [b'', '', b'a', 'hunter2', u'pässwörd ☃', b'\x00\xff\xfe raw', 'x' * 70, b'y' * 5000,
          bytearray(b'ba'), None, 5]
SALTS = [bytes(bytearray(range(8))), b'\xff' * 8, b'']
COUNTS = [0, 1, 15, 16, 96, 130]

# coded count decoding, all 256 values, plus setter range check
s = String2Key()
for c in range(256):
    s.count = c
    rec('count', c, s._count, s.count)
for bad in (-1, 256, 1000):
    rec('badcount', bad, attempt(lambda: setattr(s, 'count', bad)))
rec('badcount-type', attempt(lambda: setattr(s, 'count', 'x')))

# derivation
for spec in (String2KeyType.Simple, String2KeyType.Salted, String2KeyType.Iterated):
    for halg in HALGS:
        for enc in CIPHERS:
            for salt in SALTS:
                for c in (COUNTS if spec == String2KeyType.Iterated else [0]):
                    k = String2Key()
                    k.usage = 254
                    k.specifier = spec
                    k.halg = halg
                    k.encalg = enc
                    k.salt = bytearray(salt)
                    k.count = c
                    for pw in PASSES:
                        rec('dk', int(spec), int(halg), int(enc), salt, c, repr(pw)[:20], attempt(lambda: k.derive_key(pw)))
                    rec('state', sorted(k.__dict__.items(), key=lambda kv: kv[0]).__repr__())

# the largest coded counts, on a handful of combinations only (65 MB of hash input for c=255)
for halg, enc, c in [(HashAlgorithm.SHA1, SymmetricKeyAlgorithm.AES256, 200), (HashAlgorithm.MD5, SymmetricKeyAlgorithm.AES256, 255),
                     (HashAlgorithm.SHA256, SymmetricKeyAlgorithm.CAST5, 255)]:
    k = String2Key()
    k.usage = 254
    k.specifier = String2KeyType.Iterated
    k.halg = halg
    k.encalg = enc
    k.salt = bytearray(b'NaClNaCl')
    k.count = c
    for pw in ('hunter2', b'y' * 5000):
        rec('dk-big', int(halg), int(enc), c, attempt(lambda: k.derive_key(pw)))

# plaintext cipher (key_size 0) and unknown hash
k = String2Key()
k.usage = 255
rec('plain', attempt(lambda: k.derive_key('abc')))
rec('sig', attempt(lambda: k.derive_key()), attempt(lambda: k.derive_key('a', 'b')))

# parse / serialise / copy / pickle
WIRES = [
    b'\x00',
    b'\xfe\x09\x00\x08' + b'I' * 16,
    b'\xfe\x07\x01\x02' + b'saltsalt' + b'I' * 16,
    b'\xfe\x09\x03\x08' + b'saltsalt' + b'\x60' + b'I' * 16,
    b'\xff\x03\x03\x02' + b'SALTSALT' + b'\xff' + b'J' * 8,
    b'\xfe\x00\x65\x00GNU\x01',
    b'\xfe\x00\x65\x00GNU\x02\x04abcd',
    b'\xfe\x09\x03\x08' + b'salt',
    b'\xfe',
    b'',
    b'\xfe\x09\x03',
    b'\xfe\x09\x07\x08',
]
for w in WIRES:
    for iv in (True, False):
        k = String2Key()
        buf = bytearray(w)
        r = attempt(lambda: k.parse(buf, iv=iv) if not iv else k.parse(buf))
        rec('parse', w, iv, r, bytes(buf))
        rec('ser', attempt(lambda: bytes(k.__bytearray__())), attempt(lambda: len(k)), bool(k))
        rec('dict', sorted(k.__dict__.items(), key=lambda kv: kv[0]).__repr__())
        c2 = attempt(lambda: copy.copy(k))
        if c2[0] == 'ok':
            rec('copy', sorted(c2[1].__dict__.items(), key=lambda kv: kv[0]).__repr__(), bytes(c2[1].__bytearray__()))
        else:
            rec('copy', c2)
        rec('pickle', attempt(lambda: pickle.dumps(k, 2)))
        rec('dk-parsed', attempt(lambda: k.derive_key('correct horse')))

# end-to-end: unlock a passphrase-protected fixture key and decrypt passphrase-encrypted fixture messages
import glob
for kf in sorted(glob.glob('tests/testdata/keys/*.enc.asc')):
    key, _ = pgpy.PGPKey.from_file(kf)
    for pw in ('QwertyUiop', 'wrong'):
        def unlock():
            with key.unlock(pw):
                return [bytes(key._key.keymaterial.__bytearray__())] + \
                       [bytes(sk._key.keymaterial.__bytearray__()) for sk in key.subkeys.values()]
        rec('unlock', kf, pw, attempt(unlock))
for mf in sorted(glob.glob('tests/testdata/messages/message*.pass*.asc')):
    msg = pgpy.PGPMessage.from_file(mf)
    for pw in ('QwertyUiop', 'wrong'):
        rec('msgdec', mf, pw, attempt(lambda: msg.decrypt(pw).message))

print(out.hexdigest())
