import os
import sys
import copy
import glob
import pickle
import hashlib
import warnings

sys.path.insert(0, os.getcwd())

import pgpy  # noqa: E402
from datetime import datetime, timezone, timedelta  # noqa: E402
from pgpy.packet.types import Header, VersionedHeader, MPI  # noqa: E402
from pgpy.packet.subpackets.types import Header as SubHeader  # noqa: E402
from pgpy.packet.subpackets.signature import CreationTime, SignatureExpirationTime, KeyExpirationTime  # noqa: E402
from pgpy.packet.fields import String2Key  # noqa: E402
from pgpy.packet.packets import PubKeyV4  # noqa: E402

warnings.simplefilter('ignore')
h = hashlib.sha256()


def out(*a):
    h.update(repr(a).encode())


def guarded(fn, *a):
    try:
        return ('ok', fn(*a))
    except Exception as e:
        return ('exc', type(e).__name__, str(e))


# --- MPI ---------------------------------------------------------------
ints = [0, 1, 2, 127, 128, 255, 256, 257, 65535, 65536, (1 << 2048) - 1, 1 << 2047, (1 << 4199) + 12345]
ints += [(1 << n) - 1 for n in range(0, 130)] + [1 << n for n in range(0, 130)]
for i in ints:
    m = MPI(i)
    wire = m.to_mpibytes()
    out(int(m), repr(m), str(m), len(m), m.byte_length(), wire, type(m).__name__)
    if i:
        buf = bytearray(wire) + b'tail'
        m2 = MPI(buf)
        out(int(m2), bytes(buf), m2 == m)
    out(repr(copy.copy(m)), pickle.loads(pickle.dumps(m)) == m, type(pickle.loads(pickle.dumps(m))).__name__)
for raw in [b'', b'\x00', b'\x00\x00', b'\x00\x09\x01', b'\x00\x09\x01\xff\xaa', b'\x00\x10\x00\x01zz', b'\xff\xff' + b'\x01' * 10]:
    buf = bytearray(raw)
    out(guarded(lambda b: int(MPI(b)), buf), bytes(buf))
    out(guarded(lambda b: int(MPI(b)), bytes(raw)))
for bad in [None, 1.5, 'abc', '12', -5, True]:
    out(guarded(lambda b: repr(MPI(b)), bad))
out(guarded(lambda: MPI(-5).to_mpibytes()))
out(MPI.__mro__[1].__name__, MPI.__doc__ == int.__doc__, sorted(k for k in vars(MPI) if not k.startswith('_')))

# --- packet headers ------------------------------------------------------
lengths = list(range(0, 400)) + list(range(8000, 8500)) + [65535, 65536, 70000, (1 << 24) - 1, 1 << 24, (1 << 32) - 1]
for cls in (Header, VersionedHeader):
    for ln in lengths:
        hd = cls()
        hd.tag = 2
        hd.length = ln
        b = hd.__bytearray__()
        out(cls.__name__, ln, bytes(b), len(hd), hd.llen, bytes(hd))
        p = cls()
        buf = bytearray(b) + b'\x04rest'
        p.parse(buf)
        out(p.length, p.llen, int(p.tag), p._lenfmt, bytes(buf), getattr(p, 'version', None))
# old format
for lt in range(4):
    for ln in [0, 1, 255, 256, 65535, 65536, 70000]:
        first = 0x80 | (6 << 2) | lt
        width = {0: 1, 1: 2, 2: 4, 3: 0}[lt]
        if lt == 3:
            body = bytearray([first])
        elif ln < (1 << (8 * width)):
            body = bytearray([first]) + ln.to_bytes(width, 'big')
        else:
            continue
        buf = bytearray(body) + b'xyz'
        p = Header()
        p.parse(buf)
        out(lt, ln, p.length, p.llen, int(p.tag), bytes(buf), bytes(p.__bytearray__()), len(p))
        for grown in [0, 255, 256, 65535, 65536, (1 << 32) - 1]:
            p.length = grown
            out(grown, p.llen, len(p), guarded(lambda: bytes(p.__bytearray__())))
# partial lengths
data = bytes(range(256)) * 40
for first_pow in (0, 1, 5, 9, 12):
    chunk = 1 << first_pow
    buf = bytearray([0xC0 | 11, 0xE0 | first_pow]) + data[:chunk] + bytearray([0xE0 | 1]) + data[chunk:chunk + 2] + bytearray([193, 5]) + data[:198]
    p = Header()
    out(guarded(p.parse, buf), p.length, p.llen, hashlib.sha1(bytes(buf)).hexdigest(), len(buf))
for trunc in [b'', b'\xc2', b'\xc2\xc0', b'\xc2\xff\x00', b'\x98', b'\xcb\xe1ab']:
    buf = bytearray(trunc)
    p = Header()
    out(guarded(p.parse, buf), bytes(buf), p.length)

# --- subpacket headers ---------------------------------------------------
for ln in lengths:
    for crit in (False, True):
        sh = SubHeader()
        sh.typeid = 0x1b
        sh.critical = crit
        sh.length = ln
        b = sh.__bytearray__()
        out(ln, crit, bytes(b), len(sh), sh.llen)
        q = SubHeader()
        buf = bytearray(b) + b'..'
        q.parse(buf)
        out(q.length, q.typeid, q.critical, q.llen, bytes(buf))

# --- timestamps ----------------------------------------------------------
stamps = [0, 1, 59, 86399, 86400, 951782400, 1 << 31, (1 << 31) - 1, (1 << 32) - 1, 1234567890]
for t in stamps:
    ct = CreationTime()
    ct.created = t
    out(ct.created.isoformat(), bytes(ct.__bytearray__()))
    ct2 = CreationTime()
    ct2.created = bytearray(t.to_bytes(4, 'big'))
    out(ct2.created == ct.created, ct2.created.tzinfo is timezone.utc)
    ct3 = CreationTime()
    buf = bytearray(ct.__bytearray__()) + b'!'
    ct3.parse(buf)
    out(ct3.created.isoformat(), bytes(buf), ct3.header.length, ct3.header.typeid)
    ct.created = datetime.fromtimestamp(t, timezone(timedelta(hours=5, minutes=30)))
    out(ct.created.isoformat(), bytes(ct.__bytearray__()))
    ct.created = datetime.utcfromtimestamp(t)
    out(ct.created.isoformat(), bytes(ct.__bytearray__()))

    pk = PubKeyV4()
    pk.created = t
    out(pk.created.isoformat())
    pk.created = t.to_bytes(4, 'big')
    out(pk.created.isoformat())
    pk.created = bytearray(t.to_bytes(4, 'big'))
    out(pk.created.isoformat(), pk.created.tzinfo is timezone.utc)

    for ecls in (SignatureExpirationTime, KeyExpirationTime):
        e = ecls()
        e.expires = t
        out(repr(e.expires), bytes(e.__bytearray__()))
        e2 = ecls()
        buf = bytearray(e.__bytearray__())
        e2.parse(buf)
        out(repr(e2.expires), bytes(buf))

with warnings.catch_warnings(record=True) as w:
    warnings.simplefilter('always')
    c = CreationTime()
    c.created = datetime(2020, 1, 2, 3, 4, 5)
    k = PubKeyV4()
    k.created = datetime(2020, 1, 2, 3, 4, 5)
    out([(str(x.message), x.category.__name__, os.path.basename(x.filename)) for x in w])
for bad in [None, 'x', 1.5, -1, 1 << 70]:
    c = CreationTime()
    out(guarded(lambda v: setattr(c, 'created', v), bad)[:2])
    k = PubKeyV4()
    out(guarded(lambda v: setattr(k, 'created', v), bad)[:2])
out(guarded(lambda v: setattr(CreationTime(), 'created', v), b'\x00\x00\x00\x01')[:2])

# --- S2K count -----------------------------------------------------------
for c in range(256):
    s = String2Key()
    s.usage = 254
    s.encalg = 9
    s.specifier = 3
    s.halg = 8
    s.salt = bytearray(b'12345678')
    s.iv = bytearray(16)
    s.count = c
    b = s.__bytearray__()
    s2 = String2Key()
    buf = bytearray(b) + b'#'
    s2.parse(buf)
    out(c, s.count, s._count, bytes(b), s2.count, s2._count, bytes(buf), copy.copy(s).count, len(s))
for bad in [-1, 256, 1000, None, 'a', 2.0, True]:
    s = String2Key()
    out(guarded(lambda v: setattr(s, 'count', v), bad), s.count, s._count)

# --- fixtures round trip -------------------------------------------------
for fn in sorted(glob.glob('tests/testdata/keys/*.asc')) + sorted(glob.glob('tests/testdata/signatures/*.asc')) + sorted(glob.glob('tests/testdata/messages/*.asc'))[:8]:
    try:
        if '/keys/' in fn:
            obj, _ = pgpy.PGPKey.from_file(fn)
            out(fn, str(obj.created), str(obj.fingerprint))
        elif '/signatures/' in fn:
            obj = pgpy.PGPSignature.from_file(fn)
            out(fn, str(obj.created))
        else:
            obj = pgpy.PGPMessage.from_file(fn)
        out(fn, hashlib.sha256(bytes(obj)).hexdigest(), str(obj) == open(fn).read())
    except Exception as e:
        out(fn, type(e).__name__, str(e))

for fn in sorted(glob.glob('tests/testdata/packets/*'))[:60]:
    raw = bytearray(open(fn, 'rb').read())
    try:
        txt = pgpy.types.Armorable.ascii_unarmor(raw)['body'] if pgpy.types.Armorable.is_ascii(raw) else raw
        pkt = pgpy.packet.Packet(bytearray(txt))
        out(os.path.basename(fn), type(pkt).__name__, pkt.header.length, len(pkt.header), hashlib.sha256(bytes(pkt)).hexdigest())
    except Exception as e:
        out(os.path.basename(fn), type(e).__name__, str(e))

# --- LiteralData mtime and PubKeyV4 fingerprint / serialisation -----------
from pgpy.packet.packets import LiteralData  # noqa: E402
from pgpy.types import PGPObject  # noqa: E402
for t in stamps:
    ld = LiteralData()
    ld.mtime = t
    ld.filename = 'a.txt'
    ld._contents = bytearray(b'hello')
    ld.update_hlen()
    out(ld.mtime.isoformat(), bytes(ld))
    ld.mtime = t.to_bytes(4, 'big')
    out(ld.mtime.isoformat(), ld.mtime.tzinfo is timezone.utc)
    buf = bytearray(bytes(ld)) + b'+'
    ld2 = pgpy.packet.Packet(buf)
    out(ld2.mtime.isoformat(), bytes(buf), bytes(ld2))
key, _ = pgpy.PGPKey.from_file('tests/testdata/keys/rsa.1.pub.asc')
pkt = key._key
for t in stamps:
    pkt.created = t
    out(str(pkt.fingerprint), hashlib.sha256(bytes(pkt)).hexdigest())
for bad in [None, 'x', 1.5, -1, 1 << 70]:
    out(guarded(lambda v: setattr(LiteralData(), 'mtime', v), bad)[:2])
out(sorted(n for n in vars(PGPObject) if not n.startswith('_')))

print(h.hexdigest())
