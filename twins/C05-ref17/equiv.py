import glob
import hashlib
import os
import sys
import warnings
from datetime import datetime, timezone

sys.path.insert(0, os.getcwd())
warnings.simplefilter('ignore')

import pgpy
from pgpy.constants import SignatureType, HashAlgorithm

out = hashlib.sha256()


def emit(*parts):
    for p in parts:
        if isinstance(p, (bytes, bytearray)):
            p = bytes(p).hex()
        out.update(repr(p).encode() + b"\n")


def sigs_of(key):
    for s in key.__sig__:
        yield None, s
    for uid in key.userids:
        for s in uid.__sig__:
            yield uid, s
    for ua in key.userattributes:
        for s in ua.__sig__:
            yield ua, s
    for sk in key.subkeys.values():
        for s in sk.__sig__:
            yield sk, s


allsigs = []
for fn in sorted(glob.glob('tests/testdata/keys/*.pub.asc') + glob.glob('tests/testdata/blocks/*pubkey.asc')
                 + ['tests/testdata/pubtest.asc', 'tests/testdata/signatures/debian-sid.key.asc']):
    try:
        loaded = pgpy.PGPKey.from_file(fn)
    except Exception as e:
        emit(fn, type(e).__name__, str(e))
        continue
    key = loaded[0]
    emit(fn, str(key.fingerprint))
    for subj, sig in sigs_of(key):
        allsigs.append(sig)
        pkt = sig._signature
        try:
            cb = pkt.canonical_bytes()
            emit('canon', type(cb).__name__, cb)
            # two calls give independent buffers with the same content
            cb2 = pkt.canonical_bytes()
            cb2[0:1] = b'\x00'
            emit(pkt.canonical_bytes() == cb)
        except Exception as e:
            emit('canon-exc', type(e).__name__, str(e))
        emit(bytes(pkt.subpackets.__hashbytearray__()), bytes(sig))

for fn in sorted(glob.glob('tests/testdata/signatures/*.sig.asc') + ['tests/testdata/blocks/rsasignature.asc',
                                                                    'tests/testdata/blocks/signature.expired.asc']):
    sig = pgpy.PGPSignature.from_file(fn)
    allsigs.append(sig)
    emit(fn, sig._signature.canonical_bytes(), sig.hashdata(b'some subject\n'))

# attests_to on parsed signatures (none of them is an attestation -> all False, but the digests are computed)
for a in allsigs[:12]:
    for b in allsigs[:12]:
        try:
            emit(a.attests_to(b))
        except Exception as e:
            emit('attests-exc', type(e).__name__, str(e))
try:
    allsigs[0].attests_to('not a signature')
except Exception as e:
    emit('attests-exc', type(e).__name__, str(e))

# make an attestation with a fixed creation time (RSA PKCS#1 v1.5 is deterministic)
sec, _ = pgpy.PGPKey.from_file('tests/testdata/keys/rsa.1.sec.asc')
other, _ = pgpy.PGPKey.from_file('tests/testdata/keys/targette.sec.rsa.asc')
when = datetime(2020, 1, 2, 3, 4, 5, tzinfo=timezone.utc)
uid = sec.userids[0]
for halg in (HashAlgorithm.SHA256, HashAlgorithm.SHA512):
    third = other.certify(uid, level=SignatureType.Generic_Cert, created=when, hash=HashAlgorithm.SHA256)
    third2 = other.certify(uid, level=SignatureType.Positive_Cert, created=when, hash=HashAlgorithm.SHA384)
    att = sec.certify(uid, level=SignatureType.Attestation, created=when, hash=halg,
                      attested_certifications=[third, third2, b'\x11' * halg.digest_size, b'short', 17])
    emit('att', bytes(att), sorted(att.attested_certifications), att.hashdata(uid))
    emit(att.attests_to(third), att.attests_to(third2), att.attests_to(att), third.attests_to(att))
    emit(third._signature.canonical_bytes(), third2._signature.canonical_bytes(), att._signature.canonical_bytes())
    reparsed = pgpy.PGPSignature.from_blob(bytes(att))
    emit(reparsed.attests_to(third), reparsed.attests_to(pgpy.PGPSignature.from_blob(bytes(third2))),
         reparsed._signature.canonical_bytes())

print(out.hexdigest())
