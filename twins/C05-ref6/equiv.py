"""Digest of the observable behaviour of the code that feeds the hashed subpacket area to the hash.

Run as:  cd <tree> && /venv/bin/python equiv.py
Prints the same digest on the unchanged and on the refactored tree.
"""
import glob
import hashlib
import os
import sys
import warnings

sys.path.insert(0, os.getcwd())
warnings.simplefilter('ignore')

import pgpy  # noqa: E402
from pgpy.packet.fields import SubPackets  # noqa: E402
from pgpy.packet.subpackets import Signature as SignatureSP  # noqa: E402
from pgpy.packet.subpackets.types import Header  # noqa: E402

out = hashlib.sha256()
nobs = 0


def obs(*vals):
    global nobs
    for v in vals:
        nobs += 1
        if isinstance(v, (bytes, bytearray)):
            v = b'B:' + bytes(v)
        else:
            v = ('R:' + repr(v)).encode('utf-8', 'backslashreplace')
        out.update(len(v).to_bytes(4, 'big') + v)


def attempt(fn, *a):
    try:
        return fn(*a)
    except Exception as e:  # same type and message is part of the contract
        return ('EXC', type(e).__name__, str(e))


def sp(typ, body, enc=1):
    n = len(body) + 1
    if enc == 1:
        assert n < 192
        hdr = bytes([n])
    elif enc == 2:
        assert 192 <= n < 8384
        v = n - 192
        hdr = bytes([(v >> 8) + 192, v & 0xFF])
    else:
        hdr = b'\xff' + n.to_bytes(4, 'big')
    return hdr + bytes([typ]) + bytes(body)


def area(*sps):
    b = b''.join(sps)
    return len(b).to_bytes(2, 'big') + b


# ---------------------------------------------------------------------------------------------------------------
# 1. subpacket areas built by hand
notation = lambda fl, name, val: bytes([fl, 0, 0, 0]) + len(name).to_bytes(2, 'big') + len(val).to_bytes(2, 'big') + name + val
bodies = [
    sp(2, b'\x5f\x00\x00\x01'),
    sp(0x82, b'\x5f\x00\x00\x02'),
    sp(16, bytes(range(8))),
    sp(27, b'\xff'), sp(27, b'\x03\x80\x01'), sp(27, b''),
    sp(30, b'\x81'), sp(30, b'\x01\x02\x03\x04'),
    sp(23, b'\x80'), sp(23, b'\x7f\x01'),
    sp(11, bytes([9, 8, 7, 3, 2])), sp(21, bytes([8, 9, 10, 11, 2])), sp(22, bytes([2, 3, 1, 0])),
    sp(4, b'\x00'), sp(4, b'\x01'), sp(4, b'\x02'), sp(7, b'\x01'), sp(25, b'\xff'),
    sp(24, 'https://keys.example/ü'.encode()), sp(24, b'latin\xfc\xe9'), sp(26, b'http://policy.example'),
    sp(20, notation(0x80, b'a@example.org', 'välue'.encode())),
    sp(20, notation(0x80, b'b@example.org', b'\xff\xfe')),
    sp(20, notation(0x00, b'c@example.org', b'\x00\x01\x02')),
    sp(20, notation(0xc1, b'', b'')),
    sp(20, notation(0x80, b'x' * 200, b'y' * 300), enc=2),
    sp(12, b'\x80\x01' + bytes(range(20))), sp(12, b'\xc0\x11' + bytes(range(20, 40))),
    sp(28, b'alice@example.org'), sp(28, 'böb'.encode()),
    sp(29, b'\x02' + b'superseded'), sp(29, b'\x00'),
    sp(33, b'\x04' + bytes(range(20))),
    sp(100, b'private'), sp(0xe5, b'critical private'), sp(55, b''), sp(127, bytes(range(256)), enc=2),
    sp(2, b'\x01\x02\x03\x04', enc=5), sp(16, bytes(range(8, 16)), enc=5),
    sp(9, b'\x00\x01\x51\x80'), sp(3, b'\x00\x00\x0e\x10'), sp(5, b'\x01\x78'), sp(6, b'<[^>]+@example.org>$\x00'),
]

tail = b'TAIL-OCTETS'
cases = []
for i, b in enumerate(bodies):
    cases.append((area(b), area()))
    cases.append((area(), area(b)))
    cases.append((area(b, bodies[(i + 7) % len(bodies)]), area(bodies[(i + 3) % len(bodies)])))
cases.append((area(*bodies), area(*reversed(bodies))))
cases.append((area(), area()))
# a declared hashed length that ends in the middle of the last subpacket: whole subpackets are consumed
two = sp(2, b'\x00\x00\x00\x09') + sp(16, bytes(range(8)))
cases.append(((len(two) - 3).to_bytes(2, 'big') + two, area()))
cases.append((area(bodies[0]), (len(two) - 5).to_bytes(2, 'big') + two))


def run_area(h, u):
    buf = bytearray(h + u + tail)
    s = SubPackets()
    s.parse(buf)
    obs(bytes(buf))
    obs(s.__hashbytearray__(), s.__unhashbytearray__(), s.__bytearray__())
    obs([k for k in s._hashed_sp], [k for k in s._unhashed_sp])
    obs([(type(x).__name__, x.header.typeid, x.header.critical, x.header.length, x.header.llen) for x in s])
    obs([bytes(x.__bytearray__()) for x in s])
    for x in s:
        for attr in ('flags', 'bflag', 'uri', 'name', 'value', 'keyclass', 'algorithm', 'fingerprint', 'issuer',
                     'created', 'expires', 'userid', 'payload', 'code', 'string', 'regex', 'level', 'amount'):
            if hasattr(x, attr):
                v = getattr(x, attr)
                if isinstance(v, (set, frozenset)):
                    v = sorted(v)
                obs(attr, v)
    # the re-encoding path (taken when the area is not the received one)
    s._hashed_raw = None
    obs(attempt(s.__hashbytearray__))
    return s


for h, u in cases:
    obs(attempt(run_area, h, u) is None)

# truncated inputs: same exception, or same result
full = area(*bodies[:12]) + area(*bodies[12:20])
for cut in list(range(0, 40)) + list(range(40, len(full), 7)):
    buf = bytearray(full[:cut])

    def go():
        s = SubPackets()
        s.parse(buf)
        return bytes(s.__bytearray__())
    obs(cut, attempt(go), bytes(buf))

# single subpackets straight through the dispatcher, and the header codec
for b in bodies:
    buf = bytearray(b + tail)
    x = attempt(SignatureSP, buf)
    obs(bytes(buf))
    if isinstance(x, tuple):
        obs(x)
    else:
        obs(type(x).__name__, bytes(x.__bytearray__()), len(x), bytes(x.header.__bytearray__()), len(x.header))

for first in range(256):
    for ln in (bytes([5]), bytes([191]), bytes([192, 0]), bytes([200, 17]), bytes([223, 255]), b'\xff\x00\x00\x00\x07', b'\xff\x00\x01\x00\x00'):
        buf = bytearray(ln + bytes([first]) + b'rest')
        hd = Header()
        hd.parse(buf)
        obs(hd.length, hd.llen, hd.typeid, hd.critical, bytes(hd.__bytearray__()), len(hd), bytes(buf))

for crit in (False, True):
    for typ in (0, 1, 2, 27, 100, 127, 128, 200, 255):
        for ln in (1, 2, 191, 192, 193, 8383, 8384, 70000):
            hd = Header()
            hd.typeid = typ
            hd.critical = crit
            hd.length = ln
            obs(bytes(hd.__bytearray__()), hd.typeid, hd.critical)
hd = Header()
obs(attempt(lambda: bytes(hd.__bytearray__())))
hd.critical = True
obs(attempt(lambda: bytes(hd.__bytearray__())))

# ---------------------------------------------------------------------------------------------------------------
# 2. fixture keys and signatures: the octets that are hashed, and the verification verdicts
def sig_obs(sig, subject):
    obs(sig.type, sig.key_algorithm, sig.hash_algorithm, sig.signer, sig.embedded)
    obs(bytes(sig._signature.subpackets.__hashbytearray__()))
    obs(attempt(sig.hashdata, subject))
    obs(bytes(sig.__bytes__()))


keys = {}
for fn in sorted(glob.glob('tests/testdata/keys/*.asc') + glob.glob('tests/testdata/blocks/*key.asc')
                 + glob.glob('tests/testdata/signatures/*.key.asc') + ['tests/testdata/pubtest.asc']):
    k = attempt(lambda: pgpy.PGPKey.from_file(fn)[0])
    obs(fn, type(k).__name__)
    if not isinstance(k, pgpy.PGPKey):
        obs(k)
        continue
    keys[fn] = k
    pub = k.pubkey if not k.is_public else k
    for uid in k.userids + k.userattributes:
        for sig in uid.__sig__:
            sig_obs(sig, uid)
    for sig in k.__sig__:
        sig_obs(sig, k)
    for sk in k.subkeys.values():
        for sig in sk.__sig__:
            sig_obs(sig, sk)
            for es in sig._signature.subpackets['EmbeddedSignature']:
                obs(bytes(es.__bytearray__()))
    v = attempt(pub.verify, pub)
    if isinstance(v, tuple):
        obs(v)
    else:
        obs(bool(v), [(int(s.issues), str(s.by.fingerprint), s.signature.type) for s in v._subjects])

for stem in ('aptapproval-test', 'debian-sid', 'ubuntu-precise'):
    k = keys.get('tests/testdata/signatures/%s.key.asc' % stem)
    sig = pgpy.PGPSignature.from_file('tests/testdata/signatures/%s.sig.asc' % stem)
    with open('tests/testdata/signatures/%s.subj' % stem, 'rb') as f:
        subj = f.read()
    sig_obs(sig, subj)
    v = attempt(k.verify, subj, sig)
    obs(v if isinstance(v, tuple) else bool(v))
    # flip one bit inside the hashed area of the received signature: verification must fail the same way
    raw = bytearray(sig.__bytes__())
    pos = raw.index(bytes(sig._signature.subpackets.__hashbytearray__())) + 5
    for bit in (0, 3, 7):
        bad = bytearray(raw)
        bad[pos] ^= 1 << bit
        bsig = attempt(pgpy.PGPSignature.from_blob, bytes(bad))
        if isinstance(bsig, tuple):
            obs(bsig)
            continue
        v = attempt(k.verify, subj, bsig)
        obs(v if isinstance(v, tuple) else bool(v), attempt(bsig.hashdata, subj))

for fn in sorted(glob.glob('tests/testdata/packets/02.*signature') + glob.glob('tests/testdata/revocations/*')
                 + ['tests/testdata/blocks/rsasignature.asc', 'tests/testdata/blocks/signature.expired.asc',
                    'tests/testdata/blocks/signature.non-exportable.asc']):
    with open(fn, 'rb') as f:
        data = f.read()
    sig = attempt(pgpy.PGPSignature.from_blob, data)
    obs(fn, type(sig).__name__)
    if isinstance(sig, pgpy.PGPSignature) and sig._signature is None:
        obs('no signature packet')
    elif isinstance(sig, pgpy.PGPSignature):
        obs(bytes(sig._signature.subpackets.__hashbytearray__()), bytes(sig.__bytes__()))
        obs(attempt(sig.hashdata, b'some text\r\nto be signed\n'))
        obs(sorted(set(type(x).__name__ for x in sig._signature.subpackets)))
        for attr in ('notation', 'policy_uri', 'keyserver', 'revocable', 'exportable', 'key_flags', 'features', 'cipherprefs',
                     'hashprefs', 'compprefs', 'keyserverprefs', 'signer_fingerprint', 'created', 'expires_at'):
            v = attempt(getattr, sig, attr)
            obs(attr, sorted(v) if isinstance(v, (set, frozenset)) else v)
    else:
        obs(sig)

# a freshly built (not parsed) signature area goes through the re-encoding path
s = SubPackets()
s.addnew('CreationTime', hashed=True, created=pgpy.packet.subpackets.signature.CreationTime().created.replace(year=2020, month=1, day=2, hour=3, minute=4, second=5, microsecond=0))
s.addnew('NotationData', hashed=True, flags=0x80, name='n@example.org', value='vé')
s.addnew('KeyFlags', hashed=True, flags={pgpy.constants.KeyFlags.Sign, pgpy.constants.KeyFlags.Certify})
s.addnew('PreferredHashAlgorithms', hashed=True, flags=[pgpy.constants.HashAlgorithm.SHA512, pgpy.constants.HashAlgorithm.SHA256])
s.addnew('Revocable', hashed=True, bflag=False)
s.addnew('Policy', hashed=True, uri='https://example.org/pölicy')
s.addnew('RevocationKey', hashed=True, keyclass=0x80, algorithm=pgpy.constants.PubKeyAlgorithm.RSAEncryptOrSign,
         fingerprint='ABCDEF0123456789ABCDEF0123456789ABCDEF01')
s.addnew('Issuer', issuer=bytearray(range(8)))
obs(bytes(s.__hashbytearray__()), bytes(s.__unhashbytearray__()), bytes(s.__bytearray__()))

print(nobs, out.hexdigest())
