"""Digest of the observable behaviour of PGPKey.self_signatures / revocation_signatures / self_verify /
check_management and of the argument checks and results of PGPKey.verify.
Run as: cd <tree> && /venv/bin/python equiv.py"""
import os
import sys
sys.path.insert(0, os.getcwd())

import glob
import hashlib
import re
import types
import warnings

import pgpy
from pgpy.constants import SignatureType, RevocationReason

out = []


def emit(*a):
    out.append(' | '.join(str(x) for x in a))


def noid(s):
    return re.sub(r'0x[0-9a-fA-F]+', '0x?', str(s))


def attempt(label, fn):
    with warnings.catch_warnings(record=True) as w:
        warnings.simplefilter('always')
        try:
            r = fn()
            emit(label, 'ok', noid(repr(r)))
        except Exception as e:
            r = None
            emit(label, 'EXC', type(e).__name__, noid(e))
    emit(label, 'warnings', [noid(x.message) for x in w])
    return r


def sigdesc(sigs):
    return [(s.type.name, s.signer, str(s.created)) for s in sigs]


def describe(label, key):
    ss = key.self_signatures
    rs = key.revocation_signatures
    emit(label, 'kinds', isinstance(ss, types.GeneratorType), isinstance(rs, types.GeneratorType))
    emit(label, 'self', attempt(label + '.self', lambda: sigdesc(ss)))
    emit(label, 'revoc', attempt(label + '.revoc', lambda: sigdesc(rs)))
    emit(label, 'exhausted', list(ss), list(rs))
    r = attempt(label + '.self_verify', key.self_verify)
    emit(label, 'self_verify', type(r).__name__, None if r is None else int(r))
    for fn in ('check_management', 'check_primitives', 'check_soundness'):
        r = attempt(label + '.' + fn, getattr(key, fn))
        emit(label, fn, type(r).__name__, None if r is None else int(r))
    attempt(label + '._get_key_flags', lambda: sorted(key._get_key_flags()))
    r = attempt(label + '.verify(self)', lambda: key.verify(key))
    if r is not None:
        emit(label, bool(r), len(r), [(int(x.issues), x.signature.type.name, type(x.subject).__name__) for x in r._subjects])


keys = {}
paths = sorted(glob.glob('tests/testdata/keys/*.asc')) + sorted(glob.glob('tests/testdata/signatures/*.key.asc')) + \
    sorted(glob.glob('tests/testdata/blocks/*key.asc')) + ['tests/testdata/blocks/expyro.asc', 'tests/testdata/blocks/revochiio.asc']
for path in paths:
    if '.enc.' in path:
        continue
    name = os.path.basename(path)
    key = attempt(name + '.load', lambda: pgpy.PGPKey.from_file(path)[0])
    if key is None:
        continue
    keys[name] = key
    describe(name, key)
    for kid, sub in key.subkeys.items():
        describe('%s/%s' % (name, kid), sub)

# a subkey that lost its parent
orphan, _ = pgpy.PGPKey.from_file('tests/testdata/keys/rsa.1.pub.asc')
sub = next(iter(orphan.subkeys.values()))
sub._parent = None
attempt('orphan.self', lambda: list(sub.self_signatures))
attempt('orphan.revoc', lambda: list(sub.revocation_signatures))
attempt('orphan.self_verify', sub.self_verify)

# revocation certificates imported into their keys
for base in ('rsa.1', 'dsa.1', 'ecc.1'):
    key, _ = pgpy.PGPKey.from_file('tests/testdata/keys/%s.pub.asc' % base)
    # the fixture is a bare signature packet inside a PUBLIC KEY BLOCK armor
    body = pgpy.types.Armorable.ascii_unarmor(open('tests/testdata/revocations/%s.revoc.asc' % base).read())['body']
    rsig = pgpy.PGPSignature.from_blob(bytes(body))
    emit(base, 'revsig', rsig.type.name, rsig.signer)
    r = attempt(base + '.verify-revoc', lambda: key.verify(key, rsig))
    if r is not None:
        emit(base, bool(r), [int(x.issues) for x in r._subjects])
    key |= rsig
    describe(base + '+revoc', key)

# freshly made revocations and direct-key signatures (only their kind / count is digested, they carry the current time)
sec, _ = pgpy.PGPKey.from_file('tests/testdata/keys/rsa.1.sec.asc')
with warnings.catch_warnings():
    warnings.simplefilter('ignore')
    sub = next(iter(sec.subkeys.values()))
    srev = sec.revoke(sub, sigtype=SignatureType.SubkeyRevocation, reason=RevocationReason.Retired, comment='old')
    sub |= srev
    dsig = sec.certify(sec, notation={'a': 'b'})
    sec |= dsig
    krev = sec.revoke(sec, sigtype=SignatureType.KeyRevocation)
    sec |= krev
emit('fresh', [s.type.name for s in sec.self_signatures], [s.type.name for s in sec.revocation_signatures],
     [s.type.name for s in sub.self_signatures], [s.type.name for s in sub.revocation_signatures],
     krev in sec.revocation_signatures, srev in sub.revocation_signatures, dsig in sec.self_signatures,
     srev in sec.revocation_signatures)
for label, k in (('fresh.primary', sec), ('fresh.sub', sub)):
    for fn in ('self_verify', 'check_management', 'check_soundness'):
        r = attempt(label + '.' + fn, getattr(k, fn))
        emit(label, fn, type(r).__name__, None if r is None else int(r))
r = attempt('fresh.verify', lambda: sec.verify(sec))
emit('fresh.verify', bool(r), sorted((int(x.issues), x.signature.type.name) for x in r._subjects))

# argument checking of verify
key = keys['rsa.1.pub.asc']
sig = pgpy.PGPSignature.from_file('tests/testdata/signatures/ubuntu-precise.sig.asc')
ubuntu = keys['ubuntu-precise.key.asc']
subj = open('tests/testdata/signatures/ubuntu-precise.subj', 'rb').read()


class StrSub(str):
    pass


class KeySub(pgpy.PGPKey):
    pass


for label, args in (
        ('int', (5,)), ('float-sig', (b'x', 1.5)), ('list', ([],)), ('dict', ({},)), ('tuple', ((),)), ('type', (str,)),
        ('memoryview', (memoryview(b'abc'), sig)), ('none-none', (None,)), ('none-sig', (None, sig)),
        ('str-str', ('a', 'b')), ('bytes-bytes', (b'a', b'b')), ('key-key', (key, key)), ('sig-as-subject', (sig,)),
        ('sig-sig', (sig, sig)), ('strsub', (StrSub('x'), sig)), ('bytearray', (bytearray(subj), sig)),
        ('object', (object(),)), ('both-bad', (5, 6)), ('bool', (True,)), ('uid', (key.userids[0],)),
        ('uid-badsig', (key.userids[0], 0)), ('bytes-nosig', (b'abc',)), ('str-nosig', ('abc',))):
    for kname, k in (('rsa', key), ('ubuntu', ubuntu)):
        r = attempt('args.%s.%s' % (label, kname), lambda: k.verify(*args))
        if r is not None:
            emit('args', label, kname, bool(r), [int(x.issues) for x in r._subjects])
ksub = KeySub()
attempt('keysub.check', lambda: ksub.verify(5))
attempt('keysub.check2', lambda: ksub.verify('x', 5))

r = attempt('ubuntu.good', lambda: ubuntu.verify(subj, sig))
emit('ubuntu.good', bool(r), [int(x.issues) for x in r._subjects])
r = attempt('ubuntu.bad', lambda: ubuntu.verify(subj[:-1], sig))
emit('ubuntu.bad', bool(r), [int(x.issues) for x in r._subjects])

blob = '\n'.join(out).encode('utf-8')
print(len(out), hashlib.sha256(blob).hexdigest())
if '-v' in sys.argv:
    print(blob.decode('utf-8'))
