"""Equivalence probe for property C13 (fresh randomness of the right size).

Run as:  cd <tree> && /venv/bin/python equiv.py

All random sources used by the refactored code are interposed from here (no
source change) with deterministic counter-based stand-ins, so that every
ciphertext / protected key blob becomes a pure function of the code under test.
The program digests:
  * the sequence of sizes requested from os.urandom, per operation
  * the number of ephemeral key pairs generated, per operation
  * the exported packets (where fully deterministic) or the SKESK / SEIPD /
    ECDH parts of them (RSA PKCS#1 padding is randomised inside OpenSSL)
  * the result of decrypting / unlocking again
"""
import hashlib
import os
import sys
import warnings

sys.path.insert(0, os.getcwd())
warnings.simplefilter('ignore')

import pgpy  # noqa: E402
from pgpy.constants import SymmetricKeyAlgorithm, HashAlgorithm  # noqa: E402
from pgpy.packet import fields as _fields  # noqa: E402
from pgpy.packet import packets as _packets  # noqa: E402

from cryptography.hazmat.backends import default_backend  # noqa: E402
from cryptography.hazmat.primitives.asymmetric import ec, x25519  # noqa: E402

LOG = []
_real_urandom = os.urandom
_ctr = [0]


def fake_urandom(n):
    _ctr[0] += 1
    LOG.append(('urandom', n))
    out = b''
    i = 0
    while len(out) < n:
        out += hashlib.sha256(b'equiv-C13|%d|%d' % (_ctr[0], i)).digest()
        i += 1
    return out[:n]


os.urandom = fake_urandom

_eph = [0]
_real_gen = ec.generate_private_key


def fake_ec_generate(curve, backend=None):
    _eph[0] += 1
    LOG.append(('ec.generate_private_key', curve.name))
    return ec.derive_private_key(0x1234567 + _eph[0], curve, default_backend())


def fake_x25519_generate():
    _eph[0] += 1
    LOG.append(('x25519.generate',))
    return x25519.X25519PrivateKey.from_private_bytes(hashlib.sha256(b'x25519|%d' % _eph[0]).digest())


ec.generate_private_key = fake_ec_generate
x25519.X25519PrivateKey.generate = staticmethod(fake_x25519_generate)

OUT = hashlib.sha256()


def emit(tag, *vals):
    line = tag + '|' + '|'.join(v.hex() if isinstance(v, (bytes, bytearray)) else repr(v) for v in vals)
    OUT.update(line.encode('utf-8') + b'\n')
    if '-v' in sys.argv:
        print(line[:200])


def flush_log(tag):
    emit(tag + '.log', repr(LOG))
    del LOG[:]


def load_key(name):
    k, _ = pgpy.PGPKey.from_file('tests/testdata/keys/' + name)
    return k


msg = pgpy.PGPMessage.from_file('tests/testdata/messages/message.signed.asc')
emit('plain', bytes(msg))

# ---- passphrase encryption, every supported cipher, twice each (same message, same passphrase)
for alg in sorted(SymmetricKeyAlgorithm, key=int):
    if alg in (SymmetricKeyAlgorithm.Plaintext,) or not alg.is_supported:
        continue
    for rnd in range(2):
        try:
            enc = msg.encrypt('correct horse', cipher=alg, hash=HashAlgorithm.SHA256)
        except Exception as e:  # same exception on both trees
            emit('sym.%s.%d.exc' % (alg.name, rnd), type(e).__name__, str(e))
            flush_log('sym.%s.%d' % (alg.name, rnd))
            continue
        emit('sym.%s.%d' % (alg.name, rnd), bytes(enc))
        skesk = enc._sessionkeys[0]
        emit('sym.%s.%d.salt' % (alg.name, rnd), bytes(skesk.s2k.salt), len(skesk.ct))
        flush_log('sym.%s.%d' % (alg.name, rnd))
        dec = enc.decrypt('correct horse')
        emit('sym.%s.%d.dec' % (alg.name, rnd), dec.message == msg.message)

# caller-supplied session key: nothing but salt + prefix may be drawn
enc = msg.encrypt('pw', sessionkey=b'\x42' * 32, cipher=SymmetricKeyAlgorithm.AES256)
emit('sym.supplied', bytes(enc))
flush_log('sym.supplied')

# error path: wrong-typed passphrase
try:
    msg.encrypt(12345)
except Exception as e:
    emit('sym.badpass', type(e).__name__, str(e))
flush_log('sym.badpass')

# ---- ECDH recipients (fully deterministic once the ephemeral key source is interposed)
for kname, sname in (('ecc.1.pub.asc', 'ecc.1.sec.asc'), ('ecc.2.pub.asc', 'ecc.2.sec.asc'),
                     ('mixed.1.pub.asc', 'mixed.1.sec.asc')):
    pub = load_key(kname)
    sec = load_key(sname)
    for rnd in range(2):
        for alg in (SymmetricKeyAlgorithm.AES128, SymmetricKeyAlgorithm.AES256):
            tag = 'ecdh.%s.%s.%d' % (kname, alg.name, rnd)
            enc = pub.encrypt(msg, cipher=alg)
            emit(tag, bytes(enc))
            pkesk = enc._sessionkeys[0]
            emit(tag + '.point', bytes(pkesk.ct.p.to_mpibytes()), bytes(pkesk.ct.c))
            flush_log(tag)
            dec = sec.decrypt(enc)
            emit(tag + '.dec', dec.message == msg.message)
            flush_log(tag + '.decrypt')

# direct call of the key-material level entry point, incl. argument errors
pub = load_key('ecc.1.pub.asc')
sub = next(iter(pub.subkeys.values()))
for args in ((b'\x09' + b'\x11' * 16 + b'\x01\x10',), (b'',), (), (b'a', b'b'), (None,)):
    try:
        ct = _fields.ECDHCipherText.encrypt(sub._key, *args)
        emit('ecdh.direct', bytes(ct.__bytearray__()))
    except Exception as e:
        emit('ecdh.direct.exc', type(e).__name__, str(e))
    flush_log('ecdh.direct')

# ---- RSA recipient: PKCS#1 v1.5 padding is random inside OpenSSL, so digest the SEIPD part + log
pub = load_key('rsa.1.pub.asc')
sec = load_key('rsa.1.sec.asc')
for rnd in range(2):
    for alg in (SymmetricKeyAlgorithm.AES256, SymmetricKeyAlgorithm.CAST5, SymmetricKeyAlgorithm.TripleDES):
        tag = 'rsa.%s.%d' % (alg.name, rnd)
        enc = pub.encrypt(msg, cipher=alg)
        emit(tag + '.seipd', bytes(enc._message.ct), len(bytes(enc)))
        flush_log(tag)
        dec = sec.decrypt(enc)
        emit(tag + '.dec', dec.message == msg.message)
# default cipher from preferences, primary key
enc = pub.encrypt(msg)
emit('rsa.default.seipd', bytes(enc._message.ct))
flush_log('rsa.default')
enc = pub.encrypt(msg, sessionkey=b'\x07' * 24, cipher=SymmetricKeyAlgorithm.AES192)
emit('rsa.supplied.seipd', bytes(enc._message.ct))
flush_log('rsa.supplied')

# ---- key protection: every key kind, twice, two ciphers
for kname in ('rsa.1.sec.asc', 'dsa.1.sec.asc', 'ecc.1.sec.asc', 'ecc.2.sec.asc', 'mixed.1.sec.asc',
              'targette.sec.rsa.asc'):
    for rnd in range(2):
        for alg, halg in ((SymmetricKeyAlgorithm.AES256, HashAlgorithm.SHA256),
                          (SymmetricKeyAlgorithm.CAST5, HashAlgorithm.SHA1),
                          (SymmetricKeyAlgorithm.Camellia192, HashAlgorithm.SHA512)):
            tag = 'protect.%s.%s.%d' % (kname, alg.name, rnd)
            k = load_key(kname)
            before = bytes(k)
            try:
                k.protect('hunter2', alg, halg)
            except Exception as e:
                emit(tag + '.exc', type(e).__name__, str(e))
                flush_log(tag)
                continue
            emit(tag, bytes(k))
            s2k = k._key.keymaterial.s2k
            emit(tag + '.s2k', bytes(s2k.iv), bytes(s2k.salt), int(s2k.usage), int(s2k.specifier), s2k.count)
            flush_log(tag)
            with k.unlock('hunter2'):
                emit(tag + '.unlocked', k.is_unlocked)
                for sk in k.subkeys.values():
                    with sk.unlock('hunter2'):
                        pass
            emit(tag + '.same-public', bytes(k.pubkey) == bytes(load_key(kname).pubkey), len(before))

# ---- the primitives themselves
for alg in sorted(SymmetricKeyAlgorithm, key=int):
    for meth in ('gen_iv', 'gen_key'):
        try:
            emit('prim.%s.%s' % (alg.name, meth), getattr(alg, meth)())
        except Exception as e:
            emit('prim.%s.%s.exc' % (alg.name, meth), type(e).__name__, str(e))
        flush_log('prim.%s.%s' % (alg.name, meth))

# packet-level entry points, incl. bytearray payloads
for data in (b'', b'x', bytearray(b'hello world' * 7)):
    for alg in (SymmetricKeyAlgorithm.AES128, SymmetricKeyAlgorithm.Blowfish):
        skd = _packets.IntegrityProtectedSKEDataV1()
        key = bytes(range(alg.key_size // 8))
        skd.encrypt(key, alg, data)
        emit('seipd.direct', bytes(skd.__bytearray__()), skd.header.length)
        emit('seipd.direct.dec', bytes(skd.decrypt(key, alg)))
        flush_log('seipd.direct')
for bad in (None, 'text', 17):
    skd = _packets.IntegrityProtectedSKEDataV1()
    try:
        skd.encrypt(b'\x00' * 16, SymmetricKeyAlgorithm.AES128, bad)
    except Exception as e:
        emit('seipd.direct.exc', type(e).__name__, str(e))
    flush_log('seipd.direct.bad')

for alg in (SymmetricKeyAlgorithm.AES128, SymmetricKeyAlgorithm.Camellia256):
    sk = _packets.SKESessionKeyV4()
    sk.s2k.usage = 255
    sk.s2k.specifier = 3
    sk.s2k.halg = HashAlgorithm.SHA1
    sk.s2k.encalg = alg
    sk.s2k.count = 96
    sk.encrypt_sk('pass', b'\x05' * (alg.key_size // 8))
    emit('skesk.direct', bytes(sk.__bytearray__()), sk.header.length)
    emit('skesk.direct.dec', repr(sk.decrypt_sk('pass')))
    flush_log('skesk.direct')

print(OUT.hexdigest())
