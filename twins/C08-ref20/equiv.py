"""C08 probe: packet codec round trips.  Run: cd <tree> && PYTHONHASHSEED=0 /venv/bin/python equiv.py"""
import collections
import enum
import glob
import hashlib
import os
import sys
import warnings

sys.path.insert(0, os.getcwd())
warnings.simplefilter('ignore')

import pgpy
from pgpy.types import Armorable
from pgpy.packet import Packet
from pgpy.packet.types import Header, VersionedHeader, Opaque, MPI
from pgpy.packet import packets as P
from pgpy.packet.subpackets import Signature as SigSP
from pgpy.packet.subpackets import UserAttribute as UASP
from pgpy.packet.subpackets.types import Header as SPHeader

assert os.path.dirname(os.path.dirname(os.path.abspath(pgpy.__file__))) == os.getcwd(), pgpy.__file__

TRAILER = bytearray(b'\xde\xad\xbe\xef trailing \xc0\x00\xff')
OUT = []


def emit(*a):
    OUT.append(' '.join(str(x) for x in a))


def h(b):
    return hashlib.sha256(bytes(b)).hexdigest()[:16]


def dump(o, depth=0, seen=None):
    """deterministic structural dump of the state of an object (no addresses)"""
    seen = seen if seen is not None else set()
    if depth > 7:
        return '...'
    if o is None or isinstance(o, (bool, float, str)):
        return repr(o)
    if isinstance(o, enum.Enum):
        return '%s.%s' % (o.__class__.__name__, o.name)
    if isinstance(o, int):
        return '%s(%x)' % (o.__class__.__name__, o)
    if isinstance(o, (bytes, bytearray, memoryview)):
        b = bytes(o)
        return '%s[%d:%s]' % (o.__class__.__name__, len(b), b.hex() if len(b) <= 24 else h(b))
    if isinstance(o, dict):
        items = [(dump(k, depth + 1, seen), dump(v, depth + 1, seen)) for k, v in o.items()]
        if not isinstance(o, collections.OrderedDict):
            items.sort()
        return '{' + ', '.join('%s: %s' % kv for kv in items) + '}'
    if isinstance(o, (set, frozenset)):
        return 'set(' + ', '.join(sorted(dump(i, depth + 1, seen) for i in o)) + ')'
    if isinstance(o, (list, tuple, collections.deque)):
        return o.__class__.__name__ + '[' + ', '.join(dump(i, depth + 1, seen) for i in o) + ']'
    if id(o) in seen:
        return '<cycle %s>' % o.__class__.__name__
    if hasattr(o, '__dict__'):
        seen = seen | {id(o)}
        d = {k: v for k, v in vars(o).items() if k not in ('_parent',)}
        return '%s(%s)' % (o.__class__.__name__,
                           ', '.join('%s=%s' % (k, dump(d[k], depth + 1, seen)) for k in sorted(d)))
    return '<%s>' % o.__class__.__name__


def hdr(hd):
    v = getattr(hd, 'version', None)
    return 'tag=%s len=%d llen=%d fmt=%d hlen=%d ver=%s hbytes=%s' % (
        int(hd.tag), hd.length, hd.llen, hd._lenfmt, len(hd), v, bytes(hd.__bytearray__()).hex())


def roundtrip(label, raw, depth=0):
    """parse one packet followed by a trailer; report everything the property talks about"""
    raw = bytes(raw)
    buf = bytearray(raw) + TRAILER
    try:
        p = Packet(buf)
    except Exception as e:
        emit(label, 'REJECT', e.__class__.__name__, str(e)[:100])
        return None
    consumed = len(raw) + len(TRAILER) - len(buf)
    out1 = bytes(p)
    emit(label, p.__class__.__name__, hdr(p.header),
         'consumed=%d/%d' % (consumed, len(raw)), 'trailer_ok=%s' % (buf == TRAILER),
         'len=%d' % len(p), 'identical=%s' % (out1 == raw), 'out=%s' % h(out1))
    emit(label, ' state', h(dump(p).encode()), dump(p)[:400])
    # second pass: fixed point
    buf2 = bytearray(out1) + TRAILER
    try:
        p2 = Packet(buf2)
    except Exception as e:
        emit(label, ' REPARSE-REJECT', e.__class__.__name__, str(e)[:100])
        return p
    out2 = bytes(p2)
    emit(label, ' pass2', p2.__class__.__name__, 'trailer_ok=%s' % (buf2 == TRAILER),
         'fixed=%s' % (out2 == out1), 'hdrlen_eq_body=%s' % (p2.header.length == len(out2) - len(p2.header)),
         'same_state=%s' % (dump(p2) == dump(p) or out1 != raw and 'n/a'),
         'state2=%s' % h(dump(p2).encode()))
    # update_hlen is idempotent on a parsed packet
    try:
        before = p2.header.length
        p2.update_hlen()
        emit(label, ' update_hlen', before, p2.header.length, bytes(p2) == out2)
    except Exception as e:
        emit(label, ' update_hlen', e.__class__.__name__)
    # subpackets
    if isinstance(p, P.SignatureV4):
        for area in ('hashed', 'unhashed'):
            for sp in getattr(p.subpackets, '_' + area + '_sp').values():
                b = bytes(sp)
                b2 = bytearray(b) + TRAILER
                sp2 = SigSP(b2)
                emit(label, '  sp', area, sp.__class__.__name__, 'type=%d crit=%s len=%d llen=%d' % (
                    sp.header.typeid, sp.header.critical, sp.header.length, sp.header.llen),
                    'rt=%s' % (bytes(sp2) == b), 'trailer_ok=%s' % (b2 == TRAILER), h(b), dump(sp)[:200])
    if isinstance(p, P.UserAttribute):
        for sp in p.subpackets:
            b = bytes(sp)
            b2 = bytearray(b) + TRAILER
            sp2 = UASP(b2)
            emit(label, '  uasp', sp.__class__.__name__, 'type=%d len=%d llen=%d' % (
                sp.header.typeid, sp.header.length, sp.header.llen), 'rt=%s' % (bytes(sp2) == b),
                'trailer_ok=%s' % (b2 == TRAILER), h(b))
    if isinstance(p, P.CompressedData) and depth < 3:
        for i, inner in enumerate(p.packets):
            roundtrip('%s>%d' % (label, i), bytes(inner), depth + 1)
    return p


def split_packets(label, data):
    """walk a packet sequence, round tripping each packet"""
    data = bytearray(data)
    n = 0
    pkts = []
    while data and n < 400:
        before = bytes(data)
        try:
            p = Packet(data)
        except Exception as e:
            emit(label, n, 'SPLIT-REJECT', e.__class__.__name__, str(e)[:100])
            break
        raw = before[:len(before) - len(data)]
        roundtrip('%s#%d' % (label, n), raw)
        pkts.append(p)
        n += 1
    return pkts


def new_len(n):
    if n < 192:
        return bytes([n])
    if n < 8384:
        n -= 192
        return bytes([(n >> 8) + 192, n & 0xff])
    return b'\xff' + n.to_bytes(4, 'big')


def section_testdata():
    emit('== testdata/packets')
    for f in sorted(glob.glob('tests/testdata/packets/[0-9]*')):
        with open(f, 'rb') as fh:
            raw = fh.read()
        roundtrip(os.path.basename(f), raw)

    emit('== armored testdata')
    files = sorted(glob.glob('tests/testdata/**/*.asc', recursive=True)) + \
        sorted(glob.glob('tests/testdata/**/*.key', recursive=True)) + \
        sorted(glob.glob('tests/testdata/**/*.pub', recursive=True)) + \
        sorted(glob.glob('tests/testdata/**/*.sec', recursive=True))
    for f in files:
        try:
            with open(f, 'rb') as fh:
                text = fh.read()
            ua = Armorable.ascii_unarmor(text)
        except Exception as e:
            emit(f, 'UNARMOR', e.__class__.__name__)
            continue
        split_packets(f[len('tests/testdata/'):], ua['body'])


def section_headers():
    emit('== synthetic headers: every tag, both formats, every length-of-length')
    for tag in range(0, 64):
        for blen in (0, 1, 5):
            body = bytes((tag * 7 + i * 13 + 1) & 0xff for i in range(blen))
            # new format with 1/2/5 octet length encodings where legal
            roundtrip('new t%d l%d' % (tag, blen), bytes([0xc0 | tag]) + new_len(blen) + body)
            roundtrip('new5 t%d l%d' % (tag, blen), bytes([0xc0 | tag, 0xff]) + blen.to_bytes(4, 'big') + body)
            if tag < 16:
                for lt, ll in ((0, 1), (1, 2), (2, 4)):
                    roundtrip('old t%d lt%d l%d' % (tag, lt, blen),
                              bytes([0x80 | (tag << 2) | lt]) + blen.to_bytes(ll, 'big') + body)
    emit('== boundary body lengths on opaque/unknown tags and literal/userid/marker/trust')
    for tag in (13, 12, 60, 63, 20):
        for blen in (0, 1, 190, 191, 192, 193, 255, 256, 8382, 8383, 8384, 8385, 65535, 65536, 70000):
            body = bytes((i * 31 + blen) & 0x7f for i in range(blen))
            roundtrip('nb t%d l%d' % (tag, blen), bytes([0xc0 | tag]) + new_len(blen) + body)
            if tag < 16:
                for lt, ll in ((0, 1), (1, 2), (2, 4)):
                    if blen < (1 << (8 * ll)):
                        roundtrip('ob t%d lt%d l%d' % (tag, lt, blen),
                                  bytes([0x80 | (tag << 2) | lt]) + blen.to_bytes(ll, 'big') + body)
    emit('== non-minimal new-format length encodings (foreign producers)')
    for tag in (13, 61):
        for blen in (0, 5, 191, 192, 8383):
            body = bytes((i + 65) & 0x7f for i in range(blen))
            roundtrip('nm5 t%d l%d' % (tag, blen), bytes([0xc0 | tag, 0xff]) + blen.to_bytes(4, 'big') + body)
    emit('== indeterminate length (old format, length type 3)')
    for tag in (8, 11, 13, 9):
        for body in (b'', b'\x00', b'b\x00\x00\x00\x00\x00hello', b'\x01\x78\x9c\x03\x00\x00\x00\x00\x01'):
            buf = bytearray(bytes([0x80 | (tag << 2) | 3]) + body)
            try:
                p = Packet(buf)
                out = bytes(p)
                b2 = bytearray(out)
                p2 = Packet(b2)
                emit('ind t%d %s' % (tag, body.hex()), p.__class__.__name__, hdr(p.header), 'left=%d' % len(buf),
                     out.hex(), 'fixed=%s' % (bytes(p2) == out), 'left2=%d' % len(b2))
            except Exception as e:
                emit('ind t%d %s' % (tag, body.hex()), 'REJECT', e.__class__.__name__, str(e)[:80])
    emit('== partial body lengths')
    lit = b'b\x04name\x00\x00\x00\x2a' + bytes(range(256)) * 9
    for tag in (11, 8, 9, 18, 13, 62):
        for chunks in ((1,), (2, 1), (4, 2, 1), (512, 512), (1024, 256, 2), (2048,)):
            body = lit if tag == 11 else (b'\x00' + lit if tag == 8 else (b'\x01' + lit if tag == 18 else lit))
            buf = bytearray([0xc0 | tag])
            pos = 0
            for c in chunks:
                buf += bytes([224 + c.bit_length() - 1]) + body[pos:pos + c]
                pos += c
            last = body[pos:pos + 100]
            buf += new_len(len(last)) + last
            roundtrip('part t%d %s' % (tag, 'x'.join(map(str, chunks))), buf)
    emit('== truncated / malformed')
    for raw in (b'', b'\xcd', b'\xcd\x05ab', b'\xcd\xff\x00\x00', b'\xcd\xc0', b'\xb4', b'\xb5\x00', b'\x0d\x01a',
                b'\xc2\x01\x04', b'\xc2\x03\x04\x00\x01', b'\xc6\x01\x04', b'\xc6\x02\x07\x00', b'\xc1\x01\x03',
                b'\xc4\x01\x03', b'\xc3\x01\x04', b'\xc5\x01\x04', b'\xd1\x03\x05\x01\x00', b'\xd1\x02\xff\x00',
                b'\xcb\x01b', b'\xcb\x02b\x09', b'\xc8\x01\x09', b'\xc8\x03\x01\x00\x00', b'\xd2\x01\x02', b'\xd3\x01\x00',
                b'\xca\x03PGQ', b'\xca\x03PGP', b'\xca\x00', b'\xcc\x00', b'\xc9\x00', b'\xd3\x14' + b'\x11' * 20):
        roundtrip('mal %s' % raw.hex(), raw)
    emit('== unknown versions of versioned packets')
    for tag in (1, 2, 3, 4, 5, 6, 7, 14, 18):
        for ver in (0, 1, 2, 3, 4, 5, 6, 9, 255):
            body = bytes([ver]) + bytes((tag + ver + i) & 0xff for i in range(12))
            roundtrip('ver t%d v%d' % (tag, ver), bytes([0xc0 | tag]) + new_len(len(body)) + body)
            roundtrip('vero t%d v%d' % (tag, ver), bytes([0x80 | (tag << 2) | 1]) + len(body).to_bytes(2, 'big') + body)


def section_header_objects():
    emit('== Header objects: encode_length / llen / length setter')
    for n in (0, 1, 100, 191, 192, 193, 255, 256, 1000, 8383, 8384, 8385, 65535, 65536, 1 << 24, (1 << 32) - 1):
        emit('enc new', n, bytes(Header.encode_length(n)).hex())
        for ll in (0, 1, 2, 4):
            try:
                emit('enc old', n, ll, bytes(Header.encode_length(n, False, ll)).hex())
            except Exception as e:
                emit('enc old', n, ll, e.__class__.__name__)
        emit('sp enc', n, bytes(SPHeader.encode_length(n)).hex())
        for fmt in (0, 1):
            for lt in (0, 1, 2, 3):
                hd = Header()
                hd._lenfmt = fmt
                hd.llen = lt
                hd.tag = (0xc0 | 13) if fmt else (0x80 | (13 << 2) | lt)
                hd.length = n
                try:
                    emit('hdr', n, fmt, lt, 'tag=%d llen=%d len=%d' % (int(hd.tag), hd.llen, len(hd)),
                         bytes(hd.__bytearray__()).hex())
                except Exception as e:
                    emit('hdr', n, fmt, lt, e.__class__.__name__)
    for first in range(256):
        # every first octet of a header followed by a fixed tail
        buf = bytearray([first, 0x03, 0x02, 0x01, 0x00, 0x05, 0x06, 0x07, 0x08, 0x09] + [0x41] * 40)
        hd = Header()
        try:
            hd.parse(buf)
            emit('hparse %02x' % first, hdr(hd), 'left=%d' % len(buf))
        except Exception as e:
            emit('hparse %02x' % first, e.__class__.__name__)
        for second in (0, 191, 192, 223, 224, 225, 230, 254, 255):
            buf = bytearray([first | 0xc0, second] + [(i * 3) & 0xff for i in range(300)])
            hd = Header()
            try:
                hd.parse(buf)
                emit('hparse2 %02x %02x' % (first | 0xc0, second), hd.length, hd.llen, 'left=%d' % len(buf), h(buf))
            except Exception as e:
                emit('hparse2 %02x %02x' % (first | 0xc0, second), e.__class__.__name__)
            if first > 4:
                break
    for ver in (0, 1, 3, 4, 5, 255):
        vh = VersionedHeader()
        buf = bytearray([0xc2, 0x05, ver, 1, 2, 3, 4, 9, 9])
        vh.parse(buf)
        emit('vhdr', ver, hdr(vh), 'left=%d' % len(buf))
    emit('== MPI')
    for v in (0, 1, 127, 128, 255, 256, 65535, 65536, (1 << 2048) - 1, 1 << 2047, 0x1234567890abcdef):
        m = MPI(v)
        b = m.to_mpibytes()
        buf = bytearray(b) + TRAILER
        m2 = MPI(buf)
        emit('mpi', '%x' % v if v < 1 << 70 else h(b), len(m), m.byte_length(), h(b), m2 == m, buf == TRAILER,
             MPI(bytes(b)) == m)
    for raw in (b'\x00\x09\x01\xff', b'\x00\x10\x00\x01', b'\x00\x01\x80', b'\x00\x00', b'\x00\x08\x00'):
        buf = bytearray(raw) + TRAILER
        m = MPI(buf)
        emit('mpi-foreign', raw.hex(), int(m), bytes(m.to_mpibytes()).hex(), buf == TRAILER)
    emit('== Opaque')
    for val in (b'', b'abc', bytearray(b'\x00\xff'), bytes(range(200))):
        o = Opaque()
        o.header.tag = 0xc0 | 61
        o.payload = val
        o.update_hlen()
        roundtrip('opq %d' % len(val), bytes(o))
        emit('opq', len(val), o.payload.__class__.__name__, len(o), o.header.length, bytes(o).hex()[:60])


def bare(label, raw):
    """parse without any trailer (truncated input reaches the end of the buffer)"""
    buf = bytearray(raw)
    try:
        p = Packet(buf)
    except Exception as e:
        emit(label, 'REJECT', e.__class__.__name__, str(e)[:100], 'left=%d' % len(buf))
        return
    try:
        out = bytes(p)
        emit(label, p.__class__.__name__, hdr(p.header), 'left=%d' % len(buf), 'len=%d' % len(p), h(out), out == bytes(raw))
    except Exception as e:
        emit(label, p.__class__.__name__, 'SERIALISE', e.__class__.__name__, str(e)[:100])


def section_truncated():
    emit('== truncated input without trailer')
    for tagoctet in (0xcd, 0xcb, 0xc2, 0xc6, 0xfd, 0xc8, 0xd1):
        bare('t1 %02x' % tagoctet, bytes([tagoctet]))
        for x in range(256):
            bare('t2 %02x %02x' % (tagoctet, x), bytes([tagoctet, x]))
            if tagoctet == 0xcd:
                for y in (0, 1, 0x7f, 0xc0, 0xe0, 0xe1, 0xff):
                    bare('t3 %02x %02x %02x' % (tagoctet, x, y), bytes([tagoctet, x, y]))
                    bare('t4 %02x %02x %02x' % (tagoctet, x, y), bytes([tagoctet, x, y, 0xe0, 0x41, 0xc0]))
    for tagoctet in (0xb4, 0xb5, 0xb6, 0xb7, 0x88, 0x89, 0x8a, 0x8b):
        for tail in (b'', b'\x00', b'\x01', b'\x00\x01', b'\x01\x00', b'\x00\x00\x00', b'\x00\x00\x00\x02A', b'\xff' * 4):
            bare('to %02x %s' % (tagoctet, tail.hex()), bytes([tagoctet]) + tail)
    for f in sorted(glob.glob('tests/testdata/packets/[0-9]*')):
        with open(f, 'rb') as fh:
            raw = fh.read()
        cuts = sorted(set(list(range(0, min(len(raw), 24))) + [len(raw) // 2, len(raw) - 2, len(raw) - 1]))
        for c in cuts:
            if 0 <= c < len(raw):
                bare('cut %s %d' % (os.path.basename(f), c), raw[:c])
    # subpacket length headers on their own
    for x in range(256):
        for tail in (b'', b'\x02', b'\x02\x00\x00\x00\x00\x01'):
            buf = bytearray([x]) + tail
            try:
                sp = SigSP(buf)
                emit('spt %02x %s' % (x, tail.hex()), sp.__class__.__name__, sp.header.length, sp.header.llen, len(buf), h(bytes(sp)))
            except Exception as e:
                emit('spt %02x %s' % (x, tail.hex()), 'REJECT', e.__class__.__name__, str(e)[:80], len(buf))
    emit('== every length through encode -> parse')
    acc = hashlib.sha256()
    bad = 0
    for n in list(range(0, 8500)) + list(range(65500, 65600)) + [1 << 20, (1 << 32) - 1]:
        e = bytes(Header.encode_length(n))
        acc.update(e)
        for ll in (1, 2, 4):
            acc.update(bytes(Header.encode_length(n, False, ll)))
        hd = Header()
        buf = bytearray(e) + TRAILER
        hd.length = buf
        if hd.length != n or buf != TRAILER or hd.llen != len(e):
            bad += 1
        sh = SPHeader()
        buf = bytearray(e) + b'\x02' + TRAILER
        sh.parse(buf)
        if sh.length != n or buf != TRAILER:
            bad += 1
    emit('encode/parse all lengths', acc.hexdigest(), 'bad=%d' % bad)
    for a in range(192, 256):
        for b2 in range(256):
            hd = Header()
            buf = bytearray([a, b2, 1, 2, 3, 4])
            try:
                hd.length = buf
                acc.update(b'%d.%d.%d;' % (hd.length, hd.llen, len(buf)))
            except Exception as e:
                acc.update(('%s:%s;' % (e.__class__.__name__, e)).encode())
    emit('parse all two-octet prefixes', acc.hexdigest())


def section_api_built():
    emit('== packets built through the API and mutated in place')
    for text in ('Alice', 'Alice <a@example.com>', 'Alice (work) <a@example.com>', '', 'x' * 191, 'y' * 192, 'z' * 8384,
                 u'J\xfcrgen M\xfcller (☃) <j@example.org>'):
        u = P.UserID()
        u.uid = text
        try:
            u.update_hlen()
        except Exception as e:
            emit('uid-build', e.__class__.__name__)
            continue
        roundtrip('uid-build %d' % len(text), bytes(u))
    for raw in (b'\xff\xfe bad utf8 <x@y>', b'caf\xe9 (latin) <c@d>', b'\xc3\x28', b'ok \xf0\x9f\x98\x80 <e@f>', b'\x00\x01\x02'):
        p = roundtrip('uid-raw %s' % raw.hex(), bytes([0xcd, len(raw)]) + raw)
        if p is not None:
            emit('uid-raw', raw.hex(), dump(p)[:300])
    # edit a parsed userid then re-serialise
    for f in sorted(glob.glob('tests/testdata/packets/13.*')):
        with open(f, 'rb') as fh:
            p = Packet(bytearray(fh.read()))
        for newname in ('Q', 'New Name', 'n' * 300, 'm' * 9000):
            try:
                p.uid = newname
                p.update_hlen()
                roundtrip('uid-edit %s %d' % (os.path.basename(f), len(newname)), bytes(p))
            except Exception as e:
                emit('uid-edit', os.path.basename(f), len(newname), e.__class__.__name__)
    # literal packets
    import datetime
    for fmt in ('b', 't', 'u', 'l', '1'):
        for fname in ('', 'a', 'f' * 255, '_CONSOLE', u'\xfcber.txt'):
            for ts in (0, 1, 1234567890, 0xffffffff):
                for contents in (b'', b'hello\r\nworld', bytes(range(256)) * 40):
                    lp = P.LiteralData()
                    try:
                        lp.format = fmt
                        lp.filename = fname
                        lp.mtime = datetime.datetime.fromtimestamp(ts, datetime.timezone.utc) if ts != 0xffffffff else ts
                        lp._contents = bytearray(contents)
                        lp.update_hlen()
                        raw = bytes(lp)
                    except Exception as e:
                        emit('lit-build', fmt, len(fname), ts, len(contents), e.__class__.__name__, str(e)[:60])
                        continue
                    if len(contents) > 500 and (fmt != 'b' or ts != 1):
                        emit('lit-build', fmt, len(fname), ts, len(contents), h(raw))
                        continue
                    roundtrip('lit-build %s %d %d %d' % (fmt, len(fname), ts, len(contents)), raw)
    # add subpackets to a parsed signature, then re-serialise
    for f in sorted(glob.glob('tests/testdata/packets/02.v4.*')):
        with open(f, 'rb') as fh:
            sig = Packet(bytearray(fh.read()))
        try:
            sig.subpackets.addnew('Policy', hashed=True, uri='https://example.com/' + 'p' * 200)
            sig.subpackets.addnew('NotationData', hashed=False, flags=[pgpy.constants.NotationDataFlags.HumanReadable]
                                  if hasattr(pgpy.constants, 'NotationDataFlags') else 0x80,
                                  name='n@example.com', value='v' * 300)
            sig.subpackets.addnew('KeyExpirationTime', hashed=True, critical=True, expires=datetime.timedelta(days=3))
            sig.subpackets.addnew('PreferredHashAlgorithms', hashed=True, flags=[8, 9, 10, 11, 2])
            sig.subpackets.addnew('Features', hashed=True, flags=1)
            sig.subpackets.addnew('RegularExpression', hashed=True, regex='<[^>]+[@.]example\\.com>$')
            sig.subpackets.update_hlen()
            sig.update_hlen()
            roundtrip('sig-mut %s' % os.path.basename(f), bytes(sig))
        except Exception as e:
            emit('sig-mut', os.path.basename(f), e.__class__.__name__, str(e)[:100])
    # unknown signature subpackets, every type id, with critical bit and every length encoding
    with open('tests/testdata/packets/02.v4.0x13.signature', 'rb') as fh:
        base = fh.read()
    for t in range(0, 128, 1):
        for crit in (0, 0x80):
            for body in (b'', b'\x01', b'\x00' * 4, bytes(range(20)), b'\x07' * 200):
                for enc in ('min', 'five'):
                    ln = len(body) + 1
                    raw = (new_len(ln) if enc == 'min' else b'\xff' + ln.to_bytes(4, 'big')) + bytes([t | crit]) + body
                    buf = bytearray(raw) + TRAILER
                    try:
                        sp = SigSP(buf)
                        out = bytes(sp)
                        b2 = bytearray(out) + TRAILER
                        sp2 = SigSP(b2)
                        emit('sp', t, crit, len(body), enc, sp.__class__.__name__, buf == TRAILER, out == raw,
                             bytes(sp2) == out, b2 == TRAILER, sp.header.length, sp.header.llen, len(sp), h(out),
                             h(dump(sp).encode()))
                    except Exception as e:
                        emit('sp', t, crit, len(body), enc, 'REJECT', e.__class__.__name__, str(e)[:60], len(buf))
                    if t > 40 and len(body) > 4:
                        break
    for t in range(0, 8):
        for body in (b'', b'\x10\x00\x01\x01' + b'\x00' * 12 + b'\xff\xd8jpegdata', b'\x01\x02\x03',
                     b'\x11\x00\x01\x01' + b'\x00' * 12 + b'x' * 300, b'\x10\x00\x02\x01' + b'\x00' * 12 + b'zz'):
            ln = len(body) + 1
            raw = new_len(ln) + bytes([t]) + body
            buf = bytearray(raw) + TRAILER
            try:
                sp = UASP(buf)
                out = bytes(sp)
                b2 = bytearray(out) + TRAILER
                sp2 = UASP(b2)
                emit('uasp', t, len(body), sp.__class__.__name__, buf == TRAILER, out == raw, bytes(sp2) == out,
                     b2 == TRAILER, h(out), dump(sp)[:160])
            except Exception as e:
                emit('uasp', t, len(body), 'REJECT', e.__class__.__name__, str(e)[:60])


def section_keys_messages():
    emit('== high level objects: bytes(parse(bytes(x))) == bytes(x)')
    for f in sorted(glob.glob('tests/testdata/keys/*.asc')) + sorted(glob.glob('tests/testdata/blocks/*key*.asc')):
        try:
            k, _ = pgpy.PGPKey.from_file(f)
            b = bytes(k)
            k2, _ = pgpy.PGPKey.from_blob(b)
            emit('key', os.path.basename(f), str(k.fingerprint), len(b), h(b), bytes(k2) == b)
            for pk in (k._key, ) + tuple(sk._key for sk in k.subkeys.values()):
                raw = bytes(pk)
                roundtrip('keypkt %s %s' % (os.path.basename(f), pk.__class__.__name__), raw)
                emit('keypkt', pk.__class__.__name__, 'fp=%s' % pk.fingerprint, 'kmlen=%d/%d' % (
                    len(pk.keymaterial), len(bytes(pk.keymaterial))))
        except Exception as e:
            emit('key', os.path.basename(f), e.__class__.__name__, str(e)[:80])
    for f in sorted(glob.glob('tests/testdata/messages/*.asc')) + sorted(glob.glob('tests/testdata/blocks/*message*.asc')):
        try:
            m = pgpy.PGPMessage.from_file(f)
            b = bytes(m)
            m2 = pgpy.PGPMessage.from_blob(b)
            emit('msg', os.path.basename(f), m.type, len(b), h(b), bytes(m2) == b)
        except Exception as e:
            emit('msg', os.path.basename(f), e.__class__.__name__, str(e)[:80])
    for f in sorted(glob.glob('tests/testdata/signatures/*.asc')) + sorted(glob.glob('tests/testdata/blocks/*sig*.asc')):
        try:
            s = pgpy.PGPSignature.from_file(f)
            b = bytes(s)
            s2 = pgpy.PGPSignature.from_blob(b)
            emit('sig', os.path.basename(f), s.type, len(b), h(b), bytes(s2) == b)
        except Exception as e:
            emit('sig', os.path.basename(f), e.__class__.__name__, str(e)[:80])
    emit('== compressed packets nesting packets, every algorithm')
    from pgpy.constants import CompressionAlgorithm
    with open('tests/testdata/packets/11.literal', 'rb') as fh:
        lit = fh.read()
    with open('tests/testdata/packets/13.name.userid', 'rb') as fh:
        uid = fh.read()
    for alg in CompressionAlgorithm:
        cd = P.CompressedData()
        cd.calg = alg
        d = bytearray(lit + uid + b'\xfd\x03abc')
        while d:
            cd.packets.append(Packet(d))
        cd.update_hlen()
        raw = bytes(cd)
        emit('cd-build', alg.name, len(raw), h(raw))
        roundtrip('cd %s' % alg.name, raw)
        # nest once more
        cd2 = P.CompressedData()
        cd2.calg = alg
        cd2.packets.append(Packet(bytearray(raw)))
        cd2.update_hlen()
        roundtrip('cd2 %s' % alg.name, bytes(cd2))


def main(extra=None):
    section_header_objects()
    section_headers()
    section_truncated()
    section_testdata()
    section_api_built()
    section_keys_messages()
    if extra:
        extra(emit, roundtrip, dump, h)
    text = '\n'.join(OUT) + '\n'
    sys.stdout.write(text)
    sys.stdout.write('lines=%d digest=%s\n' % (len(OUT), hashlib.sha256(text.encode('utf-8', 'replace')).hexdigest()))


if __name__ == '__main__':
    main()
