"""Equivalence probe for property C06 (secret keys at rest).

Run as:  cd <tree> && /venv/bin/python equiv.py
Prints one digest; it must be the same on the unchanged and on the refactored tree.
os.urandom is replaced by a deterministic counter so that salt / IV are reproducible.
"""
import sys
import os
sys.path.insert(0, os.getcwd())

import copy
import glob
import hashlib
import pickle
import warnings

warnings.simplefilter('ignore')

_ctr = [0]


def _fake_urandom(n):
    out = bytearray()
    while len(out) < n:
        _ctr[0] += 1
        out += hashlib.sha256(b'equiv%d' % _ctr[0]).digest()
    return bytes(out[:n])


os.urandom = _fake_urandom

import pgpy  # noqa: E402
from pgpy.constants import SymmetricKeyAlgorithm, HashAlgorithm, String2KeyType  # noqa: E402
from pgpy.packet.fields import String2Key, RSAPriv, DSAPriv, ElGPriv, ECDSAPriv, EdDSAPriv, ECDHPriv  # noqa: E402
from pgpy.packet.types import MPI  # noqa: E402

out = []


def rec(*a):
    out.append(repr(a))


def km_state(key):
    res = []
    for sk in [key] + list(key.subkeys.values()):
        km = sk._key.keymaterial
        s2k = km.s2k
        res.append((type(km).__name__,
                    [int(i) if isinstance(i, int) else (type(i).__name__, bytes(i.to_mpibytes()).hex()) for i in km],
                    list(km.__mpis__), len(km), km.publen(), bytes(km.__bytearray__()).hex(),
                    bytes(km.encbytes).hex(), bytes(km.chksum).hex(),
                    sorted(k for k in vars(km)),
                    (s2k.usage, int(s2k.encalg), int(s2k.specifier), int(s2k.halg), bytes(s2k.salt).hex(),
                     s2k.count, s2k._count, None if s2k.iv is None else bytes(s2k.iv).hex(), int(s2k.gnuext),
                     s2k.scserial, len(s2k), bool(s2k), bytes(s2k.__bytearray__()).hex()),
                    sk._key.protected, sk._key.unlocked, sk._key.header.length))
    return res


def snapshot(tag, key):
    rec(tag, key.is_protected, key.is_unlocked, bytes(key).hex(), km_state(key))
    c = copy.copy(key)
    rec(tag, 'copy', bytes(c).hex(), km_state(c))
    s2k = key._key.keymaterial.s2k
    c2 = copy.copy(s2k)
    rec(tag, 's2kcopy', sorted(vars(c2).items(), key=lambda kv: kv[0]) == sorted(vars(s2k).items(), key=lambda kv: kv[0]),
        c2.salt is not s2k.salt, bytes(c2.__bytearray__()).hex())
    try:
        pk = pickle.loads(pickle.dumps(key._key.keymaterial, 2))
        rec(tag, 'pickle', bytes(pk.__bytearray__()).hex(), sorted(vars(pk)), sorted(vars(pk.s2k)), len(pk))
    except Exception as e:  # pragma: no cover
        rec(tag, 'pickle-exc', type(e).__name__, str(e))


def attempt(tag, fn):
    with warnings.catch_warnings(record=True) as w:
        warnings.simplefilter('always')
        try:
            r = fn()
            rec(tag, 'ok', r)
        except Exception as e:
            rec(tag, 'exc', type(e).__name__, str(e))
        rec(tag, 'warnings', [(x.category.__name__, str(x.message)) for x in w
                              if 'Deprecat' not in x.category.__name__])


PASSES = ['correct horse', u'pässwörd ☃', b'\x00\xffbytes pass', 'x' * 300, '']
ALGS = [(SymmetricKeyAlgorithm.AES256, HashAlgorithm.SHA256),
        (SymmetricKeyAlgorithm.AES128, HashAlgorithm.SHA1),
        (SymmetricKeyAlgorithm.CAST5, HashAlgorithm.SHA512),
        (SymmetricKeyAlgorithm.Camellia192, HashAlgorithm.SHA384),
        (SymmetricKeyAlgorithm.TripleDES, HashAlgorithm.SHA224)]

files = sorted(glob.glob('tests/testdata/keys/*.sec*.asc'))
n = 0
for f in files:
    key, _ = pgpy.PGPKey.from_file(f)
    snapshot(f + ':fresh', key)
    for rnd in range(2):
        pw = PASSES[n % len(PASSES)]
        enc, halg = ALGS[n % len(ALGS)]
        n += 1
        before = [[int(i) for i in sk._key.keymaterial if isinstance(i, int)] for sk in [key] + list(key.subkeys.values())]
        if rnd == 0:
            attempt(f + ':protect', lambda: key.protect(pw, enc, halg))
        else:
            # re-protect from inside the unlock scope
            def reprotect():
                with key.unlock(oldpw):
                    key.protect(pw, enc, halg)
            attempt(f + ':reprotect', reprotect)
        oldpw = pw
        snapshot(f + ':protected%d' % rnd, key)
        attempt(f + ':protect-again', lambda: key.protect('zzz', enc, halg))

        # round trip through the armored export
        key2, _ = pgpy.PGPKey.from_blob(str(key))
        snapshot(f + ':reimport%d' % rnd, key2)

        for k in (key, key2):
            def wrong():
                with k.unlock('definitely wrong'):
                    return 'entered'
            attempt(f + ':wrong', wrong)
            rec(f, 'after-wrong', k.is_unlocked, km_state(k))

            def right():
                with k.unlock(pw) as u:
                    inside = [[int(i) for i in sk._key.keymaterial if isinstance(i, int)] for sk in [k] + list(k.subkeys.values())]
                    rec(f, 'inside', inside == before, u is k, k.is_unlocked, km_state(k))
                    if k.key_algorithm == 1:
                        sig = k.sign('hello', created=__import__('datetime').datetime(2020, 1, 1))
                        rec(f, 'sig', bytes(sig).hex())
                return 'left'
            attempt(f + ':right', right)
            rec(f, 'after-right', k.is_unlocked, km_state(k))

            def boom():
                with k.unlock(pw):
                    raise KeyError('boom')
            attempt(f + ':boom', boom)
            rec(f, 'after-boom', k.is_unlocked, km_state(k))
            attempt(f + ':sign-locked', lambda: k.sign('hello'))

# foreign protected fixtures
for f, pw in [('tests/testdata/keys/rsa.1.enc.asc', 'QwertyUiop'), ('tests/testdata/keys/dsa.1.enc.asc', 'QwertyUiop')]:
    key, _ = pgpy.PGPKey.from_file(f)
    snapshot(f + ':fresh', key)

    def wrong():
        with key.unlock('nope'):
            pass
    attempt(f + ':wrong', wrong)

    def right():
        with key.unlock(pw):
            rec(f, 'inside', km_state(key))
    attempt(f + ':right', right)
    snapshot(f + ':after', key)

# other secret key blocks (incl. GNU-dummy / foreign S2K forms if present)
for f in sorted(glob.glob('tests/testdata/blocks/*seckey*.asc')) + ['tests/testdata/sectest.asc']:
    def load():
        key, _ = pgpy.PGPKey.from_file(f)
        snapshot(f, key)
        with key.unlock('whatever'):
            pass
    attempt(f, load)

# public key: protect / unlock are refused
pub, _ = pgpy.PGPKey.from_file('tests/testdata/keys/rsa.1.pub.asc')
attempt('pub-protect', lambda: pub.protect('x', SymmetricKeyAlgorithm.AES256, HashAlgorithm.SHA256))


def pub_unlock():
    with pub.unlock('x') as u:
        return u is pub


attempt('pub-unlock', pub_unlock)

# String2Key direct: every specifier form, with and without IV, serialise / parse / copy / derive
for usage in (0, 254, 255, 9):
    for spec in (0, 1, 3):
        for enc in (SymmetricKeyAlgorithm.AES128, SymmetricKeyAlgorithm.CAST5, SymmetricKeyAlgorithm.AES256):
            for withiv in (True, False):
                s = String2Key()
                s.usage = usage
                s.encalg = enc
                s.specifier = spec
                s.halg = HashAlgorithm.SHA256 if spec != 1 else HashAlgorithm.SHA1
                s.salt = bytearray(b'saltsalt')
                s.count = 96
                if withiv:
                    s.iv = bytearray(range(enc.block_size // 8))
                b = s.__bytearray__()
                rec('s2k', usage, spec, int(enc), withiv, bytes(b).hex(), len(s), bool(s), s.__nonzero__())
                p = String2Key()
                buf = bytearray(b) + b'TRAILING-DATA-0123456789abcdef'
                attempt('s2k-parse', lambda: (p.parse(buf, withiv), bytes(buf).hex(), bytes(p.__bytearray__()).hex(),
                                              sorted((k, repr(v)) for k, v in vars(p).items())))
                c = copy.copy(s)
                rec('s2k-copy', bytes(c.__bytearray__()).hex(), sorted((k, repr(v)) for k, v in vars(c).items()),
                    c.salt is s.salt, c.iv is s.iv)
                if usage in (254, 255):
                    for pw in PASSES:
                        attempt('derive', lambda: bytes(s.derive_key(pw)).hex())

# GNU extension forms
for raw in (b'\xfe\x00\x65\x00GNU\x01rest', b'\xff\x00\x65\x00GNU\x02\x04abcdrest', b'\xfe\x00\x65\x00GNU\x02\x20' + bytes(range(40)),
            b'\xfe\x00\x65\x00GNX\x01rest', b'\xfe\x09\x03\x08', b'\xfe', b''):
    p = String2Key()
    buf = bytearray(raw)
    attempt('s2k-gnu', lambda: (p.parse(buf), bytes(buf).hex(), bytes(p.__bytearray__()).hex(), len(p),
                                sorted((k, repr(v)) for k, v in vars(p).items()),
                                bytes(copy.copy(p).__bytearray__()).hex()))

# bare key material classes: defaults, clear on pristine objects, clear with a missing attribute
for cls in (RSAPriv, DSAPriv, ElGPriv, ECDSAPriv, EdDSAPriv, ECDHPriv):
    km = cls()
    rec(cls.__name__, list(km.__mpis__), km.__privfields__, sorted(vars(km)), [repr(type(getattr(km, x))) for x in km.__privfields__])
    attempt(cls.__name__ + ':len', lambda: len(km))
    attempt(cls.__name__ + ':bytes', lambda: bytes(km.__bytearray__()).hex())
    attempt(cls.__name__ + ':clear', lambda: (km.clear(), sorted(vars(km)), [int(getattr(km, x)) for x in km.__privfields__]))
    delattr(km, km.__privfields__[-1])
    attempt(cls.__name__ + ':clear-missing', lambda: km.clear())
    rec(cls.__name__, 'after-missing', sorted(vars(km)))
    attempt(cls.__name__ + ':copy', lambda: sorted(vars(copy.copy(cls()))))

if os.environ.get("EQUIV_DUMP"):
    open(os.environ["EQUIV_DUMP"], "w").write("\n".join(out))
print(hashlib.sha256('\n'.join(out).encode('utf-8')).hexdigest(), len(out))
