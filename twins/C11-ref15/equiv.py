# Behaviour digest for the cleartext signature framework (C11).
# Run as: cd <tree> && /venv/bin/python equiv.py
import os
import sys
sys.path.insert(0, os.getcwd())

import glob
import hashlib
import warnings
from datetime import datetime

import pgpy
from pgpy import PGPKey, PGPMessage, PGPSignature
from pgpy.constants import HashAlgorithm
from pgpy.types import Armorable

warnings.simplefilter('ignore')

out = hashlib.sha256()


LOG = open(os.environ['EQUIV_LOG'], 'w') if os.environ.get('EQUIV_LOG') else None


def emit(label, value):
    if isinstance(value, (bytes, bytearray)):
        value = bytes(value).hex()
    out.update(('%s=%r\n' % (label, value)).encode('utf-8'))
    if LOG:
        LOG.write('%s=%r\n' % (label, value))


def attempt(label, fn):
    try:
        emit(label, fn())
    except Exception as ex:  # same exception type and message expected on both trees
        emit(label + '!exc', (type(ex).__name__, str(ex)))


TEXTS = [
    u'',
    u'one line',
    u'one line\n',
    u'- dash space\n-nodash\n--two\n',
    u'From here\n-----BEGIN PGP SIGNATURE-----\n\nabcd\n=abcd\n-----END PGP SIGNATURE-----\n',
    u'trailing blanks   \nand tabs\t\t\n mixed \t \nend  ',
    u'crlf line\r\nsecond \r\n\r\nlast\r\n',
    u'lone cr\rsame line\n',
    u'\n\n\n',
    u'non-ascii: caf\xe9 € \U0001F600\n- é\n',
    u'x' * 5000 + u'\n-' + u'y' * 3000,
]
CREATED = datetime(2020, 1, 2, 3, 4, 5)

rsa_sec, _ = PGPKey.from_file('tests/testdata/keys/rsa.1.sec.asc')
rsa_pub, _ = PGPKey.from_file('tests/testdata/keys/rsa.1.pub.asc')

# 1. armor parsing of every armored fixture
for fn in sorted(glob.glob('tests/testdata/messages/*.asc') + glob.glob('tests/testdata/signatures/*.asc')
                 + glob.glob('tests/testdata/blocks/*.asc') + glob.glob('tests/testdata/keys/*.pub.asc')):
    with open(fn, 'rb') as f:
        raw = f.read()
    for form in (raw, bytearray(raw), raw.decode('latin-1'), raw.replace(b'\n', b'\r\n')):
        def _unarmor(form=form):
            d = Armorable.ascii_unarmor(form)
            return sorted((k, bytes(v).hex() if isinstance(v, bytearray) else
                           (list(v.items()) if hasattr(v, 'items') else v)) for k, v in d.items())
        attempt('unarmor:' + os.path.basename(fn), _unarmor)
        attempt('is_armor:' + os.path.basename(fn), lambda form=form: Armorable.is_armor(form))

for bad in (b'\x99\x01\x02\xff', bytearray(b'\xc0\x00'), u'not armored at all', b'', u'', u'caf\xe9', 5, None):
    attempt('unarmor-bad', lambda bad=bad: sorted((k, repr(v)) for k, v in Armorable.ascii_unarmor(bad).items()))

# 2. cleartext fixtures: parse, print, re-parse, verify
for fn in sorted(glob.glob('tests/testdata/messages/cleartext*.asc')):
    msg = PGPMessage.from_file(fn)
    emit('fx.type', msg.type)
    emit('fx.message', msg.message)
    emit('fx.signed', msg._signed_data)
    emit('fx.headers', list(msg.ascii_headers.items()))
    emit('fx.str', str(msg))
    emit('fx.bytes', bytes(msg))
    again = PGPMessage.from_blob(str(msg))
    emit('fx.again', (again.message, [bytes(s) for s in again.signatures], str(again) == str(msg)))
    emit('fx.signers', sorted(msg.signers))

# 3. generated cleartext messages over an adversarial alphabet
for text in TEXTS:
    for halg in (HashAlgorithm.SHA256, HashAlgorithm.SHA512):
        msg = PGPMessage.new(text, cleartext=True)
        emit('gen.unsigned', str(msg))
        sig = rsa_sec.sign(msg, hash=halg, created=CREATED)
        emit('gen.sigtype', (int(sig.type), sig.hash_algorithm.name))
        emit('gen.hashdata', sig.hashdata(msg._signed_data))
        msg |= sig
        if halg is HashAlgorithm.SHA512:
            msg |= rsa_sec.sign(msg, hash=HashAlgorithm.SHA1, created=CREATED)
        armored = str(msg)
        emit('gen.str', armored)
        def _roundtrip(armored=armored, msg=msg):
            back = PGPMessage.from_blob(armored)
            res = [(back.message, back.message == msg.message, back._signed_data,
                    [bytes(s) for s in back.signatures], str(back) == armored if isinstance(armored, str) else str(back).encode('utf-8') == armored)]
            res.append([(int(s.issues), bytes(s.signature), s.subject) for s in rsa_pub.verify(back)._subjects])
            crlf = PGPMessage.from_blob(armored.replace(b'\n', b'\r\n') if isinstance(armored, bytes) else armored.replace('\n', '\r\n'))
            res.append((crlf.message, crlf._signed_data, bool(rsa_pub.verify(crlf))))
            return res
        attempt('gen.roundtrip', _roundtrip)
        attempt('gen.roundtrip.utf8', lambda: _roundtrip(armored.encode('utf-8')))
        attempt('gen.verify.direct', lambda: [(int(s.issues), s.subject) for s in rsa_pub.verify(msg)._subjects])
        emit('gen.escape', (PGPMessage.dash_escape(text), PGPMessage.dash_unescape(PGPMessage.dash_escape(text)) == text))

# 4. detached text / binary signatures and non-cleartext messages still behave
for text in TEXTS[:6]:
    sig = rsa_sec.sign(text, created=CREATED)
    emit('det.sig', bytes(sig))
    attempt('det.verify', lambda: bool(rsa_pub.verify(text, sig)))
    lit = PGPMessage.new(text, file=False)
    lit |= rsa_sec.sign(lit, created=CREATED)
    emit('lit.roundtrip', PGPMessage.from_blob(str(lit)).message)
    attempt('lit.verify', lambda: bool(rsa_pub.verify(lit)))

empty = PGPMessage()
attempt('empty.verify', lambda: rsa_pub.verify(empty))
attempt('empty.str', lambda: str(empty))
attempt('other.key.verify', lambda: PGPKey.from_file('tests/testdata/keys/dsa.1.pub.asc')[0].verify(
    PGPMessage.from_file('tests/testdata/messages/cleartext.signed.asc')))
for obj, txt in ((PGPMessage, None), (PGPMessage, b'by\xc3\xa9tes'), (PGPMessage, bytearray(b'ba')), (PGPMessage, u'\xe9')):
    attempt('t2b', lambda: obj.text_to_bytes(txt))
    attempt('b2t', lambda: obj.bytes_to_text(txt))
attempt('b2t.bad', lambda: PGPMessage.bytes_to_text(b'\xff\xfe'))
attempt('t2b.bad', lambda: PGPMessage.text_to_bytes(5))

# 5. a wrong armor checksum still only warns (same category, message and reporting module)
with open('tests/testdata/messages/cleartext.signed.asc') as f:
    good = f.read()
crcline = [ln for ln in good.splitlines() if ln.startswith('=') and len(ln) == 5][0]
with warnings.catch_warnings(record=True) as caught:
    warnings.simplefilter('always')
    bad = PGPMessage.from_blob(good.replace(crcline, '=AAAA'))
    emit('badcrc.msg', (bad.message, [bytes(s) for s in bad.signatures]))
    emit('badcrc.warnings', [(w.category.__name__, str(w.message), os.path.basename(w.filename)) for w in caught])

# 6. hash input of key signatures (certifications, bindings, revocations) and key verification
for fn in sorted(glob.glob('tests/testdata/keys/*.pub.asc') + glob.glob('tests/testdata/blocks/*key*.asc')
                 + glob.glob('tests/testdata/revocations/*.asc')):
    def _load(fn=fn):
        return PGPKey.from_file(fn)[0]
    try:
        obj = _load()
    except Exception as ex:
        emit('key.load!exc:' + os.path.basename(fn), (type(ex).__name__, str(ex)))
        continue
    if isinstance(obj, PGPSignature):
        emit('rev.sig', (int(obj.type), bytes(obj)))
        continue
    key = obj
    for uid in key.userids + key.userattributes:
        for sig in uid.__sig__:
            attempt('key.uid.hashdata:%d' % int(sig.type), lambda: sig.hashdata(uid))
    for sig in key.__sig__:
        attempt('key.direct.hashdata:%d' % int(sig.type), lambda: sig.hashdata(key))
    for sk in key.subkeys.values():
        for sig in sk.__sig__:
            attempt('key.subkey.hashdata:%d' % int(sig.type), lambda: sig.hashdata(sk))
    attempt('key.verify', lambda: sorted((int(s.issues), bytes(s.signature)) for s in key.verify(key)._subjects))

attempt('revoke.key', lambda: rsa_sec.revoke(rsa_sec, created=CREATED).hashdata(rsa_sec))
for sk in rsa_sec.subkeys.values():
    attempt('revoke.subkey', lambda: rsa_sec.revoke(sk, created=CREATED).hashdata(sk))
for uid in rsa_sec.userids:
    attempt('certify.uid', lambda: rsa_sec.certify(uid, created=CREATED).hashdata(uid))
    attempt('revoke.uid', lambda: rsa_sec.revoke(uid, created=CREATED).hashdata(uid))
attempt('timestamp', lambda: rsa_sec.sign(None, created=CREATED).hashdata(None))

if LOG:
    LOG.close()
print(out.hexdigest())
