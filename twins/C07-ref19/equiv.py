"""Digest of the observable public-export / key-state behaviour of PGPy.

Run as:  cd <tree> && /venv/bin/python equiv.py
Prints the same digest on the unchanged and on the refactored tree.
"""
import os
import sys
sys.path.insert(0, os.getcwd())

import copy
import glob
import hashlib
import pickle
import warnings

warnings.simplefilter('ignore')

import pgpy
from pgpy.constants import SignatureType
from pgpy.packet import Packet
from pgpy.packet.fields import ECDHPriv, ECDSAPriv, RSAPriv, DSAPriv, ElGPriv, EdDSAPriv

out = []


def rec(*a):
    out.append(' | '.join(a if isinstance(a, str) else repr(a) for a in a))


def tags(blob):
    # walk the packet framing independently of the key object
    blob = bytearray(blob)
    seq = []
    while blob:
        pkt = Packet(blob)
        seq.append((type(pkt).__name__, pkt.header.tag, pkt.header.length))
    return seq


def attempt(label, fn):
    try:
        res = fn()
        rec(label, 'ok', type(res).__name__)
    except Exception as e:  # noqa
        rec(label, type(e).__name__, str(e))


def state(label, k):
    rec(label, 'state', k.is_public, k.is_primary, k.is_protected, k.is_unlocked, k.magic,
        str(k.fingerprint), repr(k.key_algorithm), str(k.key_size), sorted(k.subkeys.keys()),
        [u.name for u in k.userids], len(list(k.signers)))


def km_state(label, km):
    rec(label, 'km', type(km).__name__, len(km), km.publen(), list(km.__mpis__),
        hashlib.sha256(bytes(km.__bytearray__())).hexdigest(),
        hashlib.sha256(bytes(copy.copy(km).__bytearray__())).hexdigest(),
        [int(i) if isinstance(i, int) else hashlib.sha256(bytes(i.__bytearray__())).hexdigest() for i in km][:1])


def exercise(path, passphrase=None):
    name = os.path.basename(path)
    key, _ = pgpy.PGPKey.from_file(path)
    state(name, key)
    rec(name, 'bytes', hashlib.sha256(bytes(key)).hexdigest(), hashlib.sha256(str(key).encode()).hexdigest())
    rec(name, 'tags', tags(bytes(key)))
    km_state(name, key._key.keymaterial)
    for skid, sk in key.subkeys.items():
        state(name + '/' + skid, sk)
        km_state(name + '/' + skid, sk._key.keymaterial)

    def derived(label, k):
        pub = k.pubkey
        rec(label, 'pub is cached', pub is k.pubkey, pub.pubkey is pub)
        state(label + ':pub', pub)
        b = bytes(pub)
        rec(label, 'pubbytes', hashlib.sha256(b).hexdigest(), hashlib.sha256(str(pub).encode()).hexdigest())
        rec(label, 'pubtags', tags(b))
        km_state(label + ':pub', pub._key.keymaterial)
        rec(label, 'pubpkt', type(pub._key).__name__, pub._key.header.length, len(pub._key.__bytearray__()),
            [(type(s._key).__name__, s._key.header.length) for s in pub.subkeys.values()])
        # reload through the parser
        re_pub, _ = pgpy.PGPKey.from_blob(str(pub))
        rec(label, 'reload', re_pub.is_public, str(re_pub.fingerprint), bytes(re_pub) == b)
        # copies
        cp = copy.copy(pub)
        rec(label, 'copy', bytes(cp) == b, cp.is_public, str(cp) == str(pub))
        # private operations on the public twin
        attempt(label + ':pub.sign', lambda: pub.sign('hello'))
        attempt(label + ':pub.certify', lambda: pub.certify(pub.userids[0]))
        attempt(label + ':pub.revoke', lambda: pub.revoke(pub.userids[0]))
        attempt(label + ':pub.decrypt', lambda: pub.decrypt(pgpy.PGPMessage.new('x')))
        attempt(label + ':pub.protect', lambda: pub.protect('x', None, None))
        attempt(label + ':pub.setpub', lambda: setattr(pub, 'pubkey', pub))
        attempt(label + ':sec.setpub.sec', lambda: setattr(k, 'pubkey', k))
        attempt(label + ':sec.setpub.again', lambda: setattr(k, 'pubkey', pub))
        attempt(label + ':pub|int', lambda: pub | 12)
        attempt(label + ':pub|None', lambda: pub | None)
        for sk in pub.subkeys.values():
            attempt(label + ':pubsub.sign', lambda: sk.sign('hello'))
        return pub

    if key.is_public:
        rec(name, 'self pub', key.pubkey is key)
        attempt(name + ':sign', lambda: key.sign('hello'))
        attempt(name + ':setpub', lambda: setattr(key, 'pubkey', key))
        cp = copy.copy(key)
        rec(name, 'copy', bytes(cp) == bytes(key), str(cp) == str(key))
        return

    pub = derived(name, key)
    cp = copy.copy(key)
    rec(name, 'seccopy', bytes(cp) == bytes(key), cp.is_public, cp.is_protected, cp._sibling is None)

    if key.is_protected:
        attempt(name + ':locked.sign', lambda: key.sign('hello'))
        attempt(name + ':locked.certify', lambda: key.certify(key.userids[0]))
        if passphrase is not None:
            with key.unlock(passphrase):
                state(name + ':unlocked', key)
                b = bytes(key.pubkey)
                rec(name, 'unlocked pub same', b == bytes(pub), key.pubkey is pub)
                # a fresh private copy, unlocked, derives its own twin
                fresh, _ = pgpy.PGPKey.from_file(path)
                with fresh.unlock(passphrase):
                    fpub = fresh.pubkey
                    rec(name, 'fresh unlocked pub', bytes(fpub) == b, tags(bytes(fpub)) == tags(b))
                    km_state(name + ':unlocked', fresh._key.keymaterial)
            state(name + ':relocked', key)
    else:
        # history: additions to the private key after the twin has been derived
        if key.key_algorithm.can_sign:
            with warnings.catch_warnings():
                warnings.simplefilter('ignore')
                uid = pgpy.PGPUID.new('Later Addition', comment='c', email='later@example.com')
                try:
                    key.add_uid(uid, selfsign=False)
                    rec(name, 'after add_uid', [u.name for u in key.userids], [u.name for u in pub.userids],
                        [t[:2] for t in tags(bytes(pub))], [t[:2] for t in tags(bytes(key))])
                except Exception as e:  # noqa
                    rec(name, 'add_uid', type(e).__name__, str(e))
            rec(name, 'pub still cached', key.pubkey is pub)


base = os.path.join('tests', 'testdata', 'keys')
for p in sorted(glob.glob(os.path.join(base, '*.asc'))):
    pw = 'QwertyUiop' if '.enc.' in p else None
    try:
        exercise(p, pw)
    except Exception as e:  # noqa
        rec(os.path.basename(p), 'EXC', type(e).__name__, str(e))

for p in (os.path.join('tests', 'testdata', 'pubtest.asc'), os.path.join('tests', 'testdata', 'sectest.asc')):
    try:
        exercise(p)
    except Exception as e:  # noqa
        rec(os.path.basename(p), 'EXC', type(e).__name__, str(e))

# key-material classes in their pristine state
for cls in (RSAPriv, DSAPriv, ElGPriv, ECDSAPriv, EdDSAPriv, ECDHPriv):
    km = cls()
    rec(cls.__name__, 'fresh', list(km.__mpis__), [int(i) if isinstance(i, int) else repr(type(i)) for i in km],
        sorted(k for k in vars(km)), km.__pubfields__, km.__privfields__)
    if cls in (RSAPriv, DSAPriv, ElGPriv):
        rec(cls.__name__, 'fresh bytes', bytes(km.__bytearray__()).hex(), len(km), km.publen())
        km.clear()
        rec(cls.__name__, 'cleared bytes', bytes(km.__bytearray__()).hex(), len(km), km.publen())

# an empty key shell
shell = pgpy.PGPKey()
rec('shell', shell.is_public, shell.is_primary, shell.magic, repr(shell)[:18])
attempt('shell.is_protected', lambda: shell.is_protected)
attempt('shell.is_unlocked', lambda: shell.is_unlocked)
attempt('shell.sign', lambda: shell.sign('x'))
attempt('shell.pubkey', lambda: shell.pubkey)
attempt('shell.bytes', lambda: bytes(shell))

text = '\n'.join(out)
if '--dump' in sys.argv:
    print(text)
print(len(out), hashlib.sha256(text.encode()).hexdigest())
