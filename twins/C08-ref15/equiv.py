"""Equivalence probe for the subpacket-layer refactoring (C08 ref2).

Run as: cd <tree> && /venv/bin/python equiv.py
Prints one digest; it must be identical on the unchanged and on the refactored tree.
"""
import copy
import glob
import hashlib
import os
import pickle
import re
import sys
import warnings

sys.path.insert(0, os.getcwd())
warnings.simplefilter('ignore')

import pgpy  # noqa: E402
from pgpy.packet import Packet  # noqa: E402
from pgpy.packet.subpackets import Signature as SigSP  # noqa: E402
from pgpy.packet.subpackets import UserAttribute as UASP  # noqa: E402
from pgpy.packet.subpackets import signature as sigmod  # noqa: E402
from pgpy.packet.subpackets import userattribute as uamod  # noqa: E402
from pgpy.packet.subpackets.types import Header as SPHeader  # noqa: E402
from pgpy.packet.subpackets.types import Opaque as SPOpaque  # noqa: E402

out = []


def rec(*items):
    out.append(repr(items))


def norm_repr(o):
    return re.sub(r'at 0x[0-9a-f]+', 'at 0x?', repr(o))


def public_state(sp):
    st = {}
    for k, v in sorted(vars(sp).items()):
        if k == 'header':
            v = sorted(vars(v).items())
        try:
            st[k] = re.sub(r'at 0x[0-9a-f]+', 'at 0x?', repr(v))
        except Exception as e:  # Fingerprint.__repr__ refuses short values
            st[k] = (type(e).__name__, str(e), str(v))
    return st


TRAILER = b'\xde\xca\xff\xba\xdd'


def probe_sp(root, raw, tag):
    buf = bytearray(raw) + TRAILER
    try:
        sp = root(buf)
    except Exception as e:
        rec(tag, 'EXC', type(e).__name__, str(e), bytes(buf).hex())
        return None
    rec(tag, type(sp).__name__, norm_repr(sp), bytes(sp).hex(), len(sp), bytes(buf).hex(), public_state(sp))
    sp.update_hlen()
    rec(tag, 'upd', bytes(sp).hex(), len(sp), sp.header.length)
    again = bytearray(bytes(sp)) + TRAILER
    try:
        sp2 = root(again)
        rec(tag, 'again', bytes(sp2) == bytes(sp), bytes(again).hex(), public_state(sp2) == public_state(sp))
    except Exception as e:
        rec(tag, 'again', type(e).__name__, str(e), bytes(again).hex())
    c = copy.deepcopy(sp)
    rec(tag, 'deepcopy', bytes(c).hex(), public_state(c))
    try:
        rec(tag, 'pickle', hashlib.sha256(pickle.dumps(sp, 2)).hexdigest())
    except Exception as e:
        rec(tag, 'pickle', type(e).__name__)
    return sp


# 1. all packet fixtures (signature packets carry subpackets, 17.userattribute carries an image)
for fn in sorted(glob.glob('tests/testdata/packets/[0-9]*')):
    with open(fn, 'rb') as f:
        buf = bytearray(f.read()) + TRAILER
    p = Packet(buf)
    rec(os.path.basename(fn), type(p).__name__, hashlib.sha256(bytes(p)).hexdigest(), bytes(buf).hex())
    sps = getattr(p, 'subpackets', None)
    if sps is not None:
        for sp in sps:
            rec('  sp', norm_repr(sp), bytes(sp).hex(), len(sp), public_state(sp))
            probe_sp(UASP if type(p).__name__ == 'UserAttribute' else SigSP, bytes(sp), 'resp')
        p.update_hlen()
        rec('  upd', hashlib.sha256(bytes(p)).hexdigest(), p.header.length)

# 2. whole keys / signatures: every subpacket that occurs in the fixtures
files = sorted(glob.glob('tests/testdata/keys/*.asc')) + sorted(glob.glob('tests/testdata/blocks/*key.asc')) + \
    ['tests/testdata/blocks/revochiio.asc', 'tests/testdata/blocks/expyro.asc', 'tests/testdata/pubtest.asc']
for fn in files:
    key, _ = pgpy.PGPKey.from_file(fn)
    rec(fn, hashlib.sha256(bytes(key)).hexdigest())
    sigs = list(key._signatures)
    for uid in key.userids + key.userattributes:
        sigs += list(uid._signatures)
        if uid.is_ua:
            for sp in uid._uid.subpackets:
                rec('  ua', norm_repr(sp), sp.version, sp.iencoding, hashlib.sha256(bytes(sp.image)).hexdigest(), len(sp), sp.header.length)
    for sk in key.subkeys.values():
        sigs += list(sk._signatures)
    for sig in sigs:
        for sp in sig._signature.subpackets:
            rec('  sp', norm_repr(sp), bytes(sp).hex(), public_state(sp))
        rec('  signer', sig.signer, sig.signer_fingerprint, [ (r.keyclass, r.algorithm, r.fingerprint) for r in sig._signature.subpackets['h_RevocationKey'] ])

# 3. synthetic subpackets straight through the codec, incl. unknown types, critical bit, long lengths, truncation
jpeg = bytes(range(256)) * 3
img_hdr = b'\x10\x00\x01\x01' + bytes(12)
synthetic_sig = [
    b'\x05\x02\x5a\x00\x00\x00',                                  # creation time
    b'\x09\x10' + bytes(range(0xa0, 0xa8)),                       # issuer
    b'\x09\x90' + bytes(range(0xa0, 0xa8)),                       # critical issuer
    b'\x05\x10\x01\x02\x03\x04',                                  # short issuer
    b'\x17\x0c\x80\x01' + bytes(range(0x10, 0x24)),               # revocation key
    b'\x17\x0c\xc0\x11' + bytes(range(0xe0, 0xf4)),               # sensitive revocation key
    b'\x05\x0c\x80\x01\xaa\xbb',                                  # truncated revocation key fingerprint
    b'\x03\x0c\x80\x01',                                          # revocation key without fingerprint
    b'\x04\x65abc',                                               # private/experimental -> opaque
    b'\x01\x7f',                                                  # empty opaque
    b'\xc0\x0a\x64' + bytes(range(201)),                          # two-octet length, opaque
    b'\xff\x00\x00\x01\x00\x6e' + bytes(255),                     # five-octet length, opaque
    b'\x04\xe5abc',                                               # critical opaque
    b'\x10\x65abc',                                               # length beyond the data
]
for i, raw in enumerate(synthetic_sig):
    probe_sp(SigSP, raw, ('sig', i))

synthetic_ua = [
    b'\xc4\x51\x01' + img_hdr + jpeg,                              # image, two-octet length (768+17=785)
    b'\x14\x01' + img_hdr + b'abc',                                # image, short
    b'\x11\x01' + img_hdr,                                         # image without data
    b'\x14\x01\x10\x00\x01\x64' + bytes(12) + b'abc',              # private image encoding
    b'\x14\x01\x10\x00\x02\x01' + bytes(12) + b'abc',              # image header version 2
    b'\x14\x01\x11\x00\x01\x01' + bytes(11) + b'\x01abc',          # non-canonical header length / reserved
    b'\x05\x01\x10\x00\x01\x01',                                   # truncated image header
    b'\x01\x01',                                                   # nothing but the type
    b'\x04\x02abc',                                                # unknown UA subpacket -> opaque
    b'\x04\x82abc',
]
for i, raw in enumerate(synthetic_ua):
    probe_sp(UASP, raw, ('ua', i))

# truncated inputs without trailer
for i, raw in enumerate([b'\x14\x01\x10\x00\x01', b'\x14\x01', b'\x14', b'', b'\x03\x0c\x80', b'\x09\x10\x01']):
    for root in (SigSP, UASP):
        buf = bytearray(raw)
        try:
            sp = root(buf)
            rec('trunc', i, root.__name__, type(sp).__name__, bytes(sp).hex(), bytes(buf).hex(), public_state(sp))
        except Exception as e:
            rec('trunc', i, root.__name__, type(e).__name__, str(e), bytes(buf).hex())

# 4. objects built through the API
img = uamod.Image()
rec('blank image', norm_repr(img), bytes(img).hex(), len(img), public_state(img))
for enc in (1, 100, 110, 127, 128, 300, -1):
    img = uamod.Image()
    img.image = b'xyz'
    try:
        img.iencoding = enc
        img.update_hlen()
        rec('image enc', enc, bytes(img).hex(), len(img))
    except Exception as e:
        rec('image enc', enc, type(e).__name__, str(e))
for ver in (0, 1, 2, 200):
    img = uamod.Image()
    img.version = ver
    img.image = bytearray(b'xyz')
    try:
        img.update_hlen()
        rec('image ver', ver, bytes(img).hex(), len(img))
    except Exception as e:
        rec('image ver', ver, type(e).__name__, str(e))

for cls in (sigmod.Issuer, sigmod.RevocationKey, sigmod.CreationTime, sigmod.KeyFlags, SPOpaque):
    sp = cls()
    rec('blank', cls.__name__, norm_repr(sp), sorted(k for k in vars(sp)), sorted(vars(sp.header).items()))
iss = sigmod.Issuer()
for v in (bytearray(), bytearray(b'\x00'), bytearray(range(8)), bytearray(b'\xff\xfe\xab\xcd\xef\x01\x23\x45')):
    iss.issuer = v
    iss.update_hlen()
    rec('issuer', iss.issuer, bytes(iss).hex())
rk = sigmod.RevocationKey()
for v in (bytearray(range(20)), bytearray(b'\xab' * 20), bytearray(b'\xab\xcd'), bytearray()):
    try:
        rk.fingerprint = v
        rec('revkey', str(rk.fingerprint), type(rk.fingerprint).__name__)
    except Exception as e:
        rec('revkey', type(e).__name__, str(e))
h = SPHeader()
rec('hdr', sorted(vars(h).items()), len(h))
op = SPOpaque()
rec('opaque', norm_repr(op), sorted(vars(op)), op.payload)
try:
    rec('opaque bytes', bytes(op).hex())
except Exception as e:
    rec('opaque bytes', type(e).__name__, str(e))
op.header.typeid = 0x66
op.payload = b'hello'
op.update_hlen()
rec('opaque api', norm_repr(op), bytes(op).hex(), len(op))

print(hashlib.sha256('\n'.join(out).encode()).hexdigest(), len(out))
