"""Digest of the observable outputs of the signing API on fixed inputs.

Run as:  cd <tree> && /venv/bin/python equiv.py
Prints the same digest on the unchanged and on the refactored tree.
"""
import os
import sys
import copy
import hashlib
import warnings

sys.path.insert(0, os.getcwd())

from datetime import datetime, timedelta, timezone

import pgpy
from pgpy.constants import (CompressionAlgorithm, HashAlgorithm, KeyFlags, KeyServerPreferences,
                            RevocationReason, SignatureType, SymmetricKeyAlgorithm)

warnings.simplefilter('always')
KEYS = 'tests/testdata/keys/'
T0 = datetime(2021, 3, 4, 5, 6, 7, tzinfo=timezone.utc)

out = hashlib.sha256()
nrec = 0


def rec(label, *vals):
    global nrec
    nrec += 1
    out.update(repr((label,) + vals).encode('utf-8'))


def load(name):
    key, _ = pgpy.PGPKey.from_file(KEYS + name)
    return key


def describe(label, key, sig, subject, deterministic):
    if sig is None:
        rec(label, None)
        return
    pkt = sig._signature
    with warnings.catch_warnings(record=True):
        sd = sig.hashdata(subject)
    rec(label, sig.type.name, sig.key_algorithm.name, sig.hash_algorithm.name, sig.signer,
        bytes(pkt.subpackets.__hashbytearray__()).hex(), bytes(pkt.subpackets.__unhashbytearray__()).hex()
        if sig.type != SignatureType.Subkey_Binding else len(pkt.subpackets['EmbeddedSignature']),
        hashlib.sha256(sd).hexdigest(), bytes(sig.hash2).hex(), pkt.header.length if deterministic else None,
        [sp.__class__.__name__ for sp in pkt.subpackets])
    if deterministic:
        rec(label + ':bytes', bytes(sig).hex(), bytes(pkt.canonical_bytes()).hex())
    # re-import and verify
    again = pgpy.PGPSignature.from_blob(bytes(sig))
    rec(label + ':reparse', bytes(again._signature.subpackets.__hashbytearray__()).hex(), bytes(again.hash2).hex(),
        again.type.name, again.signer_fingerprint, list(again.intended_recipients))


def attempt(label, fn):
    with warnings.catch_warnings(record=True) as w:
        warnings.simplefilter('always')
        try:
            res = fn()
        except Exception as e:
            rec(label + ':exc', type(e).__name__, str(e))
            res = None
    rec(label + ':warnings', sorted(str(x.message) for x in w))
    return res


def run(keyfile, deterministic):
    key = load(keyfile)
    other = load('targette.sec.rsa.asc')
    opub = other.pubkey
    kpub = key.pubkey
    uid = key.userids[0]
    tag = keyfile

    docs = [b'', b'hello\nworld\r\nfoo\rbar\n', 'grüße ☃\n', bytearray(range(256))]
    for i, doc in enumerate(docs):
        for h in (None, HashAlgorithm.SHA256, HashAlgorithm.SHA512):
            sig = attempt('%s:sign%d:%s' % (tag, i, h), lambda: key.sign(doc, created=T0, hash=h))
            if sig is not None:
                describe('%s:sign%d:%s' % (tag, i, h), key, sig, doc, deterministic)
                rec('verify', bool(attempt('v', lambda: kpub.verify(doc, sig))))

    sig = attempt(tag + ':timestamp', lambda: key.sign(None, created=T0))
    describe(tag + ':timestamp', key, sig, None, deterministic)
    sig = attempt(tag + ':standalone', lambda: key.sign(None, created=T0, notation={'a@b': 'c'}))
    describe(tag + ':standalone', key, sig, None, deterministic)

    msg = pgpy.PGPMessage.new('line one\nline two  \n\ttabbed\r\nend', cleartext=True)
    sig = attempt(tag + ':cleartext', lambda: key.sign(msg, created=T0, hash=HashAlgorithm.SHA384))
    describe(tag + ':cleartext', key, sig, msg._signed_data, deterministic)
    lit = pgpy.PGPMessage.new(b'binary \x00\x01 data\n', file=False)
    sig = attempt(tag + ':literal', lambda: key.sign(lit, created=T0))
    describe(tag + ':literal', key, sig, lit._signed_data, deterministic)

    sig = attempt(tag + ':opts', lambda: key.sign(
        b'doc', created=T0, expires=timedelta(days=3), notation={'n1@example.com': 'v1', 'bin@example.com': bytearray(b'\x00\x01')},
        policy_uri='https://example.com/policy', revocable=False, user=uid.name,
        intended_recipients=[opub, other.fingerprint, 'not a key'], include_issuer_fingerprint=False))
    describe(tag + ':opts', key, sig, b'doc', deterministic)
    sig = attempt(tag + ':expires-dt', lambda: key.sign(b'doc', created=T0, expires=key.created + timedelta(days=400)))
    describe(tag + ':expires-dt', key, sig, b'doc', deterministic)

    # certifications
    for level in (SignatureType.Generic_Cert, SignatureType.Persona_Cert, SignatureType.Casual_Cert,
                  SignatureType.Positive_Cert):
        sig = attempt('%s:selfcert:%s' % (tag, level.name), lambda: key.certify(
            uid, level, created=T0, usage={KeyFlags.Sign, KeyFlags.Certify},
            ciphers=[SymmetricKeyAlgorithm.AES256, SymmetricKeyAlgorithm.AES128],
            hashes=[HashAlgorithm.SHA512, HashAlgorithm.SHA256], compression=[CompressionAlgorithm.ZLIB],
            key_expiration=timedelta(days=365), keyserver='hkps://keys.example.com',
            keyserver_flags={KeyServerPreferences.NoModify}, primary=True, exportable=True))
        describe('%s:selfcert:%s' % (tag, level.name), key, sig, uid, deterministic)
    sig = attempt(tag + ':selfcert-plain', lambda: key.certify(uid, created=T0))
    describe(tag + ':selfcert-plain', key, sig, uid, deterministic)
    sig = attempt(tag + ':selfcert-keyexp-dt', lambda: key.certify(uid, created=T0, key_expiration=key.created + timedelta(days=9)))
    describe(tag + ':selfcert-keyexp-dt', key, sig, uid, deterministic)
    sig = attempt(tag + ':direct-self', lambda: key.certify(key, created=T0, usage={KeyFlags.Certify}))
    describe(tag + ':direct-self', key, sig, key, deterministic)

    ouid = opub.userids[0]
    sig = attempt(tag + ':3rdparty', lambda: key.certify(ouid, SignatureType.Casual_Cert, created=T0, trust=(1, 120),
                                                        regex='<[^>]+[@.]example\\.com>$', exportable=False,
                                                        hash=HashAlgorithm.SHA224, usage={KeyFlags.Sign}, ciphers=[1]))
    describe(tag + ':3rdparty', key, sig, ouid, deterministic)
    sig = attempt(tag + ':3rdparty-key', lambda: key.certify(opub, created=T0, trust=(2, 60)))
    describe(tag + ':3rdparty-key', key, sig, opub, deterministic)

    # attestation
    third = attempt('third', lambda: other.certify(kpub.userids[0], created=T0))
    sig = attempt(tag + ':attest', lambda: key.certify(uid, SignatureType.Attestation, created=T0, hash=HashAlgorithm.SHA256,
                                                      attested_certifications=[third, b'\x11' * 32, b'short', 5]))
    describe(tag + ':attest', key, sig, uid, deterministic)
    rec('attests_to', sig is not None and sig.attests_to(third))

    # revocations
    sig = attempt(tag + ':revoke-uid', lambda: key.revoke(uid, created=T0, reason=RevocationReason.UserID, comment='gone ☃'))
    describe(tag + ':revoke-uid', key, sig, uid, deterministic)
    sig = attempt(tag + ':revoke-key', lambda: key.revoke(key, created=T0, reason=RevocationReason.Superseded, hash=HashAlgorithm.SHA512))
    describe(tag + ':revoke-key', key, sig, key, deterministic)
    for skid, sk in key.subkeys.items():
        sig = attempt(tag + ':revoke-subkey:' + skid, lambda: key.revoke(sk, created=T0))
        describe(tag + ':revoke-subkey:' + skid, key, sig, sk, deterministic)
    attempt(tag + ':revoke-bad', lambda: key.revoke(b'not a key', created=T0, hash=HashAlgorithm.SHA256))

    # revoker
    sig = attempt(tag + ':revoker', lambda: key.revoker(opub, created=T0, sensitive=True))
    describe(tag + ':revoker', key, sig, key, deterministic)
    sig = attempt(tag + ':revoker2', lambda: key.revoker(opub, created=T0, hash=HashAlgorithm.SHA384))
    describe(tag + ':revoker2', key, sig, key, deterministic)

    # bind
    for skid, sk in key.subkeys.items():
        for kw in ({'usage': {KeyFlags.EncryptCommunications}}, {'usage': {KeyFlags.Sign}}, {},
                   {'usage': {KeyFlags.Sign}, 'crosssign': False}, {'hash': HashAlgorithm.SHA512, 'usage': {KeyFlags.EncryptStorage}}):
            label = '%s:bind:%s:%s' % (tag, skid, sorted(kw))
            sig = attempt(label, lambda: key.bind(sk, created=T0, **kw))
            if sig is not None:
                describe(label, key, sig, sk, False)
                emb = sig._signature.subpackets['EmbeddedSignature']
                rec(label + ':emb', [(e.sigtype.name, e.halg.name, e.signer) for e in emb])
    attempt(tag + ':bind-bad', lambda: key.bind(other, created=T0))

    # errors from the decorators stay the same
    attempt(tag + ':public-sign', lambda: key.pubkey.sign(b'x', created=T0))
    attempt(tag + ':unknown-user', lambda: key.sign(b'x', created=T0, user='nobody@nowhere'))


run('rsa.1.sec.asc', True)
run('ecc.2.sec.asc', True)
run('dsa.1.sec.asc', False)
run('ecc.1.sec.asc', False)

# default creation time is "now" and aware
k = load('rsa.1.sec.asc')
s = k.sign(b'x')
rec('now', s.created.tzinfo is not None, abs((datetime.now(timezone.utc) - s.created).total_seconds()) < 60)


# ---- direct checks of the subpacket container and of the fingerprint-carrying subpackets ----
from pgpy.packet.fields import SubPackets, RSASignature, DSASignature, EdDSASignature, OpaqueSignature
from pgpy.packet.subpackets import signature as spsig
from pgpy.packet.types import MPI
from pgpy.types import Fingerprint

FPR = Fingerprint('0123456789ABCDEF0123456789ABCDEF01234567')


def spdump(label, sps):
    rec(label, bytes(sps.__bytearray__()).hex(), bytes(sps.__hashbytearray__()).hex(), bytes(sps.__unhashbytearray__()).hex(),
        [(sp.__class__.__name__, len(sp), bytes(sp.__bytearray__()).hex()) for sp in sps],
        [k for k in sps._hashed_sp], [k for k in sps._unhashed_sp],
        ['Issuer' in sps, 'h_Issuer' in sps, 'CreationTime' in sps, 'Nope' in sps, ('Issuer', 0) in sps],
        [type(x).__name__ for x in sps['h_CreationTime']], [type(x).__name__ for x in sps['Issuer']],
        type(sps.__bytearray__()).__name__, type(sps.__hashbytearray__()).__name__, type(iter(sps)).__name__)


sps = SubPackets()
spdump('sp:empty', sps)
sps.addnew('CreationTime', hashed=True, created=T0)
sps.addnew('Issuer', _issuer='0123456789ABCDEF')
sps.addnew('NotationData', hashed=True, flags=0x80, name='a@b', value='c')
sps.addnew('NotationData', hashed=1, flags=0x00, name='a@b', value=bytearray(b'\x00\xff'))
sps.addnew('NotationData', hashed=0, flags=0x80, name='x@y', value='unhashed', bogus_attribute=1)
sps.addnew('IssuerFingerprint', hashed=True, _version=4, _issuer_fpr=FPR)
sps.addnew('IntendedRecipient', hashed=True, version=4, intended_recipient=FPR)
sps.addnew('IntendedRecipient', hashed=True, version=4, intended_recipient=str(FPR))
sps.addnew('RevocationKey', hashed=True, algorithm=1, fingerprint=FPR, keyclass=0x80 | 0x40)
sps.addnew('KeyFlags', hashed=True, flags={KeyFlags.Sign, KeyFlags.Certify})
sps.addnew('Policy', hashed=None, uri='https://example.com/☃')
spdump('sp:built', sps)
cp = copy.copy(sps)
cp.addnew('Revocable', hashed=True, bflag=False)
spdump('sp:copy', cp)
spdump('sp:orig-after-copy', sps)
try:
    sps.addnew('NoSuchSubpacket', hashed=True)
except Exception as e:
    rec('sp:addnew-bad', type(e).__name__, str(e))
try:
    [] in sps
except Exception as e:
    rec('sp:contains-unhashable', type(e).__name__, str(e))

# parse -> the received hashed area is kept verbatim; re-serialisation is identical
raw = bytearray(sps.__bytearray__())
parsed = SubPackets()
parsed.parse(bytearray(raw))
spdump('sp:parsed', parsed)
rec('sp:parsed-fprs', [str(x.issuer_fingerprint) for x in parsed['IssuerFingerprint']],
    [str(x.intended_recipient) for x in parsed['IntendedRecipient']],
    [(str(x.fingerprint), x.algorithm.name, [int(c) for c in x.keyclass]) for x in parsed['RevocationKey']],
    [x.version for x in parsed['IssuerFingerprint'] + parsed['IntendedRecipient']])
parsed.addnew('Revocable', hashed=True, bflag=True)
spdump('sp:parsed-modified', parsed)

# fingerprint subpackets of other versions / lengths, straight from bytes
for name, body in (('IssuerFingerprint', b'\x04' + bytes(range(20))), ('IssuerFingerprint', b'\x05' + bytes(range(32))),
                   ('IssuerFingerprint', b'\x03' + bytes(range(16))), ('IntendedRecipient', b'\x04' + bytes(range(20, 40))),
                   ('IntendedRecipient', b'\x05' + bytes(range(32, 64))), ('IntendedRecipient', b'\x06' + bytes(range(7))),
                   ('IssuerFingerprint', b'\x04' + bytes(range(25))), ('RevocationKey', b'\xc0\x11' + bytes(range(100, 120)))):
    cls = getattr(spsig, name)
    pkt = bytearray([len(body) + 1, cls.__typeid__]) + body + b'TRAILING'
    try:
        sp = spsig.Signature(pkt)
        fp = getattr(sp, 'issuer_fingerprint', None) or getattr(sp, 'intended_recipient', None) or getattr(sp, 'fingerprint', None)
        rec('fpr:' + name, type(sp).__name__, getattr(sp, 'version', None), str(fp), type(fp).__name__, bytes(pkt).hex(),
            bytes(sp.__bytearray__()).hex(), len(sp))
    except Exception as e:
        rec('fpr:' + name + ':exc', type(e).__name__, str(e), bytes(pkt).hex())

# signature MPI fields
for cls, vals in ((RSASignature, (0x1234567890ABCDEF << 900,)), (DSASignature, (0, 1)), (DSASignature, (2 ** 159 + 5, 2 ** 160 - 1)),
                  (EdDSASignature, (2 ** 255 - 19, 7))):
    s_ = cls()
    rec('mpi:init:' + cls.__name__, bytes(s_.__bytearray__()).hex(), type(s_.__bytearray__()).__name__, len(s_))
    for n, v in zip(s_.__mpis__, vals):
        setattr(s_, n, MPI(v))
    rec('mpi:' + cls.__name__, bytes(s_.__bytearray__()).hex(), len(s_), bytes(s_.__sig__()).hex())
o = OpaqueSignature()
o.from_signer(b'\x01\x02')
rec('mpi:opaque', bytes(o.__bytearray__()).hex(), o.__bytearray__() is o.data)

# fixture signatures: parse / serialise round trip
import glob
for fn in sorted(glob.glob('tests/testdata/signatures/*.asc') + glob.glob('tests/testdata/blocks/*signature*.asc'))[:40]:
    try:
        fs = pgpy.PGPSignature.from_file(fn)
    except Exception as e:
        rec('fixture:exc', os.path.basename(fn), type(e).__name__)
        continue
    rec('fixture', os.path.basename(fn), bytes(fs).hex(), bytes(fs._signature.canonical_bytes()).hex(), fs.signer_fingerprint,
        [sp.__class__.__name__ for sp in fs._signature.subpackets])

print(nrec, out.hexdigest())
