"""Probe for property C05: the hashed subpacket area of a v4 signature is verified verbatim.

Signatures are produced here by an independent signer (struct + hashlib + cryptography's RSA PKCS#1 v1.5,
which is deterministic) with arbitrary well-formed hashed subpacket areas, then parsed and verified by pgpy.
Only deterministic facts are printed.
"""
import copy
import hashlib
import struct
import sys
import warnings

warnings.simplefilter('ignore')

import pgpy
from pgpy import PGPKey, PGPSignature
from pgpy.constants import HashAlgorithm, KeyFlags, SignatureType
from pgpy.packet.fields import SubPackets
from pgpy.packet.subpackets import signature as spsig
from pgpy.packet.subpackets.types import Header as SPHeader, Opaque

from cryptography.hazmat.primitives import hashes
from cryptography.hazmat.primitives.asymmetric import padding

assert pgpy.__file__.startswith(sys.path[0] or '.'), pgpy.__file__

SEC, _ = PGPKey.from_file('tests/testdata/keys/rsa.1.sec.asc')
PUB, _ = PGPKey.from_file('tests/testdata/keys/rsa.1.pub.asc')
PRIV = SEC._key.keymaterial.__privkey__()
KEYID = bytes.fromhex(SEC.fingerprint.keyid)
SUBJECT = b'The quick brown fox jumps over the lazy dog\n'
CREATED = struct.pack('>I', 1500000000)

out = []


def emit(*a):
    out.append(' '.join(str(x) for x in a))


def enc_len(n, style):
    """subpacket length n (type octet + body) in the requested encoding, or None when not legal"""
    if style == 1:
        return bytes([n]) if n < 192 else None
    if style == 2:
        if not 192 <= n < 8384:
            return None
        n -= 192
        return bytes([(n >> 8) + 192, n & 0xff])
    return b'\xff' + struct.pack('>I', n)


def subpkt(typ, body, critical=False, style=None):
    n = len(body) + 1
    if style is None:
        style = 1 if n < 192 else 2
    ln = enc_len(n, style)
    if ln is None:
        return None
    return ln + bytes([typ | (0x80 if critical else 0)]) + bytes(body)


CT = subpkt(2, CREATED)
ISSUER = subpkt(16, KEYID)


def make_sig(hashed, unhashed=ISSUER, sigtype=0x00, subject=SUBJECT, halg=8):
    """an independent v4 RSA/SHA256 signature packet over `subject` with the given hashed area octets"""
    head = bytes([4, sigtype, 1, halg]) + struct.pack('>H', len(hashed)) + hashed
    tbs = subject + head + b'\x04\xff' + struct.pack('>I', len(head))
    digest = hashlib.sha256(tbs).digest()
    s = PRIV.sign(tbs, padding.PKCS1v15(), hashes.SHA256())
    si = int.from_bytes(s, 'big')
    mpi = struct.pack('>H', si.bit_length()) + si.to_bytes((si.bit_length() + 7) // 8, 'big')
    body = head + struct.pack('>H', len(unhashed)) + unhashed + digest[:2] + mpi
    return b'\xc2\xff' + struct.pack('>I', len(body)) + body, head


def observe(pkt, head, subject=SUBJECT, detail=True):
    """parse + verify; return a deterministic description"""
    try:
        sig = PGPSignature.from_blob(pkt)
    except Exception as e:
        return 'PARSE-' + type(e).__name__
    res = []
    try:
        hd = sig.hashdata(subject)
        want = subject + head + b'\x04\xff' + struct.pack('>I', len(head))
        res.append('hd=' + ('same' if hd == want else 'DIFF'))
    except Exception as e:
        res.append('hd-' + type(e).__name__)
    try:
        res.append('v=' + str(bool(PUB.verify(subject, sig))))
    except Exception as e:
        res.append('v-' + type(e).__name__)
    try:
        res.append('rt=' + ('same' if bytes(sig._signature.__bytearray__()) == bytes(pkt) else
                            hashlib.sha256(bytes(sig._signature.__bytearray__())).hexdigest()[:12]))
    except Exception as e:
        res.append('rt-' + type(e).__name__)
    if detail:
        try:
            sps = sig._signature.subpackets
            res.append('h=' + ','.join(type(sp).__name__ + ('!' if sp.header.critical else '')
                                       for sp in sps._hashed_sp.values()))
            res.append('hb=' + hashlib.sha256(b''.join(bytes(sp.__bytearray__())
                                                         for sp in sps._hashed_sp.values())).hexdigest()[:12])
            res.append('hlen=%d' % len(sps.__hashbytearray__()))
        except Exception as e:
            res.append('d-' + type(e).__name__)
    return ' '.join(res)


def fill(n, seed):
    return bytes((seed * 37 + i * 11 + 5) & 0xff for i in range(n))


# 1. every subpacket type x critical bit x several body lengths x every legal length encoding ---------------------
emit('## 1 types')
LENGTHS = (0, 1, 2, 4, 8, 22, 190, 191, 192, 300)
for typ in range(128):
    for crit in (False, True):
        for blen in LENGTHS:
            body = fill(blen, typ)
            for style in (1, 2, 5):
                sp = subpkt(typ, body, crit, style)
                if sp is None:
                    continue
                pkt, head = make_sig(CT + sp)
                emit('T', typ, int(crit), blen, style, observe(pkt, head))

# 2. flag octets -------------------------------------------------------------------------------------------------
emit('## 2 flags')
for typ in (23, 27, 30):
    for v in range(256):
        pkt, head = make_sig(CT + subpkt(typ, bytes([v])))
        r = observe(pkt, head)
        sig = PGPSignature.from_blob(pkt)
        name = {23: 'KeyServerPreferences', 27: 'KeyFlags', 30: 'Features'}[typ]
        fl = sorted(int(f) for f in sig._signature.subpackets['h_' + name][0].flags)
        emit('F', typ, v, r, fl)
    for body in (b'', b'\x01\x00', b'\x00\x01', b'\x03\x00\x00\x00', b'\xff\xff\xff', b'\x80\x04\x00\x00\x01'):
        pkt, head = make_sig(CT + subpkt(typ, body))
        emit('FM', typ, body.hex(), observe(pkt, head))
for v in range(256):
    # notation flags (first of four flag octets) and the other three flag octets
    for rest in (b'\x00\x00\x00', bytes([v, 0, v])):
        body = bytes([v]) + rest + struct.pack('>HH', 3, 2) + b'a@b' + b'hi'
        pkt, head = make_sig(CT + subpkt(20, body))
        emit('N', v, rest.hex(), observe(pkt, head))
    # revocation key class octet
    body = bytes([v, 1]) + bytes(range(20))
    pkt, head = make_sig(CT + subpkt(12, body))
    emit('RK', v, observe(pkt, head))
    # preference lists holding any octet
    for typ in (11, 21, 22):
        pkt, head = make_sig(CT + subpkt(typ, bytes([v, 9, v])))
        emit('PL', typ, v, observe(pkt, head, detail=False))
    # reason-for-revocation code, trust level / amount
    pkt, head = make_sig(CT + subpkt(29, bytes([v]) + b'why'))
    emit('RR', v, observe(pkt, head, detail=False))
    pkt, head = make_sig(CT + subpkt(5, bytes([v, 255 - v])))
    emit('TS', v, observe(pkt, head, detail=False))

# 3. booleans ----------------------------------------------------------------------------------------------------
emit('## 3 booleans')
for typ in (4, 7, 25):
    for v in (0, 1, 2, 0x7f, 0x80, 0xff):
        for crit in (False, True):
            pkt, head = make_sig(CT + subpkt(typ, bytes([v]), crit))
            emit('B', typ, v, int(crit), observe(pkt, head))

# 4. text --------------------------------------------------------------------------------------------------------
emit('## 4 text')
TEXTS = [b'', b'plain', 'héllo wörld'.encode('utf-8'), '日本語'.encode('utf-8'),
         '\U0001f600 x'.encode('utf-8'), b'latin1 \xe9\xf6', b'\xff\xfe\xfd', b'\xc3', b'\x00nul\x00',
         'café'.encode('utf-8') * 60, b'\x80' * 200]
for i, t in enumerate(TEXTS):
    for typ in (6, 24, 26, 28):
        pkt, head = make_sig(CT + subpkt(typ, t))
        emit('X', typ, i, observe(pkt, head))
    pkt, head = make_sig(CT + subpkt(29, b'\x03' + t))
    emit('X', 29, i, observe(pkt, head))
    for fl in (0x80, 0x00):
        for name in (b'n@example.org', t[:40]):
            body = bytes([fl, 0, 0, 0]) + struct.pack('>HH', len(name), len(t)) + name + t
            pkt, head = make_sig(CT + subpkt(20, body))
            emit('X', 20, i, fl, len(name), observe(pkt, head))

# 5. several subpackets in any order -----------------------------------------------------------------------------
emit('## 5 order')
POOL = [CT, subpkt(27, b'\x03'), subpkt(11, b'\x09\x08\x07'), subpkt(21, b'\x08\x0a'), subpkt(22, b'\x02\x01'),
        subpkt(30, b'\x01'), subpkt(23, b'\x80'), subpkt(100, b'private'), subpkt(20, b'\x80\0\0\0\0\x01\0\x01kv'),
        subpkt(33, b'\x04' + bytes.fromhex(str(SEC.fingerprint).replace(' ', ''))), subpkt(26, b'http://x/'),
        subpkt(3, struct.pack('>I', 0)), subpkt(9, struct.pack('>I', 0)), subpkt(2, CREATED, style=5),
        subpkt(27, b'\x03', style=5), subpkt(77, b'', True, 5), ISSUER]
for n in range(1, len(POOL) + 1):
    for rot in range(n):
        sel = POOL[:n]
        sel = sel[rot:] + sel[:rot]
        if rot % 2:
            sel = sel[::-1]
        pkt, head = make_sig(b''.join(sel), unhashed=ISSUER if n % 3 else ISSUER + subpkt(101, b'unhashed'))
        emit('O', n, rot, observe(pkt, head))
# duplicates of one type and an empty hashed area
pkt, head = make_sig(CT + CT + subpkt(27, b'\x01') + subpkt(27, b'\x02') + subpkt(27, b'\x01'))
emit('O dup', observe(pkt, head))
pkt, head = make_sig(b'')
emit('O empty', observe(pkt, head))
# other signature types over the same octets
for st in (0x00, 0x01):
    pkt, head = make_sig(CT + subpkt(27, b'\x03', True), sigtype=st, subject=b'line one\r\nline two\r\n')
    emit('O type', st, observe(pkt, head, subject=b'line one\r\nline two\r\n'))

# 6. every single-bit flip in the hashed region ------------------------------------------------------------------
emit('## 6 bit flips')
hashed = CT + subpkt(27, b'\x03') + subpkt(100, b'xyz') + subpkt(26, 'hé'.encode()) + subpkt(7, b'\x01', True)
pkt, head = make_sig(hashed)
emit('base', observe(pkt, head))
off = 6  # packet header: tag + 0xff + 4 length octets
for i in range(len(head)):
    for bit in range(8):
        mod = bytearray(pkt)
        mod[off + i] ^= 1 << bit
        mhead = bytes(mod[off:off + len(head)])
        try:
            sig = PGPSignature.from_blob(bytes(mod))
        except Exception as e:
            emit('flip', i, bit, 'PARSE-' + type(e).__name__)
            continue
        try:
            v = str(bool(PUB.verify(SUBJECT, sig)))
        except Exception as e:
            v = type(e).__name__
        emit('flip', i, bit, v)
# flips outside the hashed region (unhashed area) leave the verdict alone
for i in range(len(head), len(head) + 2 + len(ISSUER)):
    mod = bytearray(pkt)
    mod[off + i] ^= 0x01
    try:
        sig = PGPSignature.from_blob(bytes(mod))
        try:
            v = str(bool(PUB.verify(SUBJECT, sig)))
        except Exception as e:
            v = type(e).__name__
    except Exception as e:
        v = 'PARSE-' + type(e).__name__
    emit('uflip', i, v)

# 7. signatures pgpy builds itself: the re-serialising path ------------------------------------------------------
emit('## 7 built')
sp = SubPackets()
sp.addnew('CreationTime', hashed=True, created=1500000000)
sp.addnew('KeyFlags', hashed=True, flags={KeyFlags.Sign, KeyFlags.Certify})
sp.addnew('PreferredHashAlgorithms', hashed=True, flags=[HashAlgorithm.SHA256, HashAlgorithm.SHA512])
sp.addnew('Policy', hashed=True, uri='https://example.org/pölicy')
sp.addnew('NotationData', hashed=True, flags=0x80, name='a@b', value='välue')
sp.addnew('Revocable', hashed=True, bflag=True)
sp.addnew('Issuer', issuer=bytearray(KEYID))
sp.addnew('Features', flags=1)
emit('built hashed', bytes(sp.__hashbytearray__()).hex())
emit('built unhashed', bytes(sp.__unhashbytearray__()).hex())
emit('built all', bytes(sp.__bytearray__()).hex())
emit('built names', sorted(set(k for k in ('CreationTime', 'KeyFlags', 'Issuer', 'Features', 'Nope') if k in sp)))
emit('built get', [type(x).__name__ for x in sp['h_KeyFlags']], [type(x).__name__ for x in sp['Issuer']],
     [type(x).__name__ for x in sp['h_Issuer']], len(list(sp)))
# parse what was built, then modify: the stored octets must be dropped once the hashed set changes
buf = bytearray(sp.__bytearray__())
sp2 = SubPackets()
sp2.parse(buf)
emit('reparse left', len(buf), 'same', bytes(sp2.__bytearray__()) == bytes(sp.__bytearray__()))
sp3 = copy.copy(sp2)
sp3.addnew('Features', hashed=True, flags=1)
emit('copy mod', bytes(sp3.__hashbytearray__()).hex())
emit('orig after', bytes(sp2.__hashbytearray__()).hex() == bytes(sp.__hashbytearray__()).hex())
sp3.addnew('PrimaryUserID', primary=True)
emit('copy mod unhashed', bytes(sp3.__unhashbytearray__()).hex())
# non-minimal encodings survive parse -> copy -> serialise
raw = CT + subpkt(27, b'\x03', True, 5) + subpkt(99, b'', False, 5)
buf = bytearray(struct.pack('>H', len(raw)) + raw + struct.pack('>H', len(ISSUER)) + ISSUER + b'tail')
sp4 = SubPackets()
sp4.parse(buf)
emit('nonmin', bytes(buf), bytes(sp4.__hashbytearray__()).hex() == (struct.pack('>H', len(raw)) + raw).hex(),
     bytes(copy.copy(sp4).__hashbytearray__()).hex() == (struct.pack('>H', len(raw)) + raw).hex())
# subpacket header codec
for n in (1, 2, 191, 192, 193, 8383, 8384, 70000):
    for t in (0, 2, 0x7f, 0x80, 0x82, 0xff):
        h = SPHeader()
        h.length = n
        h.typeid = bytearray([t])
        b = bytes(h.__bytearray__())
        h2 = SPHeader()
        bb = bytearray(b)
        h2.parse(bb)
        emit('hdr', n, t, b.hex(), h.typeid, h.critical, len(h), h2.length, h2.typeid, h2.critical, len(bb))
o = Opaque()
o.header.typeid = bytearray([0xe4])
o.payload = b'abc'
o.update_hlen()
emit('opaque', bytes(o.__bytearray__()).hex(), o.header.typeid, o.header.critical)
o.payload = bytearray(b'\x00\x01')
o.update_hlen()
emit('opaque', bytes(o.__bytearray__()).hex())
for bad in (5, 'text', None):
    try:
        o.payload = bad
        emit('opaque bad', 'accepted')
    except Exception as e:
        emit('opaque bad', type(e).__name__)
try:
    sp.addnew('NoSuchSubpacket', hashed=True)
    emit('addnew bad accepted')
except Exception as e:
    emit('addnew bad', type(e).__name__)
try:
    del sp['KeyFlags']
except Exception as e:
    emit('del', type(e).__name__)

# 7b. the public surface around the touched helpers ------------------------------------------------------------
emit('## 7b surface')
from pgpy.packet.fields import UserAttributeSubPackets
ua = UserAttributeSubPackets()
for nm in ('Image', 'Nope', 'KeyFlags', ''):
    try:
        ua.addnew(nm)
        emit('ua addnew', repr(nm), 'ok', bytes(ua.__bytearray__()).hex()[:40])
    except Exception as e:
        emit('ua addnew', repr(nm), type(e).__name__)
for nm in ('KeyFlags', 'Image', 'nope', 'h_KeyFlags', '', 5, None, b'KeyFlags'):
    spx = SubPackets()
    try:
        spx.addnew(nm, hashed=True)
        emit('sp addnew', repr(nm), 'ok', bytes(spx.__hashbytearray__()).hex())
    except Exception as e:
        emit('sp addnew', repr(nm), type(e).__name__)
# addnew ignores keyword arguments the subpacket does not have, sets those it has
spx = SubPackets()
spx.addnew('Policy', hashed=True, uri='u', nonsense=1)
spx.addnew('Opaque' if hasattr(spsig, 'Opaque') else 'Policy', uri='v')
emit('sp kwargs', bytes(spx.__bytearray__()).hex())
# opaque subpackets in both areas of a parsed signature keep every octet, whichever bytes-like type is assigned
for val in (b'', b'\x00', bytes(range(256)), bytearray(b'abc')):
    o = Opaque()
    o.header.typeid = bytearray([0x65])
    o.payload = val
    o.update_hlen()
    emit('opaque set', type(val).__name__, len(val), hashlib.sha256(bytes(o.__bytearray__())).hexdigest()[:12],
         type(o.payload).__name__, o.payload is val)
pkt, head = make_sig(CT + subpkt(101, b'pay', True) + subpkt(110, b''), unhashed=ISSUER + subpkt(102, b'load'))
sig = PGPSignature.from_blob(pkt)
for spk in sig._signature.subpackets:
    emit('iter', type(spk).__name__, spk.header.typeid, spk.header.critical, spk.header.length, len(spk),
         bytes(spk.__bytearray__()).hex())
emit('iter verify', bool(PUB.verify(SUBJECT, sig)), str(sig._signature.subpackets).startswith('<'),
     all(str(x).startswith('<' + type(x).__name__) for x in sig._signature.subpackets))

# 8. real data from the test corpus ------------------------------------------------------------------------------
emit('## 8 corpus')
import glob
for fn in sorted(glob.glob('tests/testdata/keys/*.pub.asc') + glob.glob('tests/testdata/keys/targette.pub.rsa.asc')):
    try:
        k, _ = PGPKey.from_file(fn)
        with warnings.catch_warnings():
            warnings.simplefilter('ignore')
            try:
                v = str(bool(k.verify(k)))
            except Exception as e:
                v = type(e).__name__
        sigs = []
        for uid in k.userids:
            for s in uid.__sig__:
                sigs.append(hashlib.sha256(bytes(s._signature.subpackets.__hashbytearray__())).hexdigest()[:10])
        emit('key', fn.split('/')[-1], v, ' '.join(sigs))
    except Exception as e:
        emit('key', fn.split('/')[-1], type(e).__name__)
for fn in sorted(glob.glob('tests/testdata/signatures/*.asc')):
    try:
        s = PGPSignature.from_file(fn)
        emit('sigfile', fn.split('/')[-1], bytes(s._signature.subpackets.__hashbytearray__()).hex()[:80],
             hashlib.sha256(bytes(s.__bytes__())).hexdigest()[:12])
    except Exception as e:
        emit('sigfile', fn.split('/')[-1], type(e).__name__)

text = '\n'.join(out) + '\n'
sys.stdout.write(text)
sys.stdout.write('lines %d sha256 %s\n' % (len(out), hashlib.sha256(text.encode()).hexdigest()))
