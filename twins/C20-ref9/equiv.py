"""Behaviour digest for the C20 refactorings (message composition / codec).

Run as:  cd <tree> && /venv/bin/python equiv.py
Prints one sha256 digest over all deterministic observable outputs.
"""
import glob
import hashlib
import os
import sys
import warnings
from datetime import datetime, timezone

sys.path.insert(0, os.getcwd())
warnings.simplefilter('ignore')

import pgpy  # noqa: E402
from pgpy import PGPKey, PGPMessage, PGPSignature  # noqa: E402
from pgpy.constants import CompressionAlgorithm, HashAlgorithm, SymmetricKeyAlgorithm  # noqa: E402
from pgpy.packet import Packet  # noqa: E402
from pgpy.packet.packets import (CompressedData, LiteralData, OnePassSignatureV3)  # noqa: E402

out = []


def rec(*items):
    out.append(repr(items))


def describe(pkt):
    name = type(pkt).__name__
    if isinstance(pkt, OnePassSignatureV3):
        return (name, int(pkt.sigtype), int(pkt.halg), int(pkt.pubalg), pkt.signer, pkt.nested, type(pkt.nested).__name__)
    if isinstance(pkt, PGPSignature):
        return (name, int(pkt.type), int(pkt.hash_algorithm), int(pkt.key_algorithm), pkt.signer)
    if isinstance(pkt, LiteralData):
        return (name, pkt.format, pkt.filename, pkt.mtime.isoformat(), bytes(pkt._contents).hex(), repr(pkt.contents))
    return (name,)


def describe_msg(tag, msg, with_bytes):
    rec(tag, 'type', msg.type, msg.is_compressed, msg.is_encrypted, msg.is_signed, sorted(msg.signers))
    rec(tag, 'pkts', [describe(p) for p in msg])
    if not msg.is_encrypted:
        rec(tag, 'content', repr(msg.message), msg.filename if msg.type == 'literal' else None)
    if with_bytes:
        rec(tag, 'bytes', hashlib.sha256(bytes(msg)).hexdigest(), len(bytes(msg)))
        rec(tag, 'str', hashlib.sha256(str(msg).encode('utf-8')).hexdigest())


def attempt(tag, fn):
    try:
        r = fn()
        rec(tag, 'ok', repr(r))
    except Exception as e:  # noqa
        rec(tag, 'exc', type(e).__name__, str(e))


T0 = datetime(2020, 2, 3, 4, 5, 6, tzinfo=timezone.utc)
T1 = datetime(2021, 3, 4, 5, 6, 7, tzinfo=timezone.utc)

# ---- 1. fixture messages: import, iterate, re-export
for fn in sorted(glob.glob('tests/testdata/messages/*')):
    try:
        m = PGPMessage.from_file(fn)
    except Exception as e:  # noqa
        rec(fn, 'load-exc', type(e).__name__, str(e))
        continue
    describe_msg(fn, m, True)
    # binary re-import of the export
    attempt(fn + ':reimport-bin', lambda: describe_msg(fn + ':reimport-bin', PGPMessage.from_blob(bytes(m)), True))
    attempt(fn + ':reimport-asc', lambda: describe_msg(fn + ':reimport-asc', PGPMessage.from_blob(str(m)), True))

# ---- 2. new messages, every compression algorithm, several contents / formats
contents = [
    ('empty', b'', {}),
    ('ascii', 'hello world\r\nsecond line  \n', {}),
    ('utf8', u'grüße ☃ snowman', {}),
    ('latin1', u'café'.encode('latin-1'), {'encoding': 'latin-1', 'format': 't'}),
    ('binary', bytes(bytearray(range(256))) * 5, {}),
    ('binary-fmt-b', b'plain ascii but binary', {'format': 'b'}),
    ('sensitive', 'for your eyes only', {'sensitive': True}),
    ('big', (b'0123456789abcdef' * 4096) + b'\xff\xfe', {}),
]
for cname, content, kw in contents:
    for calg in CompressionAlgorithm:
        tag = 'new:{}:{}'.format(cname, calg.name)
        try:
            m = PGPMessage.new(content, compression=calg, **kw)
        except Exception as e:  # noqa
            rec(tag, 'exc', type(e).__name__, str(e))
            continue
        m._message.mtime = T0
        describe_msg(tag, m, True)
        m2 = PGPMessage.from_blob(bytes(m))
        describe_msg(tag + ':bin', m2, True)
        m3 = PGPMessage.from_blob(str(m))
        describe_msg(tag + ':asc', m3, True)

# from a file (metadata: basename + mtime)
for fn in ['tests/testdata/need.txt', 'tests/testdata/simple.jpg']:
    m = PGPMessage.new(fn, file=True)
    rec('file', fn, m.filename, m._message.format, hashlib.sha256(bytes(m._message._contents)).hexdigest(),
        int(m._message.mtime.timestamp()) == int(os.path.getmtime(fn)))
    m._message.mtime = T0
    describe_msg('file:' + fn, m, True)

# cleartext
for text in ['', 'one line', '- dash\n-- escaped  \nFrom me\t\n']:
    m = PGPMessage.new(text, cleartext=True)
    describe_msg('cleartext:' + repr(text), m, True)

# ---- 3. signed messages
rsa, _ = PGPKey.from_file('tests/testdata/keys/rsa.1.sec.asc')
dsa, _ = PGPKey.from_file('tests/testdata/keys/dsa.1.sec.asc')
ecc, _ = PGPKey.from_file('tests/testdata/keys/ecc.1.sec.asc')

# RSA PKCS#1 v1.5 signatures are deterministic -> whole export can be digested
for calg in CompressionAlgorithm:
    m = PGPMessage.new('signed by rsa', compression=calg)
    m._message.mtime = T0
    m |= rsa.sign(m, created=T0, hash=HashAlgorithm.SHA256)
    describe_msg('rsa1:' + calg.name, m, True)
    m |= rsa.sign(m, created=T1, hash=HashAlgorithm.SHA512)
    describe_msg('rsa2:' + calg.name, m, True)
    describe_msg('rsa2:reimport:' + calg.name, PGPMessage.from_blob(bytes(m)), True)
    describe_msg('rsa2:reimport-asc:' + calg.name, PGPMessage.from_blob(str(m)), True)

m = PGPMessage.new('clear signed', cleartext=True)
m |= rsa.sign(m, created=T0)
describe_msg('rsa-cleartext', m, True)
describe_msg('rsa-cleartext:reimport', PGPMessage.from_blob(str(m)), True)

# several signers of differing algorithms, in every order; DSA/ECDSA are randomised -> structure only
import itertools  # noqa: E402
keys = {'rsa': rsa, 'dsa': dsa, 'ecc': ecc}
for n in (1, 2, 3):
    for order in itertools.permutations(sorted(keys), n):
        for times in ((T0, T0, T0), (T0, T1, T0)):
            m = PGPMessage.new(b'\x00\x01binary\xff', compression=CompressionAlgorithm.ZLIB)
            m._message.mtime = T0
            for kname, t in zip(order, times):
                m |= keys[kname].sign(m, created=t)
            tag = 'multi:{}:{}'.format('+'.join(order), times[1] is T1)
            describe_msg(tag, m, False)
            describe_msg(tag + ':reimport', PGPMessage.from_blob(bytes(m)), False)
            # independent look at the exported packet sequence
            blob = bytearray(bytes(m))
            top = []
            while blob:
                top.append(Packet(blob))
            rec(tag, 'top', [type(p).__name__ for p in top])
            if isinstance(top[0], CompressedData):
                rec(tag, 'inner', [describe(p) if isinstance(p, (OnePassSignatureV3, LiteralData)) else (type(p).__name__,)
                                   for p in top[0].packets])

# ---- 4. encrypted
m = PGPMessage.new('secret', compression=CompressionAlgorithm.BZ2)
m._message.mtime = T0
m |= rsa.sign(m, created=T0)
sk = bytes(bytearray(range(32)))
enc = m.encrypt('pw', sessionkey=sk, cipher=SymmetricKeyAlgorithm.AES256)
rec('enc', enc.type, [type(p).__name__ for p in enc])
enc2 = PGPMessage.from_blob(bytes(enc))
rec('enc2', enc2.type, [type(p).__name__ for p in enc2])
dec = enc2.decrypt('pw')
describe_msg('dec', dec, False)  # the retained MDC packet depends on the random prefix
pkenc = rsa.pubkey.encrypt(m, sessionkey=sk, cipher=SymmetricKeyAlgorithm.AES256)
pkenc = PGPMessage.from_blob(str(pkenc))
rec('pkenc', pkenc.type, [type(p).__name__ for p in pkenc])
describe_msg('pkdec', rsa.decrypt(pkenc), False)
# sign after encryption
enc |= rsa.sign(enc, created=T0)
rec('enc-signed', [type(p).__name__ for p in enc], [type(p).__name__ for p in PGPMessage.from_blob(bytes(enc))])

# ---- 5. packet codecs directly
ops = OnePassSignatureV3()
attempt('ops-empty-bytes', lambda: bytes(ops).hex())
ops.sigtype = 1
attempt('ops-partial-bytes', lambda: bytes(ops).hex())
ops.halg = 8
ops.pubalg = 17
ops.signer = bytearray(b'\x01\x23\x45\x67\x89\xab\xcd\xef')
for nested in (False, True):
    ops.nested = nested
    ops.update_hlen()
    b = bytes(ops)
    rec('ops', b.hex(), type(ops.signature).__name__)
    p = Packet(bytearray(b))
    rec('ops-parsed', describe(p), bytes(p).hex())
ops.halg = 200
attempt('ops-unknown-halg', lambda: bytes(ops).hex())
ops.halg = 300
attempt('ops-big-halg', lambda: bytes(ops).hex())
attempt('ops-short', lambda: describe(Packet(bytearray(b'\xc4\x05\x03\x00\x08\x01\x00'))))

for fmt in ('b', 't', 'u', 'l', '1', ''):
    lit = LiteralData()
    lit.format = fmt
    lit.filename = u'näme.txt'
    lit.mtime = T0
    lit._contents = bytearray(b'abc\xc3\xa9')
    lit.update_hlen()
    attempt('lit-contents:' + fmt, lambda: lit.contents)
    attempt('lit-bytes:' + fmt, lambda: bytes(lit).hex())
    if fmt:
        attempt('lit-parse:' + fmt, lambda: describe(Packet(bytearray(bytes(lit)))))
# old-format and partial-length literal packets from "other producers"
attempt('lit-old', lambda: describe(Packet(bytearray(b'\xac\x09b\x01x\x00\x00\x00\x01hi!'))))
attempt('lit-partial', lambda: describe(Packet(bytearray(b'\xcb\xe0b\x00\x00\x00\x00\x00h\x03ola'))))
attempt('lit-trunc', lambda: describe(Packet(bytearray(b'\xcb\x03b\x05x'))))

for calg in CompressionAlgorithm:
    cd = CompressedData()
    cd.calg = calg
    lit = LiteralData()
    lit.mtime = T0
    lit._contents = bytearray(b'xyz' * 100)
    lit.update_hlen()
    cd.packets = [lit, lit]
    cd.update_hlen()
    b = bytes(cd)
    rec('cd', calg.name, b.hex())
    p = Packet(bytearray(b) + b'tail')
    rec('cd-parsed', [describe(x) for x in p.packets], int(p.calg))
cd = CompressedData()
attempt('cd-nocalg', lambda: bytes(cd))
attempt('cd-badalg', lambda: Packet(bytearray(b'\xc8\x02\x09\x00')))
attempt('cd-empty', lambda: [type(x).__name__ for x in Packet(bytearray(b'\xc8\x01\x00')).packets])

# ---- 6. error paths of the composition code
attempt('iter-empty', lambda: list(PGPMessage()))
attempt('bytes-empty', lambda: bytes(PGPMessage()))
attempt('or-int', lambda: PGPMessage() | 5)
attempt('or-none', lambda: PGPMessage() | None)


def double_literal():
    m = PGPMessage.new('a')
    return m | 'second'


attempt('or-second-text', double_literal)
attempt('or-second-lit', lambda: PGPMessage.new('a') | LiteralData())
attempt('parse-key', lambda: PGPMessage.from_blob(open('tests/testdata/keys/rsa.1.pub.asc').read()))
attempt('parse-sig-as-msg', lambda: describe_msg('x', PGPMessage.from_blob(
    open(sorted(glob.glob('tests/testdata/signatures/*.asc'))[0]).read()), False))
attempt('parse-empty', lambda: list(PGPMessage.from_blob(b'\xff')))
attempt('onepass-empty-sig', lambda: PGPSignature().make_onepass())
attempt('new-bad-format', lambda: PGPMessage.new('x', format=5))
attempt('new-bad-format-b', lambda: PGPMessage.new(b'x', format=5))
attempt('new-none', lambda: PGPMessage.new(None))
attempt('new-nofile', lambda: bytes(PGPMessage.new('/nonexistent/file', file=True, compression=CompressionAlgorithm.Uncompressed))[:4].hex())

# cleartext block whose SIGNATURE armor also carries a non-signature packet (gets discarded with a warning)
import base64  # noqa: E402
from pgpy.types import Armorable  # noqa: E402


def odd_cleartext():
    m = PGPMessage.new('odd one', cleartext=True)
    m |= rsa.sign(m, created=T0)
    lit = LiteralData()
    lit.mtime = T0
    lit.update_hlen()
    body = bytes(lit) + bytes(m) + bytes(lit)
    crc = base64.b64encode(Armorable.crc24(bytearray(body)).to_bytes(3, 'big')).decode()
    b64 = base64.b64encode(body).decode()
    lines = '\n'.join(b64[i:i + 64] for i in range(0, len(b64), 64))
    text = ('-----BEGIN PGP SIGNED MESSAGE-----\nHash: SHA256\n\nodd one\n'
            '-----BEGIN PGP SIGNATURE-----\n\n' + lines + '\n=' + crc + '\n-----END PGP SIGNATURE-----\n')
    with warnings.catch_warnings(record=True) as w:
        warnings.simplefilter('always')
        m2 = PGPMessage.from_blob(text)
    describe_msg('odd-cleartext', m2, True)
    return [(x.category.__name__, str(x.message), os.path.basename(x.filename)) for x in w]


attempt('odd-cleartext', odd_cleartext)

digest = hashlib.sha256('\n'.join(out).encode('utf-8', 'backslashreplace')).hexdigest()
if '-v' in sys.argv:
    for line in out:
        print(line[:300])
print(len(out), digest)
