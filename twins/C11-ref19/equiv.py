# run as: cd <tree> && /venv/bin/python equiv.py
import os, sys, glob, copy, hashlib, warnings
sys.path.insert(0, os.getcwd())
warnings.simplefilter('ignore')
import pgpy
from datetime import datetime, timezone
from pgpy.constants import HashAlgorithm, CompressionAlgorithm
from pgpy.packet import Packet

out = []
def rec(tag, val):
    if isinstance(val, (bytes, bytearray)):
        val = bytes(val).hex()
    out.append('%s=%r' % (tag, val))

def attempt(tag, fn):
    try:
        rec(tag, fn())
    except Exception as e:
        rec(tag, 'EXC %s: %s' % (type(e).__name__, e))

WHEN = datetime(2020, 1, 2, 3, 4, 5, tzinfo=timezone.utc)
rsa, _ = pgpy.PGPKey.from_file('tests/testdata/keys/rsa.1.sec.asc')
rsapub, _ = pgpy.PGPKey.from_file('tests/testdata/keys/rsa.1.pub.asc')

TEXTS = ['', 'one line', 'one line\n', '- dash\n-nodash\n-- two\n- \n-\n', 'From me\n-----BEGIN PGP SIGNATURE-----\nx\n',
         'trail  \t\nb\t \r\nc \rd\n\n\n', 'café \U0001f600 中\n- é\n', 'x' * 5000 + '\n-' + 'y' * 3000,
         '\n', '\r\n', ' ', '-']

def describe(msg):
    pkts = list(msg)
    return (msg.type, msg.magic, msg.message if not msg.is_encrypted else 'ENC', [type(p).__name__ for p in pkts],
            [bytes(p.__bytearray__()).hex() for p in pkts], bytes(msg).hex(), str(msg), sorted(msg.signers), msg.is_signed,
            msg.is_compressed, list(msg.ascii_headers.items()))

# fixtures: parse, re-serialise, copy, verify
for fn in sorted(glob.glob('tests/testdata/messages/*.asc')):
    def run(fn=fn):
        m = pgpy.PGPMessage.from_file(fn)
        c = copy.copy(m)
        r = [describe(m), describe(c)]
        if m.type == 'cleartext':
            m2 = pgpy.PGPMessage.from_blob(str(m))
            r.append(describe(m2))
        return r
    attempt('fixture:' + os.path.basename(fn), run)

for i, t in enumerate(TEXTS):
    for halg in (HashAlgorithm.SHA256, HashAlgorithm.SHA512):
        def run(t=t, halg=halg):
            m = pgpy.PGPMessage.new(t, cleartext=True)
            r = [describe(m)]
            m |= rsa.sign(m, hash=halg, created=WHEN)
            m |= rsa.sign(m, hash=HashAlgorithm.SHA384, created=WHEN)
            r.append(describe(m))
            r.append(describe(copy.copy(m)))
            r.append(bool(rsapub.verify(m)))
            try:
                m2 = pgpy.PGPMessage.from_blob(str(m))
                r.append(describe(m2))
                r.append(bool(rsapub.verify(m2)))
            except Exception as e:
                r.append('EXC %s: %s' % (type(e).__name__, e))
            return r
        attempt('cleartext:%d:%s' % (i, halg.name), run)

    for comp in (CompressionAlgorithm.Uncompressed, CompressionAlgorithm.ZIP):
        def run(t=t, comp=comp):
            m = pgpy.PGPMessage.new(t, compression=comp)
            # mtime is "now": pin it
            m._message.mtime = WHEN
            m |= rsa.sign(m, created=WHEN)
            m |= rsa.sign(m, hash=HashAlgorithm.SHA1, created=WHEN)
            r = [describe(m), describe(copy.copy(m)), bool(rsapub.verify(m))]
            m2 = pgpy.PGPMessage.from_blob(str(m))
            r += [describe(m2), bool(rsapub.verify(m2))]
            m3 = pgpy.PGPMessage.from_blob(bytes(m))
            r += [describe(m3)]
            return r
        attempt('literal:%d:%s' % (i, comp.name), run)

# __or__ corner cases
def or_cases():
    r = []
    m = pgpy.PGPMessage()
    for thing in ('abc', b'def', bytearray(b'ghi'), None, 5, pgpy.PGPMessage.new('lit')._message):
        try:
            m |= thing
            r.append(('ok', repr(m._message) if isinstance(m._message, (bytes, bytearray, str)) else type(m._message).__name__))
        except Exception as e:
            r.append('EXC %s: %s' % (type(e).__name__, e))
    e = pgpy.PGPMessage()
    for f in (lambda: list(e), lambda: e.message, lambda: str(e), lambda: bytes(e), lambda: e._signed_data, lambda: copy.copy(e)._message):
        try:
            r.append(repr(f()))
        except Exception as ex:
            r.append('EXC %s: %s' % (type(ex).__name__, ex))
    l = pgpy.PGPMessage.new('lit', compression=CompressionAlgorithm.Uncompressed)
    l._message.mtime = WHEN
    for thing in (l._message, 'text', pgpy.PGPMessage.from_file('tests/testdata/messages/cleartext.signed.asc')):
        try:
            l |= thing
            r.append(('ok', describe(l)))
        except Exception as ex:
            r.append('EXC %s: %s' % (type(ex).__name__, ex))
    return r
attempt('or', or_cases)

# encrypted message iteration
def enc():
    m = pgpy.PGPMessage.from_file('tests/testdata/messages/message.rsa.cast5.asc')
    return describe(m), describe(copy.copy(m))
attempt('enc', enc)


# PGPMessage.new: format detection, file loading, cleartext / literal; message / _signed_data getters
import tempfile, shutil
def new_cases():
    r = []
    tmp = os.path.join(tempfile.gettempdir(), 'equiv_c11_fixed_dir')  # fixed name: paths end up inside message contents
    shutil.rmtree(tmp, ignore_errors=True)
    os.makedirs(tmp)
    try:
        paths = {}
        for name, content in (('ascii.txt', b'- hello \t\r\nworld  \n'), ('binary.bin', bytes(range(256)) * 3), ('empty.txt', b''),
                              ('utf8.txt', 'caf\xe9 \u4e2d\n-x \n'.encode('utf-8'))):
            pth = os.path.join(tmp, name)
            with open(pth, 'wb') as f:
                f.write(content)
            os.utime(pth, (1500000000, 1500000000))
            paths[name] = pth
        inputs = [('str', 'plain \t\n- x'), ('str-nonascii', 'caf\xe9 \u4e2d \U0001f600 \n'), ('bytes-ascii', b'abc \r\n-d\t\n'), ('bytes-bin', b'\x00\xff\x80abc'),
                  ('bytearray-ascii', bytearray(b'xyz \n')), ('bytearray-bin', bytearray(b'\xfe\xfd')), ('bytes-utf8', 'caf\xe9\n'.encode('utf-8')),
                  ('empty-str', ''), ('empty-bytes', b''), ('none', None), ('int', 7), ('list', ['a']),
                  ('path-nofile-flag', paths['ascii.txt']), ('missing', os.path.join(tmp, 'missing.txt'))]
        inputs += [('file:' + k, v) for k, v in sorted(paths.items())]
        for label, inp in inputs:
            for kw in ({}, {'cleartext': True}, {'format': 'b'}, {'format': 't', 'sensitive': True}, {'encoding': 'latin-1'},
                       {'cleartext': True, 'encoding': 'latin-1'}, {'compression': CompressionAlgorithm.Uncompressed, 'bogus': 1}):
                kw = dict(kw)
                if label.startswith('file:') or label == 'missing':
                    kw['file'] = True
                try:
                    m = pgpy.PGPMessage.new(inp, **kw)
                    if m.type == 'literal':
                        mt = m._message.mtime
                        if not kw.get('file') or label == 'missing':
                            m._message.mtime = WHEN
                            mt = 'now'
                        res = [m.type, m._message.format, m.filename, str(mt), m.is_sensitive, m.is_compressed, m._compression.name,
                               repr(m.message), repr(m._signed_data), list(m.ascii_headers.items()), bytes(m).hex()]
                    else:
                        res = [m.type, repr(m._message), repr(m.message), repr(m._signed_data), list(m.ascii_headers.items()), str(m)]
                        m |= rsa.sign(m, created=WHEN)
                        res += [str(m), bool(rsapub.verify(m))]
                except Exception as ex:
                    res = 'EXC %s: %s' % (type(ex).__name__, str(ex).replace(tmp, '<tmp>'))
                r.append((label, sorted((k, str(v)) for k, v in kw.items()), res))
    finally:
        shutil.rmtree(tmp)
    # getters on every fixture
    for fn in sorted(glob.glob('tests/testdata/messages/*')):
        try:
            m = pgpy.PGPMessage.from_file(fn)
            r.append((os.path.basename(fn), m.type, repr(m.message) if not m.is_encrypted else type(m.message).__name__,
                      repr(m._signed_data) if not m.is_encrypted else type(m._signed_data).__name__))
        except Exception as ex:
            r.append((os.path.basename(fn), 'EXC %s: %s' % (type(ex).__name__, ex)))
    return r
attempt('new', new_cases)

blob = '\n'.join(out).encode('utf-8', 'surrogatepass')
print(len(out), hashlib.sha256(blob).hexdigest())
