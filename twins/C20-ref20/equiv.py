"""C20 equivalence probe: message composition, export grammar and round trip.

Run as:  cd <tree> && PYTHONHASHSEED=0 /venv/bin/python equiv.py
Prints only deterministic facts.
"""
import bz2
import copy
import glob
import hashlib
import os
import sys
import warnings
import zlib
from datetime import datetime, timezone

sys.path.insert(0, os.getcwd())
warnings.simplefilter('ignore')

import pgpy
from pgpy import PGPKey, PGPMessage, PGPSignature
from pgpy.constants import CompressionAlgorithm, HashAlgorithm, SymmetricKeyAlgorithm
from pgpy.packet import Packet
from pgpy.packet.packets import (CompressedData, LiteralData, OnePassSignatureV3, Marker, MDC)

assert os.path.dirname(os.path.dirname(os.path.abspath(pgpy.__file__))) == os.getcwd(), pgpy.__file__

T0 = datetime(2020, 1, 2, 3, 4, 5, tzinfo=timezone.utc)
T1 = datetime(2021, 6, 7, 8, 9, 10, tzinfo=timezone.utc)
T2 = datetime(2019, 3, 3, 3, 3, 3, tzinfo=timezone.utc)


def h(b):
    b = bytes(b)
    if len(b) <= 48:
        return b.hex()
    return 'sha256:' + hashlib.sha256(b).hexdigest() + ':len=%d' % len(b)


def out(*a):
    print(*a)


# ---------------------------------------------------------------- independent packet parser
def read_packets(data):
    """Minimal RFC 4880 4.2 packet splitter -> list of (tag, body)."""
    data = bytes(data)
    pos = 0
    pkts = []
    while pos < len(data):
        hdr = data[pos]
        assert hdr & 0x80, 'bad header'
        pos += 1
        if hdr & 0x40:
            tag = hdr & 0x3f
            body = b''
            while True:
                o = data[pos]
                pos += 1
                if o < 192:
                    ln, partial = o, False
                elif o < 224:
                    ln, partial = ((o - 192) << 8) + data[pos] + 192, False
                    pos += 1
                elif o == 255:
                    ln, partial = int.from_bytes(data[pos:pos + 4], 'big'), False
                    pos += 4
                else:
                    ln, partial = 1 << (o & 0x1f), True
                body += data[pos:pos + ln]
                pos += ln
                if not partial:
                    break
        else:
            tag = (hdr >> 2) & 0x0f
            lt = hdr & 3
            if lt == 3:
                body = data[pos:]
                pos = len(data)
            else:
                n = 1 << lt
                ln = int.from_bytes(data[pos:pos + n], 'big')
                pos += n
                body = data[pos:pos + ln]
                pos += ln
        pkts.append((tag, body))
    return pkts


def decomp(alg, body):
    if alg == 0:
        return body
    if alg == 1:
        return zlib.decompress(body, -15)
    if alg == 2:
        return zlib.decompress(body)
    if alg == 3:
        return bz2.decompress(body)
    raise ValueError(alg)


def describe(data, depth=0, deterministic_sigs=True):
    ind = '  ' * depth
    for tag, body in read_packets(data):
        if tag == 8:
            out(ind + 'COMP alg=%d' % body[0])
            describe(decomp(body[0], body[1:]), depth + 1, deterministic_sigs)
        elif tag == 4:
            out(ind + 'OPS ver=%d type=%d halg=%d palg=%d signer=%s last=%d len=%d' % (
                body[0], body[1], body[2], body[3], body[4:12].hex(), body[12], len(body)))
        elif tag == 11:
            fnl = body[1]
            out(ind + 'LIT fmt=%r fn=%s time=%d data=%s' % (
                chr(body[0]), body[2:2 + fnl].hex(), int.from_bytes(body[2 + fnl:6 + fnl], 'big'), h(body[6 + fnl:])))
        elif tag == 2:
            if deterministic_sigs:
                out(ind + 'SIG ver=%d type=%d palg=%d halg=%d body=%s' % (body[0], body[1], body[2], body[3], h(body)))
            else:
                out(ind + 'SIG ver=%d type=%d palg=%d halg=%d' % (body[0], body[1], body[2], body[3]))
        elif tag in (1, 3):
            out(ind + 'ESK tag=%d ver=%d' % (tag, body[0]))
        elif tag in (9, 18):
            out(ind + 'ENC tag=%d' % tag)
        else:
            out(ind + 'PKT tag=%d len=%d' % (tag, len(body)))


def msg_facts(m, label):
    facts = [label, 'type=' + m.type, 'comp=%s/%d' % (m.is_compressed, int(m._compression)),
             'enc=%s' % m.is_encrypted, 'signed=%s' % m.is_signed, 'sens=%s' % m.is_sensitive,
             'fn=%r' % m.filename, 'signers=%s' % sorted(m.signers), 'encrypters=%s' % sorted(m.encrypters),
             'nsig=%d' % len(m.signatures)]
    if m.type == 'literal':
        lit = m._message
        facts += ['fmt=%r' % lit.format, 'mtime=%s' % lit.mtime.isoformat(), 'ctype=' + type(m.message).__name__,
                  'raw=' + h(lit._contents)]
        c = m.message
        facts.append('msg=' + h(c.encode('utf-8', 'surrogateescape') if isinstance(c, str) else c))
    elif m.type == 'cleartext':
        facts.append('msg=' + h(m.message.encode('utf-8')))
    out(' | '.join(facts))


def load_key(name):
    k, _ = PGPKey.from_file(os.path.join('tests', 'testdata', 'keys', name))
    return k


def fixed(msg, t=T0):
    if msg.type == 'literal':
        msg._message.mtime = t
    return msg


def roundtrip(m, label, det=True):
    b = bytes(m)
    describe(b, 1, det)
    m2 = PGPMessage.from_blob(b)
    msg_facts(m2, label + ':rt-bin')
    out('   rebin-equal=%s' % (bytes(m2) == b))
    a = str(m)
    m3 = PGPMessage.from_blob(a)
    msg_facts(m3, label + ':rt-asc')
    out('   reasc-equal=%s' % (bytes(m3) == b))
    m4 = PGPMessage.from_blob(bytearray(b))
    out('   from-bytearray-equal=%s' % (bytes(m4) == b))
    mc = copy.copy(m)
    out('   copy-equal=%s' % (bytes(mc) == b))
    return m2


# ---------------------------------------------------------------- 1. PGPMessage.new matrix
out('== 1. new() matrix')
contents = [
    ('empty-str', ''),
    ('empty-bytes', b''),
    ('ascii-str', 'hello world\nsecond line\r\n'),
    ('ascii-bytes', b'hello world\tTabbed\n'),
    ('ascii-bytearray', bytearray(b'plain ascii bytearray')),
    ('utf8-str', u'café ☃ \U0001F600'),
    ('utf8-bytes', u'café ☃'.encode('utf-8')),
    ('binary', bytes(range(256)) * 3),
    ('binary-bytearray', bytearray(range(255, -1, -1))),
    ('nul', b'\x00'),
    ('del', b'abc\x7f'),
    ('big', (b'0123456789abcdef' * 65536) + b'\xff'),
    ('big-text', 'lorem ipsum dolor sit amet\n' * 40000),
]
for name, c in contents:
    for comp in CompressionAlgorithm:
        try:
            m = fixed(PGPMessage.new(c, compression=comp))
        except Exception as e:
            out(name, comp.name, 'EXC', type(e).__name__)
            continue
        msg_facts(m, '%s/%s' % (name, comp.name))
        roundtrip(m, '%s/%s' % (name, comp.name))

out('== 1b. formats')
for fmt in ('b', 't', 'u', None):
    for name, c in [('ascii-str', 'abc\n'), ('ascii-bytes', b'abc\n'), ('utf8-str', u'über'),
                    ('utf8-bytes', u'über'.encode('utf-8')), ('bin', b'\xff\xfe\x00'), ('empty', b'')]:
        try:
            m = fixed(PGPMessage.new(c, format=fmt, compression=CompressionAlgorithm.Uncompressed))
        except Exception as e:
            out('fmt=%r %s EXC %s' % (fmt, name, type(e).__name__))
            continue
        msg_facts(m, 'fmt=%r %s' % (fmt, name))
        roundtrip(m, 'fmt=%r %s' % (fmt, name))

out('== 1c. encoding hint')
for enc, text in [('latin-1', u'café'), ('cp1252', u'€ uro'), ('koi8-r', u'привет'),
                  ('utf-16', u'wide'), ('shift_jis', u'日本'), ('ascii', u'plain')]:
    raw = text.encode(enc)
    for inp_name, inp in [('bytes', raw), ('str', text), ('bytearray', bytearray(raw))]:
        for fmt in (None, 't', 'u', 'b'):
            try:
                m = fixed(PGPMessage.new(inp, encoding=enc, format=fmt))
            except Exception as e:
                out('enc=%s %s fmt=%r EXC %s' % (enc, inp_name, fmt, type(e).__name__))
                continue
            out('charset=%r headers=%r' % (m.charset, dict(m.ascii_headers)))
            msg_facts(m, 'enc=%s %s fmt=%r' % (enc, inp_name, fmt))
            m2 = PGPMessage.from_blob(str(m))
            out('   rt charset=%r' % m2.charset)
            msg_facts(m2, '   rt')
try:
    PGPMessage.new('x', encoding='no-such-codec')
    out('bad codec accepted')
except Exception as e:
    out('bad codec EXC', type(e).__name__)

out('== 1d. sensitive / file / filename')
m = fixed(PGPMessage.new('eyes only', sensitive=True))
msg_facts(m, 'sensitive')
roundtrip(m, 'sensitive')
for fn in sorted(glob.glob('tests/testdata/files/*'))[:6] + ['tests/testdata/need.txt', 'tests/testdata/simple.jpg']:
    if not os.path.isfile(fn):
        continue
    m = PGPMessage.new(fn, file=True)
    out('file mtime ok=%s' % (int(m._message.mtime.timestamp()) == int(os.path.getmtime(fn))))
    fixed(m)
    msg_facts(m, 'file:' + os.path.basename(fn))
    m2 = PGPMessage.from_blob(bytes(m))
    msg_facts(m2, '   rt')
    m = fixed(PGPMessage.new(fn, file=True, sensitive=True, compression=CompressionAlgorithm.BZ2))
    msg_facts(m, 'file-sens:' + os.path.basename(fn))
m = fixed(PGPMessage.new('not/a/real/path.txt', file=True))
msg_facts(m, 'file-missing')
for fname in [u'ünï.txt', 'a' * 255, u'é' * 127, '_CONSOLE', '', 'x' * 256, u'é' * 128]:
    m = fixed(PGPMessage.new('content'))
    m._message.filename = fname
    try:
        m._message.update_hlen()
        b = bytes(m)
        m2 = PGPMessage.from_blob(b)
        msg_facts(m2, 'fname len=%d' % len(fname.encode('utf-8')))
        describe(b, 1)
    except Exception as e:
        out('fname len=%d EXC %s' % (len(fname.encode('utf-8')), type(e).__name__))

out('== 1e. times')
for t in [datetime(1970, 1, 1, tzinfo=timezone.utc), T0, datetime(2038, 1, 19, 3, 14, 7, tzinfo=timezone.utc),
          datetime(2106, 2, 7, 6, 28, 15, tzinfo=timezone.utc), 0, 1, 0x7fffffff, 0xffffffff, b'\x00\x00\x00\x2a',
          bytearray(b'\x5e\x0d\x5e\x45')]:
    m = PGPMessage.new('timed', compression=CompressionAlgorithm.Uncompressed)
    m._message.mtime = t
    b = bytes(m)
    describe(b, 1)
    msg_facts(PGPMessage.from_blob(b), 'time %r' % (t,))
    lt = LiteralData()
    lt.mtime = t
    out('   lit default fmt=%r fn=%r mtime=%s' % (lt.format, lt.filename, lt.mtime.isoformat()))

out('== 1f. cleartext')
for c in ['', 'one line', 'dash\n- escaped\n-----\nfrom here  \ntrail\t\n', u'snöw ☃\n', b'bytes in\n',
          bytearray(b'ba in')]:
    m = PGPMessage.new(c, cleartext=True)
    msg_facts(m, 'cleartext %r' % (c,))
    out('   pkts=%d bytes=%s' % (len(list(m)), h(bytes(m))))
    s = str(m)
    out('   armor=%s' % h(s.encode('utf-8')))
    try:
        m2 = PGPMessage.from_blob(s)
        msg_facts(m2, '   rt')
    except Exception as e:
        out('   rt EXC', type(e).__name__)
m = PGPMessage.new(u'café'.encode('latin-1'), cleartext=True, encoding='latin-1')
msg_facts(m, 'cleartext latin-1')
try:
    PGPMessage.new(b'\xff\xfe', cleartext=True)
    out('cleartext bad utf8 accepted')
except Exception as e:
    out('cleartext bad utf8 EXC', type(e).__name__)

# ---------------------------------------------------------------- 2. signatures and one-pass
out('== 2. signing')
rsa = load_key('rsa.1.sec.asc')
dsa = load_key('dsa.1.sec.asc')
ecc = load_key('ecc.1.sec.asc')
tgt = load_key('targette.sec.rsa.asc')
keys = {'rsa': rsa, 'dsa': dsa, 'ecc': ecc, 'tgt': tgt}
det_keys = {'rsa', 'tgt'}
for n, k in sorted(keys.items()):
    out('key', n, k.fingerprint, k.key_algorithm.name, k.is_protected)


def check_ops(b, label):
    pk = read_packets(b)
    if pk and pk[0][0] == 8:
        pk = read_packets(decomp(pk[0][1][0], pk[0][1][1:]))
    tags = [t for t, _ in pk]
    ops = [body for t, body in pk if t == 4]
    sigs = [body for t, body in pk if t == 2]
    lits = [body for t, body in pk if t == 11]
    ok = tags == [4] * len(ops) + [11] + [2] * len(sigs) and len(ops) == len(sigs) and len(lits) == 1
    for o, s in zip(ops, reversed(sigs)):
        sm = PGPSignature.from_blob(bytes([0xc2, 0xff]) + len(s).to_bytes(4, 'big') + s)
        ok = ok and o[1] == s[1] and o[2] == int(sm.hash_algorithm) and o[3] == int(sm.key_algorithm) \
            and o[4:12].hex().upper() == sm.signer
    flags = [o[12] for o in ops]
    ok = ok and flags == ([0] * (len(ops) - 1) + [1] if ops else [])
    out('   grammar[%s] tags=%s flags=%s ok=%s' % (label, tags, flags, ok))


orders = [
    [('rsa', T0)],
    [('rsa', T0), ('tgt', T0)],
    [('tgt', T0), ('rsa', T0)],
    [('rsa', T1), ('tgt', T0)],
    [('rsa', T0), ('tgt', T1)],
    [('rsa', T1), ('tgt', T0), ('rsa', T2)],
    [('rsa', T0), ('dsa', T1), ('ecc', T2), ('tgt', T0)],
    [('ecc', T0), ('dsa', T0), ('rsa', T0)],
    [('dsa', T2), ('dsa', T1)],
]
halgs = [HashAlgorithm.SHA256, HashAlgorithm.SHA512, HashAlgorithm.SHA1, HashAlgorithm.SHA384]
for oi, order in enumerate(orders):
    for comp in (CompressionAlgorithm.Uncompressed, CompressionAlgorithm.ZIP, CompressionAlgorithm.BZ2):
        for content in ('signed text\n', bytes(range(200, 256)) * 2):
            m = fixed(PGPMessage.new(content, compression=comp))
            det = all(n in det_keys for n, _ in order)
            for i, (n, t) in enumerate(order):
                m |= keys[n].sign(m, created=t, hash=halgs[i % len(halgs)])
            label = 'order%d/%s/%s' % (oi, comp.name, type(content).__name__)
            msg_facts(m, label)
            b = bytes(m)
            check_ops(b, label)
            m2 = roundtrip(m, label, det)
            for n in sorted(set(n for n, _ in order)):
                out('   verify %s new=%s rt=%s' % (n, bool(keys[n].pubkey.verify(m)), bool(keys[n].pubkey.verify(m2))))
            out('   sig order rt=%s' % [(s.signer, s.created.isoformat(), s.hash_algorithm.name) for s in m2.signatures])
            # iteration object facts
            for p in m:
                if isinstance(p, OnePassSignatureV3):
                    out('   it OPS', p.sigtype.name, p.halg.name, p.pubalg.name, p.signer, p.nested, p.header.length,
                        h(p.__bytearray__()))
                else:
                    out('   it', type(p).__name__)

out('== 2b. signed cleartext')
for order in ([('rsa', T0)], [('rsa', T1), ('tgt', T0)], [('ecc', T0), ('rsa', T2)]):
    m = PGPMessage.new('clear\n- dash\ntrailing  \n', cleartext=True)
    for n, t in order:
        m |= keys[n].sign(m, created=t)
    msg_facts(m, 'cleartext signed %s' % [n for n, _ in order])
    out('   it', [type(p).__name__ for p in m])
    s = str(m)
    out('   head', s.split('\n')[0:3])
    m2 = PGPMessage.from_blob(s)
    msg_facts(m2, '   rt')
    for n, _ in order:
        out('   verify', n, bool(keys[n].pubkey.verify(m2)))

# ---------------------------------------------------------------- 3. encryption composition
out('== 3. encryption')
for when in ('sign-then-encrypt', 'encrypt-only', 'two-pass'):
    for comp in (CompressionAlgorithm.Uncompressed, CompressionAlgorithm.ZLIB):
        m = fixed(PGPMessage.new(u'secret ☃', compression=comp))
        if when == 'sign-then-encrypt':
            m |= rsa.sign(m, created=T0)
            m |= tgt.sign(m, created=T1)
        sk = bytes(range(32))
        e = m.encrypt('pass1', sessionkey=sk)
        if when == 'two-pass':
            e = e.encrypt('pass2', sessionkey=sk)
        e = rsa.pubkey.encrypt(e, sessionkey=sk)
        msg_facts(e, '%s/%s' % (when, comp.name))
        b = bytes(e)
        describe(b, 1)
        out('   it', [type(p).__name__ for p in e])
        for blob in (b, str(e), bytearray(b)):
            e2 = PGPMessage.from_blob(blob)
            out('   rt it', [type(p).__name__ for p in e2], 'equal=%s' % (bytes(e2) == b))
            d = e2.decrypt('pass1')
            msg_facts(d, '   dec-pass')
            out('   dec equal=%s' % (bytes(d) == bytes(m)))
            d = rsa.decrypt(e2)
            msg_facts(d, '   dec-key')
            if when == 'two-pass':
                msg_facts(e2.decrypt('pass2'), '   dec-pass2')
            if d.is_signed:
                out('   verify', bool(rsa.pubkey.verify(d)), bool(tgt.pubkey.verify(d)))
        try:
            e.decrypt('wrong')
            out('   wrong pass accepted')
        except Exception as ex:
            out('   wrong pass EXC', type(ex).__name__)
try:
    PGPMessage.new('plain').decrypt('x')
except Exception as ex:
    out('decrypt plain EXC', type(ex).__name__, str(ex))

# ---------------------------------------------------------------- 4. stored messages / foreign encodings
out('== 4. testdata messages')
for fn in sorted(glob.glob('tests/testdata/messages/*')):
    try:
        m = PGPMessage.from_file(fn)
    except Exception as ex:
        out(os.path.basename(fn), 'EXC', type(ex).__name__)
        continue
    msg_facts(m, os.path.basename(fn))
    out('   it', [type(p).__name__ for p in m])
    b = bytes(m)
    out('   bytes', h(b))
    m2 = PGPMessage.from_blob(b) if m.type != 'cleartext' else PGPMessage.from_blob(str(m))
    out('   rt equal=%s' % (bytes(m2) == b))
    if m.type == 'literal':
        describe(b, 1)
        check_ops(b, os.path.basename(fn))

out('== 4b. old-format and partial-length literals')


def old_pkt(tag, body, lt=None):
    if lt is None:
        lt = 0 if len(body) < 256 else (1 if len(body) < 65536 else 2)
    if lt == 3:
        return bytes([0x80 | (tag << 2) | 3]) + body
    return bytes([0x80 | (tag << 2) | lt]) + len(body).to_bytes(1 << lt, 'big') + body


def partial_pkt(tag, body, chunk_pow=9):
    o = bytes([0xc0 | tag])
    ch = 1 << chunk_pow
    pos = 0
    while len(body) - pos > ch:
        o += bytes([224 + chunk_pow]) + body[pos:pos + ch]
        pos += ch
    rest = body[pos:]
    if len(rest) < 192:
        o += bytes([len(rest)])
    else:
        o += bytes([((len(rest) - 192) >> 8) + 192, (len(rest) - 192) & 0xff])
    return o + rest


litbody = b'b\x08test.bin' + (1234567890).to_bytes(4, 'big') + bytes(range(256)) * 9
for label, blob in [
    ('old-1', old_pkt(11, litbody[:100], 0)),
    ('old-2', old_pkt(11, litbody, 1)),
    ('old-4', old_pkt(11, litbody, 2)),
    ('old-indet', old_pkt(11, litbody, 3)),
    ('partial-512', partial_pkt(11, litbody, 9)),
    ('partial-1024', partial_pkt(11, litbody, 10)),
    ('old-comp-zip', old_pkt(8, b'\x01' + zlib.compress(old_pkt(11, litbody, 1))[2:-4], 3)),
    ('old-comp-zlib', old_pkt(8, b'\x02' + zlib.compress(old_pkt(11, litbody, 1)), 1)),
    ('new-comp-bz2', partial_pkt(8, b'\x03' + bz2.compress(partial_pkt(11, litbody, 9)), 9)),
    ('comp-none', old_pkt(8, b'\x00' + old_pkt(11, litbody, 1))),
    ('marker+lit', bytes([0xca, 3]) + b'PGP' + old_pkt(11, litbody, 1)),
    ('text-lit', old_pkt(11, b't\x00\x00\x00\x00\x00caf\xe9\r\n')),
    ('utf8-lit', old_pkt(11, b'u\x00\x00\x00\x00\x00caf\xc3\xa9')),
    ('local-lit', old_pkt(11, b'l\x00\x00\x00\x00\x00local')),
    ('bad-comp-alg', old_pkt(8, b'\x09abc')),
    ('bad-zip', old_pkt(8, b'\x01\xff\xff\xff')),
    ('trunc-lit', old_pkt(11, b'b\x08te')),
    ('empty-comp', old_pkt(8, b'\x00')),
]:
    try:
        m = PGPMessage.from_blob(blob)
        msg_facts(m, label)
        out('   it', [type(p).__name__ for p in m])
        b = bytes(m)
        describe(b, 1)
        m2 = PGPMessage.from_blob(b)
        out('   rt equal=%s content-equal=%s' % (bytes(m2) == b, m2.message == m.message))
    except Exception as ex:
        out(label, 'EXC', type(ex).__name__)

# ---------------------------------------------------------------- 5. packet codecs directly
out('== 5. packet codecs')
for sigtype in (0, 1, 2, 0x10):
    for halg in (1, 2, 3, 8, 9, 10, 11):
        for palg in (1, 2, 3, 17, 19, 22):
            for nested in (0, 1, 2):
                body = bytes([3, sigtype, halg, palg]) + bytes(range(8, 16)) + bytes([nested])
                raw = bytearray(bytes([0xc4, len(body)]) + body + b'TRAIL')
                try:
                    p = Packet(raw)
                    out('ops', sigtype, halg, palg, nested, type(p).__name__, p.sigtype.name, p.halg.name, p.pubalg.name,
                        p.signer, p.nested, p.header.length, bytes(raw), h(p.__bytearray__()),
                        bytes(p.__bytearray__()) == bytes([0xc4, 13]) + body[:12] + bytes([int(nested == 1)]))
                except Exception as ex:
                    out('ops', sigtype, halg, palg, nested, 'EXC', type(ex).__name__)
p = OnePassSignatureV3()
out('ops default', p._sigtype, p._halg, p._pubalg, p._signer, p.nested)
p.sigtype = 0
p.halg = HashAlgorithm.SHA256
p.pubalg = 1
p.signer = 'AABBCCDDEEFF0011'
p.update_hlen()
out('ops built', h(p.__bytearray__()), p.header.length)
p.signer = bytearray(b'\x01\x02\x03\x04\x05\x06\x07\x08')
p.nested = True
out('ops built2', h(p.__bytearray__()), p.signer)
for bad in (b'', b'\x03', b'\x03\x00\x08\x01', b'\x04\x00\x08\x01' + bytes(9), b'\x03\x63\x08\x01' + bytes(9),
            b'\x03\x00\x08\x63' + bytes(9)):
    try:
        raw = bytearray(bytes([0xc4, len(bad)]) + bad)
        p = Packet(raw)
        out('ops bad', bad.hex(), type(p).__name__, len(raw))
    except Exception as ex:
        out('ops bad', bad.hex(), 'EXC', type(ex).__name__)

for calg in CompressionAlgorithm:
    for payload in (b'', b'x', b'abc' * 1000, bytes(range(256)) * 40):
        lit = LiteralData()
        lit.mtime = T0
        lit.filename = 'f'
        lit._contents = bytearray(payload)
        lit.update_hlen()
        lit2 = copy.copy(lit)
        lit2.filename = 'g'
        lit2.update_hlen()
        c = CompressedData()
        c.calg = calg
        c.packets = [lit, lit2]
        c.update_hlen()
        b = c.__bytearray__()
        raw = bytearray(b)
        c2 = Packet(raw)
        out('comp', calg.name, len(payload), h(b), type(c2).__name__, c2.calg.name, c2.header.length, len(raw),
            [(type(q).__name__, q.filename, q.format, h(q._contents), q.mtime.isoformat()) for q in c2.packets],
            bytes(c2.__bytearray__()) == bytes(b))
        body = read_packets(b)[0][1]
        out('   indep', body[0], h(decomp(body[0], body[1:])))
c = CompressedData()
out('comp default', c._calg, c.packets)
for v in (4, 99, -1, 'x'):
    try:
        c.calg = v
        out('calg', v, 'accepted')
    except Exception as ex:
        out('calg', v, 'EXC', type(ex).__name__)

for fmt in 'btul1':
    for fn in ('', 'a.txt', u'ü.txt', '_CONSOLE'):
        lit = LiteralData()
        lit.format = fmt
        lit.filename = fn
        lit.mtime = T1
        lit._contents = bytearray(b'caf\xc3\xa9\r\n')
        lit.update_hlen()
        b = lit.__bytearray__()
        raw = bytearray(b) + b'++'
        l2 = Packet(raw)
        try:
            cts = l2.contents
            cts = (type(cts).__name__, h(cts.encode('utf-8') if isinstance(cts, str) else cts))
        except Exception as ex:
            cts = type(ex).__name__
        out('lit', fmt, repr(fn), h(b), l2.format, repr(l2.filename), l2.mtime.isoformat(), cts, bytes(raw),
            bytes(l2.__bytearray__()) == bytes(b))
lit = LiteralData()
lit.format = 'u'
lit._contents = bytearray(b'\xff')
try:
    lit.contents
    out('lit bad utf8 accepted')
except Exception as ex:
    out('lit bad utf8 EXC', type(ex).__name__)

# ---------------------------------------------------------------- 6. __or__ composition
out('== 6. composition via |')
base = fixed(PGPMessage.new('compose', compression=CompressionAlgorithm.Uncompressed))
sig_a = rsa.sign(base, created=T0)
sig_b = tgt.sign(base, created=T1)
m = PGPMessage()
try:
    m.type
except Exception as ex:
    out('empty type EXC', type(ex).__name__)
out('empty flags', m.is_compressed, m.is_encrypted, m.is_signed)
mk = Marker()
out('marker returns self', (m | mk) is m)
m |= copy.copy(base._message)
m |= sig_b
m |= sig_a
out('it', [type(p).__name__ for p in m])
check_ops(bytes(m), 'manual')
ops = sig_a.make_onepass()
out('onepass ignored', (m | ops) is m, len(list(m)))
m |= sig_a._signature
out('raw Signature pkt added', len(m.signatures))
other = PGPMessage()
other |= m
out('msg|msg', bytes(other) == bytes(m), other._compression.name)
cd = CompressedData()
cd.calg = CompressionAlgorithm.ZLIB
cd.packets = list(base)
cd.update_hlen()
m = PGPMessage() | cd
msg_facts(m, 'from CompressedData')
m = PGPMessage() | 'text'
msg_facts(m, 'from str')
m = PGPMessage() | b'bytes'
msg_facts(m, 'from bytes')
for bad in (1, None, 1.5, object(), [], rsa):
    try:
        PGPMessage() | bad
        out('or', type(bad).__name__, 'accepted')
    except Exception as ex:
        out('or', type(bad).__name__, 'EXC', type(ex).__name__)
for second in ('again', copy.copy(base._message), MDC()):
    m = PGPMessage() | copy.copy(base._message)
    if isinstance(second, MDC):
        m |= MDC()
    try:
        m |= second
        out('second', type(second).__name__, 'accepted')
    except Exception as ex:
        out('second', type(second).__name__, 'EXC', type(ex).__name__)
for bad in (None, 5, 1.5, [], (), {}, object()):
    try:
        PGPMessage.new(bad)
        out('new', type(bad).__name__, 'accepted')
    except Exception as ex:
        out('new', type(bad).__name__, 'EXC', type(ex).__name__)
for bad in ('-----BEGIN PGP PUBLIC KEY BLOCK-----\n\nxsBNBA==\n=abcd\n-----END PGP PUBLIC KEY BLOCK-----\n', b'\x00\x01', b''):
    try:
        m = PGPMessage.from_blob(bad)
        out('parse', repr(bad[:12]), 'accepted')
    except Exception as ex:
        out('parse', repr(bad[:12]), 'EXC', type(ex).__name__)
out('done')
