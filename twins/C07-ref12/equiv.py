"""Equivalence probe for property C07 (public export never carries / exercises secret material).

Run as:  cd <tree> && /venv/bin/python equiv.py
Prints a digest of the observable outputs; must be identical on the unchanged and the refactored tree.
"""
import os
import sys
sys.path.insert(0, os.getcwd())

import copy
import glob
import hashlib
import logging
import warnings

import pgpy
from pgpy import PGPKey, PGPMessage, PGPUID
from pgpy.decorators import KeyAction
from pgpy.errors import PGPError

out = []


def rec(*a):
    out.append(' | '.join(str(x) for x in a))


class Collect(logging.Handler):
    def emit(self, record):
        rec('LOG', record.levelname, record.getMessage())


logging.getLogger().addHandler(Collect(level=logging.WARNING))


def tags(data):
    """independent, minimal OpenPGP packet walker -> list of packet tags"""
    data = bytes(data)
    res = []
    i = 0
    while i < len(data):
        h = data[i]
        i += 1
        if h & 0x40:
            tag = h & 0x3f
            o = data[i]
            if o < 192:
                ln = o
                i += 1
            elif o < 224:
                ln = ((o - 192) << 8) + data[i + 1] + 192
                i += 2
            elif o == 255:
                ln = int.from_bytes(data[i + 1:i + 5], 'big')
                i += 5
            else:
                raise ValueError('partial')
        else:
            tag = (h & 0x3c) >> 2
            lt = h & 3
            n = {0: 1, 1: 2, 2: 4}[lt]
            ln = int.from_bytes(data[i:i + n], 'big')
            i += n
        res.append(tag)
        i += ln
    return res


def attempt(label, fn):
    try:
        r = fn()
        rec(label, 'OK', type(r).__name__)
    except Exception as e:
        rec(label, 'EXC', type(e).__name__, str(e))


def probe(path, key, state):
    pub = key.pubkey
    rec(path, state, 'is_public', key.is_public, pub.is_public, 'same', pub is key.pubkey, 'back', pub.pubkey is pub)
    rec(path, state, 'fp', key.fingerprint, pub.fingerprint, list(pub.subkeys.keys()) == list(key.subkeys.keys()))
    rec(path, state, 'uids', [str(u.name) for u in pub.userids], len(pub.userattributes), len(list(pub.signers)))
    b = bytes(pub)
    rec(path, state, 'bytes', hashlib.sha256(b).hexdigest(), tags(b))
    rec(path, state, 'str', hashlib.sha256(str(pub).encode()).hexdigest(), pub.magic)
    rec(path, state, 'hdr', dict(pub.ascii_headers))
    # packet level
    pk = key._key.pubkey() if not key.is_public else key._key
    rec(path, state, 'pkt', type(pk).__name__, hashlib.sha256(bytes(pk)).hexdigest(), pk.header.length)
    for skid, sk in key.subkeys.items():
        spk = sk._key.pubkey() if not sk.is_public else sk._key
        rec(path, state, 'subpkt', skid, type(spk).__name__, hashlib.sha256(bytes(spk)).hexdigest())
        rec(path, state, 'subpub', skid, hashlib.sha256(bytes(sk.pubkey)).hexdigest(), sk.pubkey.parent is pub)
    # copies of the public twin
    cp = copy.copy(pub)
    rec(path, state, 'copy', hashlib.sha256(bytes(cp)).hexdigest(), sorted(vars(cp).keys()) == sorted(vars(pub).keys()))
    # private operations on public object must be refused
    attempt(path + ' sign', lambda: pub.sign('hello'))
    if pub.userids:
        attempt(path + ' certify', lambda: pub.certify(pub.userids[0]))
    attempt(path + ' revoke', lambda: pub.revoke(pub))
    attempt(path + ' bind', lambda: pub.bind(pub))
    msg = PGPMessage.new('secret')
    attempt(path + ' decrypt', lambda: pub.decrypt(msg))
    for sk in pub.subkeys.values():
        attempt(path + ' subsign', lambda: sk.sign('hello'))
    # re-parse the export
    rk, _ = PGPKey.from_blob(str(pub))
    rec(path, state, 'reparse', rk.is_public, rk.fingerprint, hashlib.sha256(bytes(rk)).hexdigest())


paths = sorted(glob.glob('tests/testdata/keys/*.asc')) + sorted(glob.glob('tests/testdata/blocks/*key.asc')) + \
    ['tests/testdata/sectest.asc', 'tests/testdata/pubtest.asc']

with warnings.catch_warnings(record=True) as wlist:
    warnings.simplefilter('always')
    for path in paths:
        try:
            key, _ = PGPKey.from_file(path)
        except Exception as e:
            rec(path, 'LOADEXC', type(e).__name__, str(e))
            continue
        try:
            probe(path, key, 'asloaded')
            if key.is_protected:
                # a fresh object, unlocked *before* the public twin is derived
                key2, _ = PGPKey.from_file(path)
                for pw in ('QwertyUiop', 'wrong'):
                    try:
                        with key2.unlock(pw):
                            rec(path, 'unlocked-with', pw, key2.is_unlocked)
                            probe(path, key2, 'unlocked')
                            key2._sibling = None
                            probe(path, key2, 'unlocked-rederived')
                    except Exception as e:
                        rec(path, 'UNLOCKEXC', pw, type(e).__name__, str(e))
        except Exception as e:
            rec(path, 'PROBEEXC', type(e).__name__, str(e))

    # KeyAction.check_attributes directly
    class Dummy(object):
        is_public = True
        is_unlocked = False
        n = 0

        @property
        def counted(self):
            Dummy.n += 1
            return Dummy.n

    ka = KeyAction(is_public=False, is_unlocked=True)
    attempt('ka1', lambda: ka.check_attributes(Dummy()))
    ka = KeyAction(is_unlocked=True, is_public=True)
    attempt('ka2', lambda: ka.check_attributes(Dummy()))
    ka = KeyAction(is_public=True)
    attempt('ka3', lambda: ka.check_attributes(Dummy()))
    ka = KeyAction()
    attempt('ka4', lambda: ka.check_attributes(Dummy()))
    ka = KeyAction(missing=1)
    attempt('ka5', lambda: ka.check_attributes(Dummy()))
    ka = KeyAction(counted=5)
    attempt('ka6', lambda: ka.check_attributes(Dummy()))
    rec('ka6-n', Dummy.n)
    ka = KeyAction(is_public=None)
    attempt('ka7', lambda: ka.check_attributes(Dummy()))
    rec('ka-attrs', sorted(k for k in vars(KeyAction(1, 2, a=3)) if k in ('flags', 'conditions')),
        KeyAction(1, 2, a=3).flags, KeyAction(1, 2, a=3).conditions)

    for w in wlist:
        rec('WARN', w.category.__name__, str(w.message))

for line in out:
    if os.environ.get('EQUIV_VERBOSE'):
        print(line)
print(len(out), hashlib.sha256('\n'.join(out).encode()).hexdigest())
