import copy
import glob
import hashlib
import os
import sys
import warnings
from datetime import datetime, timezone

sys.path.insert(0, os.getcwd())
import pgpy
from pgpy.types import SorteDeque

warnings.simplefilter('ignore')
out = []


def emit(*a):
    out.append(' '.join(str(x) for x in a))


def h(b):
    return hashlib.sha256(bytes(b)).hexdigest()[:16]


def shape(key):
    rows = [str(key.fingerprint), key.is_public, len(key._signatures),
            [(s.type.name, s.embedded, s.exportable, str(s.signer)) for s in key._signatures]]
    for u in key._uids:
        rows.append((h(u._uid.__bytearray__()), [(s.type.name, s.exportable, str(s.signer), h(s.__bytearray__())) for s in u._signatures]))
    for kid, sk in key._children.items():
        rows.append((kid, str(sk.fingerprint), [(s.type.name, s.embedded, h(s.__bytearray__())) for s in sk._signatures]))
    return rows


keys = {}
for fn in sorted(glob.glob('tests/testdata/keys/*.asc')) + ['tests/testdata/pubtest.asc', 'tests/testdata/sectest.asc']:
    try:
        key, others = pgpy.PGPKey.from_file(fn)
    except Exception as e:
        emit(fn, 'ERR', type(e).__name__, str(e))
        continue
    keys[fn] = key
    emit(fn, h(bytes(key)), h(str(key).encode()), sorted(str(k) for k in others), shape(key))
    k2, o2 = pgpy.PGPKey.from_blob(bytes(key))
    emit(' reimport', h(bytes(k2)), shape(k2) == shape(key), len(o2))
    k3, _ = pgpy.PGPKey.from_blob(str(key))
    emit(' reimport-armored', h(bytes(k3)), shape(k3) == shape(key))
    kc = copy.copy(key)
    emit(' copy', h(bytes(kc)), shape(kc) == shape(key))
    if not key.is_public:
        emit(' pubkey', h(bytes(key.pubkey)), shape(key.pubkey))

# concatenated blobs
fns = sorted(keys)
for a, b in zip(fns, fns[1:] + fns[:1]):
    blob = bytes(keys[a]) + bytes(keys[b])
    k, others = pgpy.PGPKey.from_blob(blob)
    emit('concat', a, b, h(bytes(k)), [(str(i), h(bytes(o))) for i, o in others.items()])

# non-exportable and explicitly exportable certifications (RSA PKCS#1 v1.5 is deterministic, fixed creation time)
sec = keys.get('tests/testdata/keys/rsa.1.sec.asc')
tgt, _ = pgpy.PGPKey.from_file('tests/testdata/keys/targette.pub.rsa.asc')
if sec is not None:
    when = datetime(2020, 1, 1, tzinfo=timezone.utc)
    try:
        with warnings.catch_warnings():
            warnings.simplefilter('ignore')
            uid = tgt.userids[0]
            s1 = sec.certify(uid, exportable=False, created=when)
            uid |= s1
            s2 = sec.certify(uid, exportable=True, created=when)
            uid |= s2
            s3 = sec.certify(tgt, exportable=False, created=when)
            tgt |= s3
        emit('local-sigs', h(bytes(tgt)), shape(tgt))
        t2, _ = pgpy.PGPKey.from_blob(bytes(tgt))
        emit('local-sigs reimport', h(bytes(t2)), shape(t2))
        emit('local-sigs copy', h(bytes(copy.copy(tgt))), shape(copy.copy(tgt)) == shape(tgt))
    except Exception as e:
        emit('local-sigs ERR', type(e).__name__, str(e))

# error paths of | and parse
for bad in (1, None, 'x', b'y'):
    for obj in (pgpy.PGPKey(), pgpy.PGPUID()):
        try:
            obj | bad
            emit('or ok')
        except Exception as e:
            emit('or', type(obj).__name__, type(e).__name__, str(e))
try:
    pgpy.PGPKey.from_blob(open('tests/testdata/blocks/message.signed.asc').read() if os.path.exists('tests/testdata/blocks/message.signed.asc') else '')
    emit('from_blob msg ok')
except Exception as e:
    emit('from_blob msg', type(e).__name__, str(e))

# SorteDeque ordering
seq = [5, 3, 9, 3, 1, 9, 0, 7, 7, 10, -1, 4, 4, 4, 11, -2]
for maxlen in (None, 5):
    d = SorteDeque([], maxlen) if maxlen else SorteDeque()
    for x in seq:
        r = d.insort(x)
        emit('sd', maxlen, x, r, list(d))
    d.resort(4)
    d.resort(100)
    d.check()
    emit('sd-final', maxlen, list(d))


class T(object):
    def __init__(self, k, n):
        self.k, self.n = k, n

    def __lt__(self, o):
        return self.k < o.k

    def __le__(self, o):
        return self.k <= o.k

    def __repr__(self):
        return '%d%s' % (self.k, self.n)


d = SorteDeque()
for i, k in enumerate([2, 2, 1, 2, 3, 1, 3, 0, 3]):
    d.insort(T(k, 'abcdefghi'[i]))
emit('sd-ties', list(d))

text = '\n'.join(out)
print(hashlib.sha256(text.encode()).hexdigest())
if '-v' in sys.argv:
    print(text)
