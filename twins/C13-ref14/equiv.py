"""Equivalence probe for the C13 (fresh randomness) code paths.

Run as:  cd <tree> && /venv/bin/python equiv.py
Prints one digest line; the digest must be identical on the unchanged and on the
refactored tree.  os.urandom is interposed with a deterministic counter stream so
that everything which is a pure function of the random source (salts, IVs, random
prefixes, session keys, symmetric ciphertexts, protected key blobs) can be
compared byte for byte; the sequence of requested sizes is part of the digest too.
Values that come from OpenSSL's own generator (ECDH ephemeral keys, RSA padding)
are only compared structurally (lengths, successful round trip).
"""
import hashlib
import os
import sys
import warnings

sys.path.insert(0, os.getcwd())

import pgpy  # noqa: E402
from pgpy.constants import SymmetricKeyAlgorithm, HashAlgorithm, EllipticCurveOID  # noqa: E402
from pgpy.packet.packets import SKESessionKeyV4, IntegrityProtectedSKEDataV1  # noqa: E402

warnings.simplefilter('ignore')

out = []
calls = []
_real_urandom = os.urandom
_ctr = [0]


def fake_urandom(n):
    calls.append(n)
    _ctr[0] += 1
    seed = b'equiv-%d' % _ctr[0]
    buf = b''
    i = 0
    while len(buf) < n:
        buf += hashlib.sha256(seed + bytes([i])).digest()
        i += 1
    return buf[:n]


def rec(label, value):
    if isinstance(value, (bytes, bytearray)):
        value = bytes(value).hex()
    out.append('%s=%s' % (label, value))


os.urandom = fake_urandom
try:
    # --- SymmetricKeyAlgorithm: sizes, generators, error cases
    for alg in SymmetricKeyAlgorithm:
        for attr in ('key_size', 'block_size'):
            try:
                rec('%s.%s' % (alg.name, attr), getattr(alg, attr))
            except Exception as e:
                rec('%s.%s!' % (alg.name, attr), '%s:%s' % (type(e).__name__, e))
        for fn in ('gen_key', 'gen_iv'):
            try:
                v = getattr(alg, fn)()
                rec('%s.%s' % (alg.name, fn), '%s:%s' % (type(v).__name__, v.hex()))
            except Exception as e:
                rec('%s.%s!' % (alg.name, fn), '%s:%s' % (type(e).__name__, e))
    rec('calls.constants', list(calls))
    del calls[:]

    # --- packet level: SKESK v4 and SEIPD v1
    for alg in (SymmetricKeyAlgorithm.AES256, SymmetricKeyAlgorithm.AES128, SymmetricKeyAlgorithm.CAST5,
                SymmetricKeyAlgorithm.TripleDES, SymmetricKeyAlgorithm.Camellia192):
        for rnd in range(2):
            skesk = SKESessionKeyV4()
            skesk.s2k.usage = 255
            skesk.s2k.specifier = 3
            skesk.s2k.halg = HashAlgorithm.SHA256
            skesk.s2k.encalg = alg
            skesk.s2k.count = skesk.s2k.halg.tuned_count
            sk = bytes(range(alg.key_size // 8))
            r = skesk.encrypt_sk('correct horse', sk)
            rec('skesk.%s.%d.ret' % (alg.name, rnd), repr(r))
            rec('skesk.%s.%d.salt' % (alg.name, rnd), '%s:%s' % (type(skesk.s2k.salt).__name__, bytes(skesk.s2k.salt).hex()))
            rec('skesk.%s.%d.bytes' % (alg.name, rnd), skesk.__bytes__())
            rec('skesk.%s.%d.dec' % (alg.name, rnd), repr(skesk.decrypt_sk('correct horse')))

            for data in (b'', b'x', b'hello world' * 50, bytearray(b'mutable input')):
                sed = IntegrityProtectedSKEDataV1()
                r = sed.encrypt(sk, alg, data)
                rec('seipd.%s.%d.%d.ret' % (alg.name, rnd, len(data)), repr(r))
                rec('seipd.%s.%d.%d.ct' % (alg.name, rnd, len(data)), '%s:%s' % (type(sed.ct).__name__, bytes(sed.ct).hex()))
                rec('seipd.%s.%d.%d.bytes' % (alg.name, rnd, len(data)), sed.__bytes__())
                rec('seipd.%s.%d.%d.pt' % (alg.name, rnd, len(data)), bytes(sed.decrypt(sk, alg)))
    rec('calls.packets', list(calls))
    del calls[:]

    # error path: unsupported cipher for the prefix
    try:
        IntegrityProtectedSKEDataV1().encrypt(b'k' * 16, SymmetricKeyAlgorithm.Plaintext, b'data')
    except Exception as e:
        rec('seipd.plaintext!', '%s:%s' % (type(e).__name__, e))
    rec('calls.err', list(calls))
    del calls[:]

    # --- message level, passphrase
    text = open('tests/testdata/files/literal.1.txt').read()
    for cipher in (None, SymmetricKeyAlgorithm.AES128, SymmetricKeyAlgorithm.Camellia256):
        for rnd in range(2):
            msg = pgpy.PGPMessage.new(text, compression=pgpy.constants.CompressionAlgorithm.Uncompressed)
            kw = {} if cipher is None else {'cipher': cipher}
            enc = msg.encrypt('pass phrase', **kw)
            rec('msg.%s.%d.calls' % (cipher, rnd), list(calls))
            del calls[:]
            rec('msg.%s.%d.len' % (cipher, rnd), len(bytes(enc)))
            rec('msg.%s.%d.skesk' % (cipher, rnd), enc._sessionkeys[0].__bytes__())
            dec = enc.decrypt('pass phrase')
            rec('msg.%s.%d.dec' % (cipher, rnd), hashlib.sha256(dec.message.encode()).hexdigest())
    # supplied session key is used as is
    msg = pgpy.PGPMessage.new(text, compression=pgpy.constants.CompressionAlgorithm.Uncompressed)
    enc = msg.encrypt('pp', sessionkey=b'\x11' * 32)
    rec('msg.sk.calls', list(calls))
    del calls[:]
    rec('msg.sk.skesk', enc._sessionkeys[0].__bytes__())

    # --- message level, public keys (RSA, ECDH P-256, ECDH Curve25519)
    for name in ('rsa.1', 'ecc.1', 'ecc.2'):
        sec, _ = pgpy.PGPKey.from_file('tests/testdata/keys/%s.sec.asc' % name)
        pub, _ = pgpy.PGPKey.from_file('tests/testdata/keys/%s.pub.asc' % name)
        for rnd in range(2):
            msg = pgpy.PGPMessage.new(text, compression=pgpy.constants.CompressionAlgorithm.Uncompressed)
            enc = pub.encrypt(msg)
            rec('pk.%s.%d.calls' % (name, rnd), list(calls))
            del calls[:]
            rec('pk.%s.%d.len' % (name, rnd), len(bytes(enc)))
            pkesk = enc._sessionkeys[0]
            rec('pk.%s.%d.ctlen' % (name, rnd), len(pkesk.ct.__bytearray__()))
            if hasattr(pkesk.ct, 'p'):
                rec('pk.%s.%d.pfmt' % (name, rnd), '%s:%d' % (pkesk.ct.p.format, len(pkesk.ct.p.to_mpibytes())))
            dec = sec.decrypt(enc)
            rec('pk.%s.%d.dec' % (name, rnd), hashlib.sha256(dec.message.encode()).hexdigest())
        enc = pub.encrypt(msg, sessionkey=b'\x22' * 32, cipher=SymmetricKeyAlgorithm.AES256)
        rec('pk.%s.sk.calls' % name, list(calls))
        del calls[:]
        rec('pk.%s.sk.dec' % name, sec.decrypt(enc).message == text)

    # --- key protection
    for name in ('rsa.1', 'ecc.1', 'ecc.2', 'dsa.1'):
        for rnd in range(2):
            sec, _ = pgpy.PGPKey.from_file('tests/testdata/keys/%s.sec.asc' % name)
            sec.protect('hunter2', SymmetricKeyAlgorithm.AES256, HashAlgorithm.SHA256)
            rec('prot.%s.%d.calls' % (name, rnd), list(calls))
            del calls[:]
            rec('prot.%s.%d.bytes' % (name, rnd), hashlib.sha256(bytes(sec)).hexdigest())
            s2k = sec._key.keymaterial.s2k
            rec('prot.%s.%d.s2k' % (name, rnd), '%s:%s:%s:%s' % (type(s2k.salt).__name__, bytes(s2k.salt).hex(),
                                                               type(s2k.iv).__name__, bytes(s2k.iv).hex()))
            rec('prot.%s.%d.state' % (name, rnd), '%s/%s' % (sec.is_protected, sec.is_unlocked))
            with sec.unlock('hunter2'):
                rec('prot.%s.%d.unlocked' % (name, rnd), sec.is_unlocked)
    # --- String2Key: derive_key over all specifiers / passphrase kinds, parse round trip, salt handling
    from pgpy.packet.fields import String2Key
    for spec in (0, 1, 3):
        for alg in (SymmetricKeyAlgorithm.AES256, SymmetricKeyAlgorithm.CAST5, SymmetricKeyAlgorithm.TripleDES):
            for halg in (HashAlgorithm.SHA1, HashAlgorithm.SHA256, HashAlgorithm.MD5):
                for cnt in (0, 96, 255):
                    for pw in ('', b'', 'p', b'bytes pass', u'\u00fcml\u00e4ut' * 40):
                        s2k = String2Key()
                        s2k.usage = 254
                        s2k.specifier = spec
                        s2k.encalg = alg
                        s2k.halg = halg
                        s2k.count = cnt
                        s2k.salt = bytearray(b'\x01\x02\x03\x04\x05\x06\x07\x08')
                        try:
                            rec('s2k.%d.%s.%s.%d.%r' % (spec, alg.name, halg.name, cnt, pw), s2k.derive_key(pw))
                        except Exception as e:
                            rec('s2k.%d.%s.%s.%d.%r!' % (spec, alg.name, halg.name, cnt, pw), '%s:%s' % (type(e).__name__, e))
        s2k.iv = b'\xaa' * (alg.block_size // 8)
        raw = s2k.__bytearray__() + b'trailing'
        p2 = String2Key()
        p2.parse(raw)
        rec('s2k.parse.%d' % spec, '%s|%s|%s|%s' % (bytes(p2.salt).hex(), type(p2.salt).__name__, bytes(raw), bytes(p2.__bytearray__()).hex()))
        rec('s2k.copy.%d' % spec, bytes(__import__('copy').copy(p2).__bytearray__()))
    rec('calls.s2k', list(calls))
    del calls[:]
finally:
    os.urandom = _real_urandom

print(hashlib.sha256('\n'.join(out).encode()).hexdigest(), len(out))
