"""Equivalence probe for property C18 (fingerprints / key ids / creation-time codec).

Run as:  cd <tree> && /venv/bin/python equiv.py
Prints one digest; it must be identical on the unchanged and on the refactored tree.
"""
import os
import sys
sys.path.insert(0, os.getcwd())

import copy
import glob
import hashlib
import warnings
from datetime import datetime, timezone, timedelta

warnings.simplefilter('ignore')

import pgpy
from pgpy.types import Fingerprint
from pgpy.packet.packets import PubKeyV4, PrivKeyV4, PubSubKeyV4
from pgpy.packet import fields

out = []


def rec(*a):
    out.append(repr(a))


def attempt(label, fn):
    try:
        rec(label, fn())
    except Exception as e:  # record type and message
        rec(label, 'EXC', type(e).__name__, str(e))


# ---- 1. fixture keys: fingerprints, key ids, packet bytes, publen
for path in sorted(glob.glob('tests/testdata/keys/*.asc')) + ['tests/testdata/pubtest.asc', 'tests/testdata/sectest.asc']:
    key, _ = pgpy.PGPKey.from_file(path)
    allkeys = [key] + list(key.subkeys.values())
    for k in allkeys:
        pkt = k._key
        fp = k.fingerprint
        rec(os.path.basename(path), type(pkt).__name__, str(fp), fp.keyid, fp.shortid, repr(fp), type(fp).__name__)
        rec('bytes', hashlib.sha256(bytes(pkt.__bytearray__())).hexdigest())
        rec('publen', pkt.keymaterial.publen(), len(pkt.keymaterial), type(pkt.keymaterial).__name__)
        rec('created', pkt.created.isoformat())
        # copy and public twin
        c = copy.copy(pkt)
        rec('copy', str(c.fingerprint), hashlib.sha256(bytes(c.__bytearray__())).hexdigest())
        if not k.is_public:
            pub = pkt.pubkey()
            rec('pub', str(pub.fingerprint), hashlib.sha256(bytes(pub.__bytearray__())).hexdigest(), pub.keymaterial.publen())
        # re-parse round trip
        if k is key:
            k2 = pgpy.PGPKey()
            k2.parse(bytes(k))
            rec('rt', str(k2.fingerprint), [str(s.fingerprint) for s in k2.subkeys.values()])
            k3, _ = pgpy.PGPKey.from_blob(str(k))
            rec('rt-asc', str(k3.fingerprint), [str(s.fingerprint) for s in k3.subkeys.values()])
    # vary the creation time of the primary packet copy
    base = copy.copy(key._key)
    for ts in (0, 1, 255, 256, 86399, 2**31 - 1, 2**31, 2**32 - 1, 2**32, 2**33 + 5):
        def setget(ts=ts):
            base.created = ts
            return (base.created.isoformat(), str(base.fingerprint), bytes(base.__bytearray__())[:12].hex())
        attempt(('ts', ts), setget)
    for raw in (b'\x00\x00\x00\x00', b'\x12\x34\x56\x78', bytearray(b'\xff\xff\xff\xff'), b'\x01', b'', b'\x01\x00\x00\x00\x00'):
        def setget(raw=raw):
            base.created = raw
            return (base.created.isoformat(), str(base.fingerprint), bytes(base.__bytearray__())[:12].hex())
        attempt(('raw', bytes(raw)), setget)
    for dt in (datetime(2001, 2, 3, 4, 5, 6), datetime(2001, 2, 3, 4, 5, 6, tzinfo=timezone.utc),
               datetime(2020, 7, 1, 1, 30, tzinfo=timezone(timedelta(hours=5, minutes=30))),
               datetime(1960, 1, 1, tzinfo=timezone.utc)):
        def setget(dt=dt):
            base.created = dt
            return (base.created.isoformat(), str(base.fingerprint), bytes(base.__bytearray__())[:12].hex())
        attempt(('dt', dt.isoformat()), setget)
    for bad in (-1, 2**40 * 10**6, 1.5, None, 'abc'):
        def setget(bad=bad):
            base.created = bad
            return base.created.isoformat()
        attempt(('badts', repr(bad)), setget)

# ---- 2. fresh packets
attempt('fresh-fp', lambda: PubKeyV4().fingerprint)
attempt('fresh-bytes', lambda: PubKeyV4().__bytearray__())
p = PubKeyV4()
p.pkalg = 0x15
p.keymaterial.data = bytearray(b'\x01\x02\x03')
p.created = 1000
attempt('opaque-fp', lambda: (str(p.fingerprint), bytes(p.__bytearray__()).hex()))
p = PubSubKeyV4()
p.pkalg = 1
p.created = 5
attempt('emptyrsa-fp', lambda: (str(p.fingerprint), bytes(p.__bytearray__()).hex(), p.keymaterial.publen()))
p.keymaterial.n = fields.MPI(2**70000 + 1)
p.keymaterial.e = fields.MPI(65537)
attempt('hugersa-fp', lambda: (str(p.fingerprint), hashlib.sha256(bytes(p.__bytearray__())).hexdigest(), p.keymaterial.publen()))
p.keymaterial.n = fields.MPI(1)
p.keymaterial.e = fields.MPI(0)
attempt('tinyrsa-fp', lambda: (str(p.fingerprint), bytes(p.__bytearray__()).hex(), p.keymaterial.publen()))

# ---- 3. Fingerprint type
fps = ['ABCDEF0123456789ABCDEF0123456789ABCDEF01', 'abcd ef01 2345 6789 abcd  ef01 2345 6789 abcd ef01',
       'ABCD', 'abcdef0123456789', '0' * 40, 'F' * 39, 'F' * 41, 'ABCDEF0123456789ABCDEF0123456789ABCDEF01\n', 'ABC\n']
objs = []
for s in fps:
    def mk(s=s):
        f = Fingerprint(s)
        objs.append(f)
        return (str(f), f.keyid, f.shortid, type(f.keyid).__name__, hash(f) == hash(str(f)))
    attempt(('new', s), mk)
for bad in ('', ' ', 'xyz', 'ABCG', '0x12', 'AB CD\tEF', None, 12, b'ABCD', 'ABCD\n\n'):
    attempt(('newbad', repr(bad)), lambda bad=bad: Fingerprint(bad))
others = ['ABCDEF0123456789ABCDEF0123456789ABCDEF01', 'ABCD EF01 2345 6789 ABCD  EF01 2345 6789 ABCD EF01',
          'ABCDEF0123456789ABCDEF01', '456789ABCDEF01', '6789ABCDEF01', '89AB CDEF 0123 4567', 'CDEF0123', 'CDEF 0123',
          'abcdef0123456789abcdef0123456789abcdef01', b'ABCDEF0123456789ABCDEF0123456789ABCDEF01', b'CDEF0123',
          bytearray(b'0123456789ABCDEF01'), bytearray(b'89ABCDEF 01234567'), b'\xff\xfe', '', b'', 'ABCD', b'ABCD', None, 0, 1.0,
          ('ABCD',), ['ABCD'], object, 'ABC\n', 'ABCDEF01', '00000000', '0' * 16, '0' * 40, '0' * 39]


class S(str):
    pass


others.append(S('CDEF0123'))
others.append(S('ABCD EF01'))
for f in list(objs):
    for o in others + objs:
        attempt(('eq', str(f), type(o).__name__, str(o) if isinstance(o, str) else repr(o)), lambda: (f == o, f != o, type(f == o).__name__, o == f, o != f))
    attempt(('pretty', str(f)), f.__pretty__)
    attempt(('repr', str(f)), lambda: repr(f))
    attempt(('bytes', str(f)), lambda: bytes(f))
    attempt(('idem', str(f)), lambda: Fingerprint(f) is f)
    attempt(('dict', str(f)), lambda: {f: 1}.get(str(f)))

print(hashlib.sha256('\n'.join(out).encode('utf-8', 'backslashreplace')).hexdigest(), len(out))
