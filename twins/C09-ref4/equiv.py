"""Digest of the observable outputs of the primitive wire codecs (property C09).

Run as:  cd <tree> && /venv/bin/python equiv.py
Prints the same digest on the unchanged and on the refactored tree.
"""
import os
import sys
import hashlib
import warnings

sys.path.insert(0, os.getcwd())

import pgpy  # noqa: E402
from datetime import datetime, timezone  # noqa: E402
from pgpy.types import Header as BaseHeader  # noqa: E402
from pgpy.packet.types import Header as PHeader, MPI  # noqa: E402
from pgpy.packet.subpackets.types import Header as SHeader  # noqa: E402
from pgpy.packet.subpackets.signature import CreationTime  # noqa: E402
from pgpy.packet.fields import String2Key  # noqa: E402
from pgpy.packet.packets import PubKeyV4  # noqa: E402

warnings.simplefilter('ignore')

h = hashlib.sha256()


def rec(*items):
    for it in items:
        if isinstance(it, (bytes, bytearray)):
            h.update(b'B' + bytes(it).hex().encode())
        else:
            h.update(b'R' + repr(it).encode())
        h.update(b'|')
    h.update(b'\n')


def attempt(fn, *a, **kw):
    try:
        r = fn(*a, **kw)
        return ('ok', type(r).__name__, bytes(r) if isinstance(r, (bytes, bytearray)) else r)
    except Exception as e:  # digest the exception type and message
        return ('exc', type(e).__name__, str(e))


LENGTHS = list(range(0, 9000)) + list(range(65000, 70001)) + [
    (1 << 16) - 1, 1 << 16, (1 << 16) + 1, (1 << 24) - 1, 1 << 24, (1 << 31), (1 << 32) - 2, (1 << 32) - 1]

# 1. static encode_length: new format, old format with every llen
for n in LENGTHS:
    rec('enc-new', n, attempt(BaseHeader.encode_length, n))
    rec('enc-new-kw', n, attempt(BaseHeader.encode_length, n, nhf=1, llen=0))
    for ll in (0, 1, 2, 4):
        rec('enc-old', n, ll, attempt(BaseHeader.encode_length, n, False, ll))
        rec('enc-old0', n, ll, attempt(BaseHeader.encode_length, n, 0, ll))
rec('enc-neg', attempt(BaseHeader.encode_length, -1))
rec('enc-neg-old', attempt(BaseHeader.encode_length, -1, False, 2))
rec('enc-big', attempt(BaseHeader.encode_length, 1 << 32))
rec('enc-big-old', attempt(BaseHeader.encode_length, 1 << 32, False, 4))
rec('enc-none', attempt(BaseHeader.encode_length, None))
rec('enc-float', attempt(BaseHeader.encode_length, 200.0))
rec('enc-float-old', attempt(BaseHeader.encode_length, 200.0, False, 1))


# 2. packet headers: build, serialise, re-parse (new format and old format)
def ph_roundtrip(tagoctet, n, llen_code=None):
    hd = PHeader()
    raw = bytearray([tagoctet])
    if tagoctet & 0x40:
        raw += BaseHeader.encode_length(n)
    else:
        raw += BaseHeader.encode_length(n, False, {0: 1, 1: 2, 2: 4, 3: 0}[llen_code])
    raw += b'\xAA\xBB\xCC'
    try:
        hd.parse(raw)
    except Exception as e:
        return ('exc', type(e).__name__, str(e))
    out = (hd.length, hd.llen, len(hd), int(hd.tag), bytes(hd.__bytearray__()), bytes(hd), bytes(raw))
    return out


for n in LENGTHS:
    rec('ph-new', n, ph_roundtrip(0xC0 | 2, n))
    for code in (0, 1, 2):
        if n < (1 << (8 * (1, 2, 4)[code])):
            rec('ph-old', n, code, ph_roundtrip(0x80 | (6 << 2) | code, n, code))
rec('ph-old-indet', ph_roundtrip(0x80 | (11 << 2) | 3, 0, 3))

# 2b. length growing / shrinking after parse (old and new format)
for fmt_octet, code in ((0x80 | (2 << 2) | 0, 0), (0x80 | (2 << 2) | 1, 1), (0x80 | (2 << 2) | 2, 2), (0x80 | (2 << 2) | 3, 3), (0xC2, None)):
    hd = PHeader()
    raw = bytearray([fmt_octet])
    if code is None:
        raw += b'\x05'
    elif code != 3:
        raw += BaseHeader.encode_length(5, False, (1, 2, 4)[code])
    raw += b'12345'
    hd.parse(raw)
    for n in (0, 1, 191, 192, 255, 256, 8383, 8384, 65535, 65536, (1 << 24), (1 << 32) - 1):
        hd.length = n
        rec('ph-grow', fmt_octet, n, hd.llen, len(hd), attempt(hd.__bytearray__))

# 3. partial lengths: every power-of-two chunking of a body
body = bytes((i * 7 + 3) & 0xFF for i in range(1 << 13))
for first_pow in range(0, 13):
    for second_pow in (None, 0, 3, 9):
        for tail in (0, 1, 191, 192, 500, 8383, 8384):
            chunks = [first_pow] + ([second_pow] if second_pow is not None else [])
            raw = bytearray([0xC0 | 11])
            pos = 0
            for p in chunks:
                raw.append(224 + p)
                raw += body[pos:pos + (1 << p)]
                pos += 1 << p
            raw += BaseHeader.encode_length(tail)
            raw += body[pos:pos + tail]
            raw += b'\xEE'
            hd = PHeader()
            r = attempt(hd.parse, raw)
            rec('partial', first_pow, second_pow, tail, r[:2], getattr(hd, '_len', None), hd.llen, hashlib.sha1(bytes(raw)).hexdigest())

# malformed / truncated length fields
for raw in (b'\xC2', b'\xC2\xC0', b'\xC2\xFF\x00\x00', b'\xC2\xE1\x00\x00', b'\xC2\xE0\x00', b'\x88', b'\x89\x01', b'\x8A\x00\x00\x01'):
    hd = PHeader()
    buf = bytearray(raw)
    rec('malformed', raw, attempt(hd.parse, buf), getattr(hd, '_len', None), bytes(buf))

# 4. subpacket headers
for n in LENGTHS:
    for crit in (False, True):
        for tid in (0x02, 0x10, 0x7F):
            sh = SHeader()
            sh.length = n
            sh.typeid = tid
            sh.critical = crit
            out = sh.__bytearray__()
            sh2 = SHeader()
            buf = bytearray(out) + b'\x99'
            sh2.parse(buf)
            rec('sub', n, crit, tid, bytes(out), type(out).__name__, len(sh), sh.llen,
                sh2.length, sh2.typeid, sh2.critical, len(sh2), bytes(buf))
            if n > 300 and tid != 0x02:
                break
sh = SHeader()
rec('sub-default', attempt(sh.__bytearray__))
sh = SHeader()
rec('sub-empty', attempt(sh.parse, bytearray()))

# 5. MPIs
vals = [0, 1, 2, 3, 127, 128, 255, 256, 65535, 65536]
for bits in list(range(0, 600)) + [1023, 1024, 1025, 2047, 2048, 2049, 4095, 4096, 4097, 4200]:
    if bits:
        vals += [1 << (bits - 1), (1 << bits) - 1, (1 << (bits - 1)) | 1]
for v in vals:
    m = MPI(v)
    wire = m.to_mpibytes()
    buf = bytearray(wire) + b'\x01\x02'
    m2 = MPI(buf)
    rec('mpi', int(m), m.byte_length(), len(m), type(wire).__name__, hashlib.sha1(bytes(wire)).hexdigest(), int(m2), bytes(buf), type(m2).__name__)
# leading zero bits / over-declared and under-declared bit counts, truncated inputs, immutable bytes input
for raw in (b'\x00\x09\x00\xFF', b'\x00\x10\x00\x01zz', b'\x00\x01\xFF', b'\x00\x00', b'\x00\x08', b'\x00', b'', b'\x00\x11\x01\x02', b'\xFF\xFF' + b'\x01' * 10):
    buf = bytearray(raw)
    r = attempt(MPI, buf)
    rec('mpi-raw', raw, r, bytes(buf))
    r = attempt(MPI, bytes(raw))
    rec('mpi-raw-bytes', raw, r)
rec('mpi-neg', attempt(MPI(-5).to_mpibytes), attempt(MPI(-5).byte_length), attempt(len, MPI(-5)))
rec('mpi-str', attempt(MPI, '12'), attempt(MPI, 3.7), attempt(MPI, None))

# 6. S2K coded count
for c in range(256):
    s = String2Key()
    s.count = c
    s.usage = 254
    s.encalg = 9
    s.specifier = 3
    s.halg = 8
    s.salt = bytearray(b'saltsalt')
    s.iv = bytearray(b'\x00' * 16)
    wire = s.__bytearray__()
    s2 = String2Key()
    s2.parse(bytearray(wire))
    rec('s2k', c, s.count, s._count, bytes(wire), s2.count, s2._count, bytes(s2.__bytearray__()))
for bad in (-1, 256, 1000, -256):
    s = String2Key()
    rec('s2k-bad', bad, attempt(setattr, s, 'count', bad), s._count, s.count)
s = String2Key()
rec('s2k-bool', attempt(setattr, s, 'count', True), s._count, s.count)
rec('s2k-float', attempt(setattr, s, 'count', 3.0), s._count, s.count)

# 7. creation times
STAMPS = [0, 1, 59, 60, 86399, 86400, 951782400, 951868800, (1 << 31) - 1, 1 << 31, (1 << 31) + 1, (1 << 32) - 2, (1 << 32) - 1,
          1234567890, 1700000000]
for t in STAMPS:
    four = t.to_bytes(4, 'big')
    ct = CreationTime()
    ct.parse(bytearray(b'\x05\x02' + four + b'\x77'))
    ct.update_hlen()
    rec('ct', t, ct.created.isoformat(), bytes(ct.__bytearray__()), len(ct), ct.header.length)
    ct2 = CreationTime()
    ct2.created = t
    rec('ct-int', t, ct2.created.isoformat(), bytes(ct2.__bytearray__()))
    ct3 = CreationTime()
    ct3.created = datetime.fromtimestamp(t, timezone.utc)
    rec('ct-dt', t, ct3.created.isoformat(), bytes(ct3.__bytearray__()))
    ct4 = CreationTime()
    ct4.created = bytearray(four)
    rec('ct-ba', t, ct4.created.isoformat(), bytes(ct4.__bytearray__()))

    pk = PubKeyV4()
    pk.created = t
    rec('pk-int', t, pk.created.isoformat())
    pk.created = four
    rec('pk-bytes', t, pk.created.isoformat())
    pk.created = bytearray(four)
    rec('pk-ba', t, pk.created.isoformat())
ct = CreationTime()
rec('ct-neg', attempt(setattr, ct, 'created', -1)[:2])
rec('ct-big', attempt(setattr, ct, 'created', 1 << 62)[:2])
ct.created = datetime(2020, 1, 2, 3, 4, 5)  # naive
rec('ct-naive', ct.created.isoformat(), bytes(ct.__bytearray__()))

# 8. end to end: fixture keys and a signature parse and re-serialise byte-exactly
for name in ('rsa.1.pub.asc', 'rsa.1.sec.asc', 'dsa.1.pub.asc', 'dsa.1.sec.asc', 'ecc.1.pub.asc', 'ecc.1.sec.asc',
             'rsa.1.enc.asc', 'mixed.1.pub.asc', 'targette.pub.rsa.asc', 'targette.sec.rsa.asc'):
    path = os.path.join('tests', 'testdata', 'keys', name)
    k, _ = pgpy.PGPKey.from_file(path)
    rec('key', name, str(k.fingerprint), k.created.isoformat(), hashlib.sha256(bytes(k)).hexdigest(),
        hashlib.sha256(bytes(k.pubkey) if not k.is_public else b'').hexdigest())
    for uid in k.userids:
        for sig in uid._signatures:
            rec('sig', sig.created.isoformat(), hashlib.sha256(bytes(sig)).hexdigest())
    for skid, sk in k.subkeys.items():
        rec('subkey', skid, sk.created.isoformat(), hashlib.sha256(bytes(sk)).hexdigest())

for root, dirs, files in sorted(os.walk(os.path.join('tests', 'testdata', 'packets'))):
    dirs.sort()
    for f in sorted(files):
        with open(os.path.join(root, f), 'rb') as fh:
            data = bytearray(fh.read())
        try:
            from pgpy.packet import Packet
            p = Packet(data)
            rec('pkt', f, type(p).__name__, p.header.length, len(p.header), hashlib.sha256(bytes(p)).hexdigest())
        except Exception as e:
            rec('pkt-exc', f, type(e).__name__, str(e))

for f in sorted(os.listdir(os.path.join('tests', 'testdata', 'messages'))):
    path = os.path.join('tests', 'testdata', 'messages', f)
    if not os.path.isfile(path):
        continue
    try:
        m = pgpy.PGPMessage.from_file(path)
        rec('msg', f, hashlib.sha256(bytes(m)).hexdigest())
    except Exception as e:
        rec('msg-exc', f, type(e).__name__, str(e))

print(h.hexdigest())
