#!/usr/bin/env python
"""Equivalence probe for property C02 (signature creation / hash input).

Run as:  cd <tree> && /venv/bin/python equiv.py
Prints one digest; it must be the same on the unchanged and the refactored tree.
Only deterministic observables are digested: the RFC 4880 hash input, the
signature packet with the algorithm-specific MPIs stripped for randomised
algorithms (DSA / ECDSA), the whole packet for deterministic ones (RSA PKCS#1
v1.5, EdDSA), verification verdicts, and exception type + message for bad input.
"""
import hashlib
import os
import sys
import warnings
from datetime import datetime, timedelta, timezone

sys.path.insert(0, os.getcwd())
warnings.simplefilter('ignore')

import pgpy  # noqa: E402
from pgpy.constants import (CompressionAlgorithm, HashAlgorithm, KeyFlags, KeyServerPreferences,  # noqa: E402
                            PubKeyAlgorithm, RevocationReason, SignatureType, SymmetricKeyAlgorithm)
from pgpy.packet.fields import DSASignature, ECDSASignature, EdDSASignature, RSASignature  # noqa: E402
from pgpy.pgp import PGPSignature  # noqa: E402

T0 = datetime(2020, 1, 2, 3, 4, 5, tzinfo=timezone.utc)
DETERMINISTIC = {PubKeyAlgorithm.RSAEncryptOrSign, PubKeyAlgorithm.EdDSA}

out = []


def emit(*a):
    out.append(' '.join(str(x) for x in a))


def load(name):
    k, _ = pgpy.PGPKey.from_file(os.path.join('tests', 'testdata', 'keys', name))
    return k


def describe(label, sig, subject, verifier, vsubject=None):
    hd = sig.hashdata(subject)
    emit(label, 'type', int(sig.type), 'halg', int(sig.hash_algorithm), 'hashdata', hashlib.sha256(hd).hexdigest(), len(hd))
    emit(label, 'hash2', bytes(sig.hash2).hex() == hashlib.new(sig.hash_algorithm.name.lower(), hd).hexdigest()[:4])
    emit(label, 'subpackets', [type(sp).__name__ for sp in sig._signature.subpackets._hashed_sp.values()],
         [type(sp).__name__ for sp in sig._signature.subpackets._unhashed_sp.values()])
    pkt = sig._signature
    hashed = bytes(pkt.subpackets.__hashbytearray__())
    emit(label, 'hashedsp', hashed.hex())
    if sig.key_algorithm in DETERMINISTIC and 'EmbeddedSignature' not in sig._signature.subpackets:
        emit(label, 'bytes', hashlib.sha256(bytes(sig)).hexdigest())
        emit(label, 'canonical', hashlib.sha256(bytes(pkt.canonical_bytes())).hexdigest())
        emit(label, 'armored', hashlib.sha256(str(sig).encode()).hexdigest())
    else:
        full = bytes(pkt.__bytearray__())
        mpis = bytes(pkt.signature.__bytearray__())
        hl = len(pkt.header.__bytearray__())
        emit(label, 'prefix', full[hl:len(full) - len(mpis) - 2].hex() if not len(pkt.subpackets._unhashed_sp) > 1 else 'n/a')
    # round trip
    sig2 = PGPSignature.from_blob(bytes(sig))
    emit(label, 'reparse', bytes(sig2) == bytes(sig), sig2.hashdata(subject) == hd)
    try:
        sv = verifier.verify(subject if vsubject is None else vsubject, sig2)
        emit(label, 'verify', bool(sv), [int(s.issues) for s in sv.good_signatures], [int(s.issues) for s in sv.bad_signatures])
    except Exception as e:  # noqa
        emit(label, 'verify-exc', type(e).__name__, e)


def attempt(label, fn):
    try:
        r = fn()
        emit(label, 'ok', r)
    except BaseException as e:  # noqa
        emit(label, 'exc', type(e).__name__, str(e))


def main():
    keys = {n: load(n + '.sec.asc') for n in ('rsa.1', 'dsa.1', 'ecc.1', 'ecc.2')}
    other = load('targette.sec.rsa.asc')

    texts = [b'', b'hello world', b'line1\nline2\r\nline3\rline4\n', bytes(range(256)) * 3,
             'unicode ☃ text\n', 'latin \xe9\r\n\r\n']

    for kn, key in sorted(keys.items()):
        pub = key.pubkey
        uid = key.userids[0]
        hashes = [HashAlgorithm.SHA256, HashAlgorithm.SHA512, HashAlgorithm.SHA1, HashAlgorithm.SHA384, HashAlgorithm.SHA224]
        if key.key_algorithm == PubKeyAlgorithm.DSA:
            hashes = [HashAlgorithm.SHA256, HashAlgorithm.SHA512]

        # document signatures
        for i, t in enumerate(texts):
            h = hashes[i % len(hashes)]
            sig = key.sign(t, created=T0, hash=h)
            describe('%s/bin%d' % (kn, i), sig, t, pub)
            try:
                msg = pgpy.PGPMessage.new(t, cleartext=True)
            except UnicodeDecodeError:
                continue
            sig = key.sign(msg, created=T0, hash=h)
            describe('%s/clear%d' % (kn, i), sig, msg.message, pub)

        sig = key.sign(b'options', created=T0, expires=timedelta(days=3), notation={'a@b.c': 'value', 'bin@b.c': bytearray(b'\x00\x01')},
                       policy_uri='https://example.org/policy', revocable=False, user=uid.name,
                       intended_recipients=[other.pubkey, pub.fingerprint, 'bogus', pub])
        describe(kn + '/opts', sig, b'options', pub)
        sig = key.sign(b'options2', created=T0, expires=T0 + timedelta(days=900), include_issuer_fingerprint=False)
        describe(kn + '/opts2', sig, b'options2', pub)
        sig = key.sign(None, created=T0)
        describe(kn + '/timestamp', sig, None, pub)
        sig = key.sign(None, created=T0, notation={'x@y.z': 'v'})
        describe(kn + '/standalone', sig, None, pub)

        # certifications
        for lvl in (SignatureType.Generic_Cert, SignatureType.Persona_Cert, SignatureType.Casual_Cert, SignatureType.Positive_Cert):
            sig = key.certify(uid, level=lvl, created=T0)
            describe('%s/selfcert%x' % (kn, lvl), sig, uid, pub)
        sig = key.certify(uid, created=T0, usage={KeyFlags.Sign, KeyFlags.Certify},
                          ciphers=[SymmetricKeyAlgorithm.AES256, SymmetricKeyAlgorithm.AES128],
                          hashes=[HashAlgorithm.SHA512, HashAlgorithm.SHA256],
                          compression=[CompressionAlgorithm.ZLIB, CompressionAlgorithm.Uncompressed],
                          key_expiration=timedelta(days=365), keyserver='hkp://keys.example.org',
                          keyserver_flags={KeyServerPreferences.NoModify}, primary=True, exportable=True)
        describe(kn + '/selfcert-full', sig, uid, pub)
        sig = key.certify(uid, created=T0, key_expiration=key.created + timedelta(days=10), hashes=[HashAlgorithm.SHA384])
        describe(kn + '/selfcert-exp', sig, uid, pub)
        # third party
        ouid = other.userids[0]
        sig = key.certify(ouid, created=T0, trust=(1, 60), regex='<[^>]+[@.]example\\.com>$', exportable=False,
                          hash=HashAlgorithm.SHA256)
        describe(kn + '/3rdcert', sig, ouid, pub)
        sig = key.certify(ouid, created=T0, regex='ignored', hash=HashAlgorithm.SHA256, usage={KeyFlags.Sign})
        describe(kn + '/3rdcert2', sig, ouid, pub)
        sig = key.certify(other.pubkey, created=T0, hash=HashAlgorithm.SHA256)
        describe(kn + '/directother', sig, other.pubkey, pub)
        sig = key.certify(key, created=T0, usage={KeyFlags.Certify})
        describe(kn + '/directself', sig, key, pub)
        # attestation
        tp = other.certify(uid, created=T0)
        sig = key.certify(uid, level=SignatureType.Attestation, created=T0, hash=HashAlgorithm.SHA256,
                          attested_certifications=[tp, b'\x07' * 32, b'short', 5])
        describe(kn + '/attest', sig, uid, pub)

        # revocations
        sig = key.revoke(uid, created=T0)
        describe(kn + '/revuid', sig, uid, pub)
        sig = key.revoke(key, created=T0, reason=RevocationReason.Compromised, comment='key ☠ compromised')
        describe(kn + '/revkey', sig, key, pub)
        sig = key.revoke(pub, created=T0, reason=RevocationReason.Retired, comment='')
        describe(kn + '/revpub', sig, pub, pub)
        for skid, sk in sorted(key.subkeys.items()):
            sig = key.revoke(sk, created=T0, reason=RevocationReason.Superseded, comment='sub')
            describe('%s/revsub-%s' % (kn, skid), sig, sk, pub)
        attempt(kn + '/revoke-bad', lambda: key.revoke('not a key', created=T0))
        attempt(kn + '/revoke-none', lambda: key.revoke(None))

        # revoker
        sig = key.revoker(other.pubkey, created=T0, sensitive=True)
        describe(kn + '/revoker', sig, key, pub)
        sig = key.revoker(other, created=T0)
        describe(kn + '/revoker2', sig, key, pub)

        # bind
        for skid, sk in sorted(key.subkeys.items()):
            sig = key.bind(sk, created=T0, usage={KeyFlags.EncryptCommunications}, crosssign=False)
            describe('%s/bind-%s' % (kn, skid), sig, sk, pub)
            sig = key.bind(sk.pubkey if False else sk, created=T0, usage={KeyFlags.EncryptStorage}, crosssign=False,
                           key_expiration=timedelta(days=7))
            describe('%s/bind2-%s' % (kn, skid), sig, sk, pub)
            if sk.key_algorithm.can_sign:
                sig = key.bind(sk, created=T0, usage={KeyFlags.Sign})
                describe('%s/bindx-%s' % (kn, skid), sig, sk, pub)
                emb = sig._signature.subpackets['EmbeddedSignature']
                emit(kn, 'embedded', len(emb))
                xs = sk.bind(key, created=T0)
                describe('%s/pkbind-%s' % (kn, skid), xs, key, sk.pubkey if hasattr(sk, 'pubkey') else sk, vsubject=key)
                attempt('%s/bind-nousage-%s' % (kn, skid), lambda: bool(key.bind(sk, created=T0, crosssign=False)))
                attempt('%s/bind-signnocross-%s' % (kn, skid), lambda: bool(key.bind(sk, created=T0, usage={KeyFlags.Sign}, crosssign=False)))
        attempt(kn + '/bind-self', lambda: key.bind(key, created=T0))

        # bad inputs
        attempt(kn + '/sign-int', lambda: key.sign(5, created=T0).hashdata(5).hex())
        attempt(kn + '/sign-baduser', lambda: key.sign(b'x', created=T0, user='nobody at all'))
        attempt(kn + '/certify-str', lambda: key.certify('string', created=T0))
        attempt(kn + '/hashdata-none', lambda: key.sign(b'x', created=T0).hashdata(None))

    # fixture signatures made by other implementations: hash input as computed by PGPy
    sigdir = os.path.join('tests', 'testdata', 'signatures')
    for fn in sorted(os.listdir(sigdir)):
        try:
            s = PGPSignature.from_file(os.path.join(sigdir, fn))
        except Exception as e:  # noqa
            emit('fixture', fn, 'load-exc', type(e).__name__)
            continue
        emit('fixture', fn, int(s.type), hashlib.sha256(bytes(s)).hexdigest(),
             hashlib.sha256(bytes(s._signature.canonical_bytes())).hexdigest())
        if s.type in (SignatureType.BinaryDocument, SignatureType.CanonicalDocument):
            emit('fixture', fn, hashlib.sha256(s.hashdata(b'some\ndata\r\n')).hexdigest())

    # from_signer / __sig__ on fixed algorithm-level encodings
    def der_int(v):
        b = v.to_bytes((v.bit_length() + 8) // 8 or 1, 'big')
        return b'\x02' + bytes([len(b)]) + b

    for r, s in ((1, 2), (0x7f, 0x80), (2 ** 159 + 12345, 2 ** 160 - 1), (2 ** 255 - 19, 2 ** 256 - 1), (0, 0)):
        body = der_int(r) + der_int(s)
        der = b'\x30' + bytes([len(body)]) + body
        for cls in (DSASignature, ECDSASignature):
            for conv in (bytes, bytearray):
                o = cls()
                attempt('%s.from_signer(%d,%d,%s)' % (cls.__name__, r, s, conv.__name__),
                        lambda: (o.from_signer(conv(der)), int(o.r), int(o.s), bytes(o.__bytearray__()).hex(), bytes(o.__sig__()).hex())[1:])
    # long-form DER length (sequence longer than 127 bytes)
    body = der_int(2 ** 511 + 7) + der_int(2 ** 512 - 3)
    der = b'\x30\x81' + bytes([len(body)]) + body
    for cls in (DSASignature, ECDSASignature):
        o = cls()
        attempt(cls.__name__ + '.from_signer(long)', lambda: (o.from_signer(der), int(o.r), int(o.s))[1:])
    for bad in (b'\x31\x00', b'\x30\x03\x04\x01\x00', b'', b'\x30'):
        o = DSASignature()
        attempt('DSASignature.from_signer(bad %s)' % bad.hex(), lambda: o.from_signer(bad))
        o = DSASignature()
        attempt('DSASignature.from_signer(bad bytearray %s)' % bad.hex(), lambda: o.from_signer(bytearray(bad)))

    for raw in (bytes(range(64)), b'\x00' * 63 + b'\x01', b'\xff' * 64, b'', b'\x01\x02', bytearray(range(1, 65))):
        o = EdDSASignature()
        attempt('EdDSASignature.from_signer(%s)' % bytes(raw).hex()[:16],
                lambda: (o.from_signer(raw), int(o.r), int(o.s), bytes(o.__bytearray__()).hex(), bytes(o.__sig__()).hex())[1:])
    for raw in (bytes(range(63)), b'\x01'):
        o = EdDSASignature()
        attempt('EdDSASignature.from_signer(odd %d)' % len(raw), lambda: o.from_signer(raw))
    for raw in (b'\x00\x01', bytes(range(1, 129)), b'', bytearray(b'\x80' + b'\x00' * 255)):
        o = RSASignature()
        attempt('RSASignature.from_signer(%d)' % len(raw),
                lambda: (o.from_signer(raw), int(o.md_mod_n), bytes(o.__bytearray__()).hex(), bytes(o.__sig__()).hex())[1:])

    blob = '\n'.join(out)
    if '--dump' in sys.argv:
        print(blob)
    print('lines', len(out))
    print('digest', hashlib.sha256(blob.encode('utf-8')).hexdigest())


if __name__ == '__main__':
    main()
