"""Behavioural digest of the packet codec (property C08).

Run as:  cd <tree> && /venv/bin/python equiv.py
Prints the number of recorded observations and a sha256 digest over them.  The
digest must be identical on the unchanged and on the refactored tree.
"""
import glob
import hashlib
import os
import sys
import warnings

sys.path.insert(0, os.getcwd())
warnings.simplefilter('ignore')

import pgpy  # noqa: E402
from pgpy.packet import Packet  # noqa: E402
from pgpy.packet.fields import String2Key  # noqa: E402
from pgpy.packet.types import Header, VersionedHeader  # noqa: E402
from pgpy.packet.packets import UserID, LiteralData, PKESessionKeyV3, Trust  # noqa: E402

LOG = []
TRAILER = bytearray(b'\xde\xca\xff\xba\xdd\x99\x01\x02')


def rec(label, *vals):
    out = [label]
    for v in vals:
        if isinstance(v, (bytes, bytearray)):
            out.append(bytes(v).hex())
        else:
            out.append(repr(v))
    LOG.append('|'.join(out))


def attrs(pkt):
    """public, stable attributes of a parsed packet"""
    res = []
    for name in ('uid', 'filename', 'format', 'mtime', 'trustlevel', 'trustflags', 'encrypter', 'pkalg',
                 'sigtype', 'pubalg', 'halg', 'hash2', 'calg', 'ct', 'payload', 'created', 'fingerprint',
                 '_encoding_fallback', 'symalg'):
        try:
            v = getattr(pkt, name)
        except Exception as e:  # noqa
            continue
        if isinstance(v, (bytes, bytearray)):
            v = bytes(v).hex()
        if hasattr(v, '__bytearray__') and not isinstance(v, str):
            try:
                v = bytes(v.__bytearray__()).hex()
            except Exception as e:  # noqa
                v = 'ERR ' + type(e).__name__
        res.append((name, repr(v)))
    return res


def roundtrip(label, data, depth=2):
    buf = bytearray(data) + TRAILER
    try:
        pkt = Packet(buf)
    except Exception as e:  # noqa
        rec(label, 'EXC', type(e).__name__, str(e), buf)
        return None
    out = pkt.__bytes__()
    hdr = pkt.header
    rec(label, type(pkt).__name__, type(hdr).__name__, int(hdr.tag), hdr._lenfmt, hdr._llen, hdr.llen, hdr.length,
        len(hdr), len(pkt), getattr(hdr, 'version', None), out, buf, attrs(pkt))
    rec(label + ':hdr', hdr.__bytearray__(), sorted((k, repr(v)) for k, v in hdr.__dict__.items()))
    try:
        pkt.update_hlen()
        rec(label + ':upd', pkt.header.length, pkt.__bytes__())
    except Exception as e:  # noqa
        rec(label + ':upd', 'EXC', type(e).__name__, str(e))
    if depth > 0 and bytes(out) != bytes(data):
        roundtrip(label + ':again', out, depth - 1)
    return pkt


def binload(f):
    with open(f, 'rb') as ff:
        return bytearray(ff.read())


# 1. all fixture packets
for fn in sorted(glob.glob('tests/testdata/packets/[0-9]*')):
    roundtrip('fixture:' + os.path.basename(fn), binload(fn))


# 2. synthetic headers around fixed bodies
def old_hdr(tag, llen_type, n):
    first = 0x80 | (tag << 2) | llen_type
    ln = {0: 1, 1: 2, 2: 4, 3: 0}[llen_type]
    return bytearray([first]) + (n.to_bytes(ln, 'big') if ln else b'')


def new_hdr(tag, n, octets):
    first = 0xC0 | tag
    if octets == 1:
        body = bytes([n])
    elif octets == 2:
        m = n - 192
        body = bytes([(m >> 8) + 192, m & 0xFF])
    else:
        body = b'\xff' + n.to_bytes(4, 'big')
    return bytearray([first]) + body


uid_small = 'Alice Example (cömment) <alice@example.com>'.encode('utf-8')
uid_bad = b'Bob \xff\xfe\x80 Latin <bob@example.com>'
uid_big = ('x' * 250 + ' <big@example.com>').encode()
lit_body = b'b\x08f\xc3\xafle.txt\x5a\x00\x00\x00' + b'hello world\r\n' * 3
lit_body_t = b'u\x00\x00\x00\x00\x00' + 'grüße'.encode('utf-8')
trust_body = b'\x06\x21'
marker_body = b'PGP'
opaque_body = bytes(range(40))

bodies = [(13, 'uid', uid_small), (13, 'uidbad', uid_bad), (13, 'uidbig', uid_big), (11, 'lit', lit_body),
          (11, 'litu', lit_body_t), (12, 'trust', trust_body), (10, 'marker', marker_body), (15, 'unk15', opaque_body),
          (9, 'sked', opaque_body), (19, 'mdc', bytes(range(20))), (13, 'empty', b'')]

for tag, name, body in bodies:
    n = len(body)
    if tag < 16:
        for lt in (0, 1, 2):
            if lt == 0 and n > 255:
                continue
            roundtrip('old%d:%s' % (lt, name), old_hdr(tag, lt, n) + body)
        # indeterminate length: consumes everything (including the trailer)
        roundtrip('old3:%s' % name, old_hdr(tag, 3, n) + body)
    for octets in (1, 2, 5):
        if octets == 1 and n >= 192:
            continue
        if octets == 2 and n < 192:
            continue
        roundtrip('new%d:%s' % (octets, name), new_hdr(tag, n, octets) + body)

# unknown new-format tags and unknown versions
for tag in (0, 16, 20, 40, 60, 63):
    roundtrip('newunk:%d' % tag, new_hdr(tag, len(opaque_body), 1) + opaque_body)
for tag in (1, 2, 3, 4, 5, 6, 7, 14, 18):
    for ver in (0, 2, 5, 9, 255):
        body = bytes([ver]) + opaque_body
        roundtrip('unkver:%d:%d' % (tag, ver), new_hdr(tag, len(body), 1) + body)
        roundtrip('unkver-old:%d:%d' % (tag, ver), old_hdr(tag, 1, len(body)) + body)

# partial body lengths
chunk = bytes(range(256)) * 2
pb = bytearray([0xC0 | 11, 0xE0 | 9]) + (b'b\x00\x00\x00\x00\x00' + chunk)[:512] + bytes([6]) + chunk[-6:]
roundtrip('partial:lit', pb)
pb2 = bytearray([0xC0 | 11, 0xE0 | 1]) + b'b\x00' + bytearray([0xE0 | 2]) + b'\x00\x00\x00\x00' + bytearray([0xC0, 0x05]) + bytes(197)
roundtrip('partial:lit2', pb2)

# error cases
for label, data in [('err:empty', b''), ('err:onebyte', b'\xcd'), ('err:trunc-uid', b'\xcd\x10abc'),
                    ('err:trunc-lit', b'\xcb\x03b\x05a'), ('err:sig-short', b'\xc2\x03\x04\x00\x01'),
                    ('err:sig-badtype', b'\xc2\x0a\x04\x77\x01\x02\x00\x00\x00\x00\x12\x34'),
                    ('err:pkesk-short', b'\xc1\x04\x03\x00\x00\x00'),
                    ('err:nobit7', b'\x0d\x03abc'), ('err:old-llen-trunc', b'\xb5\x00'),
                    ('err:key-short', b'\xc6\x03\x04\x00\x00'), ('err:skesk', b'\xc3\x03\x04\x09\x03'),
                    ('err:comp-bad', b'\xc8\x05\x01\xff\xff\xff\xff'), ('err:comp-alg', b'\xc8\x03\x09ab')]:
    buf = bytearray(data)
    try:
        p = Packet(buf)
        rec(label, type(p).__name__, p.__bytes__(), buf)
    except Exception as e:  # noqa
        rec(label, 'EXC', type(e).__name__, str(e), type(e.__cause__).__name__, buf)

# bytes (immutable) input: the failure mode is observable too
try:
    Packet(b'\xcd\x03abc')
    rec('err:bytes-input', 'ok')
except Exception as e:  # noqa
    rec('err:bytes-input', type(e).__name__, str(e))

# no-argument construction
for cls in (UserID, LiteralData, PKESessionKeyV3, Trust):
    o = cls()
    hd = o.header
    rec('noarg:' + cls.__name__, type(o).__name__, hd.__bytearray__(), int(hd.tag), hd.length)
try:
    rec('noarg:pkesk-bytes', PKESessionKeyV3().__bytearray__())
except Exception as e:  # noqa
    rec('noarg:pkesk-bytes', 'EXC', type(e).__name__, str(e))

# 3. PKESK with algorithms that have no ciphertext class
for alg in (1, 2, 16, 18, 20, 17, 19, 22, 3):
    body = b'\x03' + bytes(range(8)) + bytes([alg]) + b'\x00\x08\xa5' + b'\x00\x09\x01\x7f' + b'\x05hello'
    roundtrip('pkesk:%d' % alg, new_hdr(1, len(body), 1) + body)
    roundtrip('pkesk-old:%d' % alg, old_hdr(1, 0, len(body)) + body)

# 4. mutation after parsing
for lt in (0, 1, 2):
    buf = old_hdr(13, lt, len(uid_small)) + uid_small
    p = Packet(bytearray(buf))
    for newlen in (0, 10, 255, 256, 300, 70000):
        p.uid = 'u' * newlen
        p.update_hlen()
        out = p.__bytes__()
        rec('mutate-old%d:%d' % (lt, newlen), p.header.llen, p.header.length, hashlib.sha256(out).hexdigest(), out[:8])
        q = bytearray(out) + TRAILER
        p2 = Packet(q)
        rec('mutate-old%d:%d:re' % (lt, newlen), p2.uid == p.uid, q, p2.__bytes__() == out)
for octets in (1, 5):
    buf = new_hdr(13, len(uid_small), octets) + uid_small
    p = Packet(bytearray(buf))
    for newlen in (0, 191, 192, 8383, 8384, 70000):
        p.uid = 'u' * newlen
        p.update_hlen()
        out = p.__bytes__()
        rec('mutate-new%d:%d' % (octets, newlen), p.header.llen, p.header.length, hashlib.sha256(out).hexdigest(), out[:8])

p = Packet(new_hdr(11, len(lit_body), 1) + lit_body)
p.filename = 'été-日本.txt'
p.update_hlen()
rec('mutate-lit', p.__bytes__())
roundtrip('mutate-lit:re', p.__bytes__())

# 5. Header objects directly
for cls in (Header, VersionedHeader):
    for first in (0x80, 0x84, 0x99, 0x9a, 0xb5, 0xb6, 0xb7, 0xc0, 0xc6, 0xcd, 0xff, 0x00, 0x41):
        for rest in (b'', b'\x05', b'\xc5\x10', b'\xff\x00\x01\x00\x00rest', b'\xe3abcdefgh\x02xy', b'\x00\x00\x01\x00q'):
            h = cls()
            buf = bytearray([first]) + rest + b'\x04\x03\x02\x01'
            try:
                h.parse(buf)
                rec('hdr:%s:%02x:%s' % (cls.__name__, first, rest.hex()), int(h.tag), h._lenfmt, h._llen, h.llen,
                    h.length, len(h), getattr(h, 'version', None), getattr(h, '_partial', None), h.__bytearray__(), buf)
            except Exception as e:  # noqa
                rec('hdr:%s:%02x:%s' % (cls.__name__, first, rest.hex()), 'EXC', type(e).__name__, str(e), buf)
for lenfmt in (0, 1):
    for llen_type in (0, 1, 2, 3):
        for length in (0, 1, 191, 192, 255, 256, 8383, 8384, 65535, 65536, 1 << 24):
            for tag in (1, 13, 15, 19, 63):
                h = Header()
                h._lenfmt = lenfmt
                h.tag = (tag if lenfmt else (tag << 2))
                h.llen = llen_type
                h.length = length
                try:
                    rec('hdrenc:%d:%d:%d:%d' % (lenfmt, llen_type, length, tag), h.llen, len(h), h.__bytearray__())
                except Exception as e:  # noqa
                    rec('hdrenc:%d:%d:%d:%d' % (lenfmt, llen_type, length, tag), 'EXC', type(e).__name__, str(e))

# 6. S2K specifier codec
s2k_inputs = {
    'usage0': b'\x00rest',
    'usage9': b'\x09' + bytes(8) + b'rest',
    'simple254': b'\xfe\x09\x00\x08' + bytes(range(16)) + b'rest',
    'salted255': b'\xff\x07\x01\x02' + b'SALTSALT' + bytes(range(16)) + b'rest',
    'iter254': b'\xfe\x09\x03\x0a' + b'SALTSALT' + b'\x60' + bytes(range(16)) + b'rest',
    'iter254-3des': b'\xfe\x02\x03\x02' + b'SALTSALT' + b'\xff' + bytes(range(8)) + b'rest',
    'gnu1': b'\xfe\x00\x65\x00GNU\x01rest',
    'gnu2': b'\xff\x00\x65\x00GNU\x02\x06serialrest',
    'gnu2long': b'\xff\x00\x65\x00GNU\x02\x14' + bytes(range(20)) + b'rest',
    'gnu2empty': b'\xff\x00\x65\x00GNU\x02\x00rest',
    'gnubad': b'\xfe\x00\x65\x00GNV\x01rest',
    'badspec': b'\xfe\x09\x07\x08' + bytes(32),
    'badalg': b'\xfe\x63\x03\x08' + bytes(32),
    'badhash': b'\xfe\x09\x03\x63' + bytes(32),
    'short1': b'\xfe',
    'short2': b'\xfe\x09',
    'short3': b'\xfe\x09\x03',
    'short4': b'\xfe\x09\x03\x08SALT',
    'empty': b'',
}
for name, data in sorted(s2k_inputs.items()):
    for iv in (True, False):
        s = String2Key()
        buf = bytearray(data)
        try:
            r = s.parse(buf, iv=iv)
            rec('s2k:%s:%s' % (name, iv), r, int(s.usage), int(s.encalg), int(s.specifier), int(s.halg), s.salt, s._count,
                s.count, s.iv, s.gnuext, s.scserial, bool(s), len(s), s.__bytearray__(), buf)
            c = s.__copy__()
            rec('s2k:%s:%s:copy' % (name, iv), c.__bytearray__())
            s2 = String2Key()
            b2 = s.__bytearray__() + bytearray(b'tail')
            s2.parse(b2, iv=(s.iv is not None))
            rec('s2k:%s:%s:re' % (name, iv), s2.__bytearray__(), b2)
        except Exception as e:  # noqa
            rec('s2k:%s:%s' % (name, iv), 'EXC', type(e).__name__, str(e), buf)
s = String2Key()
rec('s2k:default', bool(s), len(s), s.__bytearray__())
for usage in (0, 1, 9, 253, 254, 255):
    s = String2Key()
    s.usage = usage
    rec('s2k:usage:%d' % usage, bool(s), s.__nonzero__(), s.__bytearray__())

# 7. whole keys / messages / signatures from the fixtures
for fn in sorted(glob.glob('tests/testdata/keys/*.asc')) + sorted(glob.glob('tests/testdata/signatures/*.key.asc')) \
        + ['tests/testdata/pubtest.asc', 'tests/testdata/sectest.asc']:
    try:
        key, _ = pgpy.PGPKey.from_file(fn)
        rec('key:' + os.path.basename(fn), str(key.fingerprint), hashlib.sha256(bytes(key)).hexdigest())
        again, _ = pgpy.PGPKey.from_blob(bytes(key))
        rec('key:' + os.path.basename(fn) + ':re', bytes(again) == bytes(key))
    except Exception as e:  # noqa
        rec('key:' + os.path.basename(fn), 'EXC', type(e).__name__, str(e))
for fn in sorted(glob.glob('tests/testdata/messages/*.asc')) + sorted(glob.glob('tests/testdata/messages/*.pass')) \
        + sorted(glob.glob('tests/testdata/messages/*.aes')) + ['tests/testdata/message.enc.twofish.asc']:
    try:
        msg = pgpy.PGPMessage.from_file(fn)
        rec('msg:' + os.path.basename(fn), msg.type, hashlib.sha256(bytes(msg)).hexdigest())
    except Exception as e:  # noqa
        rec('msg:' + os.path.basename(fn), 'EXC', type(e).__name__, str(e))
for fn in sorted(glob.glob('tests/testdata/signatures/*.sig.asc')) + sorted(glob.glob('tests/testdata/revocations/*')):
    try:
        sig = pgpy.PGPSignature.from_file(fn)
        rec('sig:' + os.path.basename(fn), str(sig.type), hashlib.sha256(bytes(sig)).hexdigest())
    except Exception as e:  # noqa
        rec('sig:' + os.path.basename(fn), 'EXC', type(e).__name__, str(e))

# protect/unprotect a fixture key with fixed passphrase: only deterministic parts are digested
try:
    key, _ = pgpy.PGPKey.from_file('tests/testdata/keys/rsa.1.enc.asc')
    rec('enc-key', key.is_protected, hashlib.sha256(bytes(key)).hexdigest())
    with key.unlock('QwertyUiop'):
        rec('enc-key:unlocked', key.is_unlocked)
    rec('enc-key:after', hashlib.sha256(bytes(key)).hexdigest())
except Exception as e:  # noqa
    rec('enc-key', 'EXC', type(e).__name__, str(e))

# a message built through the API with fixed inputs (mtime fixed by re-assigning it)
try:
    import datetime
    for comp in (pgpy.constants.CompressionAlgorithm.Uncompressed, pgpy.constants.CompressionAlgorithm.ZIP,
                 pgpy.constants.CompressionAlgorithm.ZLIB, pgpy.constants.CompressionAlgorithm.BZ2):
        m = pgpy.PGPMessage.new('some tëxt\n' * 50, file=False, compression=comp, format='u')
        m._message.filename = 'näme.txt'
        m._message.mtime = datetime.datetime(2020, 1, 2, 3, 4, 5, tzinfo=datetime.timezone.utc)
        m._message.update_hlen()
        b1 = bytes(m)
        m2 = pgpy.PGPMessage.from_blob(b1)
        rec('apimsg:%s' % comp.name, hashlib.sha256(b1).hexdigest(), bytes(m2) == b1, m2.filename, m2.message)
except Exception as e:  # noqa
    rec('apimsg', 'EXC', type(e).__name__, str(e))

blob = '\n'.join(LOG).encode('utf-8', 'backslashreplace')
print('observations:', len(LOG))
print('digest:', hashlib.sha256(blob).hexdigest())
if os.environ.get('EQUIV_DUMP'):
    with open(os.environ['EQUIV_DUMP'], 'wb') as f:
        f.write(blob)
