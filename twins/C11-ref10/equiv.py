import hashlib
import os
import sys
import warnings
from datetime import datetime, timezone

sys.path.insert(0, os.getcwd())
warnings.simplefilter('ignore')

import pgpy  # noqa: E402
from pgpy import PGPKey, PGPMessage, PGPSignature  # noqa: E402
from pgpy.constants import HashAlgorithm, SignatureType  # noqa: E402
from pgpy.types import Armorable  # noqa: E402

H = hashlib.sha256()


def put(label, value):
    if isinstance(value, (bytes, bytearray)):
        value = bytes(value).hex()
    H.update(('%s=%r\n' % (label, value)).encode('utf-8'))


def outcome(fn):
    try:
        return ('ok', fn())
    except Exception as e:  # noqa: BLE001
        return ('exc', type(e).__name__, str(e))


TEXTS = [
    '',
    '\n',
    'one line',
    'one line\n',
    '- dash space\n-nodash\n--two\n',
    '-',
    '- ',
    '- - already escaped',
    'From here\nto there',
    '-----BEGIN PGP SIGNATURE-----\n\nabcd\n=abcd\n-----END PGP SIGNATURE-----\n',
    '-----BEGIN PGP SIGNED MESSAGE-----\nHash: SHA1\n\ninner',
    'trailing blanks   \nand tabs\t\t\n \t \nlast  ',
    'crlf line\r\nsecond\r\n-third\r\n',
    'lone cr\rmiddle\r-dash after cr\r',
    'mixed\r\n\n\r\r\n-x\n\n\n',
    'non-ascii: éè 色は匂へど \U0001F600\n-\U0001F600',
    'x' * 5000 + '\n-' + 'y' * 3000,
    ' -leading space dash\n\t-tab dash',
]

CREATED = datetime(2020, 1, 2, 3, 4, 5, tzinfo=timezone.utc)

rsa, _ = PGPKey.from_file('tests/testdata/keys/rsa.1.sec.asc')
rsa2, _ = PGPKey.from_file('tests/testdata/keys/targette.sec.rsa.asc')
dsa, _ = PGPKey.from_file('tests/testdata/keys/dsa.1.sec.asc')
ecc, _ = PGPKey.from_file('tests/testdata/keys/ecc.1.sec.asc')

# 1. dash escaping helpers
for i, t in enumerate(TEXTS):
    e = PGPMessage.dash_escape(t)
    put('esc%d' % i, e)
    put('unesc%d' % i, PGPMessage.dash_unescape(t))
    put('rt%d' % i, PGPMessage.dash_unescape(e) == t)

# 2. sign / write / read back / verify
HASHES = [HashAlgorithm.SHA1, HashAlgorithm.SHA256, HashAlgorithm.SHA512, None]
for i, t in enumerate(TEXTS):
    msg = PGPMessage.new(t, cleartext=True)
    put('unsigned%d' % i, outcome(lambda: str(msg)))
    put('signed_data%d' % i, msg._signed_data)
    halg = HASHES[i % len(HASHES)]
    sig = rsa.sign(msg, created=CREATED, hash=halg) if halg is not None else rsa.sign(msg, created=CREATED)
    put('sigtype%d' % i, int(sig.type))
    put('sigbytes%d' % i, bytes(sig))
    put('hashdata%d' % i, sig.hashdata(msg._signed_data))
    msg |= sig
    if i % 3 == 0:
        # a second (deterministic, RSA) signer with another hash
        msg |= rsa2.sign(msg, created=CREATED, hash=HashAlgorithm.SHA384)
    if i % 4 == 1:
        # randomised signature algorithms: only their verification result is digested
        msg |= dsa.sign(msg, created=CREATED, hash=HashAlgorithm.SHA224)
        msg |= ecc.sign(msg, created=CREATED, hash=HashAlgorithm.SHA256)
    s = str(msg)
    lines = s.split('\n')
    # header part (up to the armored signature) is deterministic; the armor is only when all signers are RSA
    put('hdr%d' % i, s[:s.index('\n-----BEGIN PGP SIGNATURE-----')] if '\n-----BEGIN PGP SIGNATURE-----' in s else s)
    if i % 4 != 1:
        put('str%d' % i, s)
    put('nlines%d' % i, len(lines))

    def readback():
        m2 = PGPMessage.from_blob(s)
        res = [m2.type, m2.message, m2.message == msg.message, len(m2.signatures),
               [x.hash_algorithm.name for x in m2.signatures],
               [str(x.signer) for x in m2.signatures]]
        for k in (rsa, rsa2, dsa, ecc):
            if k.fingerprint.keyid in m2.signers:
                res.append(bool(k.pubkey.verify(m2)))
        res.append(str(m2) == s)
        return res
    put('readback%d' % i, outcome(readback))

    # CRLF transport of the same armored message
    def readback_crlf():
        m3 = PGPMessage.from_blob(s.replace('\r\n', '\n').replace('\n', '\r\n'))
        return [m3.message, bool(rsa.pubkey.verify(m3))]
    put('readback_crlf%d' % i, outcome(readback_crlf))

# 3. fixtures written by GnuPG
FIXTURES = ['tests/testdata/messages/cleartext.dashesc.signed.asc',
            'tests/testdata/messages/cleartext.empty.signed.asc',
            'tests/testdata/messages/cleartext.oneline.signed.asc',
            'tests/testdata/messages/cleartext.signed.asc',
            'tests/testdata/blocks/cleartext.asc',
            'tests/testdata/blocks/cleartext.twosigs.asc',
            'tests/testdata/messages/message.signed.asc',
            'tests/testdata/blocks/message.compressed.asc',
            'tests/testdata/blocks/rsapubkey.asc',
            'tests/testdata/blocks/signature.expired.asc']
for f in FIXTURES:
    if not os.path.exists(f):
        put('missing', f)
        continue
    with open(f) as fh:
        blob = fh.read()

    def un():
        d = Armorable.ascii_unarmor(blob)
        return sorted((k, bytes(v) if isinstance(v, bytearray) else (list(v.items()) if hasattr(v, 'items') else v))
                      for k, v in d.items())
    put('unarmor:' + f, outcome(un))

    def load():
        m = PGPMessage.from_blob(blob)
        return [m.type, m.message if m.type == 'cleartext' else bytes(m.message), str(m), bytes(m),
                [x.hash_algorithm.name for x in m.signatures], sorted(m.signers), list(m.ascii_headers.items())]
    put('load:' + f, outcome(load))

    def sigdata():
        m = PGPMessage.from_blob(blob)
        return [bytes(x.hashdata(m._signed_data)) for x in m.signatures]
    put('sigdata:' + f, outcome(sigdata))

# 4. canonical-document hash data on raw subjects
for i, t in enumerate(TEXTS):
    for subj in (t, t.encode('utf-8'), bytearray(t.encode('utf-8'))):
        sg = PGPSignature.new(SignatureType.CanonicalDocument, rsa.key_algorithm, HashAlgorithm.SHA256,
                              rsa.fingerprint.keyid, created=CREATED)
        put('canon%d' % i, outcome(lambda: bytes(sg.hashdata(subj))))
        sb = PGPSignature.new(SignatureType.BinaryDocument, rsa.key_algorithm, HashAlgorithm.SHA256,
                              rsa.fingerprint.keyid, created=CREATED)
        put('bin%d' % i, outcome(lambda: bytes(sb.hashdata(subj))))

# 5. sign() on other subject kinds (signature type selection)
lit = PGPMessage.new('literal text\n- with dash  \n')
put('lit_sig', bytes(rsa.sign(lit, created=CREATED, hash=HashAlgorithm.SHA256)))
put('ts_sig', bytes(rsa.sign(None, created=CREATED, hash=HashAlgorithm.SHA256)))
put('str_sig', bytes(rsa.sign('plain str\r\nsubject ', created=CREATED, hash=HashAlgorithm.SHA256)))
put('bytes_cleartext', outcome(lambda: str(PGPMessage.new(b'\xff\xfe bytes', cleartext=True, encoding='latin-1'))))
raw = PGPMessage()
raw |= b'\xff\xfe not utf8'
put('undecodable', outcome(lambda: str(raw)))
put('empty_msg_str', outcome(lambda: str(PGPMessage())))

# 6. error paths of parse
with open('tests/testdata/keys/rsa.1.pub.asc') as fh:
    keyblob = fh.read()
put('parse_key_as_msg', outcome(lambda: PGPMessage.from_blob(keyblob)))
put('parse_empty', outcome(lambda: PGPMessage.from_blob('')))
put('parse_garbage', outcome(lambda: PGPMessage.from_blob('not armored at all')))

print(H.hexdigest())
