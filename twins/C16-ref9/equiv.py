"""Equivalence probe for property C16 (key-usage policy).

Run as:  cd <tree> && /venv/bin/python equiv.py
Prints a digest of observable outputs (which key component was used, which exception was raised,
what was logged) - no signature bytes / timestamps / session keys enter the digest.
"""
import sys
import os
sys.path.insert(0, os.getcwd())

import glob
import hashlib
import logging
import warnings

import pgpy
from pgpy import PGPKey, PGPMessage, PGPUID
from pgpy.constants import KeyFlags, PubKeyAlgorithm, HashAlgorithm, SymmetricKeyAlgorithm, CompressionAlgorithm
from pgpy.decorators import KeyAction
from pgpy.errors import PGPError

warnings.simplefilter('ignore')

out = []


class ListHandler(logging.Handler):
    def emit(self, record):
        out.append(('log', record.levelname, record.getMessage()))


root = logging.getLogger()
root.setLevel(logging.DEBUG)
for h in list(root.handlers):
    root.removeHandler(h)
root.addHandler(ListHandler())


def rec(label, fn):
    try:
        r = fn()
        out.append((label, 'ok', r))
    except Exception as e:  # noqa
        out.append((label, 'exc', type(e).__name__, str(e)))


def kflags(key, user=None):
    return sorted(int(f) for f in key._get_key_flags(user))


keyfiles = sorted(glob.glob('tests/testdata/keys/*.asc'))
keys = {}
for kf in keyfiles:
    k, _ = PGPKey.from_file(kf)
    keys[os.path.basename(kf)] = k

msg_plain = PGPMessage.new("the quick brown fox", compression=CompressionAlgorithm.Uncompressed)

for name, key in sorted(keys.items()):
    out.append(('key', name, str(key.fingerprint), key.is_public, key.is_protected, key.is_unlocked,
                list(key.subkeys.keys())))
    # flags of every component, for every uid and the default
    rec(name + ':flags', lambda: kflags(key))
    for uid in key.userids:
        rec(name + ':flags:' + uid.name, lambda: kflags(key, uid.name))
    rec(name + ':flags:nosuch', lambda: kflags(key, 'no such user'))
    for skid, sk in key.subkeys.items():
        rec(name + ':skflags:' + skid, lambda: kflags(sk))

    # sign
    def do_sign():
        s = key.sign("some text")
        return (s.signer, str(s.signer_fingerprint))
    rec(name + ':sign', do_sign)

    # certify own uid
    def do_certify():
        s = key.certify(key.userids[0])
        return (s.signer, str(s.signer_fingerprint))
    rec(name + ':certify', do_certify)

    # encrypt
    def do_encrypt():
        m = key.encrypt(msg_plain, sessionkey=b'\x01' * 32, cipher=SymmetricKeyAlgorithm.AES256)
        return sorted(m.encrypters)
    rec(name + ':encrypt', do_encrypt)

    def do_encrypt_user():
        m = key.encrypt(msg_plain, sessionkey=b'\x01' * 32, cipher=SymmetricKeyAlgorithm.AES256,
                        user=key.userids[0].name)
        return sorted(m.encrypters)
    rec(name + ':encrypt:user', do_encrypt_user)

    # decrypt a non-encrypted message / on public keys
    rec(name + ':decrypt-plain', lambda: str(key.decrypt(msg_plain).message))

# roundtrips pub -> sec
pairs = [('rsa.1.pub.asc', 'rsa.1.sec.asc'), ('ecc.1.pub.asc', 'ecc.1.sec.asc'), ('ecc.2.pub.asc', 'ecc.2.sec.asc'),
         ('mixed.1.pub.asc', 'mixed.1.sec.asc'), ('dsa.1.pub.asc', 'dsa.1.sec.asc'),
         ('targette.pub.rsa.asc', 'targette.sec.rsa.asc'),
         ('rsa.1.pub.asc', 'ecc.1.sec.asc'), ('rsa.1.pub.asc', 'rsa.1.enc.asc')]
for pn, sn in pairs:
    pub, sec = keys[pn], keys[sn]

    def roundtrip():
        m = pub.encrypt(msg_plain, sessionkey=b'\x02' * 32, cipher=SymmetricKeyAlgorithm.AES256)
        enc = sorted(m.encrypters)
        d = sec.decrypt(m)
        return (enc, str(d.message))
    rec('rt:%s:%s' % (pn, sn), roundtrip)

    # decrypt directly with each subkey
    for skid, sk in sec.subkeys.items():
        def sk_rt():
            m = pub.encrypt(msg_plain, sessionkey=b'\x02' * 32, cipher=SymmetricKeyAlgorithm.AES256)
            return str(sk.decrypt(m).message)
        rec('rt-sub:%s:%s:%s' % (pn, sn, skid), sk_rt)

# protected key: locked and unlocked
enc = keys['rsa.1.enc.asc']
rec('locked:sign', lambda: enc.sign("x").signer)
for pw in ('QwertyUiop', 'wrong'):
    def unlocked():
        with enc.unlock(pw):
            s = enc.sign("x")
            return (s.signer, str(s.signer_fingerprint))
    rec('unlock:%s' % pw, unlocked)

# flag enforcement switched off
for name in ('rsa.1.pub.asc', 'rsa.1.sec.asc', 'ecc.1.sec.asc', 'dsa.1.sec.asc'):
    key = keys[name]
    key._require_usage_flags = False
    for flags in ((KeyFlags.Authentication,), (KeyFlags.EncryptStorage,), (KeyFlags.Sign,), ()):
        def ctx():
            with KeyAction(*flags).usage(key, None) as k:
                return str(k.fingerprint)
        rec('noenforce:%s:%s' % (name, [int(f) for f in flags]), ctx)
    key._require_usage_flags = True
    for flags in ((KeyFlags.Authentication,), (KeyFlags.EncryptStorage,), (KeyFlags.Sign,), ()):
        def ctx():
            with KeyAction(*flags).usage(key, None) as k:
                return str(k.fingerprint)
        rec('enforce:%s:%s' % (name, [int(f) for f in flags]), ctx)

# check_attributes directly
for name in ('rsa.1.pub.asc', 'rsa.1.sec.asc', 'rsa.1.enc.asc'):
    key = keys[name]
    for cond in ({'is_public': True}, {'is_public': False}, {'is_unlocked': True},
                 {'is_unlocked': True, 'is_public': False}, {'is_public': False, 'is_unlocked': True},
                 {'is_protected': True}, {'key_algorithm': PubKeyAlgorithm.DSA}, {}):
        rec('attrs:%s:%s' % (name, sorted(cond)), lambda: KeyAction(**cond).check_attributes(key))

# empty key, key without uid
empty = PGPKey()
rec('empty:sign', lambda: empty.sign("x"))
rec('empty:encrypt', lambda: empty.encrypt(msg_plain))
rec('empty:decrypt', lambda: empty.decrypt(msg_plain))

# a key in the process of being created: no uid yet. Use the key material of a fixture key.
fresh = PGPKey()
fresh._key = keys['rsa.1.sec.asc']._key
rec('nouid:flags', lambda: kflags(fresh))
rec('nouid:sign', lambda: fresh.sign("x"))
rec('nouid:encrypt', lambda: fresh.encrypt(msg_plain))
rec('nouid:decrypt', lambda: fresh.decrypt(msg_plain))


def first_cert():
    uid = PGPUID.new('Fresh User', email='fresh@example.com')
    fresh.add_uid(uid, usage={KeyFlags.Sign}, hashes=[HashAlgorithm.SHA256],
                  ciphers=[SymmetricKeyAlgorithm.AES256], compression=[CompressionAlgorithm.Uncompressed])
    s = uid.selfsig
    return (s.signer, str(s.signer_fingerprint), kflags(fresh))


rec('nouid:add_uid', first_cert)
rec('nouid:sign-after', lambda: fresh.sign("x").signer)
rec('nouid:encrypt-after', lambda: sorted(fresh.pubkey.encrypt(msg_plain, sessionkey=b'\x03' * 32).encrypters))

# PGPSignature.new
s = pgpy.PGPSignature.new(pgpy.constants.SignatureType.BinaryDocument, PubKeyAlgorithm.RSAEncryptOrSign,
                          HashAlgorithm.SHA256, 'DEADBEEFDEADBEEF',
                          created=__import__('datetime').datetime(2020, 1, 2, 3, 4, 5,
                                                                  tzinfo=__import__('datetime').timezone.utc))
out.append(('signew', s.signer, s.type, s.key_algorithm, s.hash_algorithm, str(s.created),
            bytes(s._signature.subpackets.__bytearray__()).hex()))

blob = '\n'.join(repr(o) for o in out)
if '-v' in sys.argv:
    print(blob)
print(len(out), hashlib.sha256(blob.encode('utf-8')).hexdigest())
