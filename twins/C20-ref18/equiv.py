import glob
import hashlib
import os
import sys
import warnings

sys.path.insert(0, os.getcwd())

import copy
from datetime import datetime, timezone

import pgpy
from pgpy import PGPKey, PGPMessage, PGPSignature
from pgpy.constants import CompressionAlgorithm, HashAlgorithm, SymmetricKeyAlgorithm
from pgpy.packet import Packet
from pgpy.packet.types import Header
from pgpy.types import Header as BaseHeader, SorteDeque

warnings.simplefilter('ignore')

H = hashlib.sha256()


LOG = open(os.environ["EQLOG"], "w") if os.environ.get("EQLOG") else None


def emit(label, *vals):
    if LOG:
        LOG.write(repr((label,) + vals)[:3000000] + "\n")
    H.update(repr((label,) + vals).encode('utf-8'))


def attempt(label, fn):
    try:
        emit(label, 'ok', fn())
    except Exception as e:
        emit(label, 'exc', type(e).__name__, str(e))


FIXED = datetime(2020, 2, 3, 4, 5, 6, tzinfo=timezone.utc)

# ---- header length codec
for n in list(range(0, 400)) + [8382, 8383, 8384, 8385, 65535, 65536, 70000, 2 ** 24, 2 ** 32 - 1]:
    attempt(('enc-new', n), lambda: bytes(BaseHeader.encode_length(n)))
    for llen in (0, 1, 2, 4):
        attempt(('enc-old', n, llen), lambda: bytes(BaseHeader.encode_length(n, False, llen)))
        attempt(('enc-old0', n, llen), lambda: bytes(BaseHeader.encode_length(n, 0, llen)))

for first in (0x88, 0x89, 0x8a, 0x8b, 0xac, 0xad, 0xae, 0xaf, 0xcb, 0xc8, 0xc4, 0xd2):
    for body in (b'\x05hello', b'\x00\x05hello', b'\x00\x00\x00\x05hello', b'\xc0\x05' + b'x' * 200, b'\xff\x00\x00\x01\x00' + b'y' * 256,
                 b'\xe1ab\x03cde', b'hello'):
        def hp():
            h = Header()
            buf = bytearray([first]) + bytearray(body)
            h.parse(buf)
            out = [int(h.tag), h.length, h.llen, h._lenfmt, len(h), bytes(h.__bytearray__()), bytes(buf)]
            for ln in (0, 1, 191, 192, 255, 256, 8383, 8384, 65535, 65536, 2 ** 24):
                h.length = ln
                out.append((h.llen, len(h), bytes(h.__bytearray__())))
            return out
        attempt(('hdr', first, body[:6]), hp)

h = Header()
for v in (0, 1, 2, 3, 4, -1):
    def setll():
        h._lenfmt = 0
        h.llen = v
        return h._llen
    attempt(('llen-set', v), setll)


# ---- SorteDeque
class K(object):
    def __init__(self, k, tag):
        self.k, self.tag = k, tag

    def __lt__(self, other):
        return self.k < other.k


sd = SorteDeque()
for i, k in enumerate([5, 1, 5, 3, 9, 1, 0, 9, 5, 4, 4, 10, -1]):
    sd.insort(K(k, i))
    emit('sd', [(x.k, x.tag) for x in sd])

# ---- keys
rsa, _ = PGPKey.from_file('tests/testdata/keys/rsa.1.sec.asc')
rsapub, _ = PGPKey.from_file('tests/testdata/keys/rsa.1.pub.asc')
dsa, _ = PGPKey.from_file('tests/testdata/keys/dsa.1.sec.asc')
ecc, _ = PGPKey.from_file('tests/testdata/keys/ecc.1.sec.asc')


def describe(msg):
    out = [msg.type, msg.is_compressed, msg.is_encrypted, msg.is_signed, msg.is_sensitive, msg.filename, msg.magic,
           sorted(msg.signers), sorted(msg.encrypters), sorted(msg.issuers), repr(msg._compression),
           list(msg.ascii_headers.items()), msg.charset, len(msg.signatures)]
    m = msg.message
    if isinstance(m, (str, bytes, bytearray)):
        out.append((type(m).__name__, bytes(m) if not isinstance(m, str) else m))
    else:
        out.append(type(m).__name__)
    if msg.type == 'literal':
        out.append((msg._message.format, msg._message.mtime, bytes(msg._message._contents), msg._message.header.length))
    sd = msg._signed_data
    out.append(bytes(sd) if isinstance(sd, (bytes, bytearray)) else (sd if isinstance(sd, str) else type(sd).__name__))
    return out


def structure(msg, sigbytes=True):
    # packet level view of the export
    out = []
    for pkt in msg:
        name = type(pkt).__name__
        if name == 'PGPSignature':
            out.append((name, pkt.signer, int(pkt.type), int(pkt.hash_algorithm), int(pkt.key_algorithm), pkt.created,
                        bytes(pkt) if sigbytes else None))
        elif name == 'OnePassSignatureV3':
            out.append((name, bytes(pkt.__bytearray__()), pkt.nested, pkt.signer, len(pkt)))
        elif name in ('LiteralData',):
            out.append((name, bytes(pkt.__bytearray__()), len(pkt)))
        else:
            out.append((name, len(pkt)))
    return out


def nomdc(msg):
    # the MDC of a decrypted message hashes the random CFB prefix: leave it out of the digest
    return b''.join(bytes(p.__bytearray__()) for p in msg if type(p).__name__ != 'MDC')


contents = [
    ('empty', '', {}),
    ('ascii', 'This is a simple message.\r\nwith two lines  \n', {}),
    ('utf8', u'caf\xe9 ☃ \U0001f600', {}),
    ('bin', bytes(bytearray(range(256))) * 5, {}),
    ('binfmt-t', b'ascii bytes', {'format': 't'}),
    ('latin', u'caf\xe9'.encode('latin-1'), {'format': 'u', 'encoding': 'latin-1'}),
    ('sens', 'for your eyes only', {'sensitive': True}),
    ('big', b'\x00\x01abc' * 30000, {}),
    ('file', 'tests/testdata/files/literal.1.txt', {'file': True}),
    ('filebin', 'tests/testdata/files/literal.bin', {'file': True}),
    ('nofile', 'tests/testdata/files/does-not-exist', {'file': True}),
    ('badenc', 'x', {'encoding': 'no-such-codec'}),
    ('badtype', 12345, {}),
    ('none', None, {}),
]

for label, content, kw in contents:
    for comp in list(CompressionAlgorithm):
        def build():
            msg = PGPMessage.new(content, compression=comp, **kw)
            if msg.type == 'literal':
                msg._message.mtime = FIXED
            out = [describe(msg), structure(msg), bytes(msg), str(msg)]
            # 0..3 RSA signers at equal / differing times
            for n, created in enumerate([FIXED, FIXED, datetime(2019, 1, 1, tzinfo=timezone.utc)]):
                with warnings.catch_warnings():
                    warnings.simplefilter('ignore')
                    sig = rsa.sign(msg, created=created, hash=[HashAlgorithm.SHA256, HashAlgorithm.SHA512, HashAlgorithm.SHA1][n])
                msg |= sig
                out.append((n, describe(msg), structure(msg), bytes(msg), str(msg)))
                back = PGPMessage.from_blob(bytes(msg))
                out.append(('rt-bin', describe(back), structure(back), bytes(back)))
                back = PGPMessage.from_blob(str(msg))
                out.append(('rt-asc', describe(back), structure(back), bytes(back)))
                cp = copy.copy(msg)
                out.append(('copy', describe(cp), structure(cp), bytes(cp), str(cp)))
            return out
        attempt(('build', label, int(comp)), build)

# mixed signers (non deterministic signature bytes are left out of the digest)
msg = PGPMessage.new('mixed signers', compression=CompressionAlgorithm.ZLIB)
msg._message.mtime = FIXED
for key, created in ((dsa, FIXED), (rsa, datetime(2021, 1, 1, tzinfo=timezone.utc)), (ecc, datetime(2018, 1, 1, tzinfo=timezone.utc))):
    msg |= key.sign(msg, created=created)
    emit('mixed', describe(msg), structure(msg, sigbytes=False))
    back = PGPMessage.from_blob(bytes(msg))
    emit('mixed-rt', describe(back), structure(back, sigbytes=False))

# cleartext
for label, content in (('ct', 'cleartext body\n- dash line\ntrailing ws  \t\nend'), ('ct-empty', ''), ('ct-utf8', u'caf\xe9 ☃')):
    def ct():
        msg = PGPMessage.new(content, cleartext=True)
        out = [describe(msg), structure(msg), bytes(msg), str(msg)]
        msg |= rsa.sign(msg, created=FIXED)
        msg |= rsa.sign(msg, created=datetime(2019, 1, 1, tzinfo=timezone.utc), hash=HashAlgorithm.SHA512)
        out += [describe(msg), structure(msg), bytes(msg), str(msg)]
        cp = copy.copy(msg)
        out += [describe(cp), structure(cp), bytes(cp), str(cp)]
        try:
            back = PGPMessage.from_blob(str(msg))
            out += [describe(back), structure(back), bytes(back), str(back)]
        except Exception as e:
            out.append((type(e).__name__, str(e)))
        return out
    attempt(('cleartext', label), ct)

# fixture messages
for fn in sorted(glob.glob('tests/testdata/messages/*')):
    def load():
        with warnings.catch_warnings(record=True) as w:
            warnings.simplefilter('always')
            msg = PGPMessage.from_file(fn)
            out = [describe(msg), structure(msg), bytes(msg), str(msg)]
            cp = copy.copy(msg)
            out += [describe(cp), structure(cp), bytes(cp)]
            out.append([(x.category.__name__, str(x.message)) for x in w])
        return out
    attempt(('fixture', os.path.basename(fn)), load)

# encryption / decryption round trips (ciphertext is random: digest the shape and the decrypted result)
sk = b'\x11' * 32
for comp in (CompressionAlgorithm.Uncompressed, CompressionAlgorithm.ZIP):
    def enc():
        out = []
        msg = PGPMessage.new('secret text', compression=comp)
        msg._message.mtime = FIXED
        msg |= rsa.sign(msg, created=FIXED)
        e1 = msg.encrypt('QwertyUiop', sessionkey=sk)
        out.append((describe(e1)[:-2], [type(p).__name__ for p in e1]))
        e2 = e1.encrypt('AsdfGhjkl', sessionkey=sk)
        out.append((describe(e2)[:-2], [type(p).__name__ for p in e2], e2 is e1))
        for pw in ('QwertyUiop', 'AsdfGhjkl'):
            d = PGPMessage.from_blob(bytes(e2)).decrypt(pw)
            out.append((describe(d), structure(d), nomdc(d)))
        try:
            e2.decrypt('wrong')
        except Exception as e:
            out.append((type(e).__name__, str(e)))
        try:
            msg.decrypt('QwertyUiop')
        except Exception as e:
            out.append((type(e).__name__, str(e)))
        with warnings.catch_warnings(record=True) as w:
            warnings.simplefilter('always')
            e3 = rsapub.encrypt(msg, sessionkey=sk, cipher=SymmetricKeyAlgorithm.AES256)
            out.append((describe(e3)[:-2], [type(p).__name__ for p in e3]))
            d3 = rsa.decrypt(PGPMessage.from_blob(str(e3)))
            out.append((describe(d3), structure(d3), nomdc(d3)))
            same = rsa.decrypt(msg)
            out.append(same is msg)
            out.append([(x.category.__name__, str(x.message)) for x in w])
        return out
    attempt(('encrypt', int(comp)), enc)

for fn, pw in (('tests/testdata/messages/message.nomdc.pass.asc', 'QwertyUiop'),
               ('tests/testdata/messages/message.literal.nomdc.pass.cast5.asc', 'QwertyUiop'),
               ('tests/testdata/messages/message.rsa.dsa.pass.aes.asc', 'QwertyUiop')):
    def dec():
        m = PGPMessage.from_file(fn)
        d = m.decrypt(pw)
        return [describe(d), structure(d, sigbytes=True), nomdc(d)]
    attempt(('decrypt-fixture', fn), dec)

for fn in ('message.rsa.cast5.asc', 'message.rsa.cast5.no-mdc.asc', 'message.rsa.dsa.3des.asc', 'message.rsa.dsa.pass.aes.asc'):
    def deck():
        m = PGPMessage.from_file('tests/testdata/messages/' + fn)
        d = rsa.decrypt(m)
        return [describe(d), structure(d), nomdc(d)]
    attempt(('decrypt-key', fn), deck)

# encryption error cases
attempt('enc-empty-pass', lambda: PGPMessage().encrypt('pw', sessionkey=sk))
attempt('enc-empty-key', lambda: rsapub.encrypt(PGPMessage(), sessionkey=sk))
attempt('enc-idea', lambda: PGPMessage.new('x').encrypt('pw', cipher=SymmetricKeyAlgorithm.IDEA))
attempt('enc-plain', lambda: PGPMessage.new('x').encrypt('pw', cipher=SymmetricKeyAlgorithm.Plaintext))
attempt('enc-key-idea', lambda: rsapub.encrypt(PGPMessage.new('x'), cipher=SymmetricKeyAlgorithm.IDEA))
attempt('dec-nokeys', lambda: (PGPMessage() | PGPMessage.new('x').encrypt('pw', sessionkey=sk)._message).decrypt('pw'))
attempt('dec-cleartext', lambda: PGPMessage.new('x', cleartext=True).decrypt('pw'))


def pk_then_pass():
    # a message encrypted to a key only has no SKESK: passphrase decryption must fail the same way
    e = rsapub.encrypt(PGPMessage.new('x'), sessionkey=sk, cipher=SymmetricKeyAlgorithm.AES256)
    try:
        e.decrypt('pw')
    except Exception as ex:
        r = (type(ex).__name__, str(ex))
    e2 = e.encrypt('pw', sessionkey=sk)
    d = e2.decrypt('pw')
    return [r, [type(p).__name__ for p in e2], e2 is e, describe(d)[:-2], d.message, rsa.decrypt(e2).message]


attempt('pk-then-pass', pk_then_pass)

# composition errors / ignored packets
for label, other in (('int', 5), ('none', None), ('key', rsapub)):
    def bad():
        m = PGPMessage()
        m |= other
        return describe(m)
    attempt(('or-bad', label), bad)


def second_literal():
    m = PGPMessage.new('a', compression=CompressionAlgorithm.Uncompressed)
    m |= PGPMessage.new('b')._message
    return describe(m)


attempt('or-second-literal', second_literal)
attempt('empty-type', lambda: PGPMessage().type)
attempt('empty-bytes', lambda: bytes(PGPMessage()))
attempt('parse-key-as-msg', lambda: PGPMessage.from_file('tests/testdata/keys/rsa.1.pub.asc'))

print(H.hexdigest())
