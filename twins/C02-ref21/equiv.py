# Deterministic probe for property C02 (signature creation / hash input / verification).
import copy
import glob
import hashlib
import os
import sys
import warnings
from datetime import datetime, timedelta, timezone

sys.path.insert(0, os.getcwd())
warnings.simplefilter('ignore')

import pgpy
from pgpy import PGPKey, PGPMessage, PGPSignature, PGPUID
from pgpy.constants import (CompressionAlgorithm, HashAlgorithm, KeyFlags, PubKeyAlgorithm, RevocationReason,
                            SignatureType, SymmetricKeyAlgorithm, TrustLevel, KeyServerPreferences, Features)
from pgpy.packet import fields
from pgpy.types import Fingerprint

print('pgpy from cwd:', os.path.dirname(os.path.abspath(pgpy.__file__)) == os.path.join(os.getcwd(), 'pgpy'))

T0 = datetime(2020, 1, 2, 3, 4, 5, tzinfo=timezone.utc)
DETERMINISTIC = {PubKeyAlgorithm.RSAEncryptOrSign, PubKeyAlgorithm.EdDSA}


def h(b):
    return hashlib.sha256(bytes(b)).hexdigest()[:24]


def load(path):
    k, _ = PGPKey.from_file(path)
    return k


KEYS = {}
for name in ('rsa.1', 'dsa.1', 'ecc.1', 'ecc.2', 'mixed.1'):
    KEYS[name] = load('tests/testdata/keys/%s.sec.asc' % name)
KEYS['targette'] = load('tests/testdata/keys/targette.sec.rsa.asc')
PUBS = {n: k.pubkey for n, k in KEYS.items()}


def describe(tag, key, sig, subject, vsubject=None, verifier=None):
    """print deterministic facts about sig and verify it after a round trip"""
    vsubject = subject if vsubject is None else vsubject
    verifier = key.pubkey if verifier is None else verifier
    out = [tag]
    try:
        hd = sig.hashdata(subject)
        out.append('hd=%d:%s' % (len(hd), h(hd)))
        hh = sig.hash_algorithm.hasher
        hh.update(hd)
        out.append('left16=%s' % (bytes(hh.digest()[:2]) == bytes(sig.hash2)))
    except Exception as e:
        out.append('hd-exc=' + type(e).__name__)
    out.append('type=%s halg=%s palg=%s' % (sig.type.name, sig.hash_algorithm.name, sig.key_algorithm.name))
    out.append('hashed=%s' % ','.join(sp.__class__.__name__ for sp in sig._signature.subpackets._hashed_sp.values()))
    out.append('unhashed=%s' % ','.join(sp.__class__.__name__ for sp in sig._signature.subpackets._unhashed_sp.values()))
    out.append('hspbytes=%s' % h(sig._signature.subpackets.__hashbytearray__()))
    if sig.key_algorithm in DETERMINISTIC:
        if 'EmbeddedSignature' not in sig._signature.subpackets:  # cross-signatures are stamped with the current time
            out.append('bytes=%s' % h(bytes(sig)))
        out.append('sigfield=%s' % h(sig._signature.signature.__sig__()))
        out.append('canon=%s' % h(sig._signature.canonical_bytes()))
    else:
        out.append('len-ok=%s' % (len(bytes(sig)) == len(sig._signature.header.__bytearray__()) + sig._signature.header.length))
    # round trip
    blob = str(sig)
    sig2 = PGPSignature.from_blob(blob)
    out.append('rt-bytes=%s' % (bytes(sig2) == bytes(sig)))
    for nm, s in (('v', sig), ('v-rt', sig2)):
        try:
            sv = verifier.verify(vsubject, s)
            out.append('%s=%s' % (nm, bool(sv)))
        except Exception as e:
            out.append('%s-exc=%s' % (nm, type(e).__name__))
    print(' | '.join(out))
    return sig


SUBJECTS = [
    ('empty', b''),
    ('ascii', b'hello world'),
    ('bytearray', bytearray(b'\x00\x01\x02\xff' * 7)),
    ('str', 'plain text string'),
    ('utf8', 'grüße 世界 \U0001f511'),
    ('lf', 'line one\nline two\n'),
    ('crlf', 'line one\r\nline two\r\n'),
    ('cr', 'line one\rline two\r'),
    ('mixed', 'a\r\nb\nc\rd\n\r\n\n'),
    ('trail-ws', 'ends with spaces   \n\ttabs\t\n'),
    ('big', bytes(range(256)) * 300),
]

print('== document signatures, every key x every hash')
HASHES = [HashAlgorithm.SHA1, HashAlgorithm.SHA224, HashAlgorithm.SHA256, HashAlgorithm.SHA384, HashAlgorithm.SHA512,
          HashAlgorithm.RIPEMD160, HashAlgorithm.MD5]
for kn, key in KEYS.items():
    for ha in HASHES:
        for sn, subj in SUBJECTS[:5]:
            try:
                sig = key.sign(subj, hash=ha, created=T0)
            except Exception as e:
                print('sign %s %s %s: exc %s' % (kn, ha.name, sn, type(e).__name__))
                continue
            describe('sign %s %s %s' % (kn, ha.name, sn), key, sig, subj)

print('== all subjects, default hash')
for kn, key in KEYS.items():
    for sn, subj in SUBJECTS:
        sig = key.sign(subj, created=T0)
        describe('sign %s default %s' % (kn, sn), key, sig, subj)

print('== messages: literal and cleartext')
for kn, key in KEYS.items():
    for sn, subj in SUBJECTS:
        if isinstance(subj, (bytes, bytearray)) and sn in ('bytearray', 'big'):
            texts = [False]
        else:
            texts = [False, True]
        for ct in texts:
            try:
                msg = PGPMessage.new(subj, cleartext=ct, compression=CompressionAlgorithm.Uncompressed)
            except Exception as e:
                print('msg %s %s ct=%s: new-exc %s' % (kn, sn, ct, type(e).__name__))
                continue
            try:
                sig = key.sign(msg, created=T0, hash=HashAlgorithm.SHA256)
            except Exception as e:
                print('msg %s %s ct=%s: sign-exc %s' % (kn, sn, ct, type(e).__name__))
                continue
            describe('msg %s %s ct=%s' % (kn, sn, ct), key, sig, msg._signed_data, vsubject=msg._signed_data)
            msg |= sig
            try:
                msg2 = PGPMessage.from_blob(str(msg))
                print('   msg-rt verify=%s nsigs=%d' % (bool(key.pubkey.verify(msg2)), len(msg2.signatures)))
            except Exception as e:
                print('   msg-rt verify-exc=%s' % type(e).__name__)

print('== timestamp / standalone and options')
OPTS = [
    ('none', {}),
    ('expires-td', dict(expires=timedelta(days=3))),
    ('expires-dt', dict(expires=datetime(2031, 5, 6, 7, 8, 9, tzinfo=timezone.utc))),
    ('notation', dict(notation={'a@b.c': 'value', 'bin@b.c': bytearray(b'\x00\x01')})),
    ('policy', dict(policy_uri='https://example.org/policy?x=é')),
    ('nonrevocable', dict(revocable=False)),
    ('nofpr', dict(include_issuer_fingerprint=False)),
    ('recipients', dict(intended_recipients=[PUBS['rsa.1'], PUBS['ecc.2'].fingerprint, 'bogus'])),
    ('all', dict(expires=timedelta(hours=1), notation={'n@x': 'v'}, policy_uri='p', revocable=False,
                 intended_recipients=[PUBS['dsa.1']], include_issuer_fingerprint=False)),
]
for kn, key in KEYS.items():
    for on, o in OPTS:
        for sn, subj in (('none', None), ('doc', b'document\n')):
            sig = key.sign(subj, created=T0, **copy.copy(o))
            describe('opt %s %s %s' % (kn, on, sn), key, sig, subj)
    uidname = next(iter(key.userids)).name
    try:
        sig = key.sign(b'with user', created=T0, user=uidname)
        describe('opt %s user' % kn, key, sig, b'with user')
    except Exception as e:
        print('opt %s user: exc %s' % (kn, type(e).__name__))

print('== certifications')
CERT_OPTS = [
    ('none', {}),
    ('trust', dict(trust=(1, 60))),
    ('trust-regex', dict(trust=(2, 120), regex='<[^>]+[@.]example\\.com>$')),
    ('local', dict(exportable=False)),
    ('prefs', dict(usage={KeyFlags.Sign, KeyFlags.Certify}, ciphers=[SymmetricKeyAlgorithm.AES256, SymmetricKeyAlgorithm.AES128],
                   hashes=[HashAlgorithm.SHA512, HashAlgorithm.SHA256], compression=[CompressionAlgorithm.ZLIB],
                   key_expiration=timedelta(days=400), keyserver='hkps://keys.example.org', primary=True,
                   keyserver_flags={KeyServerPreferences.NoModify}, features={Features.ModificationDetection})),
    ('notation-exp', dict(notation={'k@e': 'v'}, expires=timedelta(days=9), policy_uri='https://p')),
]
LEVELS = [SignatureType.Generic_Cert, SignatureType.Persona_Cert, SignatureType.Casual_Cert, SignatureType.Positive_Cert]
for kn, key in KEYS.items():
    # self-certification of every uid
    for i, uid in enumerate(list(key.userids) + list(key.userattributes)):
        for lvl in LEVELS:
            for on, o in CERT_OPTS:
                try:
                    sig = key.certify(uid, level=lvl, created=T0, **copy.deepcopy(o))
                except Exception as e:
                    print('selfcert %s uid%d %s %s: exc %s' % (kn, i, lvl.name, on, type(e).__name__))
                    continue
                describe('selfcert %s uid%d %s %s' % (kn, i, lvl.name, on), key, sig, uid)
    # third-party certification of the other keys' uids and keys
    for on_, other in PUBS.items():
        if on_ == kn:
            continue
        ouid = next(iter(other.userids))
        for on, o in CERT_OPTS[:4]:
            sig = key.certify(ouid, level=SignatureType.Casual_Cert, created=T0, **copy.deepcopy(o))
            describe('cert %s->%s uid %s' % (kn, on_, on), key, sig, ouid)
        sig = key.certify(other, created=T0)
        describe('cert %s->%s key' % (kn, on_), key, sig, other)

print('== new user ids with arbitrary UTF-8 and a user attribute')
with open('tests/testdata/simple.jpg', 'rb') as f:
    JPG = bytearray(f.read())
for kn in ('rsa.1', 'ecc.2', 'dsa.1'):
    key = copy.copy(KEYS[kn])
    new = [PGPUID.new('Jürgen Ø', comment='世界', email='j@exämple.org'),
           PGPUID.new(''), PGPUID.new('x' * 300, email='long@example.org'), PGPUID.new(JPG)]
    for i, u in enumerate(new):
        key.add_uid(u, usage={KeyFlags.Sign}, hashes=[HashAlgorithm.SHA256], created=T0, selfsign=True)
        ss = u.selfsig
        describe('newuid %s %d' % (kn, i), key, ss, u)
    key2 = PGPKey.from_blob(str(key))[0]
    try:
        sv = key2.pubkey.verify(key2.pubkey)
        print('newuid %s whole-key verify=%s n=%d' % (kn, bool(sv), len(list(sv.good_signatures))))
    except Exception as e:
        print('newuid %s whole-key exc %s' % (kn, type(e).__name__))

print('== revocations, revokers, direct key, bindings')
for kn in KEYS:
    key = copy.copy(KEYS[kn])
    for rn, o in (('none', {}), ('reason', dict(reason=RevocationReason.Compromised, comment='lost ü')),
                  ('retired', dict(reason=RevocationReason.Retired, comment=''))):
        sig = key.revoke(key, created=T0, **o)
        describe('revoke %s key %s' % (kn, rn), key, sig, key, vsubject=key.pubkey)
        uid = next(iter(key.userids))
        try:
            sig = key.revoke(uid, created=T0, **dict(o, reason=RevocationReason.UserID) if rn == 'reason' else o)
            describe('revoke %s uid %s' % (kn, rn), key, sig, uid)
        except Exception as e:
            print('revoke %s uid %s: exc %s' % (kn, rn, type(e).__name__))
        for si, (sid, sk) in enumerate(key.subkeys.items()):
            sig = key.revoke(sk, created=T0, **o)
            describe('revoke %s sub%d %s' % (kn, si, rn), key, sig, sk, vsubject=sk)
    for on_, other in PUBS.items():
        if on_ == kn:
            continue
        for sens in (False, True):
            sig = key.revoker(other, sensitive=sens, created=T0)
            describe('revoker %s<-%s sens=%s' % (kn, on_, sens), key, sig, key, vsubject=key.pubkey)
        break
    for si, (sid, sk) in enumerate(key.subkeys.items()):
        for on, o in (('none', {}), ('usage', dict(usage={KeyFlags.EncryptCommunications}, key_expiration=timedelta(days=30))),
                      ('cross', dict(usage={KeyFlags.Sign}, crosssign=True)), ('nocross', dict(usage={KeyFlags.Sign}, crosssign=False))):
            try:
                sig = key.bind(sk, created=T0, **copy.deepcopy(o))
            except Exception as e:
                print('bind %s sub%d %s: exc %s' % (kn, si, on, type(e).__name__))
                continue
            describe('bind %s sub%d %s' % (kn, si, on), key, sig, sk, vsubject=sk)
            for esig in sig._signature.subpackets['EmbeddedSignature']:
                print('   embedded type=%s hd=%s' % (SignatureType(esig._sig.sigtype).name, esig._sig.hash2 is not None))
        # subkey signing
        if sk.key_algorithm.can_sign and KeyFlags.Sign in sk._get_key_flags():
            sig = sk.sign(b'signed by subkey', created=T0)
            describe('subsign %s sub%d' % (kn, si), key, sig, b'signed by subkey')

print('== hashdata for every signature type on a fresh signature object')
key = KEYS['rsa.1']
uid = next(iter(key.userids))
sub = next(iter(key.subkeys.values()))
for st in SignatureType:
    for sn, subj in (('bytes', b'ab\ncd'), ('str', 'ab\ncd'), ('uid', uid), ('key', key), ('sub', sub), ('none', None)):
        s = PGPSignature.new(st, PubKeyAlgorithm.RSAEncryptOrSign, HashAlgorithm.SHA256, key.fingerprint.keyid, created=T0)
        try:
            hd = s.hashdata(subj)
            print('hashdata %s %s: %d %s' % (st.name, sn, len(hd), h(hd)))
        except Exception as e:
            print('hashdata %s %s: exc %s' % (st.name, sn, type(e).__name__))

print('== from_signer / __sig__ for each signature field class')
der = bytes.fromhex('3006020101020102')
for cls, raw in ((fields.RSASignature, b'\x01\x02\x03'), (fields.RSASignature, b'\x00\x00\x7f'), (fields.RSASignature, bytearray(b'\xff' * 256)),
                 (fields.DSASignature, der), (fields.DSASignature, bytearray(der)),
                 (fields.DSASignature, bytes.fromhex('30460221' + '00' + 'ff' * 32 + '0221' + '00' + 'fe' * 32)),
                 (fields.DSASignature, b'\x31\x00'), (fields.DSASignature, b'\x30\x03\x04\x01\x01'),
                 (fields.ECDSASignature, der), (fields.ECDSASignature, bytes.fromhex('30460221' + '00' + 'ff' * 32 + '0221' + '00' + 'fe' * 32)),
                 (fields.ECDSASignature, b'\x31\x00'),
                 (fields.EdDSASignature, bytes(range(64))), (fields.EdDSASignature, b'\x00' * 63 + b'\x01'), (fields.EdDSASignature, b'abc'),
                 (fields.EdDSASignature, b''),
                 (fields.OpaqueSignature, b'\x00\x01opaque'), (fields.OpaqueSignature, bytearray(b'xyz'))):
    o = cls()
    try:
        o.from_signer(copy.copy(raw))
        print('%s %s: bytes=%s sig=%s' % (cls.__name__, bytes(raw)[:6].hex(), bytes(o.__bytearray__()).hex()[:80], bytes(o.__sig__()).hex()[:80]))
        c = copy.copy(o)
        print('   copy-eq=%s' % (bytes(c.__bytearray__()) == bytes(o.__bytearray__())))
    except Exception as e:
        print('%s %s: exc %s' % (cls.__name__, bytes(raw)[:6].hex(), type(e).__name__))

print('== existing signatures and messages from the test data')
for base in ('aptapproval-test', 'debian-sid', 'ubuntu-precise'):
    k = load('tests/testdata/signatures/%s.key.asc' % base)
    s = PGPSignature.from_file('tests/testdata/signatures/%s.sig.asc' % base)
    with open('tests/testdata/signatures/%s.subj' % base, 'rb') as f:
        subj = f.read()
    print('%s: verify=%s hd=%s bytes=%s canon=%s' % (base, bool(k.verify(subj, s)), h(s.hashdata(subj)), h(bytes(s)), h(s._signature.canonical_bytes())))
    print('   tampered verify=%s' % bool(k.verify(subj + b'x', s)))
for f in sorted(glob.glob('tests/testdata/messages/*signed*.asc')):
    m = PGPMessage.from_file(f)
    for kn, pk in PUBS.items():
        try:
            sv = pk.verify(m)
            print('%s %s: %s' % (os.path.basename(f), kn, bool(sv)))
        except Exception as e:
            print('%s %s: exc %s' % (os.path.basename(f), kn, type(e).__name__))
for f in sorted(glob.glob('tests/testdata/keys/*.pub.asc')) + ['tests/testdata/keys/targette.pub.rsa.asc']:
    k = load(f)
    try:
        sv = k.verify(k)
        print('%s self-verify=%s n=%d' % (os.path.basename(f), bool(sv), len(list(sv.good_signatures))))
    except Exception as e:
        print('%s self-verify exc %s' % (os.path.basename(f), type(e).__name__))
    for s in k.self_signatures:
        print('   selfsig %s canon=%s' % (s.type.name, h(s._signature.canonical_bytes())))
for f in sorted(glob.glob('tests/testdata/revocations/*.asc')):
    try:
        s = PGPSignature.from_file(f)
        print('%s type=%s bytes=%s' % (os.path.basename(f), s.type.name, h(bytes(s))))
    except Exception as e:
        print('%s exc %s' % (os.path.basename(f), type(e).__name__))

print('== error paths')
s = PGPSignature.new(SignatureType.Attestation, PubKeyAlgorithm.RSAEncryptOrSign, HashAlgorithm.SHA256, key.fingerprint.keyid, created=T0)
for bad in (None, b'x', 'str', 5, key):
    try:
        print('attests_to %r: %s' % (type(bad).__name__, s.attests_to(bad)))
    except Exception as e:
        print('attests_to %s: exc %s' % (type(bad).__name__, type(e).__name__))
try:
    PUBS['rsa.1'].sign(b'x')
except Exception as e:
    print('pub sign: exc %s' % type(e).__name__)
enc = load('tests/testdata/keys/rsa.1.enc.asc')
try:
    enc.sign(b'x')
except Exception as e:
    print('locked sign: exc %s' % type(e).__name__)

print('== repr, warnings and rejected inputs (class names only)')
import re as _re
for kn in ('rsa.1', 'ecc.2'):
    sg = KEYS[kn].sign(b'repr', created=T0)
    print('repr %s: %s' % (kn, _re.sub(r'0x[0-9a-fA-F]+', '0xADDR', repr(sg))))
    print('repr sigfield %s: %s' % (kn, type(sg._signature.signature).__name__))
for kn, key in KEYS.items():
    for rn, rcpts in (('bogus-str', ['bogus']), ('none', [None]), ('int+key', [5, PUBS['rsa.1']]), ('fpr', [PUBS['dsa.1'].fingerprint]),
                      ('empty', [])):
        with warnings.catch_warnings(record=True) as w:
            warnings.simplefilter('always')
            sg = key.sign(b'recipients', created=T0, hash=HashAlgorithm.SHA256, intended_recipients=rcpts)
        print('rcpt %s %s: warnings=%s nrcpt=%d hd=%s v=%s' % (
            kn, rn, sorted(x.category.__name__ for x in w), len(sg._signature.subpackets['h_IntendedRecipient']),
            h(sg.hashdata(b'recipients')), bool(key.pubkey.verify(b'recipients', sg))))
    for nn, nt in (('dict', {'a@b': 'c'}), ('empty', {}), ('str', 'a@b=c'), ('list', [('a@b', 'c')]), ('int', 7)):
        try:
            sg = key.sign(b'notation', created=T0, hash=HashAlgorithm.SHA256, notation=nt)
            print('notation %s %s: n=%d hd=%s v=%s' % (kn, nn, len(sg._signature.subpackets['h_NotationData']), h(sg.hashdata(b'notation')),
                                                     bool(key.pubkey.verify(b'notation', sg))))
        except Exception as e:
            print('notation %s %s: rejected=%s' % (kn, nn, isinstance(e, (TypeError, AttributeError))))
for n in (1, 3, 63, 65):
    o = fields.EdDSASignature()
    try:
        o.from_signer(b'\x01' * n)
        print('eddsa odd %d: accepted' % n)
    except Exception as e:
        print('eddsa odd %d: exc %s' % (n, type(e).__name__))
for raw in (bytes.fromhex('3006020101020102'), bytearray.fromhex('300602017f0201ff')):
    o = fields.DSASignature()
    keep = bytes(raw)
    o.from_signer(raw)
    print('dsa from_signer %s: r=%d s=%d' % (keep.hex(), o.r, o.s))
try:
    KEYS['rsa.1'].subkeys
    ek = load('tests/testdata/keys/dsa.1.sec.asc')
    elg = [sk for sk in ek.subkeys.values() if sk.key_algorithm == PubKeyAlgorithm.ElGamal][0]
    elg.sign(b'x')
except Exception as e:
    print('elgamal sign: exc %s' % type(e).__name__)
print('done')
