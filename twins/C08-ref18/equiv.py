import copy
import glob
import hashlib
import os
import sys
import warnings

sys.path.insert(0, os.getcwd())
warnings.simplefilter('ignore')

import pgpy
from pgpy.packet import Packet
from pgpy.packet.types import MPI, MPIs
from pgpy.packet import fields

out = []


def note(*a):
    out.append(repr(a))


def show(v):
    # a stable description: no object addresses
    if isinstance(v, (int, str, bytes, bytearray, tuple, list, type(None))):
        return repr(v)
    if hasattr(v, 'to_mpibytes'):
        return (type(v).__name__, bytes(v.to_mpibytes()))
    return type(v).__name__


def attempt(label, fn):
    try:
        r = fn()
    except Exception as e:
        note(label, 'exc', type(e).__name__, str(e))
    else:
        note(label, 'ok', r)


# 1. MPI construction from wire data: what is decoded and what is left in the buffer
wire = [
    b'', b'\x00', b'\x00\x00', b'\x00\x01', b'\x00\x01\x01', b'\x00\x01\x01tail', b'\x00\x09\x01\xfftail',
    b'\x00\x10\x00\x01rest', b'\x00\x08\xff', b'\x00\x11\x01', b'\xff\xff' + b'\xab' * 20, b'\x00\x07\x7f\x00\x01\x01',
    b'\x04\x00' + bytes(range(128)) + b'\x00\x03\x05',
]
for w in wire:
    buf = bytearray(w)
    m = MPI(buf)
    note('ba', w, int(m), type(m).__name__, bytes(buf), len(m), m.byte_length(), bytes(m.to_mpibytes()))
    m2 = MPI(bytes(w))
    note('b', int(m2), type(m2).__name__)
    # several in a row from one buffer
    buf = bytearray(w * 3)
    seq = []
    while buf and len(seq) < 5:
        seq.append(int(MPI(buf)))
    note('seq', seq, bytes(buf))

# 2. MPI from numbers and other things
for v in (0, 1, 255, 256, 65537, 2 ** 64 - 1, 2 ** 2048 + 17, True, MPI(5), 3.0, 3.7):
    attempt(('num', repr(v)), lambda: (int(MPI(v)), type(MPI(v)).__name__, len(MPI(v)), bytes(MPI(v).to_mpibytes())))
for v in (-1, -256, 'abc', '12', None, [1], (1, 2), memoryview(b'\x00\x01\x01')):
    attempt(('odd', show(v)), lambda: (int(MPI(v)), bytes(MPI(v).to_mpibytes())))
attempt('noarg', lambda: MPI())
attempt('pickle', lambda: __import__('pickle').loads(__import__('pickle').dumps(MPI(77))) == 77)
attempt('copy', lambda: (type(copy.copy(MPI(9))).__name__, int(copy.deepcopy(MPI(9)))))

# 3. MPI containers: fresh state, parse, length, iteration, copy
mpiblob = b'\x00\x11\x01\x00\x01' + b'\x00\x03\x05' + b'\x00\x09\x01\x23' + b'\x00\x00' + b'\x00\x20\xde\xad\xbe\xef' + b'TAIL'
for name in ('RSASignature', 'DSASignature', 'ECDSASignature', 'EdDSASignature', 'OpaqueSignature',
             'RSACipherText', 'ElGCipherText', 'ECDHCipherText', 'RSAPub', 'DSAPub', 'ElGPub',
             'RSAPriv', 'DSAPriv', 'ElGPriv'):
    cls = getattr(fields, name)
    obj = cls()
    attempt((name, 'fresh'), lambda: (sorted((k, repr(v)) for k, v in vars(obj).items() if isinstance(v, int)),
                                      bytes(obj.__bytearray__()), len(obj), [show(i) for i in obj]))
    if name in ('ECDHCipherText',):
        continue
    buf = bytearray(mpiblob)
    attempt((name, 'parse'), lambda: obj.parse(buf))
    attempt((name, 'parsed'), lambda: (bytes(buf), bytes(obj.__bytearray__()), len(obj), [show(i) for i in obj]))
    attempt((name, 'copy'), lambda: (bytes(copy.copy(obj).__bytearray__()), type(copy.copy(obj)).__name__))

sig = fields.RSASignature()
sig.from_signer(b'\x00\x01\x02\x03')
note('rsa from_signer', bytes(sig.__bytearray__()), bytes(sig.__sig__()), len(sig))
sig = fields.DSASignature()
sig.from_signer(b'\x30\x08\x02\x02\x01\x00\x02\x02\x00\x81')
note('dsa from_signer', bytes(sig.__bytearray__()), bytes(sig.__sig__()), len(sig))
sig = fields.EdDSASignature()
sig.from_signer(bytes(range(64)))
note('eddsa from_signer', bytes(sig.__bytearray__()), bytes(sig.__sig__()), len(sig))
ct = fields.RSACipherText.encrypt(lambda *a: b'\x00\x7f' + bytes(a[0]), b'\x01\x02')
note('rsa ct', bytes(ct.__bytearray__()), len(ct))

# 4. whole packets (with trailing data) and keys from the fixtures
for fn in sorted(glob.glob('tests/testdata/packets/*')):
    data = bytearray(open(fn, 'rb').read()) + b'TRAILING'
    try:
        pkt = Packet(data)
    except Exception as e:
        note(os.path.basename(fn), 'exc', type(e).__name__, str(e))
        continue
    note(os.path.basename(fn), type(pkt).__name__, bytes(data), hashlib.sha256(bytes(pkt.__bytearray__())).hexdigest(), len(pkt))
    for attr in ('signature', 'keymaterial', 'ct'):
        f = getattr(pkt, attr, None)
        if isinstance(f, MPIs):
            attempt((attr, 'field'), lambda: (type(f).__name__, len(f), bytes(f.__bytearray__()), [show(i) for i in f]))

for fn in sorted(glob.glob('tests/testdata/keys/*.asc')):
    key, _ = pgpy.PGPKey.from_file(fn)
    note(fn, hashlib.sha256(bytes(key)).hexdigest(), str(key.fingerprint))

if os.environ.get("DUMP"): open(os.environ["DUMP"], "w").write("\n".join(out))
print(len(out), hashlib.sha256('\n'.join(out).encode()).hexdigest())
