"""Behavioural digest of signature verification on fixed fixtures.

Run as:  cd <tree> && /venv/bin/python equiv.py
Prints one sha256 digest; it must be identical on the unchanged and the refactored tree.
"""
import glob
import hashlib
import os
import re
import sys
import warnings

sys.path.insert(0, os.getcwd())

import pgpy  # noqa: E402
from pgpy import PGPKey, PGPMessage, PGPSignature  # noqa: E402
from pgpy.constants import SecurityIssues  # noqa: E402
from cryptography.hazmat.primitives import hashes  # noqa: E402

TD = os.path.join(os.getcwd(), 'tests', 'testdata')
lines = []


def rec(*a):
    # memory addresses in reprs are the only run-dependent part of the output
    lines.append(re.sub(r' at 0x[0-9A-Fa-f]+', ' at 0xADDR', ' | '.join(str(x) for x in a)))


def describe_subject(s):
    if isinstance(s, PGPKey):
        return 'key:' + str(s.fingerprint)
    if isinstance(s, pgpy.PGPUID):
        return 'uid:' + ('U' if s.is_uid else 'A') + hashlib.sha256(bytes(s.hashdata)).hexdigest()[:16]
    if isinstance(s, (bytes, bytearray)):
        return 'bytes:' + hashlib.sha256(bytes(s)).hexdigest()[:16]
    if isinstance(s, str):
        return 'str:' + hashlib.sha256(s.encode('utf-8')).hexdigest()[:16]
    return type(s).__name__


def run(label, fn):
    with warnings.catch_warnings(record=True) as w:
        warnings.simplefilter('always')
        try:
            sv = fn()
        except Exception as e:  # exceptions are part of the observable behaviour
            rec(label, 'EXC', type(e).__name__, str(e))
            sv = None
        for x in w:
            rec(label, 'WARN', x.category.__name__, str(x.message))
    if sv is None:
        return
    rec(label, 'bool', bool(sv), 'len', len(sv), repr(sv))
    for ss in sv._subjects:
        rec(label, 'sigsubj', int(ss.issues), repr(ss.issues), str(ss.by.fingerprint),
            int(ss.signature.type), int(ss.signature.key_algorithm), int(ss.signature.hash_algorithm),
            bytes(ss.signature.__bytes__()).hex()[:64], describe_subject(ss.subject))
        try:
            rec(label, 'hashdata', hashlib.sha256(ss.signature.hashdata(ss.subject)).hexdigest())
        except Exception as e:
            rec(label, 'hashdata-EXC', type(e).__name__, str(e))
    rec(label, 'good', len(list(sv.good_signatures)), 'bad', len(list(sv.bad_signatures)))
    for ss in sv._subjects:
        try:
            rec(label, 'contains', ss.signature in sv)
        except Exception as e:
            rec(label, 'contains-EXC', type(e).__name__, str(e))


def read(p, mode='r'):
    with open(p, mode) as f:
        return f.read()


def load_key(p):
    with warnings.catch_warnings():
        warnings.simplefilter('ignore')
        k, _ = PGPKey.from_file(p)
    return k


# 1. every fixture public key verifies itself (certifications, direct-key sigs, subkey bindings, revocations)
keyfiles = sorted(glob.glob(os.path.join(TD, 'keys', '*.pub.asc')) +
                  glob.glob(os.path.join(TD, 'keys', '*.pub.*.asc')) +
                  glob.glob(os.path.join(TD, 'signatures', '*.key.asc')) +
                  [os.path.join(TD, 'pubtest.asc')] +
                  [os.path.join(TD, 'blocks', n) for n in ('rsapubkey.asc', 'dsapubkey.asc', 'eccpubkey.asc',
                                                           'openpgp.js.pubkey.asc', 'expyro.asc', 'revochiio.asc')])
keys = {}
for kf in keyfiles:
    name = os.path.relpath(kf, TD)
    try:
        k = load_key(kf)
    except Exception as e:
        rec(name, 'LOAD-EXC', type(e).__name__, str(e))
        continue
    keys[name] = k
    run('self:' + name, lambda: k.verify(k))
    for uid in list(k.userids) + list(k.userattributes):
        run('selfuid:' + name, lambda: k.verify(uid))
    # cross-key: no signatures by another key -> PGPError
    # each subkey verifying itself / the primary
    for skid, sk in k.subkeys.items():
        run('sub:' + name + ':' + str(skid), lambda: k.verify(sk))
        run('subself:' + name + ':' + str(skid), lambda: sk.verify(k))

# 2. detached signatures with matching / non matching subjects and keys
for stem in ('aptapproval-test', 'debian-sid', 'ubuntu-precise'):
    k = keys.get(os.path.join('signatures', stem + '.key.asc'))
    sig = PGPSignature.from_file(os.path.join(TD, 'signatures', stem + '.sig.asc'))
    subj = read(os.path.join(TD, 'signatures', stem + '.subj'), 'rb')
    run('det:' + stem, lambda: k.verify(subj, sig))
    run('det-bytearray:' + stem, lambda: k.verify(bytearray(subj), sig))
    run('det-mut:' + stem, lambda: k.verify(subj + b'x', sig))
    run('det-empty:' + stem, lambda: k.verify(b'', sig))
    run('det-none:' + stem, lambda: k.verify(None, sig))
    try:
        run('det-str:' + stem, lambda: k.verify(subj.decode('utf-8'), sig))
    except UnicodeDecodeError:
        pass
    for other in sorted(keys):
        if keys[other] is not k:
            run('det-wrongkey:' + stem + ':' + other, lambda: keys[other].verify(subj, sig))

ecc2 = keys.get(os.path.join('keys', 'ecc.2.pub.asc'))
sig = PGPSignature.from_file(os.path.join(TD, 'signatures', 'ecc.2.sig.asc'))
run('ecc2-sig', lambda: ecc2.verify('', sig))
run('ecc2-sig-key', lambda: ecc2.verify(ecc2, sig))
for other in sorted(keys):
    run('ecc2-sig-x:' + other, lambda: keys[other].verify(keys[other], sig))

# 3. messages carrying signatures
for mf in sorted(glob.glob(os.path.join(TD, 'messages', '*signed*.asc')) +
                 glob.glob(os.path.join(TD, 'blocks', '*signed*.asc')) +
                 glob.glob(os.path.join(TD, 'blocks', 'cleartext*.asc')) +
                 glob.glob(os.path.join(TD, 'blocks', '*onepass*.asc'))):
    name = os.path.relpath(mf, TD)
    try:
        with warnings.catch_warnings():
            warnings.simplefilter('ignore')
            msg = PGPMessage.from_file(mf)
    except Exception as e:
        rec(name, 'LOAD-EXC', type(e).__name__, str(e))
        continue
    for kn in sorted(keys):
        run('msg:' + name + ':' + kn, lambda: keys[kn].verify(msg))
        for s in msg.signatures:
            run('msgdet:' + name + ':' + kn, lambda: keys[kn].verify(msg.message, s))
            run('msgdet-mut:' + name + ':' + kn, lambda: keys[kn].verify(str(msg.message) + ' ', s))

# 4. revocation certificates
for rf in sorted(glob.glob(os.path.join(TD, 'revocations', '*.asc'))):
    name = os.path.relpath(rf, TD)
    try:
        rsig = PGPSignature.from_file(rf)
    except Exception as e:
        rec(name, 'LOAD-EXC', type(e).__name__, str(e))
        continue
    for kn in sorted(keys):
        run('rev:' + name + ':' + kn, lambda: keys[kn].verify(keys[kn], rsig))

# 5. the low level key material check, good and corrupted
for kn in sorted(keys):
    k = keys[kn]
    for sig in k.__sig__:
        pass
    for uid in k.userids:
        for sig in uid.__sig__:
            if sig.signer != k.fingerprint.keyid:
                continue
            hd = sig.hashdata(uid)
            ha = getattr(hashes, sig.hash_algorithm.name)()
            for lbl, data in (('ok', hd), ('mut', hd[:-1] + bytes([hd[-1] ^ 1])), ('empty', b'')):
                try:
                    rec('raw:' + kn, lbl, repr(k._key.verify(data, sig.__sig__, ha)))
                    rec('rawkm:' + kn, lbl, repr(k._key.keymaterial.verify(data, sig.__sig__, ha)))
                except Exception as e:
                    rec('raw:' + kn, lbl, 'EXC', type(e).__name__, str(e))
            try:
                rec('raw:' + kn, 'shortsig', repr(k._key.verify(hd, sig.__sig__[:-3], ha)))
            except Exception as e:
                rec('raw:' + kn, 'shortsig', 'EXC', type(e).__name__, str(e))
            try:
                rec('raw:' + kn, 'emptysig', repr(k._key.verify(hd, b'', ha)))
            except Exception as e:
                rec('raw:' + kn, 'emptysig', 'EXC', type(e).__name__, str(e))

# 6. argument checking and empty results
k = keys[os.path.join('keys', 'rsa.1.pub.asc')]
run('type-subject', lambda: k.verify(12))
run('type-signature', lambda: k.verify('x', 'y'))
run('nosigs-str', lambda: k.verify('no signature here'))
run('nosigs-none', lambda: k.verify(None))
sv = pgpy.types.SignatureVerification()
rec('empty-sv', bool(sv), len(sv), repr(sv), list(sv.good_signatures), list(sv.bad_signatures), 'x' in sv)
sv.add_sigsubj('s', 'k')
rec('default-issue', bool(sv), len(sv), repr(sv), int(sv._subjects[0].issues), 's' in sv, None in sv)
sv2 = pgpy.types.SignatureVerification()
sv2.add_sigsubj('s2', 'k2', 'subj', SecurityIssues.OK)
r = sv2 & sv
rec('and', r is sv2, bool(r), len(r), [tuple(map(str, x)) for x in r._subjects])
try:
    sv & 1
except Exception as e:
    rec('and-exc', type(e).__name__, str(e))
rec('slots', pgpy.types.SignatureVerification.__slots__, hasattr(sv, '__dict__'))

# 7. signature packet (re)parsing round trip
for stem in ('aptapproval-test', 'debian-sid', 'ubuntu-precise'):
    s = PGPSignature.from_file(os.path.join(TD, 'signatures', stem + '.sig.asc'))
    raw = bytes(s)
    s2 = PGPSignature.from_blob(raw)
    rec('parse', stem, raw == bytes(s2), int(s2.type), int(s2.key_algorithm), int(s2.hash_algorithm),
        bytes(s2.hash2).hex(), bytes(s2.__sig__).hex()[:32], str(s2.signer), str(s2.created))
    for cut in (1, 3, 6, 10, len(raw) // 2):
        try:
            with warnings.catch_warnings():
                warnings.simplefilter('ignore')
                s3 = PGPSignature.from_blob(raw[:cut])
            rec('parse-trunc', stem, cut, bytes(s3).hex()[:40])
        except Exception as e:
            rec('parse-trunc', stem, cut, 'EXC', type(e).__name__, str(e))

out = '\n'.join(lines).encode('utf-8')
if os.environ.get('EQUIV_DUMP'):
    sys.stderr.write(out.decode('utf-8') + '\n')
print(len(lines), hashlib.sha256(out).hexdigest())
