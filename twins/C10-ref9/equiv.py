"""Behavioural digest of the ASCII-armor code paths (property C10).

Run as:  cd <tree> && /venv/bin/python equiv.py
Prints one sha256 digest; it must be identical on the unchanged and on the refactored tree.
"""
import glob
import hashlib
import os
import re
import sys
import warnings

sys.path.insert(0, os.getcwd())

import pgpy  # noqa: E402
from pgpy.types import Armorable, PGPObject  # noqa: E402

out = []


def rec(*items):
    # memory addresses in reprs / messages are not behaviour
    out.append(re.sub(r'0x[0-9a-fA-F]{6,}', '0xADDR', repr(items)))


def attempt(label, fn):
    """Run fn, record its result or its exception, plus the warnings it emitted."""
    with warnings.catch_warnings(record=True) as caught:
        warnings.simplefilter('always')
        try:
            res = fn()
            rec(label, 'ok', res)
        except Exception as ex:  # noqa: BLE001
            rec(label, 'exc', type(ex).__name__, str(ex),
                type(ex.__cause__).__name__ if ex.__cause__ is not None else None)
    for w in caught:
        rec(label, 'warn', w.category.__name__, str(w.message), os.path.basename(w.filename))


def pattern(n, seed):
    # deterministic pseudo-random octets (no use of random)
    return bytes(((i * 131 + seed * 29 + (i * i) % 251) ^ (i >> 3)) & 0xFF for i in range(n))


# ---------------------------------------------------------------- crc24
crc_inputs = [b'', b'\x00', b'\x00\x00\x00\x00', b'\xff' * 7, b'123456789', bytearray(b'123456789'),
              list(b'123456789'), tuple(b'abc'), iter(b'abc'), memoryview(b'hello world'),
              [0, 255, 256, 1024, 70000], [-1, 5], [1 << 30], 'text', [1.5], None, 5, [None]]
crc_inputs += [pattern(n, 3) for n in (1, 2, 3, 47, 48, 49, 255, 1000)]
for idx, data in enumerate(crc_inputs):
    attempt(('crc24', idx), lambda d=data: Armorable.crc24(d))


# ---------------------------------------------------------------- __str__ on arbitrary payloads
class Blob(Armorable, PGPObject):
    def __init__(self, payload=b'', kind='MESSAGE'):
        super(Blob, self).__init__()
        self.payload = payload
        self.kind = kind

    @property
    def magic(self):
        return self.kind

    def __bytearray__(self):
        return bytearray(self.payload)

    def parse(self, packet):
        return Armorable.ascii_unarmor(packet)


lengths = list(range(0, 200)) + [255, 256, 257, 1000, 1023, 1024, 1025, 4095, 4096, 4097, 5000]
header_sets = [[], [('Version', 'PGPy 1')], [('Comment', 'a: b'), ('Charset', 'utf-8'), ('X', 7)],
               [(1, None)], [('Hash', '{braces}')]]
for n in lengths:
    for seed, fill in ((0, None), (1, 0x00), (2, 0xFF)):
        payload = pattern(n, n) if fill is None else bytes([fill]) * n
        blob = Blob(payload, ('MESSAGE', 'SIGNATURE', 'PUBLIC KEY BLOCK', 'PRIVATE KEY BLOCK', '{x}')[n % 5])
        for k, v in header_sets[n % len(header_sets)]:
            blob.ascii_headers[k] = v
        text = str(blob)
        rec('str', n, seed, text)
        assert all(len(line) <= 76 for line in text.split('\n'))
        # and back again, in every input flavour
        for flavour, conv in (('str', lambda t: t), ('bytes', lambda t: t.encode('latin-1')),
                              ('bytearray', lambda t: bytearray(t, 'latin-1')),
                              ('crlf', lambda t: t.replace('\n', '\r\n')),
                              ('wrapped', lambda t: 'leading text\n' + t + 'trailing text\n')):
            if n % 7 and flavour != 'str':
                continue
            attempt(('unarmor', n, seed, flavour),
                    lambda t=conv(text): list(Armorable.ascii_unarmor(t).items()))

# ---------------------------------------------------------------- corruptions of one block
base = str(Blob(pattern(100, 9), 'MESSAGE'))
for pos in range(len(base)):
    for repl in ('A', '=', '!', '\n'):
        if base[pos] == repl:
            continue
        mutated = base[:pos] + repl + base[pos + 1:]
        attempt(('corrupt', pos, repl), lambda t=mutated: list(Armorable.ascii_unarmor(t).items()))

# ---------------------------------------------------------------- odd inputs to ascii_unarmor / is_armor / from_blob
odd = ['', 'plain ascii text', b'plain ascii bytes', bytearray(b'\x99\x01\x02'), b'\xc6\x00', 'non-ascii é',
       None, 5, ['a'], '-----BEGIN PGP MESSAGE-----\n\nAAAA\n=AAAA\n-----END PGP SIGNATURE-----\n',
       '-----BEGIN PGP MESSAGE-----\n\nA\n=AAAA\n-----END PGP MESSAGE-----\n',
       '-----BEGIN PGP MESSAGE-----\n\nAA=A\n=AAAA\n-----END PGP MESSAGE-----\n',
       '-----BEGIN PGP MESSAGE-----\nA: b\n\nAAAA\n=twTO\n-----END PGP MESSAGE-----']
for idx, item in enumerate(odd):
    attempt(('odd-unarmor', idx), lambda t=item: list(Armorable.ascii_unarmor(t).items()))
    attempt(('odd-is_armor', idx), lambda t=item: Armorable.is_armor(t))
    for cls in (pgpy.PGPKey, pgpy.PGPMessage, pgpy.PGPSignature):
        attempt(('odd-from_blob', idx, cls.__name__), lambda t=item, c=cls: type(c.from_blob(t)).__name__)


# ---------------------------------------------------------------- fixture blocks through every loader
def describe(res):
    obj = res[0] if isinstance(res, tuple) else res
    extra = sorted(str(k) for k in res[1]) if isinstance(res, tuple) else None
    return (type(obj).__name__, obj.magic, list(obj.ascii_headers.items()), bytes(obj).hex(), str(obj), extra)


files = sorted(glob.glob('tests/testdata/blocks/*.asc') + glob.glob('tests/testdata/keys/*.asc') +
               glob.glob('tests/testdata/messages/*.asc') + glob.glob('tests/testdata/signatures/*.asc') +
               glob.glob('tests/testdata/*.asc'))
for path in files:
    with open(path, 'rb') as fh:
        raw = fh.read()
    for cls in (pgpy.PGPKey, pgpy.PGPMessage, pgpy.PGPSignature):
        attempt(('blob', path, cls.__name__), lambda c=cls: describe(c.from_blob(raw)))
        attempt(('blob-str', path, cls.__name__), lambda c=cls: describe(c.from_blob(raw.decode('latin-1'))))
        attempt(('blob-crlf', path, cls.__name__),
                lambda c=cls: describe(c.from_blob(raw.replace(b'\r\n', b'\n').replace(b'\n', b'\r\n'))))
        attempt(('file', path, cls.__name__), lambda c=cls: describe(c.from_file(path)))

        # binary round trip: load the de-armored body directly
        def binary(c=cls):
            body = bytes(Armorable.ascii_unarmor(raw)['body'])
            return describe(c.from_blob(body))
        attempt(('binary', path, cls.__name__), binary)

    # wrong CRC on a real block
    lines = raw.decode('latin-1').split('\n')
    for i, line in enumerate(lines):
        if len(line.rstrip('\r')) == 5 and line.startswith('='):
            lines[i] = '=' + ('AAAA' if line[1:5] != 'AAAA' else 'BBBB') + line[5:]
    bad = '\n'.join(lines)
    for cls in (pgpy.PGPKey, pgpy.PGPMessage, pgpy.PGPSignature):
        attempt(('badcrc', path, cls.__name__), lambda c=cls: describe(c.from_blob(bad)))

digest = hashlib.sha256('\n'.join(out).encode('utf-8', 'backslashreplace')).hexdigest()
print(len(out), digest)
if os.environ.get("EQUIV_DUMP"):
    with open(os.environ["EQUIV_DUMP"], "w", encoding="utf-8", errors="backslashreplace") as fh:
        fh.write("\n".join(out))
