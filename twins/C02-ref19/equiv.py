import os, sys, glob, hashlib, copy, pickle, warnings
sys.path.insert(0, os.getcwd())
warnings.simplefilter('ignore')
from datetime import datetime, timedelta, timezone

import pgpy
from pgpy import PGPKey, PGPSignature, PGPUID, PGPMessage
from pgpy.constants import (SignatureType, HashAlgorithm, KeyFlags, SymmetricKeyAlgorithm, CompressionAlgorithm,
                            PubKeyAlgorithm, RevocationReason, KeyServerPreferences, TrustLevel)
from pgpy.packet.types import MPI
from pgpy.packet.fields import RSASignature, DSASignature, EdDSASignature, ECDSASignature, SubPackets
from pgpy.packet.packets import SignatureV4
from pgpy.types import Header as BaseHeader
from pgpy.packet.subpackets import signature as spmod
from pgpy.packet.subpackets.types import Header as SPHeader

D = hashlib.sha256()
lines = []


def out(tag, val):
    if isinstance(val, (bytes, bytearray)):
        val = bytes(val).hex()
    line = '%s=%r' % (tag, val)
    lines.append(line)
    D.update(line.encode('utf-8', 'backslashreplace') + b'\n')


def attempt(tag, fn):
    try:
        out(tag, fn())
    except Exception as e:
        out(tag, 'EXC %s %s' % (type(e).__name__, e))


T0 = datetime(2020, 2, 3, 4, 5, 6, tzinfo=timezone.utc)

# ---- MPI ----------------------------------------------------------------
for raw in [b'', b'\x00', b'\x00\x00', b'\x00\x01\x01', b'\x00\x09\x01\xff\xaa\xbb', b'\x00\x10\x12', b'\xff\xff' + b'\x07' * 10,
            b'\x00\x11\x01\x00\x00tail']:
    for typ in (bytes, bytearray):
        buf = typ(raw)
        def f(buf=buf):
            m = MPI(buf)
            return (int(m), m.bit_length(), m.byte_length(), len(m), bytes(m.to_mpibytes()), bytes(buf), type(m).__name__)
        attempt('mpi.parse.%s.%s' % (typ.__name__, raw.hex()), f)
for n in [0, 1, 127, 128, 255, 256, 65535, 65536, 2 ** 255 - 19, 2 ** 2048 - 1, -1, True, '17', 3.7]:
    def f(n=n):
        m = MPI(n)
        return (int(m), m.byte_length(), len(m), bytes(m.to_mpibytes()), repr(m), pickle.loads(pickle.dumps(m)) == m,
                type(copy.copy(m)).__name__, type(pickle.loads(pickle.dumps(m))).__name__)
    attempt('mpi.int.%r' % (n,), f)
out('mpi.mro', [c.__name__ for c in MPI.__mro__])

# ---- generic length encoding -------------------------------------------
for n in [0, 1, 100, 191, 192, 193, 255, 256, 1000, 8383, 8384, 8385, 65535, 65536, 2 ** 32 - 1, 2 ** 32, -1]:
    attempt('enc.new.%d' % n, lambda n=n: bytes(BaseHeader.encode_length(n)))
    for ll in (0, 1, 2, 4):
        attempt('enc.old.%d.%d' % (n, ll), lambda n=n, ll=ll: bytes(BaseHeader.encode_length(n, False, ll)))
        attempt('enc.kw.%d.%d' % (n, ll), lambda n=n, ll=ll: bytes(BaseHeader.encode_length(length=n, nhf=0, llen=ll)))
    attempt('enc.new2.%d' % n, lambda n=n: bytes(BaseHeader.encode_length(n, True, 4)))

for tid in [-1, 0, 2, 16, 33, 127, 128, 130, 255]:
    for crit in (False, True):
        for ln in (1, 5, 191, 192, 9000):
            def f(tid=tid, crit=crit, ln=ln):
                h = SPHeader()
                h.typeid = tid
                h.critical = crit
                h.length = ln
                return (bytes(h.__bytearray__()), len(h), h.llen, h.typeid, h.critical)
            attempt('sph.%d.%s.%d' % (tid, crit, ln), f)
attempt('sph.default', lambda: (SPHeader().typeid, SPHeader().critical, SPHeader().length, bytes(SPHeader().__bytearray__())))
for raw in [b'\x05\x02abcd', b'\xc0\x00\x90', b'\xff\x00\x00\x01\x00\x82xx', b'\x01', b'\x02\x80']:
    def f(raw=raw):
        b = bytearray(raw)
        h = SPHeader()
        h.parse(b)
        return (h.length, h.llen, h.typeid, h.critical, bytes(b), bytes(h.__bytearray__()))
    attempt('sph.parse.%s' % raw.hex(), f)

# ---- every signature subpacket class: default + serialisation ------------
for name in spmod.__all__:
    def f(name=name):
        sp = getattr(spmod, name)()
        if name == 'CreationTime':
            sp.created = T0
        sp.update_hlen()
        return (bytes(sp.__bytearray__()), len(sp), sp.header.length, sp.header.typeid, repr(sp).split(' at ')[0])
    attempt('sp.default.%s' % name, f)

sps = SubPackets()
sps.addnew('CreationTime', hashed=True, created=T0)
sps.addnew('SignatureExpirationTime', hashed=True, expires=timedelta(days=3, seconds=7))
sps.addnew('KeyExpirationTime', hashed=True, expires=86400 * 400)
sps.addnew('KeyFlags', hashed=True, flags={KeyFlags.Sign, KeyFlags.Certify})
sps.addnew('Features', hashed=True, flags=[pgpy.constants.Features.ModificationDetection])
sps.addnew('KeyServerPreferences', hashed=True, flags=[KeyServerPreferences.NoModify])
sps.addnew('PreferredHashAlgorithms', hashed=True, flags=[HashAlgorithm.SHA512, HashAlgorithm.SHA256])
sps.addnew('PreferredSymmetricAlgorithms', hashed=True, flags=[SymmetricKeyAlgorithm.AES256, 7])
sps.addnew('PreferredCompressionAlgorithms', hashed=True, flags=(CompressionAlgorithm.ZLIB,))
sps.addnew('TrustSignature', hashed=True, level=2, amount=300)
sps.addnew('RegularExpression', hashed=True, regex='<[^>]+[@.]example\\.com>$')
sps.addnew('Revocable', hashed=True, bflag=False)
sps.addnew('ExportableCertification', hashed=True, bflag=True)
sps.addnew('PrimaryUserID', hashed=True, primary=True)
sps.addnew('Policy', hashed=True, uri='https://example.com/policy/é')
sps.addnew('PreferredKeyServer', hashed=True, uri='hkps://keys.example.com')
sps.addnew('NotationData', hashed=True, flags=0x80, name='a@b.c', value='vü' * 120)
sps.addnew('NotationData', hashed=True, flags=0, name='bin@b.c', value=bytearray(range(256)))
sps.addnew('ReasonForRevocation', hashed=True, code=RevocationReason.Superseded, string='because')
sps.addnew('SignersUserID', hashed=True, userid='Some One <some@one>')
sps.addnew('Issuer', _issuer='0123456789ABCDEF')
sps.addnew('IssuerFingerprint', hashed=True, _version=4, _issuer_fpr=pgpy.types.Fingerprint('0123456789ABCDEF0123456789ABCDEF01234567'))
out('sps.hash', sps.__hashbytearray__())
out('sps.unhash', sps.__unhashbytearray__())
out('sps.all', sps.__bytearray__())
out('sps.lens', [(type(sp).__name__, len(sp), sp.header.length, sp.header.llen) for sp in sps])
sps.update_hlen()
out('sps.all2', sps.__bytearray__())
rt = SubPackets()
buf = sps.__bytearray__() + b'rest'
rt.parse(buf)
out('sps.rt', (bytes(rt.__bytearray__()), bytes(buf), [type(s).__name__ for s in rt]))
out('sps.copy', bytes(copy.copy(sps).__bytearray__()))

# ---- SignatureV4 packet object --------------------------------------------
def f():
    p = SignatureV4()
    r = [repr(p).split(' at ')[0], p.sigtype, p.pubalg, p.halg, bytes(p.hash2), p.signature, p.header.tag, p.header.version,
         len(p.subpackets._hashed_sp), len(p.subpackets._unhashed_sp)]
    for alg in [1, 2, 3, 16, 17, 18, 19, 20, 22, 100, PubKeyAlgorithm.RSAEncryptOrSign, PubKeyAlgorithm.EdDSA]:
        try:
            p.pubalg = alg
            r.append((repr(p.pubalg), type(p.signature).__name__, bytes(p.signature.__bytearray__())))
        except Exception as e:
            r.append(('EXC', type(e).__name__, str(e)))
    for h in [1, 2, 8, 10, 11, HashAlgorithm.SHA384]:
        p.halg = h
        r.append(repr(p.halg))
    for t in [0, 1, 0x10, 0x13, 0x18, 0x19, 0x1f, 0x20, 0x28, 0x30, 0x40, 0x50, SignatureType.Attestation]:
        p.sigtype = t
        r.append(repr(p.sigtype))
    for bad in ('x', None, 1.5, 0x77):
        for attr in ('sigtype', 'pubalg', 'halg'):
            try:
                setattr(p, attr, bad)
                r.append((attr, repr(getattr(p, attr))))
            except Exception as e:
                r.append((attr, 'EXC', type(e).__name__, str(e)))
    return r
attempt('sigv4.obj', f)

# ---- fixture keys / signatures ------------------------------------------
keys = {}
for fn in sorted(glob.glob('tests/testdata/keys/*.asc')) + sorted(glob.glob('tests/testdata/signatures/*.key.asc')):
    try:
        k, _ = PGPKey.from_file(fn)
    except Exception as e:
        out('key.load.' + fn, 'EXC %s' % type(e).__name__)
        continue
    keys[os.path.basename(fn)] = k
    out('key.bytes.' + fn, hashlib.sha256(bytes(k)).hexdigest())
    out('key.hashdata.' + fn, hashlib.sha256(bytes(k.hashdata)).hexdigest())
    pub = k.pubkey if not k.is_public else k
    for uid in k.userids + k.userattributes:
        for sig in uid._signatures:
            out('key.uidsig.' + fn, (hashlib.sha256(bytes(sig)).hexdigest(), hashlib.sha256(sig.hashdata(uid)).hexdigest(),
                                     bytes(sig.hash2), sig.type.name, sig.key_algorithm.name, sig.hash_algorithm.name,
                                     str(sig.created), sig.signer, hashlib.sha256(bytes(sig._signature.canonical_bytes())).hexdigest(),
                                     bytes(sig.__sig__)[:8]))
            c = copy.copy(sig)
            out('key.uidsig.copy.' + fn, (bytes(c) == bytes(sig), c is not sig, c._signature is not sig._signature))
    attempt('key.verify.' + fn, lambda: [(int(v.issues), v.by.fingerprint.keyid, v.signature.type.name, bytes(v.signature.hash2))
                                       for v in pub.verify(pub)._subjects] + [bool(pub.verify(pub))])
    for skid, sk in k.subkeys.items():
        for sig in sk._signatures:
            out('key.subsig.' + fn, (skid, hashlib.sha256(bytes(sig)).hexdigest(), hashlib.sha256(sig.hashdata(sk)).hexdigest(), bytes(sig.hash2)))

for base in ('aptapproval-test', 'debian-sid', 'ubuntu-precise'):
    def f(base=base):
        k, _ = PGPKey.from_file('tests/testdata/signatures/%s.key.asc' % base)
        s = PGPSignature.from_file('tests/testdata/signatures/%s.sig.asc' % base)
        subj = open('tests/testdata/signatures/%s.subj' % base, 'rb').read()
        sv = k.verify(subj, s)
        return (bool(sv), hashlib.sha256(s.hashdata(subj)).hexdigest(), hashlib.sha256(bytes(s)).hexdigest(), str(s) == str(PGPSignature.from_blob(str(s))),
                bytes(s.make_onepass().__bytearray__()), repr(s).split(' at ')[0] if ' at ' in repr(s) else repr(s)[:30])
    attempt('fixture.sig.' + base, f)

# ---- fresh signatures with fixed creation time ----------------------------
SUBJECTS = [('empty', b''), ('bytes', bytes(range(256)) * 3), ('text', 'line one\nline two\r\nline three\rend é\n'), ('lf', 'a\n\nb\n')]
det = {}
for kn in ('rsa.1.sec.asc', 'dsa.1.sec.asc', 'ecc.1.sec.asc', 'ecc.2.sec.asc', 'mixed.1.sec.asc', 'targette.sec.rsa.asc'):
    k = keys.get(kn)
    if k is None:
        continue
    signers = [k] + [sk for sk in k.subkeys.values() if KeyFlags.Sign in sk._get_key_flags()]
    for sk in signers:
        alg = sk.key_algorithm
        deterministic = alg in (PubKeyAlgorithm.RSAEncryptOrSign, PubKeyAlgorithm.EdDSA)
        for sname, subj in SUBJECTS:
            for h in (HashAlgorithm.SHA256, HashAlgorithm.SHA512, HashAlgorithm.SHA1):
                tag = 'sign.%s.%s.%s.%s' % (kn, sk.fingerprint.keyid, sname, h.name)
                def f(sk=sk, subj=subj, h=h, deterministic=deterministic):
                    opts = dict(created=T0, hash=h, expires=timedelta(days=9), notation={'n@example.com': 'v', 'b@example.com': bytearray(b'\x00\x01')},
                                policy_uri='https://example.com/p', revocable=False)
                    sig = sk.sign(subj, **opts)
                    sig2 = PGPSignature.from_blob(str(sig))
                    pub = sk.pubkey
                    res = (sig.type.name, bytes(sig._signature.subpackets.__hashbytearray__()), bytes(sig.hash2), hashlib.sha256(sig.hashdata(subj)).hexdigest(),
                           bool(pub.verify(subj, sig2)), bool(pub.verify(subj, sig)),
                           bytes(sig2) == bytes(sig), bytes(copy.copy(sig)) == bytes(sig), bytes(sig.make_onepass().__bytearray__()),
                           bool(pub.verify(b'other' if not isinstance(subj, str) else 'other', sig2)))
                    if deterministic:
                        res += (len(sig._signature), sig._signature.header.length, hashlib.sha256(bytes(sig)).hexdigest(), hashlib.sha256(bytes(sig._signature.canonical_bytes())).hexdigest(), bytes(sig.__sig__)[:16])
                    return res
                attempt(tag, f)
        # timestamp / standalone
        attempt('sign.ts.%s.%s' % (kn, sk.fingerprint.keyid), lambda sk=sk: (lambda s: (s.type.name, bytes(s._signature.subpackets.__hashbytearray__()), bool(sk.pubkey.verify(None, s)) if False else s.type.name))(sk.sign(None, created=T0)))
    # certifications / bindings / revocations by the primary key
    if k.is_primary and not k.is_protected:
        def cert(k=k):
            r = []
            kk = copy.copy(k) if False else PGPKey.from_blob(str(k))[0]
            uid = kk.userids[0]
            for lvl in (SignatureType.Generic_Cert, SignatureType.Persona_Cert, SignatureType.Casual_Cert, SignatureType.Positive_Cert):
                s = kk.certify(uid, level=lvl, created=T0, usage={KeyFlags.Sign, KeyFlags.Certify}, hashes=[HashAlgorithm.SHA512, HashAlgorithm.SHA256],
                               ciphers=[SymmetricKeyAlgorithm.AES256], compression=[CompressionAlgorithm.ZLIB], key_expiration=timedelta(days=4000),
                               keyserver='hkps://k.example', keyserver_flags={KeyServerPreferences.NoModify}, primary=True, exportable=True,
                               trust=(1, 60), regex='abc', hash=HashAlgorithm.SHA384)
                s2 = PGPSignature.from_blob(str(s))
                r.append((s.type.name, bytes(s._signature.subpackets.__hashbytearray__()), hashlib.sha256(s.hashdata(uid)).hexdigest(), bytes(s.hash2),
                          bool(kk.pubkey.verify(uid, s2)), bytes(s2) == bytes(s)))
            s = kk.revoke(uid, created=T0, reason=RevocationReason.UserID, comment='gone')
            r.append((s.type.name, bytes(s._signature.subpackets.__hashbytearray__()), hashlib.sha256(s.hashdata(uid)).hexdigest(), bool(kk.pubkey.verify(uid, s))))
            s = kk.revoke(kk, created=T0, reason=RevocationReason.Retired, comment='old')
            r.append((s.type.name, bytes(s._signature.subpackets.__hashbytearray__()), hashlib.sha256(s.hashdata(kk)).hexdigest(), bool(kk.pubkey.verify(kk, s))))
            s = kk.certify(kk, created=T0)
            r.append((s.type.name, bytes(s._signature.subpackets.__hashbytearray__()), hashlib.sha256(s.hashdata(kk)).hexdigest(), bool(kk.pubkey.verify(kk, s))))
            for skid, sub in kk.subkeys.items():
                s = kk.bind(sub, created=T0, usage={KeyFlags.EncryptCommunications} if KeyFlags.Sign not in sub._get_key_flags() else {KeyFlags.Sign})
                emb = [type(x).__name__ for x in s._signature.subpackets]
                r.append((skid, s.type.name, hashlib.sha256(s.hashdata(sub)).hexdigest(), bytes(s.hash2), emb, bool(kk.pubkey.verify(sub, s))))
                s = kk.revoke(sub, created=T0)
                r.append((skid, s.type.name, hashlib.sha256(s.hashdata(sub)).hexdigest(), bool(kk.pubkey.verify(sub, s))))
            return r
        attempt('cert.' + kn, cert)

# ---- PGPSignature.new and friends -----------------------------------------
def f():
    r = []
    for st, pa, ha in [(SignatureType.BinaryDocument, PubKeyAlgorithm.RSAEncryptOrSign, HashAlgorithm.SHA256),
                       (SignatureType.Positive_Cert, PubKeyAlgorithm.EdDSA, None), (0x18, 17, 10), (SignatureType.Timestamp, 19, HashAlgorithm.SHA1)]:
        s = PGPSignature.new(st, pa, ha, '0123456789ABCDEF', created=T0)
        if ha is not None:
            s._signature.update_hlen()
        c = copy.copy(s)
        r.append((repr(s).split(' at ')[0], s.type.name, s.key_algorithm.name, s.hash_algorithm, str(s.created), s.signer, bytes(s.hash2),
                  type(s._signature.signature).__name__, bytes(s) if ha is not None else None, bytes(c) if ha is not None else None, c._signature is not s._signature, s.embedded, s.parent,
                  s.ascii_headers == c.ascii_headers, bytes(s.make_onepass().__bytearray__()) if ha is not None else None,
                  type(s).__name__, s._signature.header.tag, s._signature.header.version))
    s = PGPSignature.new(0, 1, 8, 'AAAAAAAAAAAAAAAA')
    r.append((s.created.tzinfo is not None, abs((datetime.now(timezone.utc) - s.created).total_seconds()) < 60))
    e = PGPSignature()
    r.append((e._signature, e.parent, dict(e.ascii_headers)))
    try:
        e | 5
    except Exception as ex:
        r.append(('or', type(ex).__name__, str(ex)))
    return r
attempt('pgpsig.new', f)

print(len(lines), D.hexdigest())
if os.environ.get('EQUIV_DUMP'):
    open(os.environ['EQUIV_DUMP'], 'w').write('\n'.join(lines))
