import copy
import glob
import hashlib
import os
import sys
import warnings

sys.path.insert(0, os.getcwd())
import pgpy  # noqa: E402

warnings.simplefilter('ignore')
h = hashlib.sha256()


def put(*items):
    for it in items:
        if isinstance(it, str):
            it = it.encode('utf-8')
        elif not isinstance(it, (bytes, bytearray)):
            it = repr(it).encode('utf-8')
        h.update(len(it).to_bytes(8, 'big'))
        h.update(bytes(it))


def shape(key):
    return [
        key.magic, str(key.fingerprint), key.is_public, key.is_primary,
        [(u.userid if u.is_uid else 'UA', [(s.type.name, s.signer, str(s.created), bytes(s)) for s in u._signatures])
         for u in key._uids],
        [(s.type.name, s.signer, s.embedded, bytes(s)) for s in key._signatures],
        [(kid, shape(sk)) for kid, sk in key.subkeys.items()],
        None if key.parent is None else str(key.parent.fingerprint),
        list(key.ascii_headers.items()),
    ]


put(pgpy.PGPKey().magic)

paths = sorted(glob.glob('tests/testdata/keys/*.asc')) + sorted(glob.glob('tests/testdata/blocks/*key*.asc')) \
    + ['tests/testdata/pubtest.asc', 'tests/testdata/sectest.asc']
for path in paths:
    key, _ = pgpy.PGPKey.from_file(path)
    put(path, key.magic, shape(key))
    pub = key.pubkey
    put(shape(pub), str(pub), bytes(pub))
    put(pub is key, key.pubkey is pub)
    if not key.is_public:
        put(pub._sibling() is key, key._sibling() is not None)
        pub2 = key.pubkey
        put(shape(pub2), bytes(pub2) == bytes(pub), pub2._sibling() is key)
        for kid, sk in key.subkeys.items():
            skpub = sk.pubkey
            put(kid, skpub.magic, shape(skpub), bytes(skpub), skpub.parent is key, skpub._sibling() is sk)
        # re-import of the exported public half
        again, _ = pgpy.PGPKey.from_blob(bytes(pub))
        put(shape(again), bytes(again))
        # a copy has the same public half
        dup = copy.copy(key)
        put(shape(dup.pubkey), bytes(dup.pubkey) == bytes(pub))
        # the setter still refuses the same things
        other = copy.copy(pub)
        for target, value in ((pub, pub), (key, key), (key, other)):
            try:
                target.pubkey = value
                put('set ok')
            except Exception as e:
                put(type(e).__name__, str(e))

# public half of a freshly made key with a uid attached after the sibling exists
sec, _ = pgpy.PGPKey.from_file('tests/testdata/keys/rsa.1.sec.asc')
pub = sec.pubkey
uid = pgpy.PGPUID.new('Equiv Test', comment='c', email='e@example.com')
sec |= uid
put([u.userid for u in sec._uids if u.is_uid], [u.userid for u in pub._uids if u.is_uid])

print(h.hexdigest())
