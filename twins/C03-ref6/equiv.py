"""Behavioural digest of the encryption / decryption code paths of PGPy (property C03).

Run as:  cd <tree> && /venv/bin/python equiv.py
Prints one sha256 digest; it must be identical on the unchanged and on the refactored tree.
Everything that is digested is deterministic: fixture keys/messages, fixed session keys, and
os.urandom replaced by a counter-based generator (RSA PKCS#1 padding and ECDH ephemeral keys
are random inside OpenSSL, so for those only decrypted results are digested).
"""
import glob
import hashlib
import os
import sys
import warnings

sys.path.insert(0, os.getcwd())
warnings.simplefilter('ignore')

import pgpy  # noqa: E402
from pgpy import PGPKey, PGPMessage  # noqa: E402
from pgpy.constants import CompressionAlgorithm, HashAlgorithm, PubKeyAlgorithm, SymmetricKeyAlgorithm  # noqa: E402
from pgpy.constants import EllipticCurveOID  # noqa: E402
from pgpy.packet.packets import PKESessionKeyV3, SKESessionKeyV4, IntegrityProtectedSKEDataV1  # noqa: E402
from pgpy.packet.fields import ECKDF  # noqa: E402
from pgpy.symenc import _encrypt, _decrypt  # noqa: E402

OUT = []

# keep the iterated S2K cheap (same tweak on both trees; fixture messages keep their own counts)
for _h in HashAlgorithm:
    _h._tuned_count = 16


def rec(tag, *vals):
    OUT.append(repr((tag,) + tuple(bytes(v) if isinstance(v, (bytearray, memoryview)) else v for v in vals)))


def attempt(tag, fn):
    try:
        r = fn()
    except BaseException as e:  # noqa: B902
        rec(tag, 'EXC', type(e).__name__, str(e))
        return None
    return r


_ctr = [0]


def fake_urandom(n):
    out = b''
    while len(out) < n:
        _ctr[0] += 1
        out += hashlib.sha256(b'equiv-%d' % _ctr[0]).digest()
    return out[:n]


def msg_obs(tag, m):
    if m is None:
        return
    rec(tag, type(m.message).__name__, m.message if not isinstance(m.message, bytearray) else bytes(m.message),
        m.filename, m.is_compressed, int(m._compression), m.type, len(m.signatures), m.is_encrypted, bytes(m))


GOOD_CIPHERS = [SymmetricKeyAlgorithm.TripleDES, SymmetricKeyAlgorithm.CAST5, SymmetricKeyAlgorithm.Blowfish,
                SymmetricKeyAlgorithm.AES128, SymmetricKeyAlgorithm.AES192, SymmetricKeyAlgorithm.AES256,
                SymmetricKeyAlgorithm.Camellia128, SymmetricKeyAlgorithm.Camellia192, SymmetricKeyAlgorithm.Camellia256]

BODIES = [b'', b'x', b'This message will have been encrypted', bytes(range(256)) * 40]

# ---------------------------------------------------------------- compression
for alg in CompressionAlgorithm:
    for body in BODIES:
        c = attempt(('compress', alg.name), lambda: alg.compress(body))
        rec('compress', alg.name, c)
        if c is not None:
            rec('decompress', alg.name, attempt(('decompress', alg.name), lambda: alg.decompress(c)))
    attempt(('decompress-garbage', alg.name), lambda: rec('dg', alg.name, alg.decompress(b'\x00garbage')))

# ---------------------------------------------------------------- raw CFB
for alg in SymmetricKeyAlgorithm:
    key = bytes(range(1, 1 + (attempt(('ks', alg.name), lambda: alg.key_size) or 0) // 8))
    for body in BODIES[:3]:
        ct = attempt(('_encrypt', alg.name), lambda: _encrypt(body, key, alg))
        rec('_encrypt', alg.name, type(ct).__name__, ct)
        pt = attempt(('_decrypt', alg.name), lambda: _decrypt(body + b'0123456789abcdef', key, alg))
        rec('_decrypt', alg.name, type(pt).__name__, pt)
    attempt(('_encrypt-iv', alg.name), lambda: rec('eiv', _encrypt(b'abc', key, alg, iv=b'\x07' * (alg.block_size // 8))))
    attempt(('_encrypt-badkey', alg.name), lambda: rec('ebk', _encrypt(b'abc', b'short', alg)))
    attempt(('_decrypt-badkey', alg.name), lambda: rec('dbk', _decrypt(b'abc', b'short', alg)))

# ---------------------------------------------------------------- fixtures
keys = {}
for f in sorted(glob.glob('tests/testdata/keys/*.sec.asc')) + ['tests/testdata/keys/targette.sec.rsa.asc']:
    k, _ = PGPKey.from_file(f)
    keys[os.path.basename(f)] = k
pubs = {}
for f in sorted(glob.glob('tests/testdata/keys/*.pub.asc')):
    k, _ = PGPKey.from_file(f)
    pubs[os.path.basename(f)] = k

for mf in sorted(glob.glob('tests/testdata/messages/message*.asc')) + ['tests/testdata/message.enc.twofish.asc']:
    for kn in sorted(keys):
        msg = PGPMessage.from_file(mf)
        msg_obs(('keydec', mf, kn), attempt(('keydec', mf, kn), lambda: keys[kn].decrypt(msg)))
    for pw in ('QwertyUiop', 'wrong', b'QwertyUiop', u'', None):
        msg = PGPMessage.from_file(mf)
        msg_obs(('pwdec', mf, pw), attempt(('pwdec', mf, pw), lambda: msg.decrypt(pw)))

# direct session-key recovery from fixture PKESKs
for mf in sorted(glob.glob('tests/testdata/messages/message.rsa*.asc')) + ['tests/testdata/messages/message.ecdh.cv25519.asc']:
    msg = PGPMessage.from_file(mf)
    for pk in msg._sessionkeys:
        for kn in sorted(keys):
            for cand in [keys[kn]] + [keys[kn].subkeys[s] for s in keys[kn].subkeys]:
                if isinstance(pk, PKESessionKeyV3) and cand.fingerprint.keyid == pk.encrypter:
                    r = attempt(('pk.decrypt_sk', mf), lambda: pk.decrypt_sk(cand._key))
                    if r is not None:
                        rec('pk.decrypt_sk', mf, r[0].name, type(r[1]).__name__, r[1])
        if isinstance(pk, SKESessionKeyV4):
            for pw in ('QwertyUiop', 'nope'):
                r = attempt(('sk.decrypt_sk', mf, pw), lambda: pk.decrypt_sk(pw))
                if r is not None:
                    rec('sk.decrypt_sk', mf, pw, r[0].name, type(r[1]).__name__, r[1])


# ---------------------------------------------------------------- PKESK encrypt_sk with identity "RSA"
class _FakePub(object):
    def encrypt(self, m, pad):
        rec('rsa-encrypt-arg', type(m).__name__, m, type(pad).__name__)
        return m

    def decrypt(self, ct, pad):
        return ct


class _FakeKM(object):
    def __pubkey__(self):
        return _FakePub()


class _FakePK(object):
    keymaterial = _FakeKM()


for alg in SymmetricKeyAlgorithm:
    for sk in (b'', bytes(range(200, 232)), bytearray(b'\xff' * 32), bytes(range(16)), u'text', None):
        p = PKESessionKeyV3()
        p.encrypter = bytearray(b'\x01\x02\x03\x04\x05\x06\x07\x08')
        p.pkalg = PubKeyAlgorithm.RSAEncryptOrSign
        attempt(('encrypt_sk', alg.name, repr(sk)), lambda: (p.encrypt_sk(_FakePK(), alg, sk), rec('pkesk', bytes(p))))
    for pkalg in (PubKeyAlgorithm.ElGamal, PubKeyAlgorithm.DSA, PubKeyAlgorithm.RSAEncrypt):
        p = PKESessionKeyV3()
        p.pkalg = pkalg
        attempt(('encrypt_sk-unsupported', pkalg.name), lambda: p.encrypt_sk(_FakePK(), alg, b'k' * 16))
        attempt(('decrypt_sk-unsupported', pkalg.name), lambda: p.decrypt_sk(_FakePK()))

# ---------------------------------------------------------------- ECKDF
for curve in (EllipticCurveOID.NIST_P256, EllipticCurveOID.NIST_P384, EllipticCurveOID.NIST_P521, EllipticCurveOID.Curve25519):
    for h, e in ((HashAlgorithm.SHA256, SymmetricKeyAlgorithm.AES128), (HashAlgorithm.SHA384, SymmetricKeyAlgorithm.AES192),
                 (HashAlgorithm.SHA512, SymmetricKeyAlgorithm.AES256)):
        kdf = ECKDF()
        kdf.halg = h
        kdf.encalg = e
        fp = keys['ecc.1.sec.asc'].fingerprint
        rec('eckdf', curve.name, h.name, e.name,
            attempt(('eckdf', curve.name, h.name), lambda: kdf.derive_key(b'\x42' * 32, curve, PubKeyAlgorithm.ECDH, fp)))

# ---------------------------------------------------------------- deterministic passphrase encryption
_real_urandom = os.urandom
os.urandom = fake_urandom
try:
    for body in BODIES:
        for comp in CompressionAlgorithm:
            for cipher in list(SymmetricKeyAlgorithm):
                for halg in (HashAlgorithm.SHA1, HashAlgorithm.SHA256, HashAlgorithm.SHA512):
                    if body is not BODIES[2] and (halg is not HashAlgorithm.SHA256 or comp is not CompressionAlgorithm.ZIP):
                        continue
                    msg = PGPMessage.new(bytearray(body), compression=comp, file=False, format='b')
                    msg._message.mtime = 0
                    tag = ('pwenc', len(body), comp.name, cipher.name, halg.name)
                    for sk in (None, bytes(range(7, 7 + 32))):
                        enc = attempt(tag, lambda: msg.encrypt('pass phrase', sessionkey=sk, cipher=cipher, hash=halg))
                        if enc is None:
                            continue
                        rec(tag, bytes(enc))
                        msg_obs(tag, attempt(tag, lambda: enc.decrypt('pass phrase')))
                        attempt(tag + ('wrong',), lambda: enc.decrypt('other'))
                        # second passphrase layered on the first
                        enc2 = attempt(tag + ('2',), lambda: enc.encrypt('second', sessionkey=sk if sk is not None else b'', cipher=cipher))
                        if enc2 is not None:
                            rec(tag + ('2',), bytes(enc2))
                            msg_obs(tag + ('2a',), attempt(tag + ('2a',), lambda: enc2.decrypt('pass phrase')))
                            msg_obs(tag + ('2b',), attempt(tag + ('2b',), lambda: enc2.decrypt('second')))

    # SKESK / SEIPD on their own
    for cipher in GOOD_CIPHERS:
        s = SKESessionKeyV4()
        s.s2k.usage = 255
        s.s2k.specifier = 3
        s.s2k.halg = HashAlgorithm.SHA256
        s.s2k.encalg = cipher
        s.s2k.count = 96
        skey = bytes(range(cipher.key_size // 8))
        attempt(('skesk', cipher.name), lambda: s.encrypt_sk('pw', skey))
        rec('skesk', cipher.name, bytes(s))
        r = attempt(('skesk-dec', cipher.name), lambda: s.decrypt_sk('pw'))
        rec('skesk-dec', cipher.name, r[0].name, type(r[1]).__name__, r[1])
        s.ct = bytearray()
        r = attempt(('skesk-dec-noct', cipher.name), lambda: s.decrypt_sk('pw'))
        rec('skesk-dec-noct', cipher.name, r[0].name, type(r[1]).__name__, r[1])

        d = IntegrityProtectedSKEDataV1()
        for body in BODIES:
            attempt(('seipd', cipher.name), lambda: d.encrypt(skey, cipher, body))
            rec('seipd', cipher.name, bytes(d))
            pt = attempt(('seipd-dec', cipher.name), lambda: d.decrypt(skey, cipher))
            rec('seipd-dec', cipher.name, type(pt).__name__, pt)
            # tampering: flip a bit in each of the interesting regions
            for pos in (0, cipher.block_size // 8, cipher.block_size // 8 + 1, len(d.ct) // 2, len(d.ct) - 21, len(d.ct) - 1):
                saved = d.ct[:]
                d.ct[pos] ^= 1
                attempt(('seipd-tamper', cipher.name, pos), lambda: rec('UNEXPECTED', d.decrypt(skey, cipher)))
                d.ct = saved
            attempt(('seipd-wrongkey', cipher.name), lambda: rec('UNEXPECTED', d.decrypt(skey[::-1], cipher)))

    # ---------------------------------------------------------------- public-key round trips
    for pn in sorted(pubs):
        pub = pubs[pn]
        sec = keys[pn.replace('.pub.', '.sec.')]
        for cipher in list(SymmetricKeyAlgorithm):
            for body, comp in ((BODIES[2], CompressionAlgorithm.ZIP), (BODIES[0], CompressionAlgorithm.Uncompressed), (BODIES[3], CompressionAlgorithm.BZ2)):
                msg = PGPMessage.new(bytearray(body), compression=comp, file=False, format='b')
                msg._message.mtime = 0
                tag = ('pkenc', pn, cipher.name, len(body))
                sk = bytes(range(3, 3 + 32))[:(attempt(tag + ('ks',), lambda: cipher.key_size) or 0) // 8]
                enc = attempt(tag, lambda: pub.encrypt(msg, cipher=cipher, sessionkey=sk))
                if enc is None:
                    continue
                # SEIPD part is deterministic (fixed session key, fake urandom)
                rec(tag, bytes(enc._message), sorted(enc.encrypters), [type(p).__name__ for p in enc])
                msg_obs(tag, attempt(tag + ('dec',), lambda: sec.decrypt(enc)))
                # add a passphrase recipient and a second key recipient
                enc2 = attempt(tag + ('+pw',), lambda: enc.encrypt('also', sessionkey=sk, cipher=cipher))
                if enc2 is not None:
                    msg_obs(tag + ('+pw', 'k'), attempt(tag + ('+pw', 'k'), lambda: sec.decrypt(enc2)))
                    msg_obs(tag + ('+pw', 'p'), attempt(tag + ('+pw', 'p'), lambda: enc2.decrypt('also')))
                for on in sorted(pubs):
                    if on == pn or cipher is not SymmetricKeyAlgorithm.AES128 or body is not BODIES[2]:
                        continue
                    enc3 = attempt(tag + ('+', on), lambda: pubs[on].encrypt(enc, cipher=cipher, sessionkey=sk))
                    if enc3 is not None:
                        rec(tag + ('+', on), sorted(enc3.encrypters), [type(p).__name__ for p in enc3])
                        msg_obs(tag + ('+', on, 'a'), attempt(tag + ('+', on, 'a'), lambda: sec.decrypt(enc3)))
                        msg_obs(tag + ('+', on, 'b'), attempt(tag + ('+', on, 'b'), lambda: keys[on.replace('.pub.', '.sec.')].decrypt(enc3)))
        # not-encrypted / wrong-key paths
        plain = PGPMessage.new('hello')
        plain._message.mtime = 0
        msg_obs(('plain-dec', pn), attempt(('plain-dec', pn), lambda: sec.decrypt(plain)))
        attempt(('plain-pwdec', pn), lambda: plain.decrypt('x'))
        attempt(('pub-dec', pn), lambda: pub.decrypt(plain))
        attempt(('user', pn), lambda: msg_obs(('user', pn), sec.decrypt(pub.encrypt(plain, user=pub.userids[0].name, sessionkey=b'\x05' * 32, cipher=SymmetricKeyAlgorithm.AES256))))
        attempt(('baduser', pn), lambda: pub.encrypt(plain, user='nobody at all'))
finally:
    os.urandom = _real_urandom

blob = '\n'.join(OUT).encode('utf-8', 'backslashreplace')
print(len(OUT), hashlib.sha256(blob).hexdigest())
if os.environ.get('EQUIV_DUMP'):
    with open(os.environ['EQUIV_DUMP'], 'wb') as f:
        f.write(blob)
