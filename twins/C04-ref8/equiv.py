import os
import sys
sys.path.insert(0, os.getcwd())
import glob
import hashlib
import warnings

import pgpy
from pgpy import PGPKey, PGPMessage
from pgpy.constants import SymmetricKeyAlgorithm, PubKeyAlgorithm
from pgpy.packet.packets import IntegrityProtectedSKEDataV1, PKESessionKeyV3
from pgpy.symenc import _encrypt

warnings.simplefilter('ignore')
out = []


def rec(label, fn):
    try:
        r = fn()
        if isinstance(r, PGPMessage):
            m = r.message
            if isinstance(m, str):
                m = m.encode('utf-8')
            r = ('PGPMessage', r.type, bytes(m))
        elif isinstance(r, tuple):
            r = tuple((type(x).__name__, bytes(x) if isinstance(x, (bytes, bytearray)) else repr(x)) for x in r)
        elif isinstance(r, (bytes, bytearray)):
            r = (type(r).__name__, bytes(r))
        out.append((label, 'ok', repr(r)))
    except BaseException as e:
        out.append((label, 'exc', type(e).__name__, str(e)))


# 1. IntegrityProtectedSKEDataV1.decrypt on crafted deterministic ciphertexts
def make_ct(alg, key, body, prefix=None, mdc=None):
    bs = alg.block_size // 8
    iv = bytes(range(1, bs + 1))
    if prefix is None:
        prefix = iv + iv[-2:]
    data = prefix + body
    if mdc is None:
        mdc = b'\xd3\x14' + hashlib.sha1(data + b'\xd3\x14').digest()
    return _encrypt(data + mdc, key, alg)


for alg in (SymmetricKeyAlgorithm.AES128, SymmetricKeyAlgorithm.AES256, SymmetricKeyAlgorithm.CAST5,
            SymmetricKeyAlgorithm.TripleDES, SymmetricKeyAlgorithm.Camellia192, SymmetricKeyAlgorithm.Blowfish):
    key = bytes(range(alg.key_size // 8))
    bs = alg.block_size // 8
    for body in (b'', b'x', b'hello world' * 7, bytes(range(256)) * 3):
        good = make_ct(alg, key, body)
        variants = {'good': good,
                    'trunc1': good[:-1], 'trunc22': good[:-22], 'ext': good + b'\x00',
                    'empty': bytearray(), 'short5': good[:5], 'shortbs': good[:bs], 'shortbs1': good[:bs + 1],
                    'badprefix': make_ct(alg, key, body, prefix=bytes(range(1, bs + 1)) + b'zz'),
                    'badmdc': make_ct(alg, key, body, mdc=b'\xd3\x14' + b'\x00' * 20),
                    'badmdchdr': make_ct(alg, key, body, mdc=b'\xd3\x15' + hashlib.sha1(b'q').digest())}
        for i in (0, 1, bs - 1, bs, bs + 1, bs + 2, len(good) // 2, len(good) - 23, len(good) - 22, len(good) - 1):
            if 0 <= i < len(good):
                f = bytearray(good)
                f[i] ^= 0x40
                variants['flip%d' % i] = f
        for name, ct in sorted(variants.items()):
            pkt = IntegrityProtectedSKEDataV1()
            pkt.ct = bytearray(ct)
            rec(('ipske', alg.name, len(body), name), lambda: pkt.decrypt(key, alg))
            rec(('ipske-wrongkey', alg.name, len(body), name), lambda: pkt.decrypt(bytes(reversed(key)), alg))
            out.append(('ct-unchanged', bytes(pkt.ct) == bytes(ct)))


# 2. PKESessionKeyV3.decrypt_sk with a stub ciphertext returning fixed "m" values
class StubCT(object):
    def __init__(self, m):
        self.m = m
        self.calls = []

    def decrypt(self, decrypter, *args):
        self.calls.append((type(decrypter).__name__, len(args)))
        return self.m


def sk_m(algid, key, cks=None, extra=b''):
    if cks is None:
        cks = sum(bytearray(key)) % 65536
    return bytes(bytearray([algid])) + key + cks.to_bytes(2, 'big') + extra


k16 = bytes(range(100, 116))
k32 = bytes([0xff] * 32)
ms = {'aes128-ok': sk_m(7, k16), 'aes256-ok': sk_m(9, k32), 'aes128-bad': sk_m(7, k16, 1),
      'aes128-extra': sk_m(7, k16, None, b'junk'), 'aes128-short': sk_m(7, k16)[:-1], 'aes128-short2': sk_m(7, k16)[:10],
      'empty': b'', 'onlyalg': b'\x07', 'plaintext-alg': sk_m(0, k16), 'unknown-alg': sk_m(99, k16),
      'aes256-with16': sk_m(9, k16), '3des': sk_m(2, bytes(range(24))), 'cks-wrap': sk_m(9, k32, (255 * 32) % 65536),
      'zerokey': sk_m(7, b'\x00' * 16), 'zerokey-trunc': b'\x07' + b'\x00' * 16}
for pkalg in (PubKeyAlgorithm.ECDH, PubKeyAlgorithm.ElGamal, PubKeyAlgorithm.DSA):
    for name, m in sorted(ms.items()):
        pk = PKESessionKeyV3()
        pk.pkalg = pkalg
        pk.ct = StubCT(m)
        rec(('pkesk', pkalg.name, name), lambda: pk.decrypt_sk(object()))
        out.append(('pkesk-calls', pk.ct.calls))

# 3. fixture messages / keys through the public API
keys = {}
for kf in sorted(glob.glob('tests/testdata/keys/*.sec*.asc')):
    keys[os.path.basename(kf)] = PGPKey.from_file(kf)[0]
msgs = sorted(glob.glob('tests/testdata/messages/message*.asc')) + ['tests/testdata/message.enc.twofish.asc']
for mf in msgs:
    try:
        msg = PGPMessage.from_file(mf)
    except Exception as e:
        out.append((mf, 'load-exc', type(e).__name__, str(e)))
        continue
    for pw in ("QwertyUiop", "TheWrongPassword", "", b"QwertyUiop", None, 5):
        rec(('msg.decrypt', os.path.basename(mf), repr(pw)), lambda: msg.decrypt(pw))
    for kn, k in sorted(keys.items()):
        rec(('key.decrypt', os.path.basename(mf), kn), lambda: k.decrypt(msg))
        for skid, sk in k.subkeys.items():
            rec(('subkey.decrypt', os.path.basename(mf), kn, skid), lambda: sk.decrypt(msg))

# 4. fresh encrypt -> decrypt round trips (only decrypt results are digested), tamper with session-key packets
lit = PGPMessage.new("This message will have been encrypted")
skey = bytes(range(32))
enc2 = lit.encrypt("QwertyUiop", sessionkey=skey).encrypt("AsdfGhjkl", sessionkey=skey)
for pw in ("QwertyUiop", "AsdfGhjkl", "nope"):
    rec(('roundtrip-pass', pw), lambda: enc2.decrypt(pw))
for kn in ('rsa.1.sec.asc', 'ecc.1.sec.asc', 'ecc.2.sec.asc', 'mixed.1.sec.asc', 'targette.sec.rsa.asc'):
    k = keys[kn]
    try:
        em = k.pubkey.encrypt(lit, cipher=SymmetricKeyAlgorithm.AES256, sessionkey=skey)
    except Exception as e:
        out.append(('roundtrip-enc', kn, type(e).__name__, str(e)))
        continue
    for kn2, k2 in sorted(keys.items()):
        rec(('roundtrip-key', kn, kn2), lambda: k2.decrypt(em))
    # tamper with the encrypted body (last octet and one in the middle)
    for pos in (-1, 3, 20):
        em2 = PGPMessage.from_blob(bytes(em))
        em2._message.ct[pos] ^= 1
        rec(('roundtrip-tamper', kn, pos), lambda: k.decrypt(em2))

print(len(out))
print(hashlib.sha256(repr(out).encode('utf-8')).hexdigest())
if '-v' in sys.argv:
    for o in out:
        print(o)
