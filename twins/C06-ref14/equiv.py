"""Equivalence digest for the C06 mechanism (secret keys at rest).

Run as:  cd <tree> && /venv/bin/python equiv.py
Prints one sha256 over every observable output it collects; must be the same on
the unchanged and on the refactored tree.
"""
import os
import sys
sys.path.insert(0, os.getcwd())

import glob
import hashlib
import itertools
import warnings

# deterministic "randomness" for salt / IV so that the protected export can be digested
_ctr = [0]


def _fake_urandom(n):
    _ctr[0] += 1
    return hashlib.sha256(b'equiv-%d' % _ctr[0]).digest()[:n] if n <= 32 else bytes(bytearray(i % 251 for i in range(n)))


os.urandom = _fake_urandom

import pgpy  # noqa: E402
from pgpy.constants import HashAlgorithm, SymmetricKeyAlgorithm, String2KeyType  # noqa: E402
from pgpy.packet.fields import String2Key  # noqa: E402
from pgpy.packet import Packet  # noqa: E402

out = hashlib.sha256()
nrec = [0]


def rec(*items):
    nrec[0] += 1
    for it in items:
        if isinstance(it, (bytes, bytearray)):
            out.update(b'B' + bytes(it))
        else:
            out.update(b'S' + repr(it).encode('utf-8'))
        out.update(b'|')


def secrets_of(key):
    res = []
    for sk in itertools.chain([key], key.subkeys.values()):
        km = sk._key.keymaterial
        res.append((type(km).__name__, [int(getattr(km, f)) for f in getattr(km, '__privfields__', ())],
                    bytes(getattr(km, 'chksum', b'')), len(getattr(km, 'encbytes', b''))))
    return res


def state_of(key):
    return (key.is_public, key.is_protected, key.is_unlocked, secrets_of(key), bytes(key), len(key._key), str(key.fingerprint))


# ---- 1. String2Key.derive_key matrix -------------------------------------------------------
passphrases = ['QwertyUiop', b'QwertyUiop', u'p\xe4ssw\xf6rd ☃', 'x' * 300, b'\x00\xff' * 40, 'a']
halgs = [HashAlgorithm.MD5, HashAlgorithm.SHA1, HashAlgorithm.RIPEMD160, HashAlgorithm.SHA224,
         HashAlgorithm.SHA256, HashAlgorithm.SHA384, HashAlgorithm.SHA512]
encalgs = [SymmetricKeyAlgorithm.TripleDES, SymmetricKeyAlgorithm.CAST5, SymmetricKeyAlgorithm.Blowfish,
           SymmetricKeyAlgorithm.AES128, SymmetricKeyAlgorithm.AES192, SymmetricKeyAlgorithm.AES256,
           SymmetricKeyAlgorithm.Camellia256, SymmetricKeyAlgorithm.Twofish256]
for spec in (String2KeyType.Simple, String2KeyType.Salted, String2KeyType.Iterated):
    for halg in halgs:
        for encalg in encalgs:
            for count in (0, 1, 96, 255):
                if count == 255 and encalg is not SymmetricKeyAlgorithm.AES256:
                    continue
                for pw in passphrases:
                    s2k = String2Key()
                    s2k.usage = 254
                    s2k.encalg = encalg
                    s2k.specifier = spec
                    s2k.halg = halg
                    s2k.salt = bytearray(b'\x01\x23\x45\x67\x89\xab\xcd\xef')
                    s2k.count = count
                    try:
                        rec(int(spec), int(halg), int(encalg), count, repr(pw), s2k.derive_key(pw))
                    except Exception as e:  # unsupported hash in this build etc.
                        rec(int(spec), int(halg), int(encalg), count, repr(pw), type(e).__name__, str(e))

# error behaviour of derive_key
for pw, spec in ((u'', String2KeyType.Simple), (b'', String2KeyType.Simple), (bytearray(b'abc'), String2KeyType.Iterated),
                 (None, String2KeyType.Salted), (u'', String2KeyType.Salted)):
    s2k = String2Key()
    s2k.usage = 254
    s2k.encalg = SymmetricKeyAlgorithm.AES256
    s2k.specifier = spec
    s2k.halg = HashAlgorithm.SHA256
    s2k.salt = bytearray(b'12345678')
    s2k.count = 10
    try:
        rec('err', repr(pw), int(spec), s2k.derive_key(pw))
    except Exception as e:
        rec('err', repr(pw), int(spec), type(e).__name__, str(e))
s2k = String2Key()
s2k.usage = 254
try:
    rec('plain', s2k.derive_key('abc'))
except Exception as e:
    rec('plain', type(e).__name__, str(e))

# ---- 2. parse every private fixture, dump its state and its export -------------------------
keyfiles = sorted(glob.glob('tests/testdata/keys/*.asc') + glob.glob('tests/testdata/blocks/*key.asc') +
                  ['tests/testdata/sectest.asc', 'tests/testdata/pubtest.asc', 'tests/testdata/blocks/expyro.asc'])
keys = {}
for kf in keyfiles:
    with warnings.catch_warnings(record=True) as w:
        warnings.simplefilter('always')
        try:
            key, _ = pgpy.PGPKey.from_file(kf)
        except Exception as e:
            rec(kf, type(e).__name__, str(e))
            continue
    keys[kf] = key
    rec(kf, state_of(key), [str(x.message) for x in w])

for pf in sorted(glob.glob('tests/testdata/packets/0[57].*')):
    with open(pf, 'rb') as f:
        data = bytearray(f.read())
    try:
        pkt = Packet(data)
        km = pkt.keymaterial
        rec(pf, type(pkt).__name__, type(km).__name__, pkt.__bytearray__(), len(pkt), len(km), km.publen(),
            pkt.protected, pkt.unlocked, [int(getattr(km, f)) for f in km.__privfields__], bytes(km.chksum),
            bytes(km.encbytes), bytes(km.s2k.__bytearray__()), len(data))
    except Exception as e:
        rec(pf, type(e).__name__, str(e))

# ---- 3. unlock the protected fixtures (right / wrong passphrase, exception in scope) ---------
for kf, key in sorted(keys.items()):
    if not key.is_protected:
        continue
    for pw in ('QwertyUiop', b'QwertyUiop', 'ClearlyTheWrongPassword'):
        try:
            with warnings.catch_warnings(record=True) as w:
                warnings.simplefilter('always')
                with key.unlock(pw) as uk:
                    rec(kf, 'inside', repr(pw), uk is key, state_of(key))
                    if key.is_unlocked and key.key_algorithm.can_sign:
                        sig = key.sign('equiv message', created=__import__('datetime').datetime(2020, 1, 1))
                        rec(kf, 'verify', bool(key.pubkey.verify('equiv message', sig)))
                    raise KeyError('boom')
        except Exception as e:
            rec(kf, 'exc', repr(pw), type(e).__name__, str(e))
        rec(kf, 'after', repr(pw), state_of(key))
        try:
            key.sign('x')
            rec(kf, 'sign-locked', 'no error')
        except Exception as e:
            rec(kf, 'sign-locked', type(e).__name__, str(e))

# ---- 4. protect unprotected fixtures with fixed salt/IV, export, re-import, unlock ----------
combos = [(SymmetricKeyAlgorithm.AES256, HashAlgorithm.SHA256), (SymmetricKeyAlgorithm.CAST5, HashAlgorithm.SHA1),
          (SymmetricKeyAlgorithm.TripleDES, HashAlgorithm.SHA512), (SymmetricKeyAlgorithm.Camellia192, HashAlgorithm.SHA384)]
for kf in sorted(keys):
    for (ea, ha), pw in zip(combos, ['pass one', b'bytes pass', u'ümläut ☃', 'y' * 200]):
        key, _ = pgpy.PGPKey.from_file(kf)
        with warnings.catch_warnings(record=True) as w:
            warnings.simplefilter('always')
            before = secrets_of(key)
            if key.is_public or key.is_protected:
                # protect() only warns here; record that and go on
                key.protect(pw, ea, ha)
                rec(kf, 'protect-refused', state_of(key), [str(x.message) for x in w])
                break
            try:
                key.protect(pw, ea, ha)
            except Exception as e:
                rec(kf, 'protect-exc', type(e).__name__, str(e))
                continue
            rec(kf, 'protected', int(ea), int(ha), state_of(key), [str(x.message) for x in w])
        blob = str(key)
        k2, _ = pgpy.PGPKey.from_blob(blob)
        rec(kf, 'reimport', state_of(k2))
        with k2.unlock(pw):
            rec(kf, 'reimport-unlocked', state_of(k2), secrets_of(k2) == before)
            # re-protect while unlocked with another passphrase
            k2.protect('second', SymmetricKeyAlgorithm.AES128, HashAlgorithm.SHA224)
            rec(kf, 'reprotected', state_of(k2))
        rec(kf, 'reimport-after', state_of(k2))
        try:
            with k2.unlock(pw):
                rec(kf, 'old passphrase still works?!')
        except Exception as e:
            rec(kf, 'oldpw', type(e).__name__, str(e))
        with k2.unlock('second'):
            rec(kf, 'second', state_of(k2))
        rec(kf, 'second-after', state_of(k2))

print('records', nrec[0])
print('digest', out.hexdigest())
