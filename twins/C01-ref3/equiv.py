"""Equivalence probe for property C01 (signature soundness).

Run as:  cd <tree> && /venv/bin/python equiv.py
Prints one sha256 digest over every observable output of the signature
hashing / verification code on fixed fixture inputs.  The digest must be the
same on the unchanged and on the refactored tree.
"""
import glob
import hashlib
import os
import sys
import warnings

sys.path.insert(0, os.getcwd())
warnings.simplefilter('ignore')

import pgpy  # noqa: E402
from pgpy import PGPKey, PGPMessage, PGPSignature  # noqa: E402
from cryptography.hazmat.primitives import hashes  # noqa: E402

TD = os.path.join('tests', 'testdata')
acc = hashlib.sha256()
nrec = [0]


def rec(*items):
    nrec[0] += 1
    acc.update(repr(items).encode('utf-8', 'backslashreplace') + b'\n')


def attempt(label, fn):
    try:
        val = fn()
    except Exception as exc:  # the exception type and text are observable too
        rec(label, 'EXC', type(exc).__name__, str(exc))
        return None
    return val


def describe(sv):
    """everything a caller can see on a SignatureVerification"""
    rows = []
    for s in sv._subjects:
        rows.append((int(s.issues), repr(s.issues), s.by.fingerprint.keyid, s.signature.signer,
                     int(s.signature.type), type(s.subject).__name__))
    good = [(s.signature.signer, int(s.issues)) for s in sv.good_signatures]
    bad = [(s.signature.signer, int(s.issues)) for s in sv.bad_signatures]
    return (bool(sv), sv.__nonzero__(), repr(sv), len(sv), rows, good, bad)


def hd(label, sig, subj):
    def _f():
        return hashlib.sha256(sig.hashdata(subj)).hexdigest()
    v = attempt(label, _f)
    if v is not None:
        rec(label, int(sig.type), sig.signer, v)


keyfiles = sorted(glob.glob(os.path.join(TD, 'keys', '*.asc'))) \
    + sorted(glob.glob(os.path.join(TD, 'signatures', '*.key.asc'))) \
    + [os.path.join(TD, 'pubtest.asc'), os.path.join(TD, 'sectest.asc')]
keys = []
for kf in keyfiles:
    got = attempt(('load', kf), lambda: PGPKey.from_file(kf))
    if got is None:
        continue
    key = got[0]
    keys.append((kf, key))

# 1. hashdata of every signature carried in every fixture key, over its real subject and over foreign subjects
for kf, key in keys:
    for sig in key.__sig__:
        hd(('hd-key', kf), sig, key)
    for uid in list(key.userids) + list(key.userattributes):
        for sig in uid.__sig__:
            hd(('hd-uid', kf), sig, uid)
            hd(('hd-uid-on-key', kf), sig, key)
    for skid, sk in key.subkeys.items():
        for sig in sk.__sig__:
            hd(('hd-subkey', kf, skid), sig, sk)
            hd(('hd-subkey-via-primary', kf, skid), sig, key)

# 2. self verification of every fixture key (certifications, bindings, revocations carried inside keys)
for kf, key in keys:
    sv = attempt(('verify-self', kf), lambda: key.verify(key))
    if sv is not None:
        rec(('verify-self', kf), describe(sv))
    for uid in key.userids:
        sv = attempt(('verify-uid', kf, uid.name), lambda: key.verify(uid))
        if sv is not None:
            rec(('verify-uid', kf, uid.name), describe(sv))
    for skid, sk in key.subkeys.items():
        sv = attempt(('verify-subkey', kf, skid), lambda: key.verify(sk))
        if sv is not None:
            rec(('verify-subkey', kf, skid), describe(sv))

# 3. cross verification: key A asked to verify key B (wrong key)
for kfa, ka in keys[:6]:
    for kfb, kb in keys[:6]:
        if kfa == kfb:
            continue
        sv = attempt(('verify-cross', kfa, kfb), lambda: ka.verify(kb))
        if sv is not None:
            rec(('verify-cross', kfa, kfb), describe(sv))

# 4. detached signatures over the true subject and over mutated subjects
for sf in sorted(glob.glob(os.path.join(TD, 'signatures', '*.sig.asc'))):
    stem = sf[:-len('.sig.asc')]
    if not os.path.exists(stem + '.subj'):
        continue
    sig = PGPSignature.from_file(sf)
    with open(stem + '.subj', 'rb') as fh:
        subj = fh.read()
    key = PGPKey.from_file(stem + '.key.asc')[0]
    hd(('hd-detached', sf), sig, subj)
    for label, s in (('true', subj), ('appended', subj + b'x'), ('truncated', subj[:-1]), ('empty', b''),
                     ('text', subj.decode('latin-1'))):
        sv = attempt(('verify-detached', sf, label), lambda: key.verify(s, sig))
        if sv is not None:
            rec(('verify-detached', sf, label), describe(sv), sig in sv, s in sv if isinstance(s, bytes) else None)
    for kf, other in keys[:4]:
        sv = attempt(('verify-detached-wrongkey', sf, kf), lambda: other.verify(subj, sig))
        if sv is not None:
            rec(('verify-detached-wrongkey', sf, kf), describe(sv))

# 4b. key revocation certificates (stored as key blocks; re-labelled so they load as bare signatures)
for rf in sorted(glob.glob(os.path.join(TD, 'revocations', '*.revoc.asc'))):
    with open(rf) as fh:
        blob = fh.read().replace('PUBLIC KEY BLOCK', 'SIGNATURE')
    rsig = attempt(('loadrev', rf), lambda: PGPSignature.from_blob(blob))
    if rsig is None:
        continue
    for kf, key in keys:
        if rsig.signer != key.fingerprint.keyid:
            continue
        hd(('hd-revoc', rf, kf), rsig, key)
        sv = attempt(('verify-revoc', rf, kf), lambda: key.verify(key, rsig))
        if sv is not None:
            rec(('verify-revoc', rf, kf), describe(sv))
        for skid, sk in key.subkeys.items():
            hd(('hd-revoc-subkey', rf, kf, skid), rsig, sk)
            sv = attempt(('verify-revoc-subkey', rf, kf, skid), lambda: key.verify(sk, rsig))
            if sv is not None:
                rec(('verify-revoc-subkey', rf, kf, skid), describe(sv))

# 5. signed messages (inline + cleartext) against every fixture key
msgfiles = sorted(glob.glob(os.path.join(TD, 'messages', '*signed*.asc')))
for mf in msgfiles:
    msg = attempt(('loadmsg', mf), lambda: PGPMessage.from_file(mf))
    if msg is None:
        continue
    for sig in msg.signatures:
        hd(('hd-msg', mf), sig, msg._signed_data if hasattr(msg, '_signed_data') else msg.message)
    for kf, key in keys:
        sv = attempt(('verify-msg', mf, kf), lambda: key.verify(msg))
        if sv is not None:
            rec(('verify-msg', mf, kf), describe(sv))

# 6. fresh signatures made with fixture secret keys (deterministic parts only: hashdata + verdicts)
for kf, key in keys:
    if key.is_public or key.is_protected:
        continue
    pub = key.pubkey
    for text in ('hello world', 'line one\nline two\r\nline three\n', ''):
        sig = attempt(('sign', kf, text), lambda: key.sign(text, created=__import__('datetime').datetime(2020, 1, 1)))
        if sig is None:
            continue
        hd(('hd-fresh', kf, text), sig, text)
        for label, s in (('true', text), ('mutated', text + '!')):
            sv = attempt(('verify-fresh', kf, text, label), lambda: pub.verify(s, sig))
            if sv is not None:
                rec(('verify-fresh', kf, text, label), describe(sv))
        # raw public-key primitive: right and wrong octets
        h = getattr(hashes, sig.hash_algorithm.name)()
        rec(('prim', kf, text), attempt('p1', lambda: pub._key.verify(sig.hashdata(text), sig.__sig__, h)),
            attempt('p2', lambda: pub._key.verify(sig.hashdata(text) + b'\x00', sig.__sig__, h)))
    # fresh certification / subkey revocation / direct-key signatures (not attached to the key)
    when = __import__('datetime').datetime(2020, 1, 1)
    for uid in key.userids:
        csig = attempt(('certify', kf), lambda: key.certify(uid, created=when))
        if csig is not None:
            hd(('hd-cert', kf, uid.name), csig, uid)
            sv = attempt(('verify-cert', kf), lambda: pub.verify(uid, csig))
            if sv is not None:
                rec(('verify-cert', kf, uid.name), describe(sv))
            for other in list(key.userids)[:2]:
                if other is not uid:
                    sv = attempt(('verify-cert-otheruid', kf), lambda: pub.verify(other, csig))
                    if sv is not None:
                        rec(('verify-cert-otheruid', kf, uid.name, other.name), describe(sv))
    for skid, sk in key.subkeys.items():
        rsig = attempt(('revoke-subkey', kf, skid), lambda: key.revoke(sk, created=when))
        if rsig is not None:
            hd(('hd-subkeyrev', kf, skid), rsig, sk)
            sv = attempt(('verify-subkeyrev', kf, skid), lambda: pub.verify(pub.subkeys[skid], rsig))
            if sv is not None:
                rec(('verify-subkeyrev', kf, skid), describe(sv))
    dsig = attempt(('directkey', kf), lambda: key.certify(key, created=when))
    if dsig is not None:
        hd(('hd-direct', kf), dsig, key)
        sv = attempt(('verify-direct', kf), lambda: pub.verify(pub, dsig))
        if sv is not None:
            rec(('verify-direct', kf), describe(sv))
    # type errors and the "nothing to verify" path
    rec(('err', kf), attempt('e1', lambda: pub.verify(12345)), attempt('e2', lambda: pub.verify('abc', 'notasig')),
        attempt('e3', lambda: pub.verify('abc')))

print('records', nrec[0])
print('digest', acc.hexdigest())
