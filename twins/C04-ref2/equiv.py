"""Behavioural digest of the decryption / integrity-check paths of PGPy.

Run as:  cd <tree> && /venv/bin/python equiv.py
Prints one SHA-256 digest over all observed outcomes (returned plaintext or
exception type + text).  Only deterministic observations are digested.
"""
import os
import sys
sys.path.insert(0, os.getcwd())

import hashlib
import warnings

warnings.simplefilter('ignore')

import pgpy
from pgpy import PGPKey, PGPMessage
from pgpy.constants import PubKeyAlgorithm, SymmetricKeyAlgorithm, CompressionAlgorithm
from pgpy.packet.packets import IntegrityProtectedSKEDataV1, PKESessionKeyV3
from pgpy.symenc import _encrypt

LOG = []


def rec(label, fn):
    try:
        out = fn()
    except BaseException as e:  # noqa
        LOG.append('%s -> EXC %s: %s' % (label, type(e).__name__, str(e)))
        return None
    LOG.append('%s -> OK %r' % (label, out))
    return out


def msg_payload(m):
    if isinstance(m, PGPMessage):
        return (m.type, bytes(m.message.encode('utf-8') if isinstance(m.message, str) else bytes(m.message)),
                [type(p).__name__ for p in m])
    return repr(m)


K = 'tests/testdata/keys/'
M = 'tests/testdata/messages/'
rsa1, _ = PGPKey.from_file(K + 'rsa.1.sec.asc')
ecc1, _ = PGPKey.from_file(K + 'ecc.1.sec.asc')
ecc2, _ = PGPKey.from_file(K + 'ecc.2.sec.asc')
dsa1, _ = PGPKey.from_file(K + 'dsa.1.sec.asc')
rsa_enc, _ = PGPKey.from_file(K + 'rsa.1.enc.asc')

# ---------------------------------------------------------------- 1. fixture messages, right / wrong keys
key_msgs = ['message.rsa.cast5.asc', 'message.rsa.dsa.3des.asc', 'message.rsa.dsa.cam128.asc',
            'message.rsa.dsa.pass.aes.asc', 'message.ecdh.cv25519.asc', 'message.ecdh.encrypted.aes.asc',
            'message.rsa.cast5.no-mdc.asc', 'message.signed.asc']
for mf in key_msgs:
    for kn, k in (('rsa1', rsa1), ('ecc1', ecc1), ('ecc2', ecc2), ('dsa1', dsa1), ('rsa_enc', rsa_enc)):
        for subname, sub in [('primary', k)] + sorted(k.subkeys.items()):
            m = PGPMessage.from_file(M + mf)
            rec('keydec %s %s/%s' % (mf, kn, subname), lambda: msg_payload(sub.decrypt(m)))

m = PGPMessage.from_file(M + 'message.signed.asc')
rec('unencrypted identity', lambda: rsa1.decrypt(m) is m)

pass_msgs = [M + 'message.rsa.dsa.pass.aes.asc', M + 'message.nomdc.pass.asc', M + 'message.literal.nomdc.pass.cast5.asc',
             'tests/testdata/message.enc.twofish.asc', M + 'message.rsa.cast5.asc', M + 'message.signed.asc']
for mf in pass_msgs:
    for pw in ('QwertyUiop', 'TheWrongPassword', '', b'QwertyUiop', u'Qwertyüiop'):
        m = PGPMessage.from_file(mf)
        rec('passdec %s %r' % (mf, pw), lambda: msg_payload(m.decrypt(pw)))

# ---------------------------------------------------------------- 2. bit flips / truncations of fixture messages
def mutate_and_decrypt(blob, how, decfn):
    def run():
        mm = PGPMessage.from_blob(bytes(blob))
        return msg_payload(decfn(mm))
    rec(how, run)


for mf, decfn, dn in ((M + 'message.rsa.cast5.asc', rsa1.decrypt, 'rsa1'),
                      (M + 'message.ecdh.cv25519.asc', ecc2.decrypt, 'ecc2'),
                      (M + 'message.rsa.dsa.pass.aes.asc', lambda x: x.decrypt('QwertyUiop'), 'pass'),
                      (M + 'message.rsa.dsa.pass.aes.asc', rsa1.decrypt, 'rsa1')):
    orig = bytes(PGPMessage.from_file(mf).__bytes__())
    step = max(1, len(orig) // 60)
    for off in range(0, len(orig), step):
        b = bytearray(orig)
        b[off] ^= 1 << (off % 8)
        mutate_and_decrypt(b, 'flip %s %s @%d' % (mf, dn, off), decfn)
    for cut in (1, 2, 5, 20, 21, 22, 23, 40, len(orig) // 2):
        mutate_and_decrypt(orig[:-cut], 'trunc %s %s -%d' % (mf, dn, cut), decfn)
    mutate_and_decrypt(orig + b'\x00', 'extend %s %s' % (mf, dn), decfn)

    # mutations of the encrypted body only (header stays valid)
    for off in (0, 1, 7, 8, 9, 10, 17, 18, 30, -1, -2, -20, -21, -22, -23):
        def run():
            mm = PGPMessage.from_file(mf)
            ct = mm._message.ct
            if -len(ct) <= off < len(ct):
                ct[off] ^= 0x80
            return msg_payload(decfn(mm))
        rec('ctflip %s %s @%d' % (mf, dn, off), run)
    for cut in (1, 2, 20, 22, 23, 30):
        def run():
            mm = PGPMessage.from_file(mf)
            del mm._message.ct[-cut:]
            return msg_payload(decfn(mm))
        rec('cttrunc %s %s -%d' % (mf, dn, cut), run)
    def run():
        mm = PGPMessage.from_file(mf)
        ct = mm._message.ct
        ct[10:18], ct[18:26] = ct[18:26], ct[10:18]
        return msg_payload(decfn(mm))
    rec('ctswap %s %s' % (mf, dn), run)

# ---------------------------------------------------------------- 3. IntegrityProtectedSKEDataV1.decrypt on crafted plaintexts
def seipd(pt, key, alg):
    skd = IntegrityProtectedSKEDataV1()
    skd.ct = bytearray(_encrypt(bytes(pt), bytes(key), alg))
    out = skd.decrypt(key, alg)
    return (type(out).__name__, bytes(out))


for alg in (SymmetricKeyAlgorithm.AES128, SymmetricKeyAlgorithm.AES256, SymmetricKeyAlgorithm.CAST5,
            SymmetricKeyAlgorithm.TripleDES, SymmetricKeyAlgorithm.Camellia192, SymmetricKeyAlgorithm.Blowfish):
    key = bytes(range(1, alg.key_size // 8 + 1))
    bs = alg.block_size // 8
    for body in (b'', b'x', b'hello world' * 7):
        prefix = bytes(range(0x40, 0x40 + bs))
        good = prefix + prefix[-2:] + body
        mdc = b'\xd3\x14' + hashlib.sha1(good + b'\xd3\x14').digest()
        rec('seipd good %s %d' % (alg.name, len(body)), lambda: seipd(good + mdc, key, alg))
        rec('seipd bytearray-key %s %d' % (alg.name, len(body)), lambda: seipd(good + mdc, bytearray(key), alg))
        # wrong hash
        bad = bytearray(good + mdc)
        bad[-1] ^= 1
        rec('seipd badhash %s %d' % (alg.name, len(body)), lambda: seipd(bad, key, alg))
        # wrong MDC header
        for i, hdr in enumerate((b'\xd3\x15', b'\xd2\x14', b'\x00\x00')):
            x = good + hdr + hashlib.sha1(good + hdr).digest()
            rec('seipd badhdr%d %s %d' % (i, alg.name, len(body)), lambda: seipd(x, key, alg))
        # hash that omits the header
        x = good + b'\xd3\x14' + hashlib.sha1(good).digest()
        rec('seipd nohdrhash %s %d' % (alg.name, len(body)), lambda: seipd(x, key, alg))
        # valid MDC, broken prefix repeat
        for i in (1, 2):
            p2 = bytearray(prefix + prefix[-2:] + body)
            p2[bs + i - 1] ^= 0x10
            x = bytes(p2) + b'\xd3\x14' + hashlib.sha1(bytes(p2) + b'\xd3\x14').digest()
            rec('seipd badrepeat%d %s %d' % (i, alg.name, len(body)), lambda: seipd(x, key, alg))
        # wrong key
        rec('seipd wrongkey %s %d' % (alg.name, len(body)),
            lambda: (lambda s: s.decrypt(bytes(len(key)), alg))(
                (lambda s: (setattr(s, 'ct', bytearray(_encrypt(good + mdc, key, alg))), s)[1])(IntegrityProtectedSKEDataV1())))
    # short plaintexts, including ones that carry a "valid" MDC over a truncated prefix
    for n in (0, 1, 2, 10, 19, 20, 21, 22, 23, 24, bs + 1, bs + 2, bs + 22):
        rec('seipd short zeros %s %d' % (alg.name, n), lambda: seipd(bytes(n), key, alg))
    for n in (0, 1, 2, 3, bs - 1, bs, bs + 1, bs + 2):
        head = bytes([0x55]) * n
        x = head + b'\xd3\x14' + hashlib.sha1(head + b'\xd3\x14').digest()
        rec('seipd short validmdc %s %d' % (alg.name, n), lambda: seipd(x, key, alg))

# ---------------------------------------------------------------- 4. PKESessionKeyV3.decrypt_sk on crafted "m" values
class StubCT(object):
    def __init__(self, m):
        self.m = m
        self.calls = []

    def decrypt(self, *args):
        self.calls.append(len(args))
        return self.m


def dsk(m, pkalg=PubKeyAlgorithm.ECDH):
    pk = PKESessionKeyV3()
    pk.pkalg = pkalg
    pk.ct = StubCT(m)
    alg, key = pk.decrypt_sk(object())
    return (alg.name, type(key).__name__, bytes(key), pk.ct.calls)


def mk(algid, key, delta=0, extra=b''):
    cs = (sum(bytearray(key)) + delta) % 65536
    return bytes([algid]) + key + bytes([cs >> 8, cs & 0xff]) + extra


for alg in (SymmetricKeyAlgorithm.AES128, SymmetricKeyAlgorithm.AES256, SymmetricKeyAlgorithm.CAST5,
            SymmetricKeyAlgorithm.TripleDES):
    n = alg.key_size // 8
    for kname, key in (('ff', b'\xff' * n), ('zero', bytes(n)), ('seq', bytes(range(n)))):
        rec('dsk good %s %s' % (alg.name, kname), lambda: dsk(mk(int(alg), key)))
        rec('dsk good+extra %s %s' % (alg.name, kname), lambda: dsk(mk(int(alg), key, extra=b'\x05' * 5)))
        rec('dsk bytearray %s %s' % (alg.name, kname), lambda: dsk(bytearray(mk(int(alg), key))))
        for d in (1, -1, 256, 65535, 65536):
            rec('dsk delta%d %s %s' % (d, alg.name, kname), lambda: dsk(mk(int(alg), key, delta=d)))
        rec('dsk short %s %s' % (alg.name, kname), lambda: dsk(mk(int(alg), key)[:-1]))
        rec('dsk shorter %s %s' % (alg.name, kname), lambda: dsk(mk(int(alg), key)[:-2]))
        rec('dsk shortkey %s %s' % (alg.name, kname), lambda: dsk(mk(int(alg), key)[:5]))
rec('dsk empty', lambda: dsk(b''))
rec('dsk onlyalg', lambda: dsk(b'\x09'))
rec('dsk badalg', lambda: dsk(mk(0x63, b'\x01' * 16)))
rec('dsk plaintext-alg', lambda: dsk(mk(0, b'')))
rec('dsk plaintext-alg badsum', lambda: dsk(b'\x00\x00\x01'))
rec('dsk unsupported pkalg', lambda: dsk(mk(9, b'\x01' * 32), PubKeyAlgorithm.ElGamal))
rec('dsk dsa pkalg', lambda: dsk(mk(9, b'\x01' * 32), PubKeyAlgorithm.DSA))

# ---------------------------------------------------------------- 5. fresh encryptions (random ciphertext, deterministic outcome)
text = 'This message will have been encrypted ☃'
for kn, sec in (('rsa1', rsa1), ('ecc1', ecc1), ('ecc2', ecc2)):
    for cipher in (SymmetricKeyAlgorithm.AES256, SymmetricKeyAlgorithm.AES128, SymmetricKeyAlgorithm.CAST5,
                   SymmetricKeyAlgorithm.Camellia128, SymmetricKeyAlgorithm.TripleDES):
        for comp in (CompressionAlgorithm.Uncompressed, CompressionAlgorithm.ZIP):
            def run():
                lit = PGPMessage.new(text, compression=comp)
                sk = bytes(range(7, 7 + cipher.key_size // 8))
                enc = sec.pubkey.encrypt(lit, cipher=cipher, sessionkey=sk)
                return msg_payload(sec.decrypt(enc))
            rec('fresh %s %s %s' % (kn, cipher.name, comp.name), run)

    def run2():
        lit = PGPMessage.new(text)
        enc = sec.pubkey.encrypt(lit)
        return [type(e).__name__ for e in ()] + [rec_type(lambda: o.decrypt(enc)) for on, o in
                                                  (('rsa1', rsa1), ('ecc1', ecc1), ('ecc2', ecc2)) if o is not sec]

    def rec_type(f):
        try:
            return msg_payload(f())
        except BaseException as e:  # noqa
            return '%s: %s' % (type(e).__name__, e)
    rec('fresh wrongkey %s' % kn, run2)

# two recipients + passphrases
def multi():
    lit = PGPMessage.new(text)
    sk = bytes(range(32))
    enc = rsa1.pubkey.encrypt(lit, cipher=SymmetricKeyAlgorithm.AES256, sessionkey=sk)
    enc = ecc1.pubkey.encrypt(enc, cipher=SymmetricKeyAlgorithm.AES256, sessionkey=sk)
    enc = enc.encrypt('first pass', sessionkey=sk, cipher=SymmetricKeyAlgorithm.AES256)
    enc = enc.encrypt('second pass', sessionkey=sk, cipher=SymmetricKeyAlgorithm.AES256)
    out = []
    for name, f in (('rsa1', lambda: rsa1.decrypt(enc)), ('ecc1', lambda: ecc1.decrypt(enc)),
                    ('ecc2', lambda: ecc2.decrypt(enc)), ('p1', lambda: enc.decrypt('first pass')),
                    ('p2', lambda: enc.decrypt('second pass')), ('p3', lambda: enc.decrypt('third pass')),
                    ('reparse-p2', lambda: PGPMessage.from_blob(bytes(enc)).decrypt('second pass'))):
        out.append((name, rec_type(f)))
    return out


rec('multi', multi)


def passonly():
    out = []
    for cipher in (SymmetricKeyAlgorithm.AES256, SymmetricKeyAlgorithm.CAST5, SymmetricKeyAlgorithm.TripleDES):
        lit = PGPMessage.new(text)
        enc = lit.encrypt('pw one', cipher=cipher)
        out.append((cipher.name, rec_type(lambda: enc.decrypt('pw one')), rec_type(lambda: enc.decrypt('pw two')),
                    rec_type(lambda: lit.decrypt('pw one'))))
    return out


rec('passonly', passonly)

digest = hashlib.sha256('\n'.join(LOG).encode('utf-8')).hexdigest()
if '-v' in sys.argv:
    print('\n'.join(LOG))
print('observations=%d digest=%s' % (len(LOG), digest))
