"""Equivalence probe for property C01 (signature soundness).

Run as:  cd <tree> && /venv/bin/python equiv.py
Prints a digest over the observable results of PGPKey.verify, PGPSignature.hashdata,
the public-key verify primitives and SignatureVerification on fixed fixture inputs.
"""
import glob
import hashlib
import os
import sys
import warnings

sys.path.insert(0, os.getcwd())
warnings.simplefilter('ignore')

import pgpy  # noqa: E402
from pgpy import PGPKey, PGPMessage, PGPSignature  # noqa: E402
from pgpy.types import SignatureVerification  # noqa: E402
from pgpy.constants import SecurityIssues  # noqa: E402
from cryptography.hazmat.primitives import hashes  # noqa: E402

TD = 'tests/testdata'
out = []


def rec(*a):
    out.append(' | '.join(str(x) for x in a))


def subjname(s):
    if isinstance(s, (bytes, bytearray)):
        return type(s).__name__ + ':' + hashlib.sha256(bytes(s)).hexdigest()[:12]
    if isinstance(s, str):
        return 'str:' + hashlib.sha256(s.encode('utf-8', 'replace')).hexdigest()[:12]
    if isinstance(s, pgpy.PGPUID):
        return 'uid:' + hashlib.sha256(bytes(s.hashdata)).hexdigest()[:12]
    if isinstance(s, PGPKey):
        return 'key:' + str(s.fingerprint)
    return type(s).__name__


def describe(sv, sigdigest=True):
    rows = []
    for ss in sv._subjects:
        rows.append((int(ss.issues), str(ss.by.fingerprint), int(ss.signature.type), ss.signature.signer,
                     hashlib.sha256(bytes(ss.signature.__sig__)).hexdigest()[:12] if sigdigest else '-', subjname(ss.subject)))
    good = [(int(g.issues), g.signature.signer, subjname(g.subject)) for g in sv.good_signatures]
    bad = [(int(b.issues), b.signature.signer, subjname(b.subject)) for b in sv.bad_signatures]
    return (bool(sv), len(sv), repr(sv), rows, good, bad)


def tryverify(tag, key, subject, signature=None, sigdigest=True):
    try:
        sv = key.verify(subject, signature)
        rec(tag, 'OK', describe(sv, sigdigest))
    except Exception as e:
        rec(tag, 'EXC', type(e).__name__, str(e))


def tryhash(tag, sig, subject):
    try:
        hd = sig.hashdata(subject)
        rec(tag, type(hd).__name__, len(hd), hashlib.sha256(hd).hexdigest())
    except Exception as e:
        rec(tag, 'EXC', type(e).__name__, str(e))


def load_keys(pattern):
    ks = []
    for f in sorted(glob.glob(pattern)):
        try:
            k, _ = PGPKey.from_file(f)
            ks.append((os.path.basename(f), k))
        except Exception as e:
            rec('loadkey', f, type(e).__name__, str(e))
    return ks


pubkeys = load_keys(TD + '/keys/*.pub.asc')
seckeys = load_keys(TD + '/keys/*.sec.asc')
blockkeys = load_keys(TD + '/blocks/*pubkey.asc') + load_keys(TD + '/blocks/expyro.asc') + load_keys(TD + '/blocks/revochiio.asc')
allkeys = pubkeys + seckeys + blockkeys

# 1. keys verifying themselves, their uids, subkeys; hashdata for every carried signature
for name, k in allkeys:
    tryverify('selfverify ' + name, k, k)
    for i, uid in enumerate(list(k.userids) + list(k.userattributes)):
        tryverify('uid %s #%d' % (name, i), k, uid)
        for j, sig in enumerate(uid.__sig__):
            tryhash('hd uid %s #%d/%d' % (name, i, j), sig, uid)
            # wrong subject for a certification: the key instead of the uid, and a byte string
            tryhash('hd uid-as-key %s #%d/%d' % (name, i, j), sig, k)
            tryhash('hd uid-as-bytes %s #%d/%d' % (name, i, j), sig, b'abc')
    for j, sig in enumerate(k.__sig__):
        tryhash('hd key %s /%d' % (name, j), sig, k)
    for skid, sk in k.subkeys.items():
        tryverify('subkey %s %s' % (name, skid), k, sk)
        tryverify('subkey-by-itself %s %s' % (name, skid), sk, sk)
        for j, sig in enumerate(sk.__sig__):
            tryhash('hd subkey %s %s/%d' % (name, skid, j), sig, sk)
            tryhash('hd subkey-primary %s %s/%d' % (name, skid, j), sig, k)
            tryhash('hd subkey-text %s %s/%d' % (name, skid, j), sig, 'text')

# 2. cross verification: every key against every other public key (wrong key / no signatures)
for n1, k1 in pubkeys:
    for n2, k2 in pubkeys:
        if n1 != n2:
            tryverify('cross %s over %s' % (n1, n2), k1, k2)

# 3. detached signatures with matching / mutated subjects
for sf in sorted(glob.glob(TD + '/signatures/*.sig.asc')):
    base = sf[:-len('.sig.asc')]
    sig = PGPSignature.from_file(sf)
    if os.path.exists(base + '.subj'):
        with open(base + '.subj', 'rb') as f:
            subj = f.read()
        keyf = base + '.key.asc'
    else:
        subj = b"This is a test message."
        keyf = TD + '/keys/ecc.2.pub.asc'
    key, _ = PGPKey.from_file(keyf)
    n = os.path.basename(sf)
    for tag, s in [('exact', subj), ('bytearray', bytearray(subj)), ('extra', subj + b'xxxx'), ('empty', b''),
                   ('trunc', subj[:-1]), ('crlf', subj.replace(b'\n', b'\r\n'))]:
        tryverify('detached %s %s' % (n, tag), key, s, sig)
        tryhash('hd detached %s %s' % (n, tag), sig, s)
    try:
        text = subj.decode('utf-8')
        tryverify('detached %s str' % n, key, text, sig)
        tryhash('hd detached %s str' % n, sig, text)
    except UnicodeDecodeError:
        rec('detached', n, 'not utf-8')
    tryhash('hd detached %s latin' % n, sig, 'caf\xe9 €')
    tryhash('hd detached %s surrogate' % n, sig, 'bad \udc80')
    for kn, k in pubkeys:
        tryverify('detached %s wrongkey %s' % (n, kn), k, subj, sig)
    tryverify('detached %s None' % n, key, None, sig)
    tryverify('detached %s sig-as-subject' % n, key, sig, sig)

# 4. messages carrying signatures
msgfiles = sorted(glob.glob(TD + '/messages/*signed*.asc')) + sorted(glob.glob(TD + '/blocks/*signed.asc')) + \
    sorted(glob.glob(TD + '/blocks/cleartext*.asc')) + sorted(glob.glob(TD + '/blocks/message.*onepass.asc'))
for mf in msgfiles:
    try:
        msg = PGPMessage.from_file(mf)
    except Exception as e:
        rec('loadmsg', mf, type(e).__name__, str(e))
        continue
    for kn, k in allkeys:
        tryverify('msg %s by %s' % (os.path.basename(mf), kn), k, msg)
    for j, sig in enumerate(msg.signatures):
        try:
            tryhash('hd msg %s /%d' % (os.path.basename(mf), j), sig, msg._signed_data)
        except Exception as e:
            rec('hd msg', mf, type(e).__name__, str(e))

# 5. revocation signatures
for rf in sorted(glob.glob(TD + '/revocations/*.asc')):
    try:
        rsig = PGPSignature.from_file(rf)
    except Exception as e:
        rec('loadrev', rf, type(e).__name__, str(e))
        continue
    n = os.path.basename(rf)
    for kn, k in pubkeys:
        tryverify('revoc %s on %s' % (n, kn), k, k, rsig)
        tryhash('hd revoc %s on %s' % (n, kn), rsig, k)
        for skid, sk in k.subkeys.items():
            tryhash('hd revoc %s on subkey %s' % (n, skid), rsig, sk)

# 6. standalone signature blocks
for bf in sorted(glob.glob(TD + '/blocks/*signature*.asc')):
    try:
        bsig = PGPSignature.from_file(bf)
    except Exception as e:
        rec('loadsig', bf, type(e).__name__, str(e))
        continue
    for kn, k in pubkeys + blockkeys:
        tryverify('blocksig %s by %s' % (os.path.basename(bf), kn), k, 'some text\nmore\r\n', bsig)
    tryhash('hd blocksig ' + os.path.basename(bf), bsig, 'some text\nmore\r\n')

# 7. type checking / nothing to verify
k0 = pubkeys[0][1]
tryverify('type int', k0, 12)
tryverify('type badsig', k0, 'abc', 'notasig')
tryverify('nosig str', k0, 'abc')
tryverify('nosig None', k0, None)

# 8. freshly made signatures with the secret fixture keys (deterministic parts only: hashdata + verdict)
for name, sk in seckeys:
    if not sk.is_unlocked:
        continue
    try:
        s = sk.sign('hello\nworld\n', created=__import__('datetime').datetime(2020, 1, 2, 3, 4, 5))
    except Exception as e:
        rec('sign', name, type(e).__name__, str(e))
        continue
    tryhash('hd fresh ' + name, s, 'hello\nworld\n')
    tryverify('fresh good ' + name, sk.pubkey, 'hello\nworld\n', s, sigdigest=False)
    tryverify('fresh bad ' + name, sk.pubkey, 'hello\nworld!\n', s, sigdigest=False)
    # raw primitive: good, bad data, garbage signature bytes
    halg = getattr(hashes, s.hash_algorithm.name)
    prim = sk.pubkey.verify('hello\nworld\n', s)._subjects[0].by._key.keymaterial  # the (sub)key that really signed
    for tag, data, sb in [('good', s.hashdata('hello\nworld\n'), s.__sig__),
                          ('baddata', b'zzz', s.__sig__),
                          ('badsig', s.hashdata('hello\nworld\n'), b'\x01' * len(s.__sig__)),
                          ('shortsig', s.hashdata('hello\nworld\n'), b'\x01\x02')]:
        try:
            rec('prim', name, tag, repr(prim.verify(data, sb, halg())))
        except Exception as e:
            rec('prim', name, tag, 'EXC', type(e).__name__, str(e))

# 8b. freshly made key / subkey revocations and third-party certifications (hashdata + verdict only)
import datetime  # noqa: E402
from pgpy.constants import SignatureType  # noqa: E402
T0 = datetime.datetime(2020, 1, 2, 3, 4, 5)
for name, sk in seckeys:
    if not sk.is_unlocked:
        continue
    pub = sk.pubkey
    try:
        krev = sk.revoke(sk, created=T0)
        tryhash('hd keyrev ' + name, krev, sk)
        tryhash('hd keyrev-pub ' + name, krev, pub)
        tryverify('keyrev good ' + name, pub, pub, krev, sigdigest=False)
        for on, ok in pubkeys:
            tryverify('keyrev %s over %s' % (name, on), pub, ok, krev, sigdigest=False)
    except Exception as e:
        rec('keyrev', name, type(e).__name__, str(e))
    for skid, sub in sk.subkeys.items():
        try:
            srev = sk.revoke(sub, created=T0)
        except Exception as e:
            rec('subrev', name, skid, type(e).__name__, str(e))
            continue
        tryhash('hd subrev %s %s' % (name, skid), srev, sub)
        tryhash('hd subrev-on-primary %s %s' % (name, skid), srev, sk)
        tryhash('hd subrev-on-bytes %s %s' % (name, skid), srev, b'x')
        tryverify('subrev good %s %s' % (name, skid), pub, pub.subkeys[skid], srev, sigdigest=False)
        for oid, osub in pub.subkeys.items():
            tryverify('subrev %s %s over %s' % (name, skid, oid), pub, osub, srev, sigdigest=False)
    for on, ok in pubkeys:
        for i, uid in enumerate(list(ok.userids) + list(ok.userattributes)):
            for level in (SignatureType.Generic_Cert, SignatureType.Positive_Cert):
                try:
                    cert = sk.certify(uid, level=level, created=T0)
                except Exception as e:
                    rec('certify', name, on, i, int(level), type(e).__name__, str(e))
                    continue
                tryhash('hd cert %s on %s #%d L%d' % (name, on, i, level), cert, uid)
                tryverify('cert good %s on %s #%d L%d' % (name, on, i, level), pub, uid, cert, sigdigest=False)
                other = (list(ok.userids) + list(ok.userattributes))[i - 1]
                tryverify('cert other-uid %s on %s #%d L%d' % (name, on, i, level), pub, other, cert, sigdigest=False)

# 9. SignatureVerification container semantics
sv = SignatureVerification()
rec('sv empty', bool(sv), len(sv), list(sv.good_signatures), list(sv.bad_signatures), repr(sv))
for issues in [SecurityIssues.OK, SecurityIssues(0), SecurityIssues.WrongSig, SecurityIssues.HashFunctionNotCollisionResistant,
               SecurityIssues.Expired | SecurityIssues.AsymmetricKeyLengthIsTooShort, None, 0]:
    one = SignatureVerification()
    one.add_sigsubj('SIG', 'KEY', 'SUBJ', issues)
    try:
        rec('sv one', repr(issues), bool(one), len(one), [tuple(g) for g in one.good_signatures],
            [tuple(b) for b in one.bad_signatures], 'SIG' in one, 'SUBJ' in one, 'KEY' in one)
    except Exception as e:
        rec('sv one', repr(issues), 'EXC', type(e).__name__, str(e))
    try:
        both = SignatureVerification()
        both.add_sigsubj('S0', 'K0', 'X0', SecurityIssues.OK)
        both &= one
        rec('sv and', repr(issues), bool(both), len(both), len(list(both.good_signatures)), len(list(both.bad_signatures)))
    except Exception as e:
        rec('sv and', repr(issues), 'EXC', type(e).__name__, str(e))
try:
    sv & 3
except Exception as e:
    rec('sv and int', type(e).__name__, str(e))

blob = '\n'.join(out).encode('utf-8')
print(len(out), 'records')
print(hashlib.sha256(blob).hexdigest())
if '-v' in sys.argv:
    sys.stdout.write(blob.decode('utf-8') + '\n')
