"""Digest of the observable behaviour of the primitive wire codecs (property C09).

Run as:  cd <tree> && /venv/bin/python equiv.py
Prints the same digest on the unchanged and on a behaviour-preserving refactored tree.
"""
import glob
import hashlib
import os
import sys
import warnings

sys.path.insert(0, os.getcwd())
warnings.simplefilter('ignore')

import pgpy  # noqa: E402
from datetime import datetime, timezone  # noqa: E402
from pgpy.packet.types import Header as PHeader, MPI  # noqa: E402
from pgpy.packet.subpackets.types import Header as SHeader  # noqa: E402
from pgpy.packet.subpackets.signature import CreationTime  # noqa: E402
from pgpy.packet.subpackets.types import Signature as SigSubPacket  # noqa: E402
from pgpy.packet.packets import PubKeyV4  # noqa: E402
from pgpy.packet.fields import String2Key  # noqa: E402
from pgpy.types import Header as BHeader  # noqa: E402

out = hashlib.sha256()
nrec = [0]


def rec(*items):
    nrec[0] += 1
    out.update(repr(items).encode('utf-8') + b'\n')


def attempt(label, fn):
    try:
        rec(label, 'ok', fn())
    except Exception as e:  # noqa
        rec(label, 'exc', type(e).__name__, str(e))


LENGTHS = sorted(set(
    list(range(0, 600)) + list(range(8000, 8800)) + list(range(65000, 66100))
    + [2 ** k + d for k in range(8, 33) for d in (-2, -1, 0, 1)]
    + [16777215, 16777216, 4294967295]))

# ---- new-format packet headers: encode, decode, llen
for n in LENGTHS:
    h = PHeader()
    h.tag = 11
    h.length = n
    attempt(('new-enc', n), lambda: (bytes(h), len(h), h.llen))
    attempt(('enc_length', n), lambda: BHeader.encode_length(n))
    for ll in (0, 1, 2, 4):
        attempt(('enc_length-old', n, ll), lambda: BHeader.encode_length(n, False, ll))

    def rt():
        data = bytearray(bytes(h)) + bytearray(b'\xAA\xBB')
        g = PHeader()
        g.parse(data)
        return (g.length, g.llen, int(g.tag), g._lenfmt, bytes(data), bytes(g), len(g))
    attempt(('new-rt', n), rt)

# ---- old-format packet headers, each length type, including growth after parsing
for lt in (0, 1, 2, 3):
    for n in LENGTHS:
        def old():
            width = {0: 1, 1: 2, 2: 4, 3: 0}[lt]
            first = 0x80 | (6 << 2) | lt
            body = (n & ((1 << (8 * width)) - 1)).to_bytes(width, 'big') if width else b''
            data = bytearray([first]) + bytearray(body) + bytearray(b'\x01\x02\x03')
            g = PHeader()
            g.parse(data)
            res = [g.length, g.llen, int(g.tag), bytes(data), bytes(g), len(g)]
            g.length = n      # length may now cross a width boundary
            res += [g.llen, bytes(g), len(g)]
            return res
        attempt(('old', lt, n), old)

# ---- every first octet / short and truncated inputs (error behaviour)
for fo in range(256):
    for tail in (b'', b'\x00', b'\x01\x02', b'\x01\x02\x03\x04', b'\xff' * 6):
        def raw():
            data = bytearray([fo]) + bytearray(tail) + bytearray(40)
            g = PHeader()
            g.length = data
            return (g.length, bytes(data))
        attempt(('raw-new', fo, tail), raw)

        def raw_short():
            data = bytearray([fo]) + bytearray(tail)
            g = PHeader()
            g.length = data
            return (g.length, bytes(data))
        attempt(('raw-new-short', fo, tail), raw_short)
attempt('raw-empty', lambda: setattr(PHeader(), 'length', bytearray()))
attempt('raw-bytes', lambda: setattr(PHeader(), 'length', b'\x05abc'))
attempt('neg-enc', lambda: BHeader.encode_length(-1))
attempt('neg-enc-old', lambda: BHeader.encode_length(-1, False, 2))

# ---- partial body lengths
for chunks in ([1], [2, 1], [512, 512, 100], [1, 1, 1, 0], [8192, 200], [4, 2, 1, 193], [1024, 9000], [2, 70000]):
    def partial():
        data = bytearray()
        total = 0
        for c in chunks[:-1]:
            data += bytearray([224 + c.bit_length() - 1]) + bytearray((i + total) & 0xFF for i in range(c))
            total += c
        data += BHeader.encode_length(chunks[-1]) + bytearray((i + total) & 0xFF for i in range(chunks[-1]))
        data += b'TRAIL'
        g = PHeader()
        g.length = data
        return (g.length, hashlib.sha256(bytes(data)).hexdigest(), len(data))
    attempt(('partial', tuple(chunks)), partial)

# ---- subpacket headers
for n in LENGTHS:
    for crit in (False, True):
        for tid in (0x02, 0x10, 0x7f, 0xE5):
            def sub():
                h = SHeader()
                h.length = n
                h.typeid = tid
                h.critical = crit
                b = bytes(h)
                g = SHeader()
                data = bytearray(b) + bytearray(b'\x09')
                g.parse(data)
                return (b, len(h), h.llen, g.length, g.typeid, g.critical, bytes(data), bytes(g), len(g))
            attempt(('sub', n, crit, tid), sub)
attempt('sub-default', lambda: bytes(SHeader()))
attempt('sub-empty', lambda: SHeader().parse(bytearray()))
attempt('sub-lenonly', lambda: (lambda g, d: (g.parse(d), g.length, g.typeid, g.critical))(SHeader(), bytearray(b'\x05')))

# ---- MPIs
vals = set()
for bl in list(range(0, 130)) + [255, 256, 257, 1023, 1024, 2047, 2048, 4095, 4096, 4200, 65535, 65536, 65537]:
    if bl == 0:
        vals.add(0)
        continue
    vals.update([1 << (bl - 1), (1 << bl) - 1, (1 << (bl - 1)) | 1, ((1 << bl) - 1) // 3 | (1 << (bl - 1))])
for v in sorted(vals):
    def mpi():
        m = MPI(v)
        b = m.to_mpibytes()
        data = bytearray(b) + bytearray(b'\xEE\xFF')
        m2 = MPI(data)
        return (hashlib.sha256(b).hexdigest(), len(b), m.byte_length(), len(m), int(m) == v, int(m2) == v,
                bytes(data), type(m).__name__, type(m2).__name__)
    attempt(('mpi', v.bit_length(), v & 0xFFFF), mpi)
for raw in (b'', b'\x00', b'\x00\x00', b'\x00\x01', b'\x00\x09\x00\x01', b'\x00\x09\x01', b'\x00\x10\xff\xff\xff',
            b'\x00\x07\xff\x01', b'\xff\xff' + b'\x01' * 10, b'\x00\x11\x00\x00\x01\x99'):
    def mpiraw():
        data = bytearray(raw)
        m = MPI(data)
        return (int(m), bytes(data), m.to_mpibytes(), len(m))
    attempt(('mpiraw', raw), mpiraw)
    attempt(('mpiraw-bytes', raw), lambda: (int(MPI(bytes(raw))), MPI(bytes(raw)).to_mpibytes()))
attempt('mpi-neg', lambda: MPI(-5).to_mpibytes())
attempt('mpi-neg-len', lambda: (MPI(-5).byte_length(), len(MPI(-5))))
attempt('mpi-str', lambda: MPI('12'))
attempt('mpi-float', lambda: (MPI(3.7), MPI(3.7).to_mpibytes()))
attempt('mpi-none', lambda: MPI(None))
attempt('mpi-bool', lambda: (MPI(True), MPI(True).to_mpibytes()))

# ---- timestamps
TS = sorted(set([0, 1, 59, 60, 255, 256, 65535, 65536, 86399, 86400, 951782400, 1000000000, 1234567890,
                 2 ** 24 - 1, 2 ** 24, 2 ** 31 - 1, 2 ** 31, 2 ** 32 - 2, 2 ** 32 - 1, 2 ** 32, 2 ** 33]))
for t in TS:
    def ct_int():
        c = CreationTime()
        c.created = t
        return (c.created.isoformat(), bytes(c.__bytearray__()[-4:]), len(c.__bytearray__()))
    attempt(('ct-int', t), ct_int)

    def ct_bin():
        c = CreationTime()
        c.created = bytearray((t & 0xFFFFFFFF).to_bytes(4, 'big'))
        return (c.created.isoformat(), bytes(c.__bytearray__()))
    attempt(('ct-bin', t), ct_bin)

    def ct_parse():
        res = []
        for first in (b'\x05\x02', b'\x05\x82', b'\xc0\x05\x02', b'\xff\x00\x00\x00\x05\x02'):
            data = bytearray(first) + bytearray((t & 0xFFFFFFFF).to_bytes(4, 'big')) + bytearray(b'ZZ')
            c = SigSubPacket(data)
            before = bytes(c.__bytearray__())
            c.update_hlen()
            res.append((type(c).__name__, c.created.isoformat(), bytes(data), before, bytes(c.__bytearray__()),
                        c.header.length, c.header.critical, len(c)))
        return res
    attempt(('ct-parse', t), ct_parse)

    def pk_times():
        pk = PubKeyV4()
        res = []
        pk.created = t
        res.append(pk.created.isoformat())
        pk.created = bytearray((t & 0xFFFFFFFF).to_bytes(4, 'big'))
        res.append(pk.created.isoformat())
        pk.created = (t & 0xFFFFFFFF).to_bytes(4, 'big')
        res.append(pk.created.isoformat())
        pk.created = datetime.fromtimestamp(t, timezone.utc)
        res.append(pk.created.isoformat())
        return res
    attempt(('pk-times', t), pk_times)
attempt('ct-neg', lambda: setattr(CreationTime(), 'created', -1) or 'set')
attempt('ct-huge', lambda: setattr(CreationTime(), 'created', 10 ** 18))
attempt('ct-bytes', lambda: setattr(CreationTime(), 'created', b'\x00\x00\x00\x01'))
attempt('ct-naive', lambda: (lambda c: (setattr(c, 'created', datetime(2001, 2, 3, 4, 5, 6)), bytes(c.__bytearray__())))(CreationTime()))
attempt('ct-empty', lambda: (lambda c: (setattr(c, 'created', bytearray()), c.created.isoformat()))(CreationTime()))
attempt('pk-neg', lambda: setattr(PubKeyV4(), 'created', -1))
attempt('pk-str', lambda: setattr(PubKeyV4(), 'created', 'x'))
attempt('pk-naive', lambda: (lambda c: (setattr(c, 'created', datetime(2001, 2, 3, 4, 5, 6)), c.created.isoformat()))(PubKeyV4()))
attempt('pk-empty', lambda: (lambda c: (setattr(c, 'created', b''), c.created.isoformat()))(PubKeyV4()))

# ---- S2K coded count
for c in list(range(-3, 260)) + [True, False, 2 ** 40]:
    def s2k():
        s = String2Key()
        s.count = c
        return (s.count, s._count)
    attempt(('s2k', c), s2k)
for c in range(256):
    def s2kbytes():
        s = String2Key()
        data = bytearray([254, 9, 3, 8]) + bytearray(b'SALTSALT') + bytearray([c]) + bytearray(range(16)) + bytearray(b'rest')
        s.parse(data)
        s2 = s.__copy__()
        return (s.count, bytes(s.__bytearray__()), bytes(data), s2.count, bytes(s2.__bytearray__()), len(s))
    attempt(('s2kbytes', c), s2kbytes)
attempt('s2k-float', lambda: setattr(String2Key(), 'count', 1.5))

# ---- whole fixtures: parse and re-serialise
fixtures = sorted(glob.glob('tests/testdata/keys/*.asc') + glob.glob('tests/testdata/signatures/*.asc')
                  + glob.glob('tests/testdata/messages/*.asc') + glob.glob('tests/testdata/blocks/*.asc')
                  + ['tests/testdata/pubtest.asc', 'tests/testdata/sectest.asc'])
for f in fixtures:
    def load():
        with open(f, 'r') as fh:
            text = fh.read()
        res = []
        for cls in (pgpy.PGPKey, pgpy.PGPSignature, pgpy.PGPMessage):
            try:
                obj = cls.from_blob(text)
                if isinstance(obj, tuple):
                    obj = obj[0]
                res.append((cls.__name__, hashlib.sha256(bytes(obj)).hexdigest()))
                if isinstance(obj, pgpy.PGPKey):
                    res.append((obj.created.isoformat(), str(obj.fingerprint)))
                    for uid in obj.userids:
                        for sig in uid.signatures:
                            res.append(sig.created.isoformat())
                if isinstance(obj, pgpy.PGPSignature):
                    res.append(obj.created.isoformat())
            except Exception as e:  # noqa
                res.append((cls.__name__, type(e).__name__, str(e)[:200]))
        return res
    attempt(('fixture', f), load)

# packet-level fixtures
for f in sorted(glob.glob('tests/testdata/packets/*')):
    def pkt():
        with open(f, 'rb') as fh:
            data = bytearray(fh.read())
        p = pgpy.packet.Packet(data)
        return (type(p).__name__, p.header.length, p.header.llen, len(p.header), hashlib.sha256(bytes(p)).hexdigest(), len(data))
    attempt(('packet', os.path.basename(f)), pkt)

print('records:', nrec[0])
print('digest :', out.hexdigest())
