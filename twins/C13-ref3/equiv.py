#!/usr/bin/env python
# Equivalence probe for the C13 refactorings ("fresh randomness of the right size").
# Run as:  cd <tree> && /venv/bin/python equiv.py
# It replaces os.urandom by a deterministic, logging stand-in (so everything that is built
# from os.urandom becomes reproducible), exercises the anchored functions and prints one
# digest over all observable outputs.  Values that come from OpenSSL's own random source
# (RSA padding, ECDH ephemeral keys) are NOT digested; for those only structural facts
# and the decrypted results are recorded.
import hashlib
import os
import sys
import warnings

sys.path.insert(0, os.getcwd())
warnings.simplefilter('ignore')

_log = []
_ctr = [0]


def _fake_urandom(n):
    _ctr[0] += 1
    out = b''
    i = 0
    while len(out) < n:
        out += hashlib.sha256(b'C13-equiv-%d-%d' % (_ctr[0], i)).digest()
        i += 1
    _log.append(n)
    return out[:n]


os.urandom = _fake_urandom

import pgpy  # noqa: E402
from pgpy import PGPKey, PGPMessage  # noqa: E402
from pgpy.constants import SymmetricKeyAlgorithm, HashAlgorithm, EllipticCurveOID  # noqa: E402
from pgpy.packet.packets import SKESessionKeyV4, IntegrityProtectedSKEDataV1  # noqa: E402
from pgpy.packet.fields import ECDHCipherText  # noqa: E402

records = []


def rec(*items):
    line = ' | '.join(x if isinstance(x, str) else repr(x) for x in items)
    records.append(line)


def hx(b):
    return hashlib.sha256(bytes(b)).hexdigest()[:24]


def take_log():
    out = list(_log)
    del _log[:]
    return out


def attempt(label, fn):
    try:
        res = fn()
    except Exception as e:  # record the exception class and message
        rec(label, 'EXC', type(e).__name__, str(e), take_log())
        return None
    return res


# ---- 1. gen_iv / gen_key for every cipher ---------------------------------------------
for alg in SymmetricKeyAlgorithm:
    for meth in ('gen_iv', 'gen_key'):
        r = attempt('%s.%s' % (alg.name, meth), getattr(alg, meth))
        if r is not None:
            rec(alg.name, meth, type(r).__name__, len(r), bytes(r).hex(), take_log())
# two consecutive draws must differ (fresh draw each call)
a, b = SymmetricKeyAlgorithm.AES256.gen_key(), SymmetricKeyAlgorithm.AES256.gen_key()
rec('consecutive gen_key differ', a != b, take_log())
a, b = SymmetricKeyAlgorithm.AES128.gen_iv(), SymmetricKeyAlgorithm.AES128.gen_iv()
rec('consecutive gen_iv differ', a != b, take_log())

# ---- 2. SKESK: fresh salt ------------------------------------------------------------------
for alg in (SymmetricKeyAlgorithm.AES256, SymmetricKeyAlgorithm.CAST5, SymmetricKeyAlgorithm.TripleDES):
    for pw in ('hunter2', b'bytes-pass', u'p\xe4ss'):
        sk = SKESessionKeyV4()
        sk.s2k.usage = 255
        sk.s2k.specifier = 3
        sk.s2k.halg = HashAlgorithm.SHA256
        sk.s2k.encalg = alg
        sk.s2k.count = 200
        key = bytes(bytearray(range(alg.key_size // 8)))
        ret = attempt('skesk %s' % alg.name, lambda: sk.encrypt_sk(pw, key))
        rec('skesk', alg.name, repr(pw), ret, type(sk.s2k.salt).__name__, bytes(sk.s2k.salt).hex(),
            type(sk.ct).__name__, hx(sk.ct), hx(sk.__bytes__()), sk.header.length, take_log())
        back = attempt('skesk dec', lambda: sk.decrypt_sk(pw))
        rec('skesk back', back[0].name, bytes(back[1]) == key, take_log())
sk = SKESessionKeyV4()
attempt('skesk bad passphrase type', lambda: sk.encrypt_sk(None, b'\x00' * 16))
rec('skesk after failure', bytes(sk.s2k.salt).hex(), hx(sk.ct))

# ---- 3. SEIPD: random prefix -----------------------------------------------------------------
for alg in (SymmetricKeyAlgorithm.AES128, SymmetricKeyAlgorithm.AES256, SymmetricKeyAlgorithm.CAST5,
            SymmetricKeyAlgorithm.Twofish256, SymmetricKeyAlgorithm.Camellia192):
    for data in (b'', b'x', bytes(bytearray(range(256))) * 5, bytearray(b'bytearray payload')):
        sed = IntegrityProtectedSKEDataV1()
        key = bytes(bytearray((7 * i) & 0xff for i in range(alg.key_size // 8)))
        keep = bytes(data)
        ret = attempt('seipd %s' % alg.name, lambda: sed.encrypt(key, alg, data))
        rec('seipd', alg.name, type(data).__name__, len(data), ret, bytes(data) == keep, type(sed.ct).__name__,
            len(sed.ct), hx(sed.ct), hx(sed.__bytes__()), sed.header.length, take_log())
        if ret is None and len(sed.ct):
            pt = attempt('seipd dec', lambda: sed.decrypt(key, alg))
            rec('seipd back', None if pt is None else bytes(pt) == keep, take_log())
sed = IntegrityProtectedSKEDataV1()
attempt('seipd unsupported alg', lambda: sed.encrypt(b'k' * 16, SymmetricKeyAlgorithm.Plaintext, b'abc'))
attempt('seipd data None', lambda: sed.encrypt(b'k' * 16, SymmetricKeyAlgorithm.AES128, None))
attempt('seipd str data', lambda: sed.encrypt(b'k' * 16, SymmetricKeyAlgorithm.AES128, u'text'))
attempt('seipd short key', lambda: sed.encrypt(b'k' * 3, SymmetricKeyAlgorithm.AES128, b'abc'))
rec('seipd after failures', len(sed.ct))

# ---- 4. PGPMessage.encrypt (passphrase) --------------------------------------------------
base = PGPMessage.from_file('tests/testdata/messages/message.signed.asc')
for alg in (None, SymmetricKeyAlgorithm.AES128, SymmetricKeyAlgorithm.CAST5, SymmetricKeyAlgorithm.Camellia256):
    for skey in (None, 'fixed'):
        kw = {}
        if alg is not None:
            kw['cipher'] = alg
        if skey == 'fixed':
            kw['sessionkey'] = bytes(bytearray(range((alg or SymmetricKeyAlgorithm.AES256).key_size // 8)))
        enc = attempt('msg.encrypt', lambda: base.encrypt('correct horse', **kw))
        log = take_log()
        if enc is None:
            continue
        rec('msg.encrypt', alg and alg.name, skey, hx(enc.__bytes__()), len(enc.__bytes__()), log)
        dec = enc.decrypt('correct horse')
        rec('msg.decrypt', bytes(dec.__bytes__()) == bytes(base.__bytes__()), take_log())
e1 = base.encrypt('same pass')
e2 = base.encrypt('same pass')
rec('two encryptions differ', bytes(e1.__bytes__()) != bytes(e2.__bytes__()), take_log())
attempt('msg.encrypt bad cipher', lambda: base.encrypt('pw', cipher=SymmetricKeyAlgorithm.Plaintext))
attempt('msg.encrypt weird cipher', lambda: base.encrypt('pw', cipher=9))

# ---- 5. PrivKey.encrypt_keyblob via PGPKey.protect -----------------------------------
for path in ('tests/testdata/keys/rsa.1.sec.asc', 'tests/testdata/keys/ecc.1.sec.asc',
             'tests/testdata/keys/ecc.2.sec.asc', 'tests/testdata/keys/dsa.1.sec.asc'):
    for enc_alg, hash_alg in ((SymmetricKeyAlgorithm.AES256, HashAlgorithm.SHA256),
                              (SymmetricKeyAlgorithm.CAST5, HashAlgorithm.SHA1),
                              (SymmetricKeyAlgorithm.Camellia128, HashAlgorithm.SHA512)):
        key, _ = PGPKey.from_file(path)
        plain = bytes(key.__bytes__())
        attempt('protect', lambda: key.protect('s3cret', enc_alg, hash_alg))
        log = take_log()
        s2k = key._key.keymaterial.s2k
        rec('protect', os.path.basename(path), enc_alg.name, hash_alg.name, hx(key.__bytes__()),
            int(s2k.usage), s2k.encalg.name, s2k.specifier.name, s2k.halg.name, s2k.count,
            type(s2k.iv).__name__, bytes(s2k.iv).hex(), type(s2k.salt).__name__, bytes(s2k.salt).hex(),
            type(key._key.keymaterial.encbytes).__name__, hx(key._key.keymaterial.encbytes), log)
        for sub in key.subkeys.values():
            s = sub._key.keymaterial.s2k
            rec('protect sub', bytes(s.iv).hex(), bytes(s.salt).hex(), hx(sub._key.keymaterial.encbytes))
        with key.unlock('s3cret'):
            rec('unlock ok', bytes(key._key.keymaterial.__bytes__()) != b'')
        reloaded = PGPKey()
        reloaded.parse(bytes(key.__bytes__()))
        with reloaded.unlock('s3cret'):
            rec('reloaded unlock ok', True)
key, _ = PGPKey.from_file('tests/testdata/keys/rsa.1.sec.asc')
km = key._key.keymaterial
attempt('keyblob bad enc_alg', lambda: km.encrypt_keyblob('pw', 'AES', HashAlgorithm.SHA256))
rec('state', int(km.s2k.usage), km.s2k.encalg.name, km.s2k.specifier.name, km.s2k.iv, km.s2k.halg.name,
    bytes(km.s2k.salt).hex(), km.s2k.count, hx(km.encbytes))
attempt('keyblob bad hash_alg', lambda: km.encrypt_keyblob('pw', SymmetricKeyAlgorithm.AES128, 8))
rec('state', int(km.s2k.usage), km.s2k.encalg.name, km.s2k.specifier.name, km.s2k.iv and bytes(km.s2k.iv).hex(),
    km.s2k.halg.name, bytes(km.s2k.salt).hex(), km.s2k.count, hx(km.encbytes))
attempt('keyblob bad passphrase', lambda: km.encrypt_keyblob(None, SymmetricKeyAlgorithm.AES128, HashAlgorithm.SHA1))
rec('state', int(km.s2k.usage), km.s2k.encalg.name, km.s2k.specifier.name, km.s2k.iv and bytes(km.s2k.iv).hex(),
    km.s2k.halg.name, bytes(km.s2k.salt).hex(), km.s2k.count, hx(km.encbytes))
attempt('keyblob unsupported cipher', lambda: km.encrypt_keyblob('pw', SymmetricKeyAlgorithm.Plaintext, HashAlgorithm.SHA1))
rec('state', int(km.s2k.usage), km.s2k.encalg.name, km.s2k.specifier.name, km.s2k.iv and bytes(km.s2k.iv).hex(),
    km.s2k.halg.name, bytes(km.s2k.salt).hex(), km.s2k.count, hx(km.encbytes))

# ---- 6. PGPKey.encrypt (RSA and ECDH recipients) ---------------------------------------
for path, subid in (('tests/testdata/keys/rsa.1.sec.asc', None),
                    ('tests/testdata/keys/ecc.1.sec.asc', 'A81B93FD16BD9806'),
                    ('tests/testdata/keys/ecc.2.sec.asc', 'AFC377493D8E897D'),
                    ('tests/testdata/keys/mixed.1.sec.asc', 'B345506C90A428C5')):
    sec, _ = PGPKey.from_file(path)
    pub = sec.pubkey
    rcpt = pub if subid is None else pub.subkeys[subid]
    rsec = sec if subid is None else sec.subkeys[subid]
    for alg in (None, SymmetricKeyAlgorithm.AES128, SymmetricKeyAlgorithm.CAST5):
        for skey in (None, 'fixed'):
            kw = {}
            if alg is not None:
                kw['cipher'] = alg
            if skey == 'fixed':
                kw['sessionkey'] = bytes(bytearray(range(5, 5 + (alg.key_size // 8 if alg else 32))))
                if alg is None:
                    continue
            enc = attempt('key.encrypt', lambda: rcpt.encrypt(base, **kw))
            log = take_log()
            if enc is None:
                continue
            pkesk = enc._sessionkeys[0]
            facts = [type(pkesk.ct).__name__]
            if isinstance(pkesk.ct, ECDHCipherText):
                p = pkesk.ct.p
                facts += [p.format.name, type(p.x).__name__, type(getattr(p, 'y', None)).__name__,
                          len(p.__bytearray__()), len(pkesk.ct.c), type(pkesk.ct.c).__name__]
            # the last packet (SEIPD) only depends on session key + prefix: both from the os.urandom stand-in
            rec('key.encrypt', os.path.basename(path), alg and alg.name, skey, facts, log,
                hx(enc._message.__bytes__()) if (skey or log) else None)
            dec = rsec.decrypt(enc)
            rec('key.decrypt', bytes(dec.__bytes__()) == bytes(base.__bytes__()), take_log())
    if subid is not None:
        c1 = rcpt.encrypt(base)._sessionkeys[0].ct
        c2 = rcpt.encrypt(base)._sessionkeys[0].ct
        rec('ephemeral points differ', bytes(c1.p.__bytearray__()) != bytes(c2.p.__bytearray__()),
            bytes(c1.c) != bytes(c2.c), take_log())
        # direct call to the class method, several message lengths (PKCS5 padding path)
        for m in (b'', b'\x09' + b'k' * 16 + b'\x01\x02', b'\x07' + b'q' * 32 + b'\xaa\xbb', bytearray(b'z' * 8)):
            ct = attempt('ecdh direct', lambda: ECDHCipherText.encrypt(rcpt._key, m))
            if ct is not None:
                out = ct.decrypt(rsec._key)
                rec('ecdh direct', len(m), type(ct).__name__, ct.p.format.name, len(ct.c), bytes(out) == bytes(m),
                    len(ct.__bytearray__()), take_log())
        attempt('ecdh no args', lambda: ECDHCipherText.encrypt(rcpt._key))
        attempt('ecdh two args', lambda: ECDHCipherText.encrypt(rcpt._key, b'a', b'b'))
        attempt('ecdh None', lambda: ECDHCipherText.encrypt(rcpt._key, None))

digest = hashlib.sha256('\n'.join(records).encode('utf-8')).hexdigest()
if '-v' in sys.argv:
    print('\n'.join(records))
print('records: %d' % len(records))
print('digest: %s' % digest)
