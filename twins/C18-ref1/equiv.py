"""Equivalence digest for property C18 (fingerprints / key ids / creation time codec).

Run as:  cd <tree> && /venv/bin/python equiv.py
Prints a SHA-256 digest over deterministic observable outputs.
"""
import copy
import glob
import hashlib
import os
import sys
import warnings

sys.path.insert(0, os.getcwd())

import pgpy  # noqa: E402
from datetime import datetime, timezone, timedelta  # noqa: E402
from pgpy.types import Fingerprint  # noqa: E402
from pgpy.packet.packets import PubKeyV4, PubSubKeyV4, PrivKeyV4  # noqa: E402

warnings.simplefilter('ignore')

out = []


def rec(*a):
    out.append(repr(a))


def safe(f):
    try:
        return ('ok', f())
    except Exception as e:  # noqa
        return ('exc', type(e).__name__, str(e))


def describe(tag, key):
    pkt = key._key
    fp = key.fingerprint
    rec(tag, 'fp', str(fp), type(fp).__name__, fp.keyid, type(fp.keyid).__name__, fp.shortid,
        repr(fp), bytes(fp).hex(), hash(fp) == hash(str(fp)))
    rec(tag, 'created', pkt.created.isoformat(), int(pkt.pkalg))
    km = pkt.keymaterial
    rec(tag, 'publen', km.publen(), len(km), type(km).__name__)
    b = pkt.__bytearray__()
    rec(tag, 'pkt', type(b).__name__, hashlib.sha256(bytes(b)).hexdigest(), len(b))
    rec(tag, 'keybytes', hashlib.sha256(bytes(key)).hexdigest())
    cp = copy.copy(pkt)
    rec(tag, 'copyfp', str(cp.fingerprint), hashlib.sha256(bytes(cp.__bytearray__())).hexdigest())
    # independent recomputation
    kmb = bytes(km.__bytearray__()[:km.publen()])
    rec(tag, 'kmprefix', hashlib.sha256(kmb).hexdigest())


files = sorted(glob.glob('tests/testdata/keys/*.asc')) + ['tests/testdata/pubtest.asc', 'tests/testdata/sectest.asc']
for fn in files:
    k, _ = pgpy.PGPKey.from_file(fn)
    describe(fn, k)
    for sid, sk in k.subkeys.items():
        rec(fn, 'subid', sid)
        describe(fn + ':' + sid, sk)
    if not k.is_public:
        describe(fn + ':pub', k.pubkey)
        for sid, sk in k.pubkey.subkeys.items():
            describe(fn + ':pub:' + sid, sk)
    # round trip
    k2, _ = pgpy.PGPKey.from_blob(str(k))
    rec(fn, 'rt', str(k2.fingerprint), [str(s.fingerprint) for s in k2.subkeys.values()])
    for sig in k.__sig__:
        rec(fn, 'sig', sig.signer, str(sig.signer_fingerprint))

# unlock a protected key and check stability
for fn, pw in (('tests/testdata/keys/rsa.1.enc.asc', 'QwertyUiop'), ('tests/testdata/keys/dsa.1.enc.asc', 'QwertyUiop')):
    k, _ = pgpy.PGPKey.from_file(fn)
    before = str(k.fingerprint)
    r = safe(lambda: k.unlock(pw).__enter__())
    rec(fn, 'unlock', before, r[0], str(k.fingerprint))

# creation time codec on a bare packet, various timestamps and setter flavours
base, _ = pgpy.PGPKey.from_file('tests/testdata/keys/rsa.1.pub.asc')
for ts in (0, 1, 86399, 86400, 951782400, 1111111111, 1396137600, 1414800000, 2147483647, 2147483648, 4294967295):
    p = copy.copy(base._key)
    p.created = ts
    rec('ts', ts, p.created.isoformat(), str(p.created.tzinfo), str(p.fingerprint), p.fingerprint.keyid,
        bytes(p.__bytearray__()[:12]).hex())
    p2 = copy.copy(base._key)
    p2.created = ts.to_bytes(4, 'big')
    rec('tsb', ts, p2.created.isoformat(), str(p2.fingerprint))
    p3 = copy.copy(base._key)
    p3.created = bytearray(ts.to_bytes(4, 'big'))
    rec('tsba', ts, p3.created.isoformat(), str(p3.fingerprint))
    for off in (-11, 0, 5.5, 14):
        p4 = copy.copy(base._key)
        p4.created = datetime.fromtimestamp(ts, timezone(timedelta(hours=off)))
        rec('tsdt', ts, off, p4.created.isoformat(), str(p4.fingerprint), bytes(p4.__bytearray__()[:12]).hex())
    p5 = copy.copy(base._key)
    with warnings.catch_warnings(record=True) as w:
        warnings.simplefilter('always')
        p5.created = datetime(2001, 2, 3, 4, 5, 6)
        rec('naive', [str(x.message) for x in w], [x.category.__name__ for x in w])
    rec('naive', p5.created.isoformat(), str(p5.fingerprint), bytes(p5.__bytearray__()[:12]).hex())

for bad in (-1, 2 ** 32, 2 ** 40, None, 'x', 1.5, b'', b'\x00\x00\x00\x00\x01'):
    p = copy.copy(base._key)

    def _set():
        p.created = bad
        return (p.created.isoformat(), safe(lambda: str(p.fingerprint)), safe(lambda: bytes(p.__bytearray__()[:12]).hex()))
    r = safe(_set)
    rec('badts', repr(bad), r if r[0] == 'ok' else r[:2])

# a default-constructed packet: keymaterial None / opaque
for cls in (PubKeyV4, PubSubKeyV4, PrivKeyV4):
    p = cls()
    p.created = 12345
    r = safe(lambda: str(p.fingerprint))
    rec('default', cls.__name__, r if r[0] == 'ok' else r[:2])
    p.keymaterial = None
    r = safe(lambda: str(p.fingerprint))
    rec('default-none', cls.__name__, r[:2])
    r = safe(lambda: bytes(p.__bytearray__()).hex())
    rec('default-none-bytes', cls.__name__, r[:2])
    p.pkalg = 1
    r = safe(lambda: (str(p.fingerprint), bytes(p.__bytearray__()).hex(), p.keymaterial.publen()))
    rec('default-rsa', cls.__name__, r)

# Fingerprint class behaviour
samples = ['F429 4BC8 094A 7E05 85C8 5E86 3747 3B37 58C4 4F36',
           'f4294bc8094a7e0585c85e8637473b3758c44f36',
           'F4294BC8094A7E0585C85E8637473B3758C44F36',
           '37473B3758C44F36', '58C44F36', 'abc', 'ABCDEF0123', '', ' ', 'XYZ', '12 34\n', '1234\n', '12\n34',
           'G' * 40, '0' * 40, '0' * 41, 'a b c d', 'AB12' * 10 + '\n', 'ab12 ' * 10]
fps = []
for s in samples:
    r = safe(lambda: Fingerprint(s))
    if r[0] == 'ok':
        f = r[1]
        fps.append(f)
        rec('F', s, str(f), f.keyid, f.shortid, type(f.keyid).__name__, type(f.shortid).__name__,
            safe(lambda: f.__pretty__()), safe(lambda: repr(f)), safe(lambda: bytes(f).hex())[:2],
            Fingerprint(f) is f)
    else:
        rec('F', s, r)
for bad in (None, 5, b'ABCD', bytearray(b'ABCD'), ['A']):
    rec('Fbad', repr(bad), safe(lambda: Fingerprint(bad))[:2])
others = samples + [b'58C44F36', bytearray(b'37473B3758C44F36'), b'F429 4BC8 094A 7E05 85C8 5E86 3747 3B37 58C4 4F36',
                    None, 5, 0, ('58C44F36',), '58c44f36', '58C4 4F36', ' 58C44F36 ']
for f in fps:
    row = []
    for o in others:
        row.append((safe(lambda: f == o), safe(lambda: f != o)))
    for g in fps:
        row.append((f == g, f != g, hash(f) == hash(g)))
    rec('Feq', str(f), row)
d = {fps[0]: 1}
rec('dict', d.get(Fingerprint(samples[1])), Fingerprint(samples[1]) in d, samples[2] in d)

print(hashlib.sha256('\n'.join(out).encode('utf-8')).hexdigest(), len(out))
