import copy
import glob
import hashlib
import os
import sys
import warnings

sys.path.insert(0, os.getcwd())
warnings.simplefilter('ignore')

import pgpy  # noqa: E402
from pgpy.constants import PubKeyAlgorithm  # noqa: E402
from pgpy.packet import packets as P  # noqa: E402
from pgpy.packet import fields as F  # noqa: E402
from pgpy.packet.types import MPI  # noqa: E402

out = []


def rec(*a):
    out.append(' | '.join(str(x) for x in a))


def attempt(label, fn):
    try:
        rec(label, 'ok', fn())
    except Exception as e:  # noqa
        rec(label, 'EXC', type(e).__name__, str(e))


# 1. key packet -> key material class dispatch
for cls in (P.PubKeyV4, P.PrivKeyV4, P.PubSubKeyV4, P.PrivSubKeyV4):
    for alg in sorted(PubKeyAlgorithm, key=lambda a: a.value):
        pk = cls()
        pk.pkalg = alg
        rec('dispatch', cls.__name__, alg.name, type(pk.keymaterial).__name__, pk.pkalg, pk.public)
        pk = cls()
        pk.pkalg = alg.value
        rec('dispatch-int', cls.__name__, alg.value, type(pk.keymaterial).__name__)
    for bad in (99, 255, -1):
        pk = cls()
        attempt('dispatch-bad %s %d' % (cls.__name__, bad), lambda: setattr(pk, 'pkalg', bad))
        rec('after-bad', type(pk.keymaterial).__name__, pk.pkalg)

# 2. MPI codec
for n in (0, 1, 2, 127, 128, 255, 256, 65535, 65536, 2 ** 64 - 1, 2 ** 64, 2 ** 255 - 19, 2 ** 2048 + 12345, 2 ** 4095):
    m = MPI(n)
    rec('mpi', n.bit_length(), len(m), m.byte_length(), bytes(m.to_mpibytes()).hex(), type(m.to_mpibytes()).__name__)
    buf = bytearray(m.to_mpibytes()) + bytearray(b'\xde\xad\xbe\xef')
    m2 = MPI(buf)
    rec('mpi-rt', int(m2) == n, bytes(buf).hex(), type(m2).__name__)
    m3 = MPI(bytes(m.to_mpibytes()))
    rec('mpi-rt-bytes', int(m3) == n)
for raw in (b'', b'\x00', b'\x00\x09\x01', b'\x00\x10\x01', b'\x00\x00', b'\x00\x01\x81\x00', b'\xff\xff\x01\x02'):
    buf = bytearray(raw)
    attempt('mpi-raw %s' % raw.hex(), lambda: (int(MPI(buf)), bytes(buf).hex()))
attempt('mpi-neg', lambda: MPI(-5).to_mpibytes())

# 3. fixture keys: fingerprints, ids, key material octets, copies, re-export
paths = sorted(glob.glob('tests/testdata/keys/*.asc')) + ['tests/testdata/pubtest.asc', 'tests/testdata/sectest.asc']
for path in paths:
    key, others = pgpy.PGPKey.from_file(path)
    allkeys = [key] + [sk for _, sk in sorted(key.subkeys.items())]
    for k in allkeys:
        kp = k._key
        km = kp.keymaterial
        raw = bytes(km.__bytearray__())
        plen = km.publen()
        body = b'\x04' + bytes(kp.int_to_bytes(int(kp.created.timestamp()), 4)) + bytes([kp.pkalg]) + raw[:plen]
        indep = hashlib.sha1(b'\x99' + len(body).to_bytes(2, 'big') + body).hexdigest().upper()
        rec('key', os.path.basename(path), type(kp).__name__, type(km).__name__, str(k.fingerprint), k.fingerprint.keyid,
            k.fingerprint.shortid, indep == str(k.fingerprint), plen, len(km), hashlib.sha256(raw).hexdigest(),
            hashlib.sha256(bytes(kp.__bytearray__())).hexdigest(), type(km.__bytearray__()).__name__,
            [(type(i).__name__, len(i)) for i in km][:8])
        c = copy.copy(kp)
        rec('copy', str(c.fingerprint), bytes(c.__bytearray__()) == bytes(kp.__bytearray__()), type(c.keymaterial).__name__)
        cm = copy.copy(km)
        rec('copy-km', bytes(cm.__bytearray__()) == raw, cm.publen(), len(cm), getattr(cm, 'oid', None))
        if hasattr(km, 'oid'):
            rec('oid', km.oid, km.p.format, km.p.bytelen, len(km.p), bytes(km.p.to_mpibytes()).hex())
        # re-parse the key material alone
        fresh = type(km)()
        buf = bytearray(raw) + bytearray(b'TRAIL')
        attempt('reparse', lambda: (fresh.parse(buf), bytes(fresh.__bytearray__()) == raw, bytes(buf))[1:])
        if k.is_public is False:
            rec('pub-twin', str(k.pubkey.fingerprint), hashlib.sha256(bytes(k.pubkey)).hexdigest())
    rec('export', hashlib.sha256(bytes(key)).hexdigest())
    rt, _ = pgpy.PGPKey.from_blob(bytes(key))
    rec('reimport', str(rt.fingerprint), [str(sk.fingerprint) for _, sk in sorted(rt.subkeys.items())])

# 4. malformed / empty key material
for kmcls in (F.RSAPub, F.DSAPub, F.ElGPub, F.ECDSAPub, F.EdDSAPub, F.ECDHPub):
    km = kmcls()
    attempt('empty-len %s' % kmcls.__name__, lambda: len(km))
    attempt('empty-publen %s' % kmcls.__name__, lambda: km.publen())
    attempt('empty-bytes %s' % kmcls.__name__, lambda: bytes(km.__bytearray__()).hex())
    for raw in (b'', b'\x00', b'\x03\x2b\x65', b'\x03\x2b\x65\x70\x00\x07\x40', b'\x08\x2a\x86\x48\xce\x3d\x03\x01\x07\x00\x08\x05',
                b'\x05\x2b\x81\x04\x00\x22\x00\x13\x04\x01\x02', b'\x09\x2b\x06\x01\x04\x01\xda\x47\x0f\x01\x00\x0f\x40\x11\x22'):
        km2 = kmcls()
        buf = bytearray(raw)
        attempt('parse-bad %s %s' % (kmcls.__name__, raw.hex()), lambda: (km2.parse(buf), bytes(buf).hex(), getattr(km2, 'oid', None))[1:])

digest = hashlib.sha256('\n'.join(out).encode('utf-8')).hexdigest()
if '-v' in sys.argv:
    print('\n'.join(out))
print(len(out), digest)
